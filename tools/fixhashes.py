#!/usr/bin/env python3
"""Rewrite commit hashes in known_findings*.json 'fixed' entries (and 'fixed' fields) from
builders' work-branch hashes to the hashes of the same commits (same subject) on /repo's main."""
import json, glob, subprocess, re, os
V = os.path.dirname(os.path.dirname(os.path.abspath(__file__)))
def log(ref):
    out = subprocess.run(["git", "-C", "/repo", "log", ref, "--format=%h %s"], stdout=subprocess.PIPE).stdout.decode()
    return [l.split(" ", 1) for l in out.splitlines() if " " in l]
allc = {h: s for h, s in log("--all")}
mainc = {}
for h, s in log("main"):
    mainc.setdefault(s, h)
def remap(h):
    for k, s in allc.items():
        if k.startswith(h) or h.startswith(k):
            return mainc.get(s, h)
    return h
def fix_text(t):
    return re.sub(r"\b([0-9a-f]{7,12})\b", lambda m: remap(m.group(1)) if any(k.startswith(m.group(1)) or m.group(1).startswith(k) for k in allc) else m.group(1), t)
n = 0
for f in [os.path.join(V, "known_findings.json")] + sorted(glob.glob(os.path.join(V, "known_findings.d", "*.json"))):
    d = json.load(open(f))
    before = json.dumps(d)
    d["fixed"] = [fix_text(x) if isinstance(x, str) else x for x in d.get("fixed", [])]
    for e in d.get("findings", []):
        if isinstance(e.get("fixed"), str):
            e["fixed"] = fix_text(e["fixed"])
    if json.dumps(d) != before:
        json.dump(d, open(f, "w"), indent=1, ensure_ascii=False); n += 1
print("rewrote", n, "files")
