#!/bin/bash
# tools/newseed.sh <wave-dir> <ID>: workspace for one seeding agent (sees only the property text):
#   <wave-dir>/<ID>/repo        scratch git worktree of /repo HEAD (detached)
#   <wave-dir>/<ID>/PROPERTY.md the property record (title, statement, quantifier, anchors)
#   <wave-dir>/<ID>/USED.md     one-line titles of changes written in earlier waves (to avoid repeats)
#   <wave-dir>/<ID>-out/<k>/    where the agent leaves patch.diff, demo_test.go|demo.sh, notes.md
set -e
w="$1"; id="$2"; [ -n "$id" ] || { echo "usage: $0 <wave-dir> <ID>"; exit 2; }
mkdir -p "$w/$id" "$w/$id-out"
git -C /repo worktree add -q --detach "$w/$id/repo" HEAD
python3 - "$w" "$id" <<'EOF'
import json, sys, glob, os
w, pid = sys.argv[1], sys.argv[2]
for l in open('/verif/properties.jsonl'):
    p = json.loads(l)
    if p['id'] != pid: continue
    with open(os.path.join(w, pid, 'PROPERTY.md'), 'w') as f:
        f.write("# %s — %s\n\n## Statement\n%s\n\n## Quantified over\n%s\n\n%s\n\n## Why the existing tests cannot settle it\n%s\n\n## Where it lives in the code (anchors)\n```json\n%s\n```\n" % (
            p['id'], p['title'], p['statement'], ", ".join(p['quantifier']['over']), p['quantifier']['text'],
            p['why_tests_cant'], json.dumps(p['anchors'], indent=1)))
with open(os.path.join(w, pid, 'USED.md'), 'w') as f:
    f.write("# Ideas already used for %s in earlier rounds (titles only) — write something different\n\n" % pid)
    for d in sorted(glob.glob('/verif/seeded/%s-*' % pid)):
        try:
            t = open(os.path.join(d, 'notes.md')).readline().strip().lstrip('# ').strip()
        except OSError:
            continue
        f.write("- %s\n" % t[:200])
EOF
echo "$w/$id ready"
