#!/usr/bin/env python3
"""tools/driverops.py: which line-protocol ops of lean/Driver/<ID>.lean does no harness file call?
(an op nobody calls means the model functions behind it are not compared with the code)"""
import glob, os, re
V = os.path.dirname(os.path.dirname(os.path.abspath(__file__)))
hsrc = "\n".join(open(f).read() for f in glob.glob(os.path.join(V, "harness", "*.go")))
for f in sorted(glob.glob(os.path.join(V, "lean", "Driver", "C*.lean"))):
    pid = os.path.basename(f)[:-5]
    src = open(f).read()
    m = re.search(r"def handle\b(.*)", src, re.S)
    body = m.group(1) if m else src
    ops = sorted(set(re.findall(r'\|\s*"([A-Za-z0-9_\-]+)"\s*(?:,|=>)', body)))
    unused = [o for o in ops if ('"%s.%s' % (pid, o)) not in hsrc and ('%s.%s' % (pid, o)) not in hsrc]
    print("%s: %d ops, not called by any harness file: %s" % (pid, len(ops), unused or "-"))
