#!/usr/bin/env python3
"""Regenerate MANIFEST.json from manifest.d/<ID>.json (one claimed check per file:
{"property_id","text","note","tech","ref", optional "category"}) and properties.jsonl.
Properties without a manifest.d file are listed under not_applicable with the reason
from manifest.d/not_applicable.json (or a default)."""
import json, os, glob, subprocess
V = os.path.dirname(os.path.dirname(os.path.abspath(__file__)))
props = [json.loads(l) for l in open(os.path.join(V, "properties.jsonl"))]
claimed = {}
for f in sorted(glob.glob(os.path.join(V, "manifest.d", "C*.json"))):
    c = json.load(open(f)); claimed[c["property_id"]] = c
na_reasons = {}
p = os.path.join(V, "manifest.d", "not_applicable.json")
if os.path.exists(p):
    na_reasons = json.load(open(p))
hooks = []
try:
    out = subprocess.run(["git", "-C", "/repo", "log", "--format=%h %s"], stdout=subprocess.PIPE).stdout.decode()
    hooks = [l.split()[0] for l in out.splitlines() if l.split(" ", 1)[1].startswith("verif hook")]
except Exception:
    pass
checks, na = [], []
for pr in props:
    i = pr["id"]
    if i in claimed:
        c = claimed[i]
        checks.append({"property_id": i, "quick_cmd": "./check %s quick" % i, "thorough_cmd": "./check %s thorough" % i,
                       "evidence_file": "/verif/evidence/%s.json" % i, "replay_cmd_template": "cat {path}",
                       "engine": "lean-proof+correspondence",
                       "level_claimed": {"category": c.get("category", "proof"), "text": c["text"], "design_ref": c.get("ref", "DESIGN.md §4 " + i)},
                       "level_note": c["note"], "technique": c["tech"]})
    else:
        na.append({"property_id": i, "reason": na_reasons.get(i, "not built yet (planned: Lean model + theorems + correspondence, DESIGN.md §4); no claim is made")})
m = {"version": 1, "setup_cmd": "./setup.sh",
     "hooks": {"guard": "verif (Go build tag)", "enable": "go build -tags verif (harness module with replace => /repo)",
               "baseline_off_cmd": "for m in . ./test; do (cd /repo/$m && go test -mod=mod -vet=off -count=1 -timeout 25m ./...); done",
               "source_commits": hooks, "add_only": True},
     "engines": [{"name": "lean-proof+correspondence", "path": "/verif/check", "serves_properties": sorted(claimed),
                  "kind_free_text": "Lean 4 model + theorems (lean/), facts regenerated from the Go source by extract/, Go harness (harness/, -tags verif) differential against the compiled Lean driver"}],
     "checks": checks, "not_applicable": na,
     "notes": "See DESIGN.md. ./check <id> quick|thorough; VERIF_SEED honoured; VERIF_REPO may point at another martian tree (default /repo)."}
json.dump(m, open(os.path.join(V, "MANIFEST.json"), "w"), indent=1)
print("MANIFEST.json: %d checks, %d not claimed" % (len(checks), len(na)))
