#!/usr/bin/env python3
"""tools/tryseed.py <ID> <patch.diff> [tier] [extra check ids...]
Applies a candidate breaking change to a scratch worktree of /repo, confirms it
builds and passes the pinned suite, runs ./check <ID> (and any extra ids) against
it with VERIF_REPO, prints the outcome, removes the worktree."""
import os, subprocess, sys, tempfile, shutil, json, re
pid, patch = sys.argv[1], os.path.abspath(sys.argv[2])
tier = sys.argv[3] if len(sys.argv) > 3 else "quick"
extra = sys.argv[4:]
env = dict(os.environ, GOPROXY="off", GOSUMDB="off", GOTOOLCHAIN="local")
wt = tempfile.mkdtemp(prefix="seedtest-%s-" % pid, dir="/tmp")
os.rmdir(wt)
def sh(cmd, cwd=None, e=env, timeout=3000):
    p = subprocess.run(cmd, shell=True, cwd=cwd, env=e, stdout=subprocess.PIPE, stderr=subprocess.STDOUT, timeout=timeout)
    return p.returncode, p.stdout.decode("utf-8", "replace")
try:
    rc, out = sh("git -C /repo worktree add -q --detach %s HEAD" % wt)
    if rc: print(out); sys.exit(2)
    rc, out = sh("git apply %s" % patch, cwd=wt)
    print("apply:", "ok" if rc == 0 else "FAILED\n" + out)
    if rc: sys.exit(2)
    rc, out = sh("go build ./... ", cwd=wt)
    print("build:", "ok" if rc == 0 else "FAILED\n" + out[-1500:])
    rc2, out2 = sh("go test -vet=off -count=1 ./... 2>&1 | grep -v 'no test files' | tail -15", cwd=wt)
    failed = [l for l in out2.splitlines() if l.startswith("FAIL") or l.startswith("--- FAIL")]
    print("tests:", "pass" if not failed else "FAIL " + "; ".join(failed))
    sh("git checkout go.sum", cwd=wt)
    for cid in [pid] + extra:
        e = dict(env, VERIF_REPO=wt)
        rc, out = sh("./check %s %s" % (cid, tier), cwd="/verif", e=e)
        lines = [l for l in out.splitlines() if l.startswith("VIOLATION") or l.startswith(cid + " ")]
        print("check %s: exit=%d" % (cid, rc))
        for l in lines[:8]: print("   ", l[:230])
        for l in lines:
            m = re.search(r"replay=(\S+)", l)
            if m and os.path.exists(m.group(1)):
                d = json.load(open(m.group(1)))
                v = d.get("violation") or {}
                print("      key:", v.get("key"), "|", (v.get("what") or str(d.get("broken_obligations")))[:220])
finally:
    sh("git -C /repo worktree remove --force %s" % wt)
    # evidence files were rewritten by the check against the mutated tree: restore
    sh("git checkout -- evidence", cwd="/verif")
