#!/usr/bin/env python3
"""tools/confirmseed.py <ID> <k> [<srcdir>]   (srcdir default /tmp/seed/<ID>-out/<k>)

Confirms a seeded breaking change independently and files it under
/verif/seeded/<ID>-<k>/ (patch.diff, the demonstration, notes.md, meta.json):
  1. scratch worktree of /repo HEAD: demonstration must PASS;
  2. apply the patch: go build + the pinned test suite must pass; demonstration must FAIL;
  3. ./check <ID> quick (and extra ids given in $SEED_EXTRA) with VERIF_REPO = the
     patched worktree: record exit status and violation keys;
  4. remove the worktree.
"""
import glob, json, os, re, shutil, subprocess, sys, tempfile, time

pid, k = sys.argv[1], sys.argv[2]
src = sys.argv[3] if len(sys.argv) > 3 else "/tmp/seed/%s-out/%s" % (pid, k)
VDIR = os.environ.get("VERIF_DIR", "/verif")
dest = "/verif/seeded/%s-%s" % (pid, k)
env = dict(os.environ, GOPROXY="off", GOSUMDB="off", GOTOOLCHAIN="local")


def sh(cmd, cwd=None, e=env, timeout=3000):
    try:
        p = subprocess.run(cmd, shell=True, executable="/bin/bash", cwd=cwd, env=e, stdout=subprocess.PIPE, stderr=subprocess.STDOUT, timeout=timeout)
        return p.returncode, p.stdout.decode("utf-8", "replace")
    except subprocess.TimeoutExpired:
        return 124, "timeout"


def place_demos(wt):
    """copy Go test demos into their package dir; return (list of (pkgdir, testregex), list of shell demos)"""
    gos, shs, placed = [], [], []
    for f in sorted(glob.glob(os.path.join(src, "*"))):
        b = os.path.basename(f)
        if b.endswith("_test.go"):
            txt = open(f).read()
            m = re.search(r"^package\s+(\w+)", txt, re.M)
            pkg = m.group(1) if m else "core"
            base = pkg[:-5] if pkg.endswith("_test") else pkg
            pkgdir = {"core": "martian/core", "syntax": "martian/syntax", "refactoring": "martian/syntax/refactoring",
                      "util": "martian/util", "main": "cmd/mrp", "ast_builder": "martian/syntax/ast_builder",
                      "api": "martian/api"}.get(base, "martian/core")
            hint = re.search(r"(?:[Pp]lace|[Cc]opy|goes)[^\n]{0,60}?((?:martian|cmd)/[A-Za-z0-9_/]+)", txt)
            if hint and os.path.isdir(os.path.join(wt, hint.group(1).rstrip("/"))) and base not in ("core", "syntax", "refactoring", "util"):
                pkgdir = hint.group(1).rstrip("/")
            name = "seed_%s_%s_%s" % (pid.lower(), k, b if b != "demo_test.go" else "demo_test.go")
            shutil.copy(f, os.path.join(wt, pkgdir, name))
            placed.append(os.path.join(wt, pkgdir, name))
            tests = re.findall(r"^func (Test\w+)\(", txt, re.M)
            gos.append((pkgdir, "^(" + "|".join(tests) + ")$"))
        elif b.endswith(".sh"):
            shs.append(f)
    return gos, shs, placed


def run_demos(wt, gos, shs):
    ok, outs = True, []
    for pkgdir, rx in gos:
        rc, out = sh("go test -vet=off -count=1 -run '%s' ./%s 2>&1 | tail -25" % (rx, pkgdir), cwd=wt, timeout=900)
        passed = ("\nok " in "\n" + out or out.startswith("ok ")) and "FAIL" not in out
        ok = ok and passed
        outs.append(out[-1500:])
    for s in shs:
        rc, out = sh("set -o pipefail; bash %s %s 2>&1 | tail -25" % (s, wt), cwd=wt, timeout=900)
        ok = ok and rc == 0
        outs.append(out[-1500:])
    return ok, outs


wt = tempfile.mkdtemp(prefix="seedconf-%s-%s-" % (pid, k), dir="/tmp")
os.rmdir(wt)
meta = {"property": pid, "seed": k, "source": src, "confirmed_at": time.strftime("%Y-%m-%dT%H:%M:%SZ", time.gmtime())}
try:
    rc, out = sh("git -C /repo worktree add -q --detach %s HEAD" % wt)
    if rc:
        print(out); sys.exit(2)
    meta["repo_head"] = sh("git -C /repo rev-parse --short HEAD")[1].strip()
    gos, shs, placed = place_demos(wt)
    meta["demo_kind"] = "go-test" if gos else ("shell" if shs else "none")
    ok0, outs0 = run_demos(wt, gos, shs)
    meta["demo_passes_without_change"] = ok0
    rc, out = sh("git apply %s" % os.path.join(src, "patch.diff"), cwd=wt)
    meta["patch_applies"] = rc == 0
    if rc == 0:
        rc, out = sh("go build ./...", cwd=wt)
        meta["builds"] = rc == 0
        for p in placed:
            os.rename(p, p + ".off")
        rc, out = sh("go test -vet=off -count=1 ./... 2>&1 | grep -v 'no test files' | tail -12", cwd=wt)
        meta["suite_passes"] = "FAIL" not in out
        for p in placed:
            os.rename(p + ".off", p)
        ok1, outs1 = run_demos(wt, gos, shs)
        meta["demo_fails_with_change"] = not ok1
        meta["demo_output_with_change"] = outs1
        for p in placed:
            os.remove(p)
        sh("git checkout go.sum", cwd=wt)
        checks = {}
        for cid in [pid] + [x for x in os.environ.get("SEED_EXTRA", "").split(",") if x]:
            e = dict(env, VERIF_REPO=wt)
            rc, out = sh("./check %s quick" % cid, cwd=VDIR, e=e)
            keys = []
            for l in out.splitlines():
                m = re.search(r"VIOLATION property=\S+ replay=(\S+)(.*)", l)
                if m and os.path.exists(m.group(1)):
                    d = json.load(open(m.group(1)))
                    v = d.get("violation") or {}
                    keys.append({"key": v.get("key") or "broken-obligation", "kind": v.get("kind"),
                                 "what": (v.get("what") or json.dumps(d.get("broken_obligations")))[:300],
                                 "no_failing_input_found": "no-failing-input-found" in m.group(2)})
            checks[cid] = {"exit": rc, "violations": keys}
        meta["checks"] = checks
        meta["caught"] = any(c["exit"] == 1 for c in checks.values())
    os.makedirs(dest, exist_ok=True)
    for f in glob.glob(os.path.join(src, "*")):
        if os.path.isfile(f) and os.path.getsize(f) < 400000:
            shutil.copy(f, dest)
    json.dump(meta, open(os.path.join(dest, "meta.json"), "w"), indent=1)
    print(json.dumps({k2: meta.get(k2) for k2 in ["property", "seed", "demo_passes_without_change", "patch_applies", "builds",
                                                 "suite_passes", "demo_fails_with_change", "caught"]}))
    if meta.get("checks"):
        for cid, c in meta["checks"].items():
            print("  check", cid, "exit", c["exit"], [v["key"] for v in c["violations"]][:6])
finally:
    sh("git -C /repo worktree remove --force %s" % wt)
    sh("git checkout -- evidence", cwd=VDIR)
