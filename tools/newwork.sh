#!/bin/sh
# tools/newwork.sh <name>: isolated workspace for one builder:
#   /work/<name>/verif  = clone of /verif (own .build, own lean/.lake)
#   /work/<name>/repo   = git worktree of /repo on branch work-<name>
set -e
n="$1"; [ -n "$n" ] || { echo "usage: $0 <name>"; exit 2; }
mkdir -p /work/$n
git clone -q /verif /work/$n/verif
git -C /work/$n/verif config user.name builder; git -C /work/$n/verif config user.email builder@example.com
git -C /repo worktree add -q -b work-$n /work/$n/repo HEAD
if [ -d /verif/lean/.lake ]; then cp -r /verif/lean/.lake /work/$n/verif/lean/.lake; fi
echo "/work/$n ready"
