#!/bin/bash
# tools/soak.sh <first seed> <last seed> [ids...]: repeated quick runs on the unchanged tree; prints one line per run
# and keeps the output + replay files of every run that raised an alarm under soak-out/.
a=$1; b=$2; shift 2
ids=${@:-C01 C02 C03 C04 C05 C06 C07 C08 C09 C10 C11 C12 C13 C14 C15 C16 C17 C18 C19}
mkdir -p soak-out
for s in $(seq $a $b); do for id in $ids; do
  VERIF_SEED=$s ./check $id quick > soak-out/$id.$s.out 2>&1; rc=$?
  echo "$id seed=$s exit=$rc $(grep -c '^VIOLATION' soak-out/$id.$s.out) viol $(tail -3 soak-out/$id.$s.out | grep -o 'wall=[0-9.]*s')"
  if [ $rc -ne 0 ]; then mkdir -p soak-out/replay-$id-$s; cp replay/$id-quick-$s-*.json soak-out/replay-$id-$s/ 2>/dev/null; else rm -f soak-out/$id.$s.out; fi
done; done
