#!/usr/bin/env python3
"""tools/reseed.py [out.json] [id-prefix...]
Regression over every kept seeded change: for each seeded/<ID>-<k>/patch.diff that still applies to
/repo HEAD, run the quick checks that are expected to catch it (its own property + every property
whose check caught it when it was filed) against a scratch worktree with the change applied, and
record which violation keys are printed now.  Sequential (checks share lean/Gen/Facts.lean).
Run from a clone/snapshot of /verif after ./setup.sh; evidence files it rewrites are not evidence."""
import glob, json, os, re, subprocess, sys, tempfile, time

VERIF = os.path.dirname(os.path.dirname(os.path.abspath(__file__)))
out = sys.argv[1] if len(sys.argv) > 1 else os.path.join(VERIF, "seeded-regression.json")
prefixes = sys.argv[2:]
env = dict(os.environ, GOPROXY="off", GOSUMDB="off", GOTOOLCHAIN="local")


def sh(cmd, cwd=None, e=env, timeout=2400):
    try:
        p = subprocess.run(cmd, shell=True, executable="/bin/bash", cwd=cwd, env=e, stdout=subprocess.PIPE,
                           stderr=subprocess.STDOUT, timeout=timeout)
        return p.returncode, p.stdout.decode("utf-8", "replace")
    except subprocess.TimeoutExpired:
        return 124, "timeout"


results = {}
if os.path.exists(out):
    results = json.load(open(out))
for d in sorted(glob.glob(os.path.join(VERIF, "seeded", "*", "patch.diff"))):
    name = os.path.basename(os.path.dirname(d))
    if prefixes and not any(name.startswith(p) for p in prefixes):
        continue
    if name in results:
        continue
    meta = {}
    try:
        meta = json.load(open(os.path.join(os.path.dirname(d), "meta.json")))
    except Exception:
        pass
    pid = meta.get("property") or name.split("-")[0]
    ids = [pid]
    for cid, cr in (meta.get("checks") or {}).items():
        if cid not in ids and (cr.get("violations") or cr.get("exit")):
            ids.append(cid)
    wt = tempfile.mkdtemp(prefix="reseed-%s-" % name, dir="/tmp")
    os.rmdir(wt)
    rec = {"property": pid, "checks": {}, "caught": False}
    try:
        rc, o = sh("git -C /work/x-sched/repo worktree add -q --detach %s HEAD" % wt)
        if rc:
            rec["error"] = o[-300:]
            continue
        rc, o = sh("git apply %s" % d, cwd=wt)
        if rc:
            rec["stale"] = "patch no longer applies to HEAD: " + o.strip()[-200:]
            continue
        for cid in ids:
            t = time.time()
            rc, o = sh("./check %s quick" % cid, cwd=VERIF, e=dict(env, VERIF_REPO=wt))
            keys = []
            for l in o.splitlines():
                m = re.match(r"\s+\[[^\]]+\] (\S+?):? ", l)
                if m and rc == 1:
                    keys.append(m.group(1).rstrip(":"))
            nofail = [l for l in o.splitlines() if l.startswith("VIOLATION") and l.endswith("no-failing-input-found")]
            rec["checks"][cid] = {"exit": rc, "keys": keys[:12], "only_no_failing_input": bool(nofail) and len(nofail) == len([l for l in o.splitlines() if l.startswith("VIOLATION")]),
                                  "wall_s": round(time.time() - t, 1)}
            if rc == 1:
                rec["caught"] = True
            if rc not in (0, 1):
                rec["checks"][cid]["tail"] = o[-400:]
    finally:
        sh("git -C /work/x-sched/repo worktree remove --force %s" % wt)
        results[name] = rec
        json.dump(results, open(out, "w"), indent=1, sort_keys=True)
        print(name, "CAUGHT" if rec.get("caught") else ("stale" if rec.get("stale") else "MISSED"),
              {k: (v["exit"], v["keys"][:3]) for k, v in rec["checks"].items()}, flush=True)
n = len(results)
c = sum(1 for r in results.values() if r.get("caught"))
s = sum(1 for r in results.values() if r.get("stale"))
print("total %d caught %d stale %d missed %d" % (n, c, s, n - c - s))
