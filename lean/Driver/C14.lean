import Driver.Util
import Driver.C04

/-! C14 shares the VDR model's handler with C04. -/
namespace Driver.C14

def handle (op : String) (args : List String) : Option String := Driver.C04.handle op args

end Driver.C14
