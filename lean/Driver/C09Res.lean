import Martian.FormatRes
import Driver.Util

/-! Line-protocol ops for the trailing clauses of a stage declaration (C09, part `Res`).

Encodings (words separated by one space inside a TAB-separated argument):
* `Res`: `<mem> <special> <threads> <vmem> <volatile>` with `.` = absent; `mem`/`vmem` a decimal
  integer (MB), `special`/`threads` `s<hex>`, `volatile` `strict` | `false`.
* `Stage0`: `<hex id> <py|exec|comp> <hex path> <hexlist args> <0|1> <Res words> <none | r<hexlist>>`
  (the flag says whether there is a `using` block). -/
namespace Driver.C09
open Driver Martian.FormatRes

def encOptInt : Option Int → String
  | some i => toString i
  | none => "."

def encOptBytes : Option (List UInt8) → String
  | some b => "s" ++ hexOfBytes b
  | none => "."

def encRes (r : Res) : String :=
  " ".intercalate [encOptInt r.mem, encOptBytes r.special, encOptBytes r.threads, encOptInt r.vmem,
    match r.volatile with | some true => "strict" | some false => "false" | none => "."]

def decOptInt (s : String) : Option (Option Int) :=
  if s == "." then some none else s.toInt?.map some

def decOptBytes (s : String) : Option (Option (List UInt8)) :=
  if s == "." then some none else
  match s.toList with
  | 's' :: d => (bytesOfHex (String.ofList d)).map some
  | _ => none

def decResWords : List String → Option Res
  | [m, sp, t, v, vol] => do
    let m ← decOptInt m
    let sp ← decOptBytes sp
    let t ← decOptBytes t
    let v ← decOptInt v
    let vol ← (if vol == "." then some none else if vol == "strict" then some (some true)
      else if vol == "false" then some (some false) else none)
    pure ⟨m, sp, t, v, vol⟩
  | _ => none

def decRes (s : String) : Option Res := decResWords (s.splitOn " ")

def langName : Lang → String
  | .py => "py"
  | .exec => "exec"
  | .comp => "comp"

def decLang (s : String) : Option Lang :=
  if s == "py" then some .py else if s == "exec" then some .exec else if s == "comp" then some .comp
  else none

def encStage0 (s : Stage0) : String :=
  " ".intercalate [hexOfBytes s.id, langName s.lang, hexOfBytes s.path, hexList s.args,
    (if s.res.isSome then "1" else "0"), encRes (s.res.getD {}),
    match s.retain with | some ids => "r" ++ hexList ids | none => "none"]

def decStage0 (s : String) : Option Stage0 :=
  match s.splitOn " " with
  | [id, lang, path, args, flag, m, sp, t, v, vol, ret] => do
    let id ← bytesOfHex id
    let lang ← decLang lang
    let path ← bytesOfHex path
    let args ← parseHexList args
    let r ← decResWords [m, sp, t, v, vol]
    let ret ← (if ret == "none" then some none else
      match ret.toList with
      | 'r' :: d => (parseHexList (String.ofList d)).map some
      | _ => none)
    pure ⟨id, lang, path, args, if flag == "1" then some r else none, ret⟩
  | _ => none

def handleRes (op : String) (args : List String) : Option String :=
  match op, args with
  | "fmtgb", [i] => do
    -- formatGB(buf, mb/1024)
    let i ← i.toInt?
    pure (hexOfBytes (fmtGB i))
  | "fmtgbgo", [i] => do
    -- formatGB with the int64 conversion of amd64 (F25)
    let i ← i.toInt?
    pure (hexOfBytes (fmtGBgo i))
  | "readgb", [s] => do
    -- roundUpTo(float_32, 1024) * 1024 of a text that is one numeric token
    let b ← bytesOfHex s
    match readGB b with
    | some i => pure ("some " ++ toString i)
    | none => pure "none"
  | "readgb32", [s] => do
    -- the same with the float32 rounding of the literal (what the real parser stores)
    let b ← bytesOfHex s
    match readGB32 b with
    | some i => pure ("some " ++ toString i)
    | none => pure "none"
  | "fmtstage", [s] => do
    let s ← decStage0 s
    pure (hexOfBytes (fmtStage0 s))
  | "fmtclauses", [tw, s] => do
    -- the src line for `typeWidth = tw` and everything after it, as two hex words
    let tw ← tw.toNat?
    let s ← decStage0 s
    pure (hexOfBytes (fmtSrc 3 tw s.lang s.path s.args) ++ " " ++ hexOfBytes (fmtTail s.res s.retain))
  | "wfstage", [s] => do
    let s ← decStage0 s
    pure ("wf=" ++ boolStr (wfStage0 s))
  | "parsestage", [s] => do
    -- STAGE id '(' src_stm ')' resources stage_retain: the AST or `none`
    let b ← bytesOfHex s
    match parseStage0 b with
    | some st => pure ("some " ++ encStage0 st)
    | none => pure "none"
  | _, _ => none

end Driver.C09
