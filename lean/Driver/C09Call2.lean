import Martian.FormatCall2
import Driver.Util

/-! Line-protocol handler for property C09, part Call2: full call statements, `return`, `retain`,
pipeline bodies (model Martian.FormatCall2).

Word encodings (space separated; expressions as in Driver/C09.lean):
* binding list: `<n>` then per binding `<hex id> <0|1 split>` + expression words, then the
  wildcard: `_` (none) or `w` + expression words (`self` alone is `r1:-:.`);
* call: `<hex decId> <hex id>` + binding list + `<0|1 local> <0|1 preflight> <0|1 volatile> <nm>`
  then per modifier binding `<hex id>` + expression words;
* return: a binding list; retain: `_` or `R <n>` + `n` expressions;
* body: `<ncalls>` + calls + return + retain. -/
namespace Driver.C09
open Driver
open Martian.FormatExp Martian.FormatCall Martian.FormatCall2

mutual
partial def c2EncExp : Exp → List String
  | .null => ["n"]
  | .nilArr => ["N"]
  | .bool b => [if b then "t" else "f"]
  | .int i => ["i" ++ toString i]
  | .float t => ["F" ++ hexOfBytes t]
  | .str s => ["s" ++ hexOfBytes s]
  | .arr xs => "[" :: (xs.flatMap c2EncExp ++ ["]"])
  | .map kvs => "{" :: (kvs.flatMap (fun kv => hexOfBytes kv.1 :: c2EncExp kv.2) ++ ["}"])
  | .struct kvs => "<" :: (kvs.flatMap (fun kv => hexOfBytes kv.1 :: c2EncExp kv.2) ++ [">"])
  | .ref self id out => ["r" ++ (if self then "1" else "0") ++ ":" ++ hexOfBytes id ++ ":" ++ hexList out]
end

mutual
partial def c2DecExp : List String → Option (Exp × List String)
  | [] => none
  | w :: r =>
    if w == "n" then some (.null, r)
    else if w == "N" then some (.nilArr, r)
    else if w == "t" then some (.bool true, r)
    else if w == "f" then some (.bool false, r)
    else if w == "[" then (c2DecList r).map fun (xs, r') => (.arr xs, r')
    else if w == "{" then (c2DecKVs "}" r).map fun (xs, r') => (.map xs, r')
    else if w == "<" then (c2DecKVs ">" r).map fun (xs, r') => (.struct xs, r')
    else match w.toList with
      | 'i' :: d => (String.ofList d).toInt?.map fun i => (.int i, r)
      | 'F' :: d => (bytesOfHex (String.ofList d)).map fun b => (.float b, r)
      | 's' :: d => (bytesOfHex (String.ofList d)).map fun b => (.str b, r)
      | 'r' :: k :: ':' :: d =>
        match (String.ofList d).splitOn ":" with
        | [id, out] => do
          let id ← bytesOfHex id
          let out ← parseHexList out
          pure (.ref (k == '1') id out, r)
        | _ => none
      | _ => none
partial def c2DecList : List String → Option (List Exp × List String)
  | "]" :: r => some ([], r)
  | ws => do
    let (e, r) ← c2DecExp ws
    let (es, r') ← c2DecList r
    pure (e :: es, r')
partial def c2DecKVs (close : String) : List String → Option (List (List UInt8 × Exp) × List String)
  | [] => none
  | k :: ws =>
    if k == close then some ([], ws) else do
    let key ← bytesOfHex k
    let (e, r) ← c2DecExp ws
    let (es, r') ← c2DecKVs close r
    pure ((key, e) :: es, r')
end

def c2EncBinds (bs : List Bind) (w : Option Exp) : List String :=
  toString bs.length ::
    (bs.flatMap fun b => hexOfBytes b.id :: (if b.split then "1" else "0") :: c2EncExp b.exp) ++
    (match w with | some e => "w" :: c2EncExp e | none => ["_"])

def c2EncCall (c : Call2) : List String :=
  hexOfBytes c.decId :: hexOfBytes c.id :: c2EncBinds c.binds c.wildcard ++
    [if c.mods.loc then "1" else "0", if c.mods.pre then "1" else "0", if c.mods.vol then "1" else "0",
     toString c.mods.binds.length] ++
    c.mods.binds.flatMap fun kv => hexOfBytes kv.1 :: c2EncExp kv.2

def c2EncRetain : Option (List Exp) → List String
  | none => ["_"]
  | some rs => "R" :: toString rs.length :: rs.flatMap c2EncExp

def c2EncBody (b : Body) : List String :=
  toString b.calls.length :: b.calls.flatMap c2EncCall ++ c2EncBinds b.ret.binds b.ret.wildcard ++
    c2EncRetain b.retain

def c2DecBindList : Nat → List String → Option (List Bind × List String)
  | 0, ws => some ([], ws)
  | n + 1, id :: sp :: ws => do
    let id ← bytesOfHex id
    let (e, r) ← c2DecExp ws
    let (bs, r') ← c2DecBindList n r
    pure (⟨id, sp == "1", e⟩ :: bs, r')
  | _ + 1, _ => none

def c2DecBinds : List String → Option (List Bind × Option Exp × List String)
  | n :: ws => do
    let n ← n.toNat?
    let (bs, r) ← c2DecBindList n ws
    match r with
    | "_" :: r' => pure (bs, none, r')
    | "w" :: r' => do
      let (e, r'') ← c2DecExp r'
      pure (bs, some e, r'')
    | _ => none
  | [] => none

def c2DecModList : Nat → List String → Option (List (List UInt8 × Exp) × List String)
  | 0, ws => some ([], ws)
  | n + 1, id :: ws => do
    let id ← bytesOfHex id
    let (e, r) ← c2DecExp ws
    let (l, r') ← c2DecModList n r
    pure ((id, e) :: l, r')
  | _ + 1, _ => none

def c2DecCall : List String → Option (Call2 × List String)
  | d :: i :: ws => do
    let d ← bytesOfHex d
    let i ← bytesOfHex i
    let (bs, w, r) ← c2DecBinds ws
    match r with
    | l :: p :: v :: nm :: r' => do
      let nm ← nm.toNat?
      let (ms, r'') ← c2DecModList nm r'
      pure (⟨d, i, bs, w, ⟨l == "1", p == "1", v == "1", ms⟩⟩, r'')
    | _ => none
  | _ => none

def c2DecExps : Nat → List String → Option (List Exp × List String)
  | 0, ws => some ([], ws)
  | n + 1, ws => do
    let (e, r) ← c2DecExp ws
    let (es, r') ← c2DecExps n r
    pure (e :: es, r')

def c2DecRetain : List String → Option (Option (List Exp) × List String)
  | "_" :: r => some (none, r)
  | "R" :: n :: r => do
    let n ← n.toNat?
    let (es, r') ← c2DecExps n r
    pure (some es, r')
  | _ => none

def c2DecCalls : Nat → List String → Option (List Call2 × List String)
  | 0, ws => some ([], ws)
  | n + 1, ws => do
    let (c, r) ← c2DecCall ws
    let (cs, r') ← c2DecCalls n r
    pure (c :: cs, r')

def c2DecBody : List String → Option (Body × List String)
  | n :: ws => do
    let n ← n.toNat?
    let (cs, r) ← c2DecCalls n ws
    let (bs, w, r') ← c2DecBinds r
    let (rt, r'') ← c2DecRetain r'
    pure (⟨cs, ⟨bs, w⟩, rt⟩, r'')
  | [] => none

def c2Call (s : String) : Option Call2 :=
  match c2DecCall (s.splitOn " ") with
  | some (c, []) => some c
  | _ => none

def c2Body (s : String) : Option Body :=
  match c2DecBody (s.splitOn " ") with
  | some (b, []) => some b
  | _ => none

def c2Words (ws : List String) : String := " ".intercalate ws

def handleCall2 (op : String) (args : List String) : Option String :=
  match op, args with
  | "fmtcall2", [n, c] => do
    -- CallStm.format(printer, prefix of n spaces)
    let n ← n.toNat?
    let c ← c2Call c
    pure (hexOfBytes (fmtCall2 (spaces n) c))
  | "fmtcall2raw", [n, k, c] => do
    -- the same with the wildcard binding moved to position k of Bindings.List
    let n ← n.toNat?
    let k ← k.toNat?
    let c ← c2Call c
    match c.wildcard with
    | some e =>
      pure (hexOfBytes (fmtCallRaw (spaces n) (isMap2 c) c.decId c.id (rawBindsAt k c.binds e) c.mods))
    | none => none
  | "parsecall2", [s] => do
    let b ← bytesOfHex s
    match parseCall2 b with
    | some c => pure ("some " ++ c2Words (c2EncCall c))
    | none => pure "none"
  | "normcall2", [c] => do
    let c ← c2Call c
    pure (c2Words (c2EncCall (normCall2 c)))
  | "wfcall2", [c] => do
    let c ← c2Call c
    pure ("wf=" ++ boolStr (wfCall2 c))
  | "fmtbody", [b] => do
    -- what Pipeline.format writes after ")\n{"
    let b ← c2Body b
    pure (hexOfBytes (fmtBody b))
  | "parsebody", [s] => do
    let b ← bytesOfHex s
    match parseBody b with
    | some x => pure ("some " ++ c2Words (c2EncBody x))
    | none => pure "none"
  | "normbody", [b] => do
    let b ← c2Body b
    pure (c2Words (c2EncBody (normBody b)))
  | "wfbody", [b] => do
    let b ← c2Body b
    pure ("wf=" ++ boolStr (wfBody b))
  | _, _ => none

end Driver.C09
