/-
Shared helpers for the line-protocol driver.  Protocol: one request per line,
fields separated by TAB, first field = operation name (`<prop>.<op>`); byte
strings travel hex-encoded (empty string = `-`).  One reply line per request.
-/
namespace Driver

def hexDigit (n : Nat) : Char :=
  if n < 10 then Char.ofNat (48 + n) else Char.ofNat (87 + n)

def hexOfBytes (bs : List UInt8) : String :=
  if bs.isEmpty then "-" else
  String.ofList (bs.flatMap fun b => [hexDigit (b.toNat / 16), hexDigit (b.toNat % 16)])

def hexVal (c : Char) : Option Nat :=
  if '0' ≤ c && c ≤ '9' then some (c.toNat - 48)
  else if 'a' ≤ c && c ≤ 'f' then some (c.toNat - 87)
  else if 'A' ≤ c && c ≤ 'F' then some (c.toNat - 55)
  else none

def bytesOfHexAux : List Char → List UInt8 → Option (List UInt8)
  | [], acc => some acc.reverse
  | [_], _ => none
  | a :: b :: r, acc =>
    match hexVal a, hexVal b with
    | some x, some y => bytesOfHexAux r (UInt8.ofNat (x * 16 + y) :: acc)
    | _, _ => none

def bytesOfHex (s : String) : Option (List UInt8) :=
  if s == "-" then some [] else bytesOfHexAux s.toList []

def optHex : Option (List UInt8) → String
  | some b => "some " ++ hexOfBytes b
  | none => "none"

/-- hex list separated by `,` ; empty list = `.` -/
def hexList (xs : List (List UInt8)) : String :=
  if xs.isEmpty then "." else ",".intercalate (xs.map hexOfBytes)

def parseHexList (s : String) : Option (List (List UInt8)) :=
  if s == "." then some [] else (s.splitOn ",").mapM bytesOfHex

def boolStr (b : Bool) : String := if b then "true" else "false"

end Driver
