import Driver.Util

/-! Line-protocol handler for property C07 (stub: replaced when the model exists). -/
namespace Driver.C07

def handle (_op : String) (_args : List String) : Option String := none

end Driver.C07
