import Martian.Typing
import Martian.TypingPipeline
import Martian.TypingRun
import Martian.TypingStrict
import Martian.TypingProgram
import Driver.Util
import Driver.C17

/-!
Line-protocol handler for property C07 (compile-time typing of bindings).

Text encoding (tokens separated by one space inside a TAB field; byte strings
hex, `-` = empty; a path is a `,`-separated hex list, `.` = empty):

  type  ::= as in Driver/C17.lean
  json  ::= as in Driver/C17.lean
  exp   ::= n | i <int> | d <mant> <exp> | s <bytes> | t | f
          | a <n> <exp>{n} | m <n> (<key> <exp>){n} | S <n> (<field> <exp>){n}
          | self <id> <path> | call <id> <path>
  bind  ::= P <exp> | X <exp>                       (plain / split)
  src   ::= - | A ? | A <n> | K ? | K <hexlist>
  env   ::= <nself> (<id> <type>){nself}
            <ncalls> (<id> <callable> <mode: s|a|m> <src> <nouts> (<out> <type>){nouts}){ncalls}
  params::= <n> (<id> <type>){n}
  binds ::= <n> (<id> <bind>){n}

Operations (`C07.<op>\t<arg>…`):
  exp   <env> <type> <exp>      → `<validExp> <holeFree> <refType | ->`
  bind  <env> <type> <bind>     → `<validBind> <shape | ->`
  call  <env> <params> <binds>  → `false` | `true <shape | ->`
  ftype <type> <path>           → `<type>` | `none`
  lit   <type> <exp>            → `<validExp> <json | none> <valid> <valid after filter>`   (no references)
  proj  <type> <json> <path>    → `<json>` | `none`

Pipelines (Martian/TypingPipeline.lean):
  wild  ::= w- | wself | wref <exp>
  mods  ::= <local 0|1> <preflight 0|1> <volatile 0|1> <n> (L t|f | R t|f | V t|f | D <exp>){n}
  cstm  ::= <id> <callee> <s|p> <params> <nouts> (<out> <type>){nouts} <binds> <wild> <mods>
  pipe  ::= <name> <nins> (<id> <type>){nins} <nouts> (<id> <type>){nouts} <ncalls> <cstm>{ncalls}
            <binds> <wild> <nretain> <exp>{nretain}
  pipe    <pipe>               → `ok (<callid>:<shape>)*` | `call <i> dupcall` | `call <i> mods <cls,…>`
                                 | `call <i> binds <cls,…>` | `unused <hexlist>` | `ret <cls,…>` | `retain <i>`
                                 (first failure, in the order of `checkPipeline`; must agree with `validPipeline`)
  top     <cstm>               → `ok <shape>` | `bad <cls,…>`   (top-level call statement, `checkTop`)
  path    <type|-> <type> <json> <path> new|old → `<json>` | `none`   (`pathVal` / `wholeRT`: LazyArgumentMap.Path
                                 with destination type, source type, value; `old` = before repair 85e056c)
  prog    <n> <pipe>{n} <cstm> <fuel> → `accepted=<b> progOk=<b> fits=<b> pipes=<b,…>`  (hypotheses of program_sound_partial)
  hyp     <env> <type> <exp>   → `<t.wf> <e.wf> <holeFree>`
  sretain <nouts> (<out> <type>){nouts} <hexlist>   → `true` | `false`
  strict  <env> <type> <exp>   → `<validExp> <overStrict>`
-/
namespace Driver.C07
open Martian.Json Martian.Types Martian.Typing Driver
open Driver.C17 (parseTy parseJ showJ)

def showBase : Base → String
  | .string => "string" | .int => "int" | .float => "float" | .bool => "bool"
  | .path => "path" | .file => "file" | .map => "map"

mutual
  partial def showTy : Ty → String
    | .base b => showBase b
    | .user n => "U " ++ hexOfBytes n
    | .arr t => "A " ++ showTy t
    | .tmap t => "M " ++ showTy t
    | .struct n fs =>
      " ".intercalate (["S", hexOfBytes n, toString fs.toList.length] ++
        fs.toList.map fun kt => hexOfBytes kt.1 ++ " " ++ showTy kt.2)
end

mutual
  partial def parseExp : List String → Option (Exp × List String)
    | "n" :: r => some (.null, r)
    | "t" :: r => some (.bool true, r)
    | "f" :: r => some (.bool false, r)
    | "i" :: v :: r => do let v ← v.toInt?; pure (.int v, r)
    | "d" :: m :: e :: r => do let m ← m.toInt?; let e ← e.toInt?; pure (.float m e, r)
    | "s" :: s :: r => do let s ← bytesOfHex s; pure (.str s, r)
    | "a" :: c :: r => do
      let c ← c.toNat?
      let (xs, r) ← parseExps c r
      pure (.arr (Exps.ofList xs), r)
    | "m" :: c :: r => do
      let c ← c.toNat?
      let (kvs, r) ← parseKVs c r
      pure (.map false (KVs.ofList kvs), r)
    | "S" :: c :: r => do
      let c ← c.toNat?
      let (kvs, r) ← parseKVs c r
      pure (.map true (KVs.ofList kvs), r)
    | "self" :: id :: p :: r => do
      let id ← bytesOfHex id
      let p ← parseHexList p
      pure (.self id p, r)
    | "call" :: id :: p :: r => do
      let id ← bytesOfHex id
      let p ← parseHexList p
      pure (.call id p, r)
    | _ => none
  partial def parseExps : Nat → List String → Option (List Exp × List String)
    | 0, r => some ([], r)
    | c + 1, r => do
      let (x, r) ← parseExp r
      let (xs, r) ← parseExps c r
      pure (x :: xs, r)
  partial def parseKVs : Nat → List String → Option (List (Bytes × Exp) × List String)
    | 0, r => some ([], r)
    | c + 1, k :: r => do
      let k ← bytesOfHex k
      let (x, r) ← parseExp r
      let (xs, r) ← parseKVs c r
      pure ((k, x) :: xs, r)
    | _, [] => none
end

def parseBind : List String → Option (Bind × List String)
  | "P" :: r => do let (e, r) ← parseExp r; pure (.plain e, r)
  | "X" :: r => do let (e, r) ← parseExp r; pure (.split e, r)
  | _ => none

def parseSrc : List String → Option (Option SplitShape × List String)
  | "-" :: r => some (none, r)
  | "A" :: "?" :: r => some (some (.arr none), r)
  | "A" :: n :: r => do let n ← n.toNat?; pure (some (.arr (some n)), r)
  | "K" :: "?" :: r => some (some (.map none), r)
  | "K" :: ks :: r => do let ks ← parseHexList ks; pure (some (.map (some ks)), r)
  | _ => none

partial def parseTyped : Nat → List String → Option (List (Bytes × Ty) × List String)
  | 0, r => some ([], r)
  | c + 1, k :: r => do
    let k ← bytesOfHex k
    let (t, r) ← parseTy r
    let (xs, r) ← parseTyped c r
    pure ((k, t) :: xs, r)
  | _, [] => none

def parseMode : String → Option Mode
  | "s" => some .single | "a" => some .arr | "m" => some .map | _ => none

partial def parseCalls : Nat → List String → Option (List (Bytes × CallSig) × List String)
  | 0, r => some ([], r)
  | c + 1, id :: name :: mode :: r => do
    let id ← bytesOfHex id
    let name ← bytesOfHex name
    let mode ← parseMode mode
    let (src, r) ← parseSrc r
    match r with
    | n :: r =>
      let n ← n.toNat?
      let (outs, r) ← parseTyped n r
      let (xs, r) ← parseCalls c r
      pure ((id, { name := name, mode := mode, src := src, outs := Fields.ofList outs }) :: xs, r)
    | [] => none
  | _, _ => none

def parseEnv : List String → Option (Env × List String)
  | n :: r => do
    let n ← n.toNat?
    let (self, r) ← parseTyped n r
    match r with
    | m :: r =>
      let m ← m.toNat?
      let (calls, r) ← parseCalls m r
      pure ({ self := self, calls := calls }, r)
    | [] => none
  | [] => none

partial def parseBinds : Nat → List String → Option (List (Bytes × Bind) × List String)
  | 0, r => some ([], r)
  | c + 1, k :: r => do
    let k ← bytesOfHex k
    let (b, r) ← parseBind r
    let (xs, r) ← parseBinds c r
    pure ((k, b) :: xs, r)
  | _, [] => none

def whole {α : Type} (p : List String → Option (α × List String)) (s : String) : Option α :=
  match p (s.splitOn " ") with
  | some (x, []) => some x
  | _ => none

def counted {α : Type} (p : Nat → List String → Option (α × List String)) :
    List String → Option (α × List String)
  | n :: r => do let n ← n.toNat?; p n r
  | [] => none

def showShape : Option SplitShape → String
  | none => "-"
  | some (.arr none) => "A ?"
  | some (.arr (some n)) => s!"A {n}"
  | some (.map none) => "K ?"
  | some (.map (some ks)) => "K " ++ hexList ks

def showOptTy : Option Ty → String
  | some t => showTy t
  | none => "-"

def emptyEnv : Env := { self := [], calls := [] }
def emptyStore : Store := { self := [], calls := [] }

def parseWild : List String → Option (Option Wild × List String)
  | "w-" :: r => some (none, r)
  | "wself" :: r => some (some .self, r)
  | "wref" :: r => do let (e, r) ← parseExp r; pure (some (.ref e), r)
  | _ => none

def parseBoolTok : String → Option Bool
  | "t" => some true | "f" => some false | "1" => some true | "0" => some false | _ => none

partial def parseModItems : Nat → List String → Option (List ModItem × List String)
  | 0, r => some ([], r)
  | c + 1, "L" :: b :: r => do
    let b ← parseBoolTok b; let (xs, r) ← parseModItems c r; pure (.loc b :: xs, r)
  | c + 1, "R" :: b :: r => do
    let b ← parseBoolTok b; let (xs, r) ← parseModItems c r; pure (.pre b :: xs, r)
  | c + 1, "V" :: b :: r => do
    let b ← parseBoolTok b; let (xs, r) ← parseModItems c r; pure (.vol b :: xs, r)
  | c + 1, "D" :: r => do
    let (e, r) ← parseExp r; let (xs, r) ← parseModItems c r; pure (.dis e :: xs, r)
  | _, _ => none

def parseMods : List String → Option (Mods × List String)
  | l :: p :: v :: n :: r => do
    let l ← parseBoolTok l; let p ← parseBoolTok p; let v ← parseBoolTok v
    let n ← n.toNat?
    let (us, r) ← parseModItems n r
    pure ({ kwLocal := l, kwPreflight := p, kwVolatile := v, usings := us }, r)
  | _ => none

def parseStm : List String → Option (CallStm × List String)
  | id :: callee :: kind :: r => do
    let id ← bytesOfHex id
    let callee ← bytesOfHex callee
    let isStage ← (match kind with | "s" => some true | "p" => some false | _ => none)
    let (params, r) ← counted parseTyped r
    let (outs, r) ← counted parseTyped r
    let (binds, r) ← counted parseBinds r
    let (w, r) ← parseWild r
    let (m, r) ← parseMods r
    pure ({ id := id, callee := { name := callee, isStage := isStage, params := params, outs := Fields.ofList outs },
            binds := binds, wild := w, mods := m }, r)
  | _ => none

partial def parseStms : Nat → List String → Option (List CallStm × List String)
  | 0, r => some ([], r)
  | c + 1, r => do
    let (x, r) ← parseStm r
    let (xs, r) ← parseStms c r
    pure (x :: xs, r)

def parsePipe : List String → Option (Pipeline × List String)
  | name :: r => do
    let name ← bytesOfHex name
    let (ins, r) ← counted parseTyped r
    let (outs, r) ← counted parseTyped r
    let (calls, r) ← counted parseStms r
    let (ret, r) ← counted parseBinds r
    let (w, r) ← parseWild r
    let (retain, r) ← counted parseExps r
    pure ({ name := name, ins := ins, outs := Fields.ofList outs, calls := calls, ret := ret, retWild := w,
            retain := retain }, r)
  | [] => none

/-- which conjuncts of `okStm` fail (diagnosis only) -/
def whyStm (P : Prog) (Γ : Env) (c : CallStm) (sh : Option SplitShape) : List String :=
  (if c.callee.params.all (fun p => p.2.wf) && (Ty.struct c.callee.name c.callee.outs).wf then [] else ["wf"]) ++
  (if decide ((c.callee.params.map Prod.fst).Nodup) then [] else ["dupparam"]) ++
  (match allBinds Γ c.callee.params c.binds c.wild with
    | none => ["nobinds"]
    | some bs =>
      (if bs.all (fun ib => ib.2.wf) then [] else ["expwf"]) ++
      (if bs.all (fun ib => match c.callee.params.lookup ib.1 with
          | some t => bindHoleFreeT Γ t ib.2
          | none => true) then [] else ["hole"])) ++
  (match usingDisabled c.mods.usings with
    | some e => if e.wf then [] else ["expwf"]
    | none => []) ++
  (match sh with
    | some (.map ks) =>
      if !isDirMap (Ty.struct c.callee.name c.callee.outs) then []
      else (match allBinds Γ c.callee.params c.binds c.wild, ks with
        | some bs, some k => if staticLegalKeys k.length c.callee.params bs then [] else ["dirmap"]
        | _, _ => ["dirmap"])
    | _ => []) ++
  (if c.callee.isStage || (match P.find c.callee.name with
      | some q => calleeEq q.callee c.callee
      | none => false) then [] else ["callee"])

def whyCalls (P : Prog) : Env → List CallStm → List String
  | _, [] => []
  | Γ, c :: r =>
    match checkStm Γ c with
    | none => ["reject"]
    | some sh => whyStm P Γ c sh ++ whyCalls P { Γ with calls := Γ.calls ++ [(c.id, c.sig sh)] } r

def whyPipe (P : Prog) (p : Pipeline) : List String :=
  (if validPipelineU p then [] else ["reject"]) ++
  (if p.ins.all (fun i => i.2.wf) && (Ty.struct p.name p.outs).wf then [] else ["wf"]) ++
  whyCalls P { self := p.ins, calls := [] } p.calls ++
  (match checkCalls { self := p.ins, calls := [] } p.calls with
    | none => []
    | some Γ =>
      match allBinds Γ p.outs.toList p.ret p.retWild with
      | none => ["nobinds"]
      | some bs =>
        if bs.all (fun ib => match ib.2 with
          | .plain e => e.wf && (match p.outs.toList.lookup ib.1 with
              | some t => holeFree Γ t (bindExp Γ t e)
              | none => true)
          | .split _ => false) then [] else ["rethole"])

partial def parsePipes : Nat → List String → Option (List Pipeline × List String)
  | 0, r => some ([], r)
  | c + 1, r => do
    let (x, r) ← parsePipe r
    let (xs, r) ← parsePipes c r
    pure (x :: xs, r)

def showModErr : ModErr → String
  | .dup => "dup" | .type => "type" | .conflict => "conflict" | .unsupported => "unsupported"
  | .preBinding => "preBinding" | .preOutput => "preOutput"

def showBindErr : BindErr → String
  | .wildcard => "wildcard" | .dup => "dup" | .unknown => "unknown" | .missing => "missing"
  | .type => "type" | .mapping => "mapping"

def showShapeTok (sh : Option SplitShape) : String := (showShape sh).replace " " ""

/-- first failure of the calls, with its error classes (diagnosis next to `checkCalls`) -/
def diagCalls (Γ : Env) (i : Nat) (acc : String) : List CallStm → Except String (Env × String)
  | [] => .ok (Γ, acc)
  | c :: r =>
    if (Γ.calls.lookup c.id).isSome then .error s!"call {i} dupcall" else
    match modErrs Γ c.callee c.binds c.wild c.mods with
    | e :: es => .error (s!"call {i} mods " ++ ",".intercalate ((e :: es).map showModErr))
    | [] =>
      match callErrsW Γ c.callee.params c.binds c.wild with
      | e :: es => .error (s!"call {i} binds " ++ ",".intercalate ((e :: es).map showBindErr))
      | [] =>
        match checkCallW Γ c.callee.params c.binds c.wild with
        | none => .error s!"call {i} binds inconsistent-model"
        | some sh =>
          diagCalls { Γ with calls := Γ.calls ++ [(c.id, c.sig sh)] } (i + 1)
            (acc ++ " " ++ hexOfBytes c.id ++ ":" ++ showShapeTok sh) r

def firstBad (Γ : Env) : Nat → List Exp → Option Nat
  | _, [] => none
  | i, e :: r => if pipeRetainOk Γ [e] then firstBad Γ (i + 1) r else some i

def diagPipe (p : Pipeline) : String :=
  let verdict :=
    match diagCalls { self := p.ins, calls := [] } 0 "" p.calls with
    | .error s => s
    | .ok (Γ, acc) =>
      if !(unusedInputs p).isEmpty then "unused " ++ hexList (unusedInputs p) else
      match callErrsW Γ p.outs.toList p.ret p.retWild with
      | e :: es => "ret " ++ ",".intercalate ((e :: es).map showBindErr)
      | [] =>
        match firstBad Γ 0 p.retain with
        | some i => s!"retain {i}"
        | none => "ok" ++ acc
  -- the diagnosis must agree with the function the theorems are about
  if validPipelineU p == verdict.startsWith "ok" then verdict else "model-inconsistent " ++ verdict

/-- diagnosis of a top-level call next to `checkTop` -/
def diagTop (c : CallStm) : String :=
  let cls : List String :=
    (if c.wild.isSome then ["wildcard"] else []) ++
    (modErrs emptyEnv c.callee c.binds none c.mods).map showModErr ++
    (if !c.mods.usings.isEmpty && (usingDisabled c.mods.usings).isSome then ["disabled"] else []) ++
    (if !c.mods.usings.isEmpty && effective c.mods.kwPreflight (usingVal 1 c.mods.usings) then ["preflight"] else []) ++
    (callErrs emptyEnv c.callee.params c.binds).map showBindErr
  let verdict :=
    match cls, checkTop c with
    | [], some sh => "ok " ++ showShapeTok sh
    | [], none => "bad inconsistent-model"
    | cs, _ => "bad " ++ ",".intercalate cs
  if validTop c == verdict.startsWith "ok" then verdict else "model-inconsistent " ++ verdict

def handle (op : String) (args : List String) : Option String :=
  match op, args with
  | "exp", [env, t, e] => do
    let Γ ← whole parseEnv env
    let t ← whole parseTy t
    let e ← whole parseExp e
    pure (" ".intercalate [boolStr (validExp Γ t e), boolStr (holeFree Γ t e), showOptTy (refType Γ e)])
  | "bind", [env, t, b] => do
    let Γ ← whole parseEnv env
    let t ← whole parseTy t
    let b ← whole parseBind b
    pure (" ".intercalate [boolStr (validBind Γ t b), showShape (bindShape Γ b)])
  | "call", [env, ps, bs] => do
    let Γ ← whole parseEnv env
    let ps ← whole (counted parseTyped) ps
    let bs ← whole (counted parseBinds) bs
    match checkCall Γ ps bs with
    | none => pure "false"
    | some sh => pure ("true " ++ showShape sh)
  | "ftype", [t, p] => do
    let t ← whole parseTy t
    let p ← parseHexList p
    match fieldType t p with
    | some r => pure (showTy r)
    | none => pure "none"
  | "lit", [t, e] => do
    let t ← whole parseTy t
    let e ← whole parseExp e
    let ok := validExp emptyEnv t e
    match eval emptyEnv emptyStore e with
    | some v => pure (" ".intercalate [boolStr ok, showJ v, boolStr (valid t v), boolStr (valid t (filter t v).1)])
    | none => pure (" ".intercalate [boolStr ok, "none", "false", "false"])
  | "proj", [t, v, p] => do
    let t ← whole parseTy t
    let v ← whole parseJ v
    let p ← parseHexList p
    match project t v p with
    | some w => pure (showJ w)
    | none => pure "none"
  | "pipe", [p] => do
    let p ← whole parsePipe p
    pure (diagPipe p)
  | "top", [c] => do
    let c ← whole parseStm c
    pure (diagTop c)
  | "path", [dest, t, v, p, how] => do
    -- LazyArgumentMap.Path(p, t, dest) on the value v (after / before repair 85e056c)
    let dest ← (if dest == "-" then some none else (whole parseTy dest).map some)
    let t ← whole parseTy t
    let v ← whole parseJ v
    let p ← parseHexList p
    let r := match p with
      | [] => (match dest with | some d => wholeRT d v | none => some v)
      | _ => if how == "old" then pathValG peelMapDOld dest t v p else pathVal dest t v p
    match r with
    | some w => pure (showJ w)
    | none => pure "none"
  | "prog", [arg] => do
    -- all hypotheses of Props.C07.program_sound_partial on one program
    let toks := arg.splitOn " "
    match toks with
    | n :: r => do
      let n ← n.toNat?
      let (pipes, r) ← parsePipes n r
      let (top, r) ← parseStm r
      match r with
      | [fuel] => do
        let fuel ← fuel.toNat?
        let P : Prog := { pipes := pipes }
        let accepted := pipes.all validPipelineU && validTop top
        pure (" ".intercalate ["accepted=" ++ boolStr accepted, "progOk=" ++ boolStr (progOk P top),
          "fits=" ++ boolStr (fits P fuel top.callee), "nodisabled=" ++ boolStr (noDisabled P top)] ++
          " pipes=" ++ ",".intercalate (pipes.map fun q => boolStr (okPipe P q)) ++
          " why=" ++ ",".intercalate (((pipes.flatMap (whyPipe P)) ++
            (if pipes.all (fun q => umapPipe P top.callee.name q) then [] else ["umapref"]) ++
            (if pipes.all ctlPipe then [] else ["ctlfed"])).eraseDups))
      | _ => none
    | [] => none
  | "evalT", [env, cid, v, t, e] => do
    -- Martian.Typing.evalT: the expression `e` resolved for a parameter of type `t` in the environment `env`,
    -- the store holding the value `v` for the call `cid` (what Fork.resolveRef → LazyArgumentMap.Path does)
    let Γ ← whole parseEnv env
    let cid ← bytesOfHex cid
    let v ← whole parseJ v
    let t ← whole parseTy t
    let e ← whole parseExp e
    match evalT Γ { self := [], calls := [(cid, v)] } t (bindExp Γ t e) with
    | some w => pure (showJ w)
    | none => pure "none"
  | "deliveredT", [env, cid, v, t, b] => do
    -- Martian.Typing.deliveredT: the values a binding (plain or split) delivers to the forks
    let Γ ← whole parseEnv env
    let cid ← bytesOfHex cid
    let v ← whole parseJ v
    let t ← whole parseTy t
    let b ← whole parseBind b
    match deliveredT Γ { self := [], calls := [(cid, v)] } t b with
    | some ws => pure (" ".intercalate (s!"a {ws.length}" :: ws.map showJ))
    | none => pure "none"
  | "progrun", [arg] => do
    -- the checked run of one program (Martian.Typing.runProgram) with stages that return null outputs:
    -- what remains visible is which calls were disabled (null) and the fork structure of the others
    let toks := arg.splitOn " "
    match toks with
    | n :: r => do
      let n ← n.toNat?
      let (pipes, r) ← parsePipes n r
      let (top, r) ← parseStm r
      match r with
      | [fuel] => do
        let fuel ← fuel.toNat?
        match runProgram { pipes := pipes } (fun _ _ => .null) fuel top with
        | .ok s =>
          (match s.2.calls.lookup top.id with
            | some v => pure ("run " ++ showJ v)
            | none => pure "run none")
        | .nullDisabled => pure "run nullDisabled"
        | .fail => pure "run none"
      | _ => none
    | [] => none
  | "hyp", [env, t, e] => do
    -- the decidable hypotheses of the soundness theorems on one binding
    let Γ ← whole parseEnv env
    let t ← whole parseTy t
    let e ← whole parseExp e
    pure (" ".intercalate [boolStr t.wf, boolStr e.wf, boolStr (holeFree Γ t e)])
  | "strict", [env, t, e] => do
    let Γ ← whole parseEnv env
    let t ← whole parseTy t
    let e ← whole parseExp e
    pure (" ".intercalate [boolStr (validExp Γ t e), boolStr (overStrict Γ t e)])
  | "sretain", [outs, ids] => do
    let outs ← whole (counted parseTyped) outs
    let ids ← parseHexList ids
    pure (boolStr (stageRetainOk (Fields.ofList outs) ids))
  | _, _ => none

end Driver.C07
