import Driver.Util

/-! Line-protocol handler for property C15 (stub: replaced when the model exists). -/
namespace Driver.C15

def handle (_op : String) (_args : List String) : Option String := none

end Driver.C15
