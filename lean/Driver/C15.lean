import Martian.Equiv
import Martian.EquivLockLTS
import Martian.EquivMeaning
import Gen.Facts
import Driver.Util

/-! Line-protocol handler for property C15.

Program encoding (one argument, tokens separated by single spaces, prefix form;
`<k>` = hex of the bytes, `-` = empty):
  exp      ::= n | s <k> | b 0|1 | i <int> | fw <int> | fb <nat> | r <kind> <k> <k>
             | sp exp | a <n> exp^n | m <n> (<k> exp)^n
  param    ::= <k:id> <k:tname> <arrayDim> <mapDim> <fileKind> <k:outName>
  binds    ::= <n> (<k> exp)^n
  mods     ::= <local> <preflight> <volatile> <hasTable> (0 | 1 exp)
  call     ::= <k:id> <k:decId> binds mods
  callable ::= S <split> <n> param^n <n> param^n
             | P <n> param^n <n> param^n <n> call^n binds
  prog     ::= <n> (<k:name> callable)^n call
-/
namespace Driver.C15
open Martian.Equiv Martian.SortKeys Driver

abbrev P := StateT (List String) Option

def tok : P String := do
  match (← get) with
  | [] => failure
  | t :: r => set r; pure t

def nat : P Nat := do
  match (← tok).toNat? with
  | some n => pure n
  | none => failure

def int : P Int := do
  match (← tok).toInt? with
  | some n => pure n
  | none => failure

def bool : P Bool := do
  match (← tok) with
  | "0" => pure false
  | "1" => pure true
  | _ => failure

def key : P Key := do
  match bytesOfHex (← tok) with
  | some b => pure (b.map UInt8.toNat)
  | none => failure

def rep {α : Type} (p : P α) : Nat → P (List α)
  | 0 => pure []
  | n + 1 => do let x ← p; let r ← rep p n; pure (x :: r)

partial def exp : P Exp := do
  match (← tok) with
  | "n" => pure (.atom .null)
  | "s" => do pure (.atom (.str (← key)))
  | "b" => do pure (.atom (.bool (← bool)))
  | "i" => do pure (.atom (.int (← int)))
  | "fw" => do pure (.atom (.float (.whole (← int))))
  | "fb" => do pure (.atom (.float (.bits (← nat))))
  | "r" => do let k ← nat; let i ← key; let o ← key; pure (.atom (.ref k i o))
  | "sp" => do pure (.split (← exp))
  | "a" => do
    let n ← nat
    let xs ← rep exp n
    pure (xs.foldr Exp.acons .anil)
  | "m" => do
    let n ← nat
    let kvs ← rep (do let k ← key; let v ← exp; pure (k, v)) n
    pure (kvs.foldr (fun p r => Exp.mcons p.1 p.2 r) .mnil)
  | _ => failure

def param : P (Key × Param) := do
  let id ← key; let t ← key; let a ← nat; let m ← nat; let f ← nat; let o ← key
  pure (id, { tname := t, arrayDim := a, mapDim := m, fileKind := f, outName := o })

def binds : P (List (Key × Exp)) := do
  let n ← nat
  rep (do let k ← key; let v ← exp; pure (k, v)) n

def mods : P Mods := do
  let l ← bool; let p ← bool; let v ← bool; let t ← bool
  let d ← (do if (← bool) then pure (some (← exp)) else pure none)
  pure { isLocal := l, preflight := p, volatile := v, hasTable := t, disabled := d }

def call : P Call := do
  let id ← key; let dec ← key; let b ← binds; let m ← mods
  pure { id := id, decId := dec, binds := b, mods := m }

def params : P (List (Key × Param)) := do
  let n ← nat
  rep param n

def callable : P Callable := do
  match (← tok) with
  | "S" => do let s ← bool; let i ← params; let o ← params; pure (.stage s i o)
  | "P" => do
    let i ← params; let o ← params
    let n ← nat
    let cs ← rep call n
    let r ← binds
    pure (.pipeline i o cs r)
  | _ => failure

def prog : P Prog := do
  let n ← nat
  let t ← rep (do let k ← key; let c ← callable; pure (k, c)) n
  let c ← call
  pure { tab := t, call := c }

def keyList : P (List Key) := do
  let n ← nat
  rep key n

/-- extras ::= X <n> (<name> <src> <resources> keyList(retain) params(chunkIns) params(chunkOuts)
                      <n> (<k> <k>)^n (helps))^n  T <n> (<name> params)^n -/
def fullProg : P FullProg := do
  let core ← prog
  let _ ← (do if (← tok) == "X" then pure () else failure)
  let n ← nat
  let xs ← rep (do
    let name ← key; let src ← key; let res ← key
    let ret ← keyList; let ci ← params; let co ← params
    let nh ← nat
    let hs ← rep (do let a ← key; let b ← key; pure (a, b)) nh
    pure (name, ({ src := src, resources := res, retain := ret, chunkIns := ci, chunkOuts := co, helps := hs } : Extra))) n
  let _ ← (do if (← tok) == "T" then pure () else failure)
  let m ← nat
  let ts ← rep (do let name ← key; let fs ← params; pure (name, fs)) m
  pure { core := core, extras := xs, structs := ts }

def parseAll {α : Type} (p : P α) (s : String) : Option α :=
  match p.run (s.splitOn " ") with
  | some (x, []) => some x
  | _ => none

def lockOp (s : String) : Option LockOp :=
  match s.toList with
  | 'L' :: r => (String.ofList r).toNat?.map LockOp.lock
  | 'U' :: r => (String.ofList r).toNat?.map LockOp.unlock
  | 'S' :: r => (String.ofList r).toNat?.map LockOp.signal
  | _ => none

def lockTrace (rf : Bool) : LockState → List LockOp → List String → Option (List String)
  | s, [], acc => some (acc.reverse ++ [boolStr s.lockFile, toString s.holders.length])
  | s, op :: r, acc =>
    if disciplined s op then
      let (s', ok) := lockStep rf s op
      lockTrace rf s' r ((if ok then "1" else "0") :: acc)
    else none

def ltsAct (s : String) : Option Martian.LockLTS.Act :=
  match s.toList with
  | ['R'] => some .rmLock
  | 'A' :: r => (String.ofList r).toNat?.map .acquire
  | 'G' :: r => (String.ofList r).toNat?.map .register
  | 'U' :: r => (String.ofList r).toNat?.map .unlock
  | 'S' :: r => (String.ofList r).toNat?.map .signal
  | 'K' :: r => (String.ofList r).toNat?.map .kill
  | 'E' :: r => (String.ofList r).toNat?.map .acquireErr
  | 'T' :: r => (String.ofList r).toNat?.map .start
  | _ => none

def ltsTrace (rf : Bool) : Martian.LockLTS.St → List Martian.LockLTS.Act → List String → Option (List String)
  | s, [], acc => some (acc.reverse ++ [boolStr s.lockFile, toString s.holders.length, toString s.registered.length])
  | s, a :: r, acc =>
    if Martian.LockLTS.enabled s a then
      let (s', ok) := Martian.LockLTS.step rf Gen.c15RefusedStartRemovesDir s a
      ltsTrace rf s' r ((if ok then "1" else "0") :: acc)
    else none

def handle (op : String) (args : List String) : Option String :=
  match op, args with
  | "equiv", [a, b] => do
    let fa ← parseAll fullProg a
    let fb ← parseAll fullProg b
    let a := fa.core
    let b := fb.core
    let n := Prog.fuel a b
    let fs := sfuel fa fb
    -- `compared` parts are equal iff equivalentCallFull (theorem equiv_iff_compared_meaning_eq);
    -- the ignored parts are compared directly.  Reply: verdict under the regenerated facts,
    -- verdict with the disabled lookup fixed, wf of both (core and struct tables), ignored kinds,
    -- verdict of the first pass alone (call comparison without the struct definitions),
    -- fuel adequate for both programs (hypothesis of sem_fuel_stable)
    let kinds := ignoredDiffKinds (meaning n fs fa).ignored (meaning n fs fb).ignored
    pure (" ".intercalate [boolStr (equivalentCallFull Gen.c15SelfCompare Gen.c15StructsCompared fa fb),
      boolStr (equivalentCallFull false Gen.c15StructsCompared fa fb),
      boolStr (a.wf && structsWf fa.structs), boolStr (b.wf && structsWf fb.structs),
      if kinds.isEmpty then "-" else ",".intercalate kinds,
      boolStr (equivalentCall Gen.c15SelfCompare a b),
      boolStr ((semCallO n a.tab a.call).isSome && (semCallO n b.tab b.call).isSome)])
  | "expequal", [a, b] => do
    let a ← parseAll exp a
    let b ← parseAll exp b
    pure (" ".intercalate [boolStr (a.equal b), boolStr a.wf, boolStr b.wf])
  | "lock", [ops] => do
    let ops ← if ops == "." then some [] else (ops.splitOn ",").mapM lockOp
    match lockTrace Gen.c15RegisterFirst lockInit ops [] with
    | some r => pure (" ".intercalate r)
    | none => pure "undisciplined"
  | "lts", [ops] => do
    let ops ← if ops == "." then some [] else (ops.splitOn ",").mapM ltsAct
    match ltsTrace Gen.c15RegisterFirst Martian.LockLTS.init ops [] with
    | some r => pure (" ".intercalate r)
    | none => pure "not-enabled"
  | "selfcompare", [] => pure (boolStr Gen.c15SelfCompare)
  | "registerfirst", [] => pure (boolStr Gen.c15RegisterFirst)
  | "structscompared", [] => pure (boolStr Gen.c15StructsCompared)
  | _, _ => none

end Driver.C15
