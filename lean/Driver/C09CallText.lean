import Martian.FormatCallText
import Driver.Util
import Driver.C09Call2
import Driver.C09Pipe

/-! Line-protocol handler for property C09, part CallText: the Bool hypotheses of the text-side
theorems of Props.C09 section AcceptedCallTexts (model Martian.FormatCallText), evaluated on the
AST the REAL parser returned for an accepted text (word encodings of Driver/C09Call2.lean and
Driver/C09Pipe.lean; a float leaf holds what Go prints for its `float64`, i.e. `g` applied).

Ops:
  call2hyps <Call2>     → `strs=<b> nonegz=<b> dist=<b> conflict=<b> wf=<b>`
                          (`call2StrsValid`, `call2NoNegZero`, `modsDistinct`, `modsConflict`, `wfCall2`)
  bodyhyps <Body>       → `strs=<b> nonegz=<b> dist=<b> wf=<b>`
                          (`bodyStrsValid`, `bodyNoNegZero`, `bodyModsDistinct`, `wfBody`)
  pipehyps <Pipeline>   → `strs=<b> nonegz=<b> dist=<b> calls=<b> wf=<b>`
                          (`pipeStrsValid`, `pipeNoNegZero`, `pipeModsDistinct`, `pipeCallsDistinct`, `wfPipeline`)
-/
namespace Driver.C09
open Driver
open Martian.FormatCall2 Martian.FormatPipe Martian.FormatCallText

def handleCallText (op : String) (args : List String) : Option String :=
  match op, args with
  | "call2hyps", [c] => do
    let c ← c2Call c
    pure ("strs=" ++ boolStr (call2StrsValid c) ++ " nonegz=" ++ boolStr (call2NoNegZero c) ++
      " dist=" ++ boolStr (modsDistinct c) ++ " conflict=" ++ boolStr (modsConflict c.mods) ++
      " wf=" ++ boolStr (wfCall2 c))
  | "bodyhyps", [b] => do
    let b ← c2Body b
    pure ("strs=" ++ boolStr (bodyStrsValid b) ++ " nonegz=" ++ boolStr (bodyNoNegZero b) ++
      " dist=" ++ boolStr (bodyModsDistinct b) ++ " wf=" ++ boolStr (wfBody b))
  | "pipehyps", [p] => do
    let p ← decPipeline p
    pure ("strs=" ++ boolStr (pipeStrsValid p) ++ " nonegz=" ++ boolStr (pipeNoNegZero p) ++
      " dist=" ++ boolStr (pipeModsDistinct p) ++ " calls=" ++ boolStr (pipeCallsDistinct p) ++
      " wf=" ++ boolStr (wfPipeline p))
  | _, _ => none

end Driver.C09
