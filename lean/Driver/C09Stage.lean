import Martian.FormatStage
import Driver.Util
import Driver.C09Decl

/-!
Line-protocol ops of C09 for whole `stage` declarations (model:
Martian/FormatStage.lean).

Encoding of a `Stage`: nine fields separated by `|` inside ONE TAB-separated
argument (words inside a field separated by one space; byte strings in hex,
`-` = empty):

  `<id>|<Params ins>|<Params outs>|<lang> <path> <args>|<0|1>|<Params chunkIns>|<Params chunkOuts>|<Res>|<Retain>`

* `<Params>` as in Driver/C09Decl.lean (`<n>` followed by 5 words per parameter);
* `<lang>` = `py` | `exec` | `comp`, `<path>` hex, `<args>` a `,`-separated hex
  list (`.` = none);
* the flag is `Split`;
* `<Res>` = `none` (no `using` clause) or five words `<mem> <special> <threads>
  <vmem> <volatile>`, `.` = node not set; `mem`/`vmem` decimal integers (MB =
  GB·1024), `special`/`threads` `s<hex>`, `volatile` = `strict` | `false`;
* `<Retain>` = `none` or `r<hexlist>`.

Ops (the names carry `decl` so as not to collide with the minimal-stage ops of
the `Res` part):
  fmtstagedecl <Stage>      → hex text of `fmtStage`
  wfstagedecl <Stage>       → `wf=<bool>`
  parsestagedecl <hex text> → `some <Stage>` | `none`
  stagewidths <Stage>       → `mw tw iw hw ciw chw` (`modeW typeW idW helpW chunkW`)
-/
namespace Driver.C09
open Driver Martian.FormatStage
open Martian.FormatRes (Res Lang)

def stgOptInt : Option Int → String
  | some i => toString i
  | none => "."

def stgOptBytes : Option (List UInt8) → String
  | some b => "s" ++ hexOfBytes b
  | none => "."

def stgEncRes : Option Res → String
  | none => "none"
  | some r =>
    " ".intercalate [stgOptInt r.mem, stgOptBytes r.special, stgOptBytes r.threads, stgOptInt r.vmem,
      match r.volatile with | some true => "strict" | some false => "false" | none => "."]

def stgDecOptInt (s : String) : Option (Option Int) :=
  if s == "." then some none else s.toInt?.map some

def stgDecOptBytes (s : String) : Option (Option (List UInt8)) :=
  if s == "." then some none else
  match s.toList with
  | 's' :: d => (bytesOfHex (String.ofList d)).map some
  | _ => none

def stgDecRes (s : String) : Option (Option Res) :=
  if s == "none" then some none else
  match s.splitOn " " with
  | [m, sp, t, v, vol] => do
    let m ← stgDecOptInt m
    let sp ← stgDecOptBytes sp
    let t ← stgDecOptBytes t
    let v ← stgDecOptInt v
    let vol ← (if vol == "." then some none else if vol == "strict" then some (some true)
      else if vol == "false" then some (some false) else none)
    pure (some ⟨m, sp, t, v, vol⟩)
  | _ => none

def stgLangName : Lang → String
  | .py => "py"
  | .exec => "exec"
  | .comp => "comp"

def stgDecLang (s : String) : Option Lang :=
  if s == "py" then some .py else if s == "exec" then some .exec else if s == "comp" then some .comp
  else none

def stgEncRetain : Option (List (List UInt8)) → String
  | some ids => "r" ++ hexList ids
  | none => "none"

def stgDecRetain (s : String) : Option (Option (List (List UInt8))) :=
  if s == "none" then some none else
  match s.toList with
  | 'r' :: d => (parseHexList (String.ofList d)).map some
  | _ => none

def encStage (s : Stage) : String :=
  "|".intercalate [hexOfBytes s.id, encParams s.ins, encParams s.outs,
    stgLangName s.lang ++ " " ++ hexOfBytes s.path ++ " " ++ hexList s.args,
    (if s.split then "1" else "0"), encParams s.chunkIns, encParams s.chunkOuts,
    stgEncRes s.res, stgEncRetain s.retain]

def decStage (s : String) : Option Stage :=
  match s.splitOn "|" with
  | [id, ins, outs, src, sp, ci, co, res, ret] => do
    let id ← bytesOfHex id
    let ins ← decParams ins
    let outs ← decParams outs
    let (lang, path, args) ← (match src.splitOn " " with
      | [l, p, a] => do
        let l ← stgDecLang l
        let p ← bytesOfHex p
        let a ← parseHexList a
        pure (l, p, a)
      | _ => none)
    let ci ← decParams ci
    let co ← decParams co
    let res ← stgDecRes res
    let ret ← stgDecRetain ret
    if sp == "1" || sp == "0" then
      pure ⟨id, ins, outs, lang, path, args, sp == "1", ci, co, res, ret⟩
    else none
  | _ => none

def handleStage (op : String) (args : List String) : Option String :=
  match op, args with
  | "fmtstagedecl", [s] => do
    -- Stage.format
    let s ← decStage s
    pure (hexOfBytes (fmtStage s))
  | "wfstagedecl", [s] => do
    let s ← decStage s
    pure ("wf=" ++ boolStr (wfStage s))
  | "parsestagedecl", [t] => do
    -- a file that is one stage declaration: the AST or `none`
    let b ← bytesOfHex t
    match parseStage b with
    | some s => pure ("some " ++ encStage s)
    | none => pure "none"
  | "stagewidths", [s] => do
    let s ← decStage s
    pure s!"{modeW s} {typeW s} {idW s} {helpW s} {(chunkW s).1} {(chunkW s).2}"
  | _, _ => none

end Driver.C09
