import Martian.Format
import Driver.Util

/-! Line-protocol handler for property C09 (formatter core). -/
namespace Driver.C09
open Martian.Format Driver

def parseEdges (s : String) : Option (List (Nat × Nat)) :=
  if s == "." then some [] else
  (s.splitOn ",").mapM fun e =>
    match e.splitOn "-" with
    | [a, b] => do let a ← a.toNat?; let b ← b.toNat?; pure (a, b)
    | _ => none

def handle (op : String) (args : List String) : Option String :=
  match op, args with
  | "quote", [s] => do
    let b ← bytesOfHex s
    pure (hexOfBytes (quoteString b))
  | "roundtrip", [s] => do
    -- unquoteBytes (quoteString s)
    let b ← bytesOfHex s
    match Martian.Lexer.unquoteBytes (quoteString b) with
    | some v => pure ("some " ++ hexOfBytes v)
    | none => pure "panic"
  | "toposort", [n, edges] => do
    let n ← n.toNat?
    let es ← parseEdges edges
    pure (" ".intercalate ((topoSort n es).map toString))
  | "closure", [n, edges] => do
    -- the hypothesis of topoSort_respects_deps (cycle) for this graph, transitivity (a theorem now:
    -- closedDeps_transitive; still evaluated and reported, the reply format is unchanged) + the
    -- closed relation itself (closedTable = the until-nothing-changes loop)
    let n ← n.toNat?
    let es ← parseEdges edges
    let t := closedTable n es
    let d := ofTable t
    let pairs := (List.range n).flatMap fun a => (List.range n).filterMap fun b =>
      if d a b then some (toString a ++ "-" ++ toString b) else none
    pure ("cycle=" ++ boolStr (hasCycle n d) ++ " trans=" ++ boolStr (transOn (List.range n) d) ++ " " ++
      (if pairs.isEmpty then "." else ",".intercalate pairs))
  | _, _ => none

end Driver.C09
