import Martian.Format
import Martian.FormatExp
import Martian.FormatCall
import Driver.Util
import Driver.C09Decl
import Driver.C09Res
import Driver.C09Call2
import Driver.C09Stage
import Driver.C09Pipe
import Driver.C09File
import Driver.C09Text
import Driver.C09DeclText
import Driver.C09CallText
import Driver.C09FileText

/-! Line-protocol handler for property C09 (formatter core). -/
namespace Driver.C09
open Martian.Format Driver

def parseEdges (s : String) : Option (List (Nat × Nat)) :=
  if s == "." then some [] else
  (s.splitOn ",").mapM fun e =>
    match e.splitOn "-" with
    | [a, b] => do let a ← a.toNat?; let b ← b.toNat?; pure (a, b)
    | _ => none

/-! ### value expressions: a flat prefix encoding, one token per space-separated word

`n` null, `N` nil array, `t`/`f`, `i<decimal>`, `F<hex>` float text, `s<hex>`
string, `[ e … ]`, `{ <hexkey> e … }` map, `< <hexkey> e … >` struct,
`r<0|1>:<hexid>:<hex>,<hex>…` reference (`.` = no output path). -/
section
open Martian.FormatExp

mutual
partial def encExp : Exp → List String
  | .null => ["n"]
  | .nilArr => ["N"]
  | .bool b => [if b then "t" else "f"]
  | .int i => ["i" ++ toString i]
  | .float t => ["F" ++ hexOfBytes t]
  | .str s => ["s" ++ hexOfBytes s]
  | .arr xs => "[" :: (xs.flatMap encExp ++ ["]"])
  | .map kvs => "{" :: (kvs.flatMap (fun kv => hexOfBytes kv.1 :: encExp kv.2) ++ ["}"])
  | .struct kvs => "<" :: (kvs.flatMap (fun kv => hexOfBytes kv.1 :: encExp kv.2) ++ [">"])
  | .ref self id out => ["r" ++ (if self then "1" else "0") ++ ":" ++ hexOfBytes id ++ ":" ++ hexList out]
end

def encode (e : Exp) : String := " ".intercalate (encExp e)

mutual
partial def decExp : List String → Option (Exp × List String)
  | [] => none
  | w :: r =>
    if w == "n" then some (.null, r)
    else if w == "N" then some (.nilArr, r)
    else if w == "t" then some (.bool true, r)
    else if w == "f" then some (.bool false, r)
    else if w == "[" then (decList r).map fun (xs, r') => (.arr xs, r')
    else if w == "{" then (decKVs "}" r).map fun (xs, r') => (.map xs, r')
    else if w == "<" then (decKVs ">" r).map fun (xs, r') => (.struct xs, r')
    else match w.toList with
      | 'i' :: d => (String.ofList d).toInt?.map fun i => (.int i, r)
      | 'F' :: d => (bytesOfHex (String.ofList d)).map fun b => (.float b, r)
      | 's' :: d => (bytesOfHex (String.ofList d)).map fun b => (.str b, r)
      | 'r' :: k :: ':' :: d =>
        match (String.ofList d).splitOn ":" with
        | [id, out] => do
          let id ← bytesOfHex id
          let out ← parseHexList out
          pure (.ref (k == '1') id out, r)
        | _ => none
      | _ => none
partial def decList : List String → Option (List Exp × List String)
  | "]" :: r => some ([], r)
  | ws => do
    let (e, r) ← decExp ws
    let (es, r') ← decList r
    pure (e :: es, r')
partial def decKVs (close : String) : List String → Option (List (List UInt8 × Exp) × List String)
  | [] => none
  | k :: ws =>
    if k == close then some ([], ws) else do
    let key ← bytesOfHex k
    let (e, r) ← decExp ws
    let (es, r') ← decKVs close r
    pure ((key, e) :: es, r')
end

def decode (s : String) : Option Exp :=
  match decExp (s.splitOn " ") with
  | some (e, []) => some e
  | _ => none
end

/-! ### call statements: `<hex decId> <hex id> <n>` then per binding `<hex id> <0|1>` and the
expression words, all space separated -/
section
open Martian.FormatExp Martian.FormatCall

def encCall (c : Call) : String :=
  " ".intercalate (hexOfBytes c.decId :: hexOfBytes c.id :: toString c.binds.length ::
    c.binds.flatMap fun b => hexOfBytes b.id :: (if b.split then "1" else "0") :: encExp b.exp)

def decBinds : Nat → List String → Option (List Bind × List String)
  | 0, ws => some ([], ws)
  | n + 1, id :: sp :: ws => do
    let id ← bytesOfHex id
    let (e, r) ← decExp ws
    let (bs, r') ← decBinds n r
    pure (⟨id, sp == "1", e⟩ :: bs, r')
  | _ + 1, _ => none

def decCall (s : String) : Option Call :=
  match s.splitOn " " with
  | d :: i :: n :: ws => do
    let d ← bytesOfHex d
    let i ← bytesOfHex i
    let n ← n.toNat?
    match decBinds n ws with
    | some (bs, []) => pure ⟨d, i, bs⟩
    | _ => none
  | _ => none
end

/-- one word per token of `lexAll` (op `lextoks`): `p<hex byte>` punctuation, `s`/`i`/`f`/`d`/`r`
followed by the hex of the token text for LITSTRING / NUM_INT / NUM_FLOAT / an `id` token / any
other keyword, `T F N S D` for true false null self default -/
def tokWord : Martian.FormatExp.Tok → String
  | .punct c => "p" ++ hexOfBytes [c]
  | .str raw => "s" ++ hexOfBytes raw
  | .int raw => "i" ++ hexOfBytes raw
  | .float raw => "f" ++ hexOfBytes raw
  | .id raw => "d" ++ hexOfBytes raw
  | .kTrue => "T"
  | .kFalse => "F"
  | .kNull => "N"
  | .kSelf => "S"
  | .kDefault => "D"
  | .reserved raw => "r" ++ hexOfBytes raw

def handle (op : String) (args : List String) : Option String :=
  match op, args with
  | "quote", [s] => do
    let b ← bytesOfHex s
    pure (hexOfBytes (quoteString b))
  | "toposort", [n, edges] => do
    let n ← n.toNat?
    let es ← parseEdges edges
    pure (" ".intercalate ((topoSort n es).map toString))
  | "closure", [n, edges] => do
    -- the hypothesis of topoSort_respects_deps (cycle) for this graph, transitivity (a theorem now:
    -- closedDeps_transitive; still evaluated and reported, the reply format is unchanged) + the
    -- closed relation itself (closedTable = the until-nothing-changes loop)
    let n ← n.toNat?
    let es ← parseEdges edges
    let t := closedTable n es
    let d := ofTable t
    let pairs := (List.range n).flatMap fun a => (List.range n).filterMap fun b =>
      if d a b then some (toString a ++ "-" ++ toString b) else none
    pure ("cycle=" ++ boolStr (hasCycle n d) ++ " trans=" ++ boolStr (transOn (List.range n) d) ++ " " ++
      (if pairs.isEmpty then "." else ",".intercalate pairs))
  | "fmtexp", [p, e] => do
    -- FormatExp(e, prefix)
    let p ← bytesOfHex p
    let e ← decode e
    pure (hexOfBytes (Martian.FormatExp.fmt p e))
  | "parseexp", [s] => do
    -- Parser.ParseValExp(src): the AST or `none`
    let b ← bytesOfHex s
    match Martian.FormatExp.parseValExp b with
    | some e => pure ("some " ++ encode e)
    | none => pure "none"
  | "normexp", [e] => do
    let e ← decode e
    pure (encode (Martian.FormatExp.norm e))
  | "wfexp", [e] => do
    -- the hypothesis of the round-trip theorems; is it a val_exp (not a reference)?
    let e ← decode e
    pure ("wf=" ++ boolStr (Martian.FormatExp.wf e) ++ " val=" ++ boolStr (Martian.FormatExp.isVal e))
  | "lextoks", [s] => do
    -- the token stream the parser is fed (mmLexInfo.Lex until the end of the input), one word per
    -- token, or `none` when some token is INVALID
    let b ← bytesOfHex s
    match Martian.FormatExp.lexAll b with
    | some ts => pure (" ".intercalate ("some" :: ts.map tokWord))
    | none => pure "none"
  | "fmtcall", [c] => do
    -- CallStm.format(printer, "")
    let c ← decCall c
    pure (hexOfBytes (Martian.FormatCall.fmtCall c))
  | "parsecall", [s] => do
    -- call_stm on the source: the AST or `none`
    let b ← bytesOfHex s
    match Martian.FormatCall.parseCall b with
    | some c => pure ("some " ++ encCall c)
    | none => pure "none"
  | "wfcall", [c] => do
    let c ← decCall c
    pure ("wf=" ++ boolStr (Martian.FormatCall.wfCall c))
  | "normcall", [c] => do
    let c ← decCall c
    pure (encCall (Martian.FormatCall.normCall c))
  | op, args => Driver.C09.handleDecl op args <|> Driver.C09.handleRes op args <|> Driver.C09.handleCall2 op args <|> Driver.C09.handleStage op args <|> Driver.C09.handlePipe op args <|> Driver.C09.handleFile op args <|> Driver.C09.handleText decode op args <|> Driver.C09.handleDeclText op args <|> Driver.C09.handleCallText op args <|> Driver.C09.handleFileText op args

end Driver.C09
