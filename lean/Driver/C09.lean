import Martian.Format
import Driver.Util

/-! Line-protocol handler for property C09 (formatter core). -/
namespace Driver.C09
open Martian.Format Driver

def parseEdges (s : String) : Option (List (Nat × Nat)) :=
  if s == "." then some [] else
  (s.splitOn ",").mapM fun e =>
    match e.splitOn "-" with
    | [a, b] => do let a ← a.toNat?; let b ← b.toNat?; pure (a, b)
    | _ => none

def handle (op : String) (args : List String) : Option String :=
  match op, args with
  | "quote", [s] => do
    let b ← bytesOfHex s
    pure (hexOfBytes (quoteString b))
  | "roundtrip", [s] => do
    -- unquoteBytes (quoteString s)
    let b ← bytesOfHex s
    match Martian.Lexer.unquoteBytes (quoteString b) with
    | some v => pure ("some " ++ hexOfBytes v)
    | none => pure "panic"
  | "toposort", [n, edges] => do
    let n ← n.toNat?
    let es ← parseEdges edges
    pure (" ".intercalate ((topoSort n es).map toString))
  | _, _ => none

end Driver.C09
