import Martian.Types
import Martian.JsonBytes
import Driver.Util

/-!
Line-protocol handler for property C17.

Text encoding (tokens separated by one space; byte strings hex, `-` = empty):

  type  ::= string | int | float | bool | path | file | map
          | U <name> | A <type> | M <type> | S <name> <n> (<field> <type>){n}
  json  ::= n | t | f | i <int> | d <mant> <exp> | s <bytes>
          | a <n> <json>{n} | o <n> (<key> <json>){n}

Operations (`C17.<op>\t<arg>…`):
  case <type> <json>    → `<check> <ferr> <check of filtered> <json of filtered>`
  assign <dst> <src>    → `<assignable> <noHole> <hole classes: - | F9 | F10 | F9,F10> <pureNarrow>`
  (values sent to `case` are in last-wins normal form: the harness applies `dedupLast` at every object)
  info <type>           → `<fileKind> <canFilter> <wf> <arrayDim> <mapDim>`
  caser <type> <json>   → as `case`, over numerals as Go reads them (Martian.TypesR)
  parseb <hex>          → `some <json>` | `none`   (Martian.JsonBytes.parseTop)
  printb <json>         → hex of the canonical text (printJ)
  filterb <type> <hex>  → `<hex of returned bytes> <ferr> nd=<noDupA> cls=<same class as TypesR.filter>` | `none`   (Martian.JsonBytes.filterBytes)
  num <json numeral>    → `<round64 neg:mant:exp2|inf> | <goInt?> | <finite64> | <exact64> | <exact int within int64>`
-/
namespace Driver.C17
open Martian.Json Martian.Types Driver

def parseBase : String → Option Base
  | "string" => some .string | "int" => some .int | "float" => some .float
  | "bool" => some .bool | "path" => some .path | "file" => some .file | "map" => some .map
  | _ => none

mutual
  partial def parseTy : List String → Option (Ty × List String)
    | "U" :: n :: r => do let n ← bytesOfHex n; pure (.user n, r)
    | "A" :: r => do let (t, r) ← parseTy r; pure (.arr t, r)
    | "M" :: r => do let (t, r) ← parseTy r; pure (.tmap t, r)
    | "S" :: n :: c :: r => do
      let n ← bytesOfHex n
      let c ← c.toNat?
      let (fs, r) ← parseFields c r
      pure (.struct n fs, r)
    | b :: r => do let b ← parseBase b; pure (.base b, r)
    | [] => none
  partial def parseFields : Nat → List String → Option (Fields × List String)
    | 0, r => some (.nil, r)
    | c + 1, k :: r => do
      let k ← bytesOfHex k
      let (t, r) ← parseTy r
      let (fs, r) ← parseFields c r
      pure (.cons k t fs, r)
    | _, [] => none
end

mutual
  partial def parseJ : List String → Option (J × List String)
    | "n" :: r => some (.null, r)
    | "t" :: r => some (.bool true, r)
    | "f" :: r => some (.bool false, r)
    | "i" :: v :: r => do let v ← v.toInt?; pure (.num (.int v), r)
    | "d" :: m :: e :: r => do let m ← m.toInt?; let e ← e.toInt?; pure (.num (.flt m e), r)
    | "s" :: s :: r => do let s ← bytesOfHex s; pure (.str s, r)
    | "a" :: c :: r => do
      let c ← c.toNat?
      let (xs, r) ← parseJs c r
      pure (.arr xs, r)
    | "o" :: c :: r => do
      let c ← c.toNat?
      let (kvs, r) ← parseKVs c r
      pure (.obj kvs, r)
    | _ => none
  partial def parseJs : Nat → List String → Option (List J × List String)
    | 0, r => some ([], r)
    | c + 1, r => do
      let (x, r) ← parseJ r
      let (xs, r) ← parseJs c r
      pure (x :: xs, r)
  partial def parseKVs : Nat → List String → Option (List (Bytes × J) × List String)
    | 0, r => some ([], r)
    | c + 1, k :: r => do
      let k ← bytesOfHex k
      let (x, r) ← parseJ r
      let (xs, r) ← parseKVs c r
      pure ((k, x) :: xs, r)
    | _, [] => none
end

partial def showJ : J → String
  | .null => "n"
  | .bool true => "t"
  | .bool false => "f"
  | .num (.int v) => s!"i {v}"
  | .num (.flt m e) => s!"d {m} {e}"
  | .str s => "s " ++ hexOfBytes s
  | .arr xs => " ".intercalate (s!"a {xs.length}" :: xs.map showJ)
  | .obj kvs => " ".intercalate (s!"o {kvs.length}" :: kvs.map fun kv => hexOfBytes kv.1 ++ " " ++ showJ kv.2)

def tyOf (s : String) : Option Ty :=
  match parseTy (s.splitOn " ") with
  | some (t, []) => some t
  | _ => none

def jOf (s : String) : Option J :=
  match parseJ (s.splitOn " ") with
  | some (v, []) => some v
  | _ => none

def showVerdict : Verdict → String
  | .ok => "ok" | .alarm => "alarm" | .error => "error"

def showFErr : FErr → String
  | .ok => "ok" | .soft => "soft" | .fatal => "fatal"

def showKind : FileKind → String
  | .notFile => "notFile" | .mayContainPaths => "mayContainPaths"
  | .file => "file" | .directory => "directory"

/-- which of the two known design holes lie on the assignment `dst ← src`
(labelling only: used to key known findings; `noHole` is the model function) -/
partial def holes : Ty → Ty → List String
  | .arr d, .arr s => holes d s
  | .tmap d, .tmap s => (if isDirMap d && !isDirMap s then ["F9"] else []) ++ holes d s
  | .tmap _, .struct _ _ => ["F10"]
  | .struct _ fs, .struct _ fs' =>
    fs.toList.flatMap fun kt =>
      match fs'.get kt.1 with
      | some t' => holes kt.2 t'
      | none => []
  | _, _ => []

def handle (op : String) (args : List String) : Option String :=
  match op, args with
  | "case", [t, v] => do
    let t ← tyOf t
    let v ← jOf v
    let f := filter t v
    pure (" ".intercalate [showVerdict (check t v), showFErr f.2, showVerdict (check t f.1), showJ f.1])
  | "caser", [t, v] => do
    -- the same over numerals as Go reads them (float64 rounding): Martian.TypesR
    let t ← tyOf t
    let v ← jOf v
    let f := Martian.TypesR.filter t v
    pure (" ".intercalate [showVerdict (Martian.TypesR.check t v), showFErr f.2,
      showVerdict (Martian.TypesR.check t f.1), showJ f.1])
  | "num", [v] => do
    -- `num` <json numeral>: `<round64> | <goInt?> | <finite64> | <exact64> | <exact intValue? within int64>`
    let v ← jOf v
    match v with
    | .num n =>
      let r := match n.toF64 with
        | .inf => "inf"
        | .fin neg m e => s!"{if neg then 1 else 0}:{m}:{e}"
      let g := match n.goInt? with | some i => s!"some {i}" | none => "none"
      let x := match n.intValue? with
        | some i => if Num.inInt64 i then s!"some {i}" else "none"
        | none => "none"
      pure (" | ".intercalate [r, g, boolStr n.finite64, boolStr n.exact64, x])
    | _ => none
  | "parseb", [b] => do
    -- byte-level JSON grammar: `some <json enc>` / `none`
    let b ← bytesOfHex b
    pure (match Martian.JsonBytes.parseTop b with
      | some j => "some " ++ showJ j
      | none => "none")
  | "printb", [v] => do
    let v ← jOf v
    pure (hexOfBytes (Martian.JsonBytes.printJ v))
  | "filterb", [t, b] => do
    -- `FilterJson` on bytes: `<out bytes hex> <ferr>` / `none` (input is no JSON value)
    let t ← tyOf t
    let b ← bytesOfHex b
    -- third field: `noDupA` of the parsed document (hypothesis of filter_bytes_error_class) and, with it,
    -- whether the tree-level model reports the same error class
    pure (match Martian.JsonBytes.filterBytes t b, Martian.JsonBytes.parseTopA b with
      | some (o, e), some a => hexOfBytes o ++ " " ++ showFErr e ++ " nd=" ++ boolStr (Martian.JsonBytes.noDupA a) ++
          " cls=" ++ boolStr (e == (Martian.TypesR.filter t a.toJ).2)
      | _, _ => "none")
  | "assign", [d, s] => do
    let d ← tyOf d
    let s ← tyOf s
    let hs := (holes d s).eraseDups
    pure (" ".intercalate [boolStr (assignable d s), boolStr (noHole d s),
      if hs.isEmpty then "-" else ",".intercalate hs, boolStr (pureNarrow d s)])
  | "info", [t] => do
    let t ← tyOf t
    pure (" ".intercalate [showKind (fileKind t), boolStr (canFilter t), boolStr t.wf,
      toString (dims t).1, toString (dims t).2])
  | _, _ => none

end Driver.C17
