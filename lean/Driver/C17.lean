import Driver.Util

/-! Line-protocol handler for property C17 (stub: replaced when the model exists). -/
namespace Driver.C17

def handle (_op : String) (_args : List String) : Option String := none

end Driver.C17
