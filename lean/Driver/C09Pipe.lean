import Martian.FormatPipe
import Driver.Util
import Driver.C09Decl
import Driver.C09Call2

/-! Line-protocol handler for property C09, part Pipe: whole `pipeline` declarations (model
Martian.FormatPipe).

Word encoding of a pipeline (one field, words separated by one space):
`<hex id> <nin>` + the words of `nin` Params (Driver/C09Decl.lean, each with its `i|o` flag) +
`<nout>` + the words of `nout` Params + the body words (Driver/C09Call2.lean).

Ops:
  fmtpipeline <Pipeline>       → hex text of `fmtPipeline` (`Pipeline.format`: calls sorted)
  fmtpipeline-raw <Pipeline>   → hex text with the calls where they are
  parsepipeline <hex text>     → `some <Pipeline>` | `none`
  normpipeline <Pipeline>      → `<Pipeline>` (`normPipeline`)
  wfpipeline <Pipeline>        → `wf=<bool>`
  calledges <Pipeline>         → `err=<bool> cycle=<bool> <a-b,a-b,…|.>` (`depsError`, `callCycle`, `callEdges`)
-/
namespace Driver.C09
open Driver
open Martian.FormatDecl Martian.FormatCall2 Martian.FormatPipe

def encPipeline (p : Pipeline) : String :=
  " ".intercalate (hexOfBytes p.id :: toString p.ins.length :: p.ins.flatMap encParam ++
    toString p.outs.length :: p.outs.flatMap encParam ++ c2EncBody p.body)

def decPipeline (s : String) : Option Pipeline :=
  match s.splitOn " " with
  | i :: n :: ws => do
    let i ← bytesOfHex i
    let n ← n.toNat?
    let (ins, r) ← decParamList n ws
    match r with
    | m :: r1 => do
      let m ← m.toNat?
      let (outs, r2) ← decParamList m r1
      match c2DecBody r2 with
      | some (b, []) => pure ⟨i, ins, outs, b⟩
      | _ => none
    | [] => none
  | _ => none

def handlePipe (op : String) (args : List String) : Option String :=
  match op, args with
  | "fmtpipeline", [p] => do
    let p ← decPipeline p
    pure (hexOfBytes (fmtPipeline p))
  | "fmtpipeline-raw", [p] => do
    let p ← decPipeline p
    pure (hexOfBytes (fmtPipelineRaw p))
  | "parsepipeline", [s] => do
    let b ← bytesOfHex s
    match parsePipeline b with
    | some p => pure ("some " ++ encPipeline p)
    | none => pure "none"
  | "normpipeline", [p] => do
    let p ← decPipeline p
    pure (encPipeline (normPipeline p))
  | "wfpipeline", [p] => do
    let p ← decPipeline p
    pure ("wf=" ++ boolStr (wfPipeline p))
  | "calledges", [p] => do
    let p ← decPipeline p
    let es := callEdges p.body.calls
    pure ("err=" ++ boolStr (depsError p.id p.body.calls) ++ " cycle=" ++ boolStr (callCycle p.body.calls) ++ " " ++
      (if es.isEmpty then "." else ",".intercalate (es.map fun e => toString e.1 ++ "-" ++ toString e.2)))
  | _, _ => none

end Driver.C09
