import Driver.Util
import Martian.Vdr
import Martian.VdrFs
import Martian.VdrBuild
import Martian.VdrVal
import Martian.VdrEval
import Martian.VdrHyp
import Martian.VdrWalk

/-! Line-protocol handler for properties C04 / C14 (the VDR model).

Paths travel hex-encoded and are handled as byte strings (one `Char` per
byte, as the Go code compares strings byte-wise); argument and node names are
used in their hex form as opaque identifiers. -/
namespace Driver.C04
open Martian.Vdr Driver

def pathOfHex (s : String) : Option Path := do
  let b ← bytesOfHex s
  pure (b.map fun x => Char.ofNat x.toNat)

def hexOfPath (p : Path) : String := hexOfBytes (p.map fun c => UInt8.ofNat c.toNat)

def pathList (s : String) : Option (List Path) :=
  if s == "." then some [] else (s.splitOn ",").mapM pathOfHex

def idList (s : String) : List String := if s == "." then [] else s.splitOn ","

def pathLt (a b : Path) : Bool := decide (a < b)

def sortPaths (l : List Path) : List Path := l.mergeSort pathLe

def showPaths (l : List Path) : String :=
  if l.isEmpty then "." else ",".intercalate ((sortPaths l).map hexOfPath)

def sortStrs (l : List String) : List String := l.mergeSort (fun a b => !(decide (b < a)))

/-- `k=v1,v2;k=v1` -/
def parseAssoc (s : String) : Option (List (String × List String)) :=
  if s == "." then some [] else
  (s.splitOn ";").mapM fun kv =>
    match kv.splitOn "=" with
    | [k, v] => some (k, idList v)
    | _ => none

def parseArgPaths (s : String) : Option (List (Arg × List Path)) := do
  let l ← parseAssoc s
  l.mapM fun (k, vs) => do
    let ps ← vs.mapM pathOfHex
    pure (k, ps)

def parseKind (s : String) : Option Kind :=
  match s with
  | "t0" => some (.tmp 0)
  | "t1" => some (.tmp 1)
  | "t2" => some (.tmp 2)
  | "o" => some .out
  | "c" => some .chunk
  | _ => none

def parseDisk (s : String) : Option (List DiskEnt) :=
  if s == "." then some [] else
  (s.splitOn ";").mapM fun e =>
    match e.splitOn ":" with
    | [p, sz, k] => do
      let p ← pathOfHex p
      let sz ← sz.toNat?
      let k ← parseKind k
      pure { path := p, size := sz, kind := k }
    | [p, sz, k, alts] => do
      let p ← pathOfHex p
      let sz ← sz.toNat?
      let k ← parseKind k
      let alts ← pathList alts
      pure { path := p, size := sz, kind := k, alts := alts }
    | [p, sz, k, alts, h] => do
      let p ← pathOfHex p
      let sz ← sz.toNat?
      let k ← parseKind k
      let alts ← pathList alts
      let h ← h.toNat?
      pure { path := p, size := sz, kind := k, alts := alts, hash := h }
    | _ => none

def parseCache (s : String) : Option (Option (List Entry)) :=
  if s == "none" then some none
  else if s == "." then some (some [])
  else do
    let es ← (s.splitOn ";").mapM fun e =>
      match e.splitOn ":" with
      | [p, as, sz, n] => do
        let p ← pathOfHex p
        let sz ← sz.toNat?
        let n ← n.toNat?
        pure ({ path := p, args := idList as, size := sz, count := n } : Entry)
      | _ => none
    pure (some es)

def parseEv (s : String) : Option Ev :=
  match s.toList with
  | 'd' :: r => some (.nodeDone (String.ofList r))
  | 'f' :: r => some (.nodeFailed (String.ofList r))
  | 'r' :: r => some (.nodeReset (String.ofList r))
  | ['R'] => some .restart
  | ['e'] => some .removeEmpty
  | ['c'] => some .cacheMap
  | ['k'] => some .kill
  | 'y' :: r => (String.ofList r).toNat?.map .early
  | _ => none

def parseEvs (s : String) : Option (List Ev) :=
  if s == "." then some [] else (s.splitOn ",").mapM parseEv

def showHolder : Holder → String
  | none => "~"
  | some n => n

def showAssoc (l : List (String × List String)) : String :=
  if l.isEmpty then "." else
  ";".intercalate ((l.mergeSort (fun a b => !(decide (b.1 < a.1)))).map fun (k, vs) =>
    k ++ "=" ++ (if vs.isEmpty then "." else ",".intercalate (sortStrs vs)))

def showState (s : St) : String :=
  "final=" ++ boolStr s.final ++
  " removed=" ++ showPaths (s.removed.map (·.path)) ++
  " count=" ++ toString s.report.count ++
  " size=" ++ toString s.report.size ++
  " paths=" ++ showPaths (topLevel s.report.paths).eraseDups ++
  " kepthash=" ++ toString (((s.disk.map (·.hash)).sum) % 4294967296) ++
  " fileargs=" ++ showAssoc (s.fileArgs.map fun (a, hs) => (a, hs.map showHolder)) ++
  " postnodes=" ++ showAssoc s.postNodes

def parseEvents (s : String) : Option (List VEvent) :=
  if s == "." then some [] else
  (s.splitOn ",").mapM fun e =>
    match e.splitOn ":" with
    | [t, d] => do
      let t ← t.toNat?
      let d ← d.toInt?
      pure { ts := t, delta := d }
    | _ => none

def showEvents (l : List VEvent) : String :=
  if l.isEmpty then "." else ",".intercalate (l.map fun e => toString e.ts ++ ":" ++ toString e.delta)

def parseReport (s : String) : Option (Option KReport) :=
  if s == "nil" then some none else
  match s.splitOn "|" with
  | [st, c, sz, ps, evs] => do
    let st ← st.toNat?
    let c ← c.toNat?
    let sz ← sz.toNat?
    let ps ← pathList ps
    let evs ← parseEvents evs
    pure (some { stamp := st, count := c, size := sz, paths := ps, events := evs })
  | _ => none

def showReport (r : KReport) : String :=
  toString r.stamp ++ "|" ++ toString r.count ++ "|" ++ toString r.size ++ "|" ++
  (if r.paths.isEmpty then "." else ",".intercalate (r.paths.map hexOfPath)) ++ "|" ++ showEvents r.events

def parseFs (s : String) : Option (List FsEnt) :=
  if s == "." then some [] else
  (s.splitOn ";").mapM fun e =>
    match e.splitOn ":" with
    | [p, l] => do
      let p ← pathOfHex p
      let l ← if l == "~" then pure none else (pathOfHex l).map some
      pure { path := p, link := l }
    | _ => none


/-! ### the construction of the bookkeeping (Martian/VdrBuild.lean)

Prefix token notation, tokens separated by blanks, names hex-encoded:
types `P0 P1 U Z`, `A t`, `M t`, `S members` with members `m name t members | e`;
expressions `c`, `r node out`, `a elems`, `o elems` with elems `k key exp elems | e`,
`s0 exp` / `s1 exp` (split, array / map mode), `g exp` (merge), `d value disabled`;
bindings `b exp type bindings | e`; retains `t node out retains | e`;
trees `N`, `T id bindings retains rest`, `Q id top bindings children ret retains rest`. -/

def parseTy : Nat → List String → Option (Ty × List String)
  | 0, _ => none
  | _ + 1, "P0" :: r => some (.prim false, r)
  | _ + 1, "P1" :: r => some (.prim true, r)
  | _ + 1, "U" :: r => some (.umap, r)
  | _ + 1, "Z" :: r => some (.null, r)
  | _ + 1, "e" :: r => some (.mnil, r)
  | f + 1, "A" :: r => do let (t, r) ← parseTy f r; pure (.arr t, r)
  | f + 1, "M" :: r => do let (t, r) ← parseTy f r; pure (.tmap t, r)
  | f + 1, "S" :: r => do let (t, r) ← parseTy f r; pure (.struct t, r)
  | f + 1, "m" :: n :: r => do
    let (t, r) ← parseTy f r
    let (m, r) ← parseTy f r
    pure (.mcons n t m, r)
  | _, _ => none

def parseBExp : Nat → List String → Option (BExp × List String)
  | 0, _ => none
  | _ + 1, "c" :: r => some (.const, r)
  | _ + 1, "e" :: r => some (.nil, r)
  | _ + 1, "r" :: n :: o :: r => some (.ref n o, r)
  | f + 1, "a" :: r => do let (e, r) ← parseBExp f r; pure (.arr e, r)
  | f + 1, "o" :: r => do let (e, r) ← parseBExp f r; pure (.map e, r)
  | f + 1, "s0" :: r => do let (e, r) ← parseBExp f r; pure (.split false e, r)
  | f + 1, "s1" :: r => do let (e, r) ← parseBExp f r; pure (.split true e, r)
  | f + 1, "g" :: r => do let (e, r) ← parseBExp f r; pure (.merge e, r)
  | f + 1, "d" :: r => do
    let (v, r) ← parseBExp f r
    let (d, r) ← parseBExp f r
    pure (.disabled v d, r)
  | f + 1, "k" :: k :: r => do
    let (e, r) ← parseBExp f r
    let (m, r) ← parseBExp f r
    pure (.cons k e m, r)
  | _, _ => none

def parseBindings : Nat → List String → Option (List Binding × List String)
  | 0, _ => none
  | _ + 1, "e" :: r => some ([], r)
  | f + 1, "b" :: r => do
    let (e, r) ← parseBExp (f + 1) r
    let (t, r) ← parseTy (f + 1) r
    let (bs, r) ← parseBindings f r
    pure ((e, t) :: bs, r)
  | _, _ => none

def parseRetains : Nat → List String → Option (List (Node × Arg) × List String)
  | 0, _ => none
  | _ + 1, "e" :: r => some ([], r)
  | f + 1, "t" :: n :: a :: r => do
    let (rs, r) ← parseRetains f r
    pure ((n, a) :: rs, r)
  | _, _ => none

def parseTree : Nat → List String → Option (PTree × List String)
  | 0, _ => none
  | _ + 1, "N" :: r => some (.nil, r)
  | f + 1, "T" :: id :: r => do
    let (ins, r) ← parseBindings (f + 1) r
    let (ret, r) ← parseRetains (f + 1) r
    let (rest, r) ← parseTree f r
    pure (.stage id ins ret rest, r)
  | f + 1, "Q" :: id :: top :: r => do
    let (ins, r) ← parseBindings (f + 1) r
    let (ch, r) ← parseTree f r
    let (ret, r) ← parseBindings (f + 1) r
    let (rd, r) ← parseRetains (f + 1) r
    let (rest, r) ← parseTree f r
    pure (.pipe id (top == "1") ins ch ret rd rest, r)
  | _, _ => none

/-- values: `n` null, `x` number/boolean, `s hex` string, `a elems`, `o elems`,
elems `k hexkey value elems | e` -/
def parseVal : Nat → List String → Option (Val × List String)
  | 0, _ => none
  | _ + 1, "n" :: r => some (.null, r)
  | _ + 1, "x" :: r => some (.atom, r)
  | _ + 1, "e" :: r => some (.vnil, r)
  | _ + 1, "s" :: h :: r => do
    let b ← pathOfHex h
    pure (.str (String.ofList b), r)
  | f + 1, "a" :: r => do let (e, r) ← parseVal f r; pure (.arr e, r)
  | f + 1, "o" :: r => do let (e, r) ← parseVal f r; pure (.obj e, r)
  | f + 1, "k" :: k :: r => do
    let kb ← pathOfHex k
    let (v, r) ← parseVal f r
    let (m, r) ← parseVal f r
    pure (.vcons (String.ofList kb) v m, r)
  | _, _ => none

/-- recorded outputs: `v node out value … e` -/
def parseEnv : Nat → List String → Option (List (Node × Arg × Val) × List String)
  | 0, _ => none
  | _ + 1, "e" :: r => some ([], r)
  | f + 1, "v" :: n :: o :: r => do
    let (x, r) ← parseVal (f + 1) r
    let (m, r) ← parseEnv f r
    pure ((n, o, x) :: m, r)
  | _, _ => none

/-- directory trees: `N`, `F name size rest`, `L name target rest`, `D name children rest` -/
def parseFsTree : Nat → List String → Option (FsTree × List String)
  | 0, _ => none
  | _ + 1, "N" :: r => some (.nil, r)
  | f + 1, "F" :: n :: sz :: r => do
    let n ← pathOfHex n
    let sz ← sz.toNat?
    let (rest, r) ← parseFsTree f r
    pure (.file n sz rest, r)
  | f + 1, "L" :: n :: t :: r => do
    let n ← pathOfHex n
    let t ← pathOfHex t
    let (rest, r) ← parseFsTree f r
    pure (.link n t rest, r)
  | f + 1, "D" :: n :: r => do
    let n ← pathOfHex n
    let (ch, r) ← parseFsTree f r
    let (rest, r) ← parseFsTree f r
    pure (.dir n ch rest, r)
  | _, _ => none

def showWalk (l : List (Path × WKind)) : String :=
  if l.isEmpty then "." else
  ",".intercalate (sortStrs (l.map fun x => hexOfPath x.1 ++ ":" ++
    (match x.2 with | .file => "f" | .dir => "d" | .link => "l")))

def tokens (s : String) : List String := (s.splitOn " ").filter (· != "")

def showTRefs (l : List TRef) : String :=
  if l.isEmpty then "." else
  ",".intercalate (sortStrs (l.map fun r => r.1 ++ ":" ++ r.2.1 ++ ":" ++ (if r.2.2 then "1" else "0"))).eraseDups

def showTabs (ts : Tabs) : String :=
  let keys := (sortStrs (ts.map (·.1))).eraseDups
  if keys.isEmpty then "." else
  " ".intercalate (keys.map fun k =>
    let t := (ts.lookup k).getD {}
    k ++ "|" ++ showAssoc (t.fileArgs.map fun (a, hs) => (a, hs.map showHolder)) ++ "|" ++ showAssoc t.postNodes)

def handle (op : String) (args : List String) : Option String :=
  match op, args with
  | "trefs", [e, t] => do
    let te := tokens e
    let tt := tokens t
    let (e, r1) ← parseBExp (te.length + 1) te
    let (t, r2) ← parseTy (tt.length + 1) tt
    if !r1.isEmpty || !r2.isEmpty then none
    pure ((if wellTyped e t then "" else "illtyped ") ++ showTRefs (typedRefs e t))
  | "names", [v] => do
    let tv := tokens v
    let (v, r) ← parseVal (tv.length + 1) tv
    if !r.isEmpty then none
    pure (showPaths (v.names.map String.toList).eraseDups)
  | "build", [tr] => do
    let tk := tokens tr
    let (tree, r) ← parseTree (tk.length + 1) tk
    if !r.isEmpty then none
    let ops := opsOf tree
    pure ("wf=" ++ boolStr (wfOps [] [] ops) ++ " scoped=" ++ boolStr (scopedB [] tree).isSome ++ " " ++
      showTabs (build ops))
  | "walk", [root, node] => do
    let root ← pathOfHex root
    let tk := tokens node
    let (rn, t) ← match tk with
      | ["m"] => some (RootNode.missing, FsTree.nil)
      | ["f"] => some (RootNode.file 0, FsTree.nil)
      | ["l"] => some (RootNode.link [], FsTree.nil)
      | "d" :: r => do
        let (t, rest) ← parseFsTree (r.length + 1) r
        if !rest.isEmpty then none
        pure (RootNode.dir t, t)
      | _ => none
    pure ("wf=" ++ boolStr t.wf ++ " " ++ showWalk (walk root rn))
  | "hfs", [fs, nodeDirs, forkDir, jobDirs, root, tree] => do
    let fs ← parseFs fs
    let nodeDirs ← pathList nodeDirs
    let forkDir ← pathOfHex forkDir
    let jobDirs ← pathList jobDirs
    let root ← pathOfHex root
    let tk := tokens tree
    let (t, rest) ← parseFsTree (tk.length + 1) tk
    if !rest.isEmpty then none
    let chain := guardChain nodeDirs forkDir jobDirs
    pure ("wf=" ++ boolStr t.wf ++ " hfs=" ++ boolStr (hfsB fs chain root t) ++ " refused=" ++ boolStr (refusedBy fs chain))
  | "refused", [fs, chain] => do
    let fs ← parseFs fs
    let chain ← pathList chain
    pure (boolStr (refusedBy fs chain))
  | "reach", [e, env, v] => do
    let te := tokens e
    let tn := tokens env
    let tv := tokens v
    let (e, r1) ← parseBExp (te.length + 1) te
    let (entries, r2) ← parseEnv (tn.length + 1) tn
    let (v, r3) ← parseVal (tv.length + 1) tv
    if !r1.isEmpty || !r2.isEmpty || !r3.isEmpty then none
    let env : Env := fun n o => (entries.filter fun x => x.1 == n && x.2.1 == o).map (·.2.2)
    let ok := reach env e
    let miss := v.names.filter fun s => !ok.contains s
    pure (if miss.isEmpty then "ok" else "missing=" ++ showPaths (miss.map String.toList).eraseDups)
  | "clean", [p] => do
    let p ← pathOfHex p
    pure (hexOfPath (cleanAbs p))
  | "insideraw", [t, p] => do
    let t ← pathOfHex t
    let p ← pathOfHex p
    pure (boolStr (pathIsInsideRaw t p))
  | "overlapclean", [ns, fs] => do
    let ns ← pathList ns
    let fs ← pathList fs
    pure (boolStr (anyOverlap (ns.map cleanAbs) (fs.map cleanAbs)))
  | "logical", [fs, name] => do
    let fs ← parseFs fs
    let name ← pathOfHex name
    pure (showPaths (logicalNames fs name).eraseDups)
  | "inside", [t, p] => do
    let t ← pathOfHex t
    let p ← pathOfHex p
    pure (boolStr (pathIsInside t p))
  | "overlap", [ns, fs] => do
    let ns ← pathList ns
    let fs ← pathList fs
    pure (boolStr (anyOverlap ns fs))
  | "run", [flags, names, files, fargs, pnodes, cache, disk, ran, rep, done, evs] => do
    let fl := flags.toList
    let c : Cfg := {
      volatile := fl.getD 0 '0' == '1', strict := fl.getD 1 '0' == '1', splits := fl.getD 2 '0' == '1',
      argNames := ← parseArgPaths names, argFiles := ← parseArgPaths files }
    let fa ← parseAssoc fargs
    let pn ← parseAssoc pnodes
    let c : Cfg := { c with
      initArgs := fa.map fun (a, hs) => (a, hs.map fun h => if h == "~" then none else some h),
      initPost := pn }
    let cache ← parseCache cache
    let disk ← parseDisk disk
    let (cnt, sz) ← match rep.splitOn "|" with
      | [a, b] => do pure ((← a.toNat?), (← b.toNat?))
      | _ => none
    let s : St := {
      fileArgs := fa.map fun (a, hs) => (a, hs.map fun h => if h == "~" then none else some h),
      postNodes := pn, cache := cache, disk := disk,
      ran := (if ran == "." then [] else ran.toList.map fun ch => ch.toNat - 48),
      report := { count := cnt, size := sz }, doneNodes := idList done }
    let evs ← parseEvs evs
    -- the decidable hypotheses of the theorems, evaluated on the replayed state
    let b := fun (x : Bool) => if x then "1" else "0"
    pure (showState (run c s evs) ++ " hyp=" ++ b (cfgOKB c s) ++ b (pathKindsB s.disk) ++ b (sepB s.disk) ++
      b (linksTopB s.disk) ++ b (s.disk.all fun d => cleanAbs d.path == d.path))
  | "mergeevents", [evs] => do
    let evs ← parseEvents evs
    pure (showEvents (mergeEvents evs))
  | "merge", [rs] => do
    let rs ← (rs.splitOn ";").mapM parseReport
    pure (showReport (mergeReports rs))
  | _, _ => none

end Driver.C04
