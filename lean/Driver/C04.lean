import Driver.Util
import Martian.Vdr
import Martian.VdrFs

/-! Line-protocol handler for properties C04 / C14 (the VDR model).

Paths travel hex-encoded and are handled as byte strings (one `Char` per
byte, as the Go code compares strings byte-wise); argument and node names are
used in their hex form as opaque identifiers. -/
namespace Driver.C04
open Martian.Vdr Driver

def pathOfHex (s : String) : Option Path := do
  let b ← bytesOfHex s
  pure (b.map fun x => Char.ofNat x.toNat)

def hexOfPath (p : Path) : String := hexOfBytes (p.map fun c => UInt8.ofNat c.toNat)

def pathList (s : String) : Option (List Path) :=
  if s == "." then some [] else (s.splitOn ",").mapM pathOfHex

def idList (s : String) : List String := if s == "." then [] else s.splitOn ","

def pathLt (a b : Path) : Bool := decide (a < b)

def sortPaths (l : List Path) : List Path := l.mergeSort pathLe

def showPaths (l : List Path) : String :=
  if l.isEmpty then "." else ",".intercalate ((sortPaths l).map hexOfPath)

def sortStrs (l : List String) : List String := l.mergeSort (fun a b => !(decide (b < a)))

/-- `k=v1,v2;k=v1` -/
def parseAssoc (s : String) : Option (List (String × List String)) :=
  if s == "." then some [] else
  (s.splitOn ";").mapM fun kv =>
    match kv.splitOn "=" with
    | [k, v] => some (k, idList v)
    | _ => none

def parseArgPaths (s : String) : Option (List (Arg × List Path)) := do
  let l ← parseAssoc s
  l.mapM fun (k, vs) => do
    let ps ← vs.mapM pathOfHex
    pure (k, ps)

def parseKind (s : String) : Option Kind :=
  match s with
  | "t0" => some (.tmp 0)
  | "t1" => some (.tmp 1)
  | "t2" => some (.tmp 2)
  | "o" => some .out
  | "c" => some .chunk
  | _ => none

def parseDisk (s : String) : Option (List DiskEnt) :=
  if s == "." then some [] else
  (s.splitOn ";").mapM fun e =>
    match e.splitOn ":" with
    | [p, sz, k] => do
      let p ← pathOfHex p
      let sz ← sz.toNat?
      let k ← parseKind k
      pure { path := p, size := sz, kind := k }
    | [p, sz, k, alts] => do
      let p ← pathOfHex p
      let sz ← sz.toNat?
      let k ← parseKind k
      let alts ← pathList alts
      pure { path := p, size := sz, kind := k, alts := alts }
    | _ => none

def parseCache (s : String) : Option (Option (List Entry)) :=
  if s == "none" then some none
  else if s == "." then some (some [])
  else do
    let es ← (s.splitOn ";").mapM fun e =>
      match e.splitOn ":" with
      | [p, as, sz, n] => do
        let p ← pathOfHex p
        let sz ← sz.toNat?
        let n ← n.toNat?
        pure ({ path := p, args := idList as, size := sz, count := n } : Entry)
      | _ => none
    pure (some es)

def parseEv (s : String) : Option Ev :=
  match s.toList with
  | 'd' :: r => some (.nodeDone (String.ofList r))
  | ['e'] => some .removeEmpty
  | ['c'] => some .cacheMap
  | ['k'] => some .kill
  | 'y' :: r => (String.ofList r).toNat?.map .early
  | _ => none

def parseEvs (s : String) : Option (List Ev) :=
  if s == "." then some [] else (s.splitOn ",").mapM parseEv

def showHolder : Holder → String
  | none => "~"
  | some n => n

def showAssoc (l : List (String × List String)) : String :=
  if l.isEmpty then "." else
  ";".intercalate ((l.mergeSort (fun a b => !(decide (b.1 < a.1)))).map fun (k, vs) =>
    k ++ "=" ++ (if vs.isEmpty then "." else ",".intercalate (sortStrs vs)))

def showState (s : St) : String :=
  "final=" ++ boolStr s.final ++
  " removed=" ++ showPaths (s.removed.map (·.path)) ++
  " count=" ++ toString s.report.count ++
  " size=" ++ toString s.report.size ++
  " paths=" ++ showPaths (topLevel s.report.paths).eraseDups ++
  " fileargs=" ++ showAssoc (s.fileArgs.map fun (a, hs) => (a, hs.map showHolder)) ++
  " postnodes=" ++ showAssoc s.postNodes

def parseEvents (s : String) : Option (List VEvent) :=
  if s == "." then some [] else
  (s.splitOn ",").mapM fun e =>
    match e.splitOn ":" with
    | [t, d] => do
      let t ← t.toNat?
      let d ← d.toInt?
      pure { ts := t, delta := d }
    | _ => none

def showEvents (l : List VEvent) : String :=
  if l.isEmpty then "." else ",".intercalate (l.map fun e => toString e.ts ++ ":" ++ toString e.delta)

def parseReport (s : String) : Option (Option KReport) :=
  if s == "nil" then some none else
  match s.splitOn "|" with
  | [st, c, sz, ps, evs] => do
    let st ← st.toNat?
    let c ← c.toNat?
    let sz ← sz.toNat?
    let ps ← pathList ps
    let evs ← parseEvents evs
    pure (some { stamp := st, count := c, size := sz, paths := ps, events := evs })
  | _ => none

def showReport (r : KReport) : String :=
  toString r.stamp ++ "|" ++ toString r.count ++ "|" ++ toString r.size ++ "|" ++
  (if r.paths.isEmpty then "." else ",".intercalate (r.paths.map hexOfPath)) ++ "|" ++ showEvents r.events

def parseFs (s : String) : Option (List FsEnt) :=
  if s == "." then some [] else
  (s.splitOn ";").mapM fun e =>
    match e.splitOn ":" with
    | [p, l] => do
      let p ← pathOfHex p
      let l ← if l == "~" then pure none else (pathOfHex l).map some
      pure { path := p, link := l }
    | _ => none

def handle (op : String) (args : List String) : Option String :=
  match op, args with
  | "clean", [p] => do
    let p ← pathOfHex p
    pure (hexOfPath (cleanAbs p))
  | "insideraw", [t, p] => do
    let t ← pathOfHex t
    let p ← pathOfHex p
    pure (boolStr (pathIsInsideRaw t p))
  | "overlapclean", [ns, fs] => do
    let ns ← pathList ns
    let fs ← pathList fs
    pure (boolStr (anyOverlap (ns.map cleanAbs) (fs.map cleanAbs)))
  | "logical", [fs, name] => do
    let fs ← parseFs fs
    let name ← pathOfHex name
    pure (showPaths (logicalNames fs name).eraseDups)
  | "inside", [t, p] => do
    let t ← pathOfHex t
    let p ← pathOfHex p
    pure (boolStr (pathIsInside t p))
  | "overlap", [ns, fs] => do
    let ns ← pathList ns
    let fs ← pathList fs
    pure (boolStr (anyOverlap ns fs))
  | "run", [flags, names, files, fargs, pnodes, cache, disk, ran, rep, done, evs] => do
    let fl := flags.toList
    let c : Cfg := {
      volatile := fl.getD 0 '0' == '1', strict := fl.getD 1 '0' == '1', splits := fl.getD 2 '0' == '1',
      argNames := ← parseArgPaths names, argFiles := ← parseArgPaths files }
    let fa ← parseAssoc fargs
    let pn ← parseAssoc pnodes
    let cache ← parseCache cache
    let disk ← parseDisk disk
    let (cnt, sz) ← match rep.splitOn "|" with
      | [a, b] => do pure ((← a.toNat?), (← b.toNat?))
      | _ => none
    let s : St := {
      fileArgs := fa.map fun (a, hs) => (a, hs.map fun h => if h == "~" then none else some h),
      postNodes := pn, cache := cache, disk := disk,
      ran := (if ran == "." then [] else ran.toList.map fun ch => ch.toNat - 48),
      report := { count := cnt, size := sz }, doneNodes := idList done }
    let evs ← parseEvs evs
    pure (showState (run c s evs))
  | "mergeevents", [evs] => do
    let evs ← parseEvents evs
    pure (showEvents (mergeEvents evs))
  | "merge", [rs] => do
    let rs ← (rs.splitOn ";").mapM parseReport
    pure (showReport (mergeReports rs))
  | _, _ => none

end Driver.C04
