import Martian.Lexer
import Martian.Regex
import Martian.Tokenizer
import Gen.Facts
import Driver.Util

/-! Line-protocol handler for property C08 (lexer → converter contract). -/
namespace Driver.C08
open Martian.Lexer Driver

/-- which float rule the current source has (regenerated regex string) -/
def colonRule : Bool := Gen.tokFloatRegex == floatRuleSrcColon

def optTok : Option Bytes → String
  | some t => "some " ++ hexOfBytes t
  | none => "none"

def numTokStr : NumTok → String
  | .float t => "float " ++ hexOfBytes t
  | .int t => "int " ++ hexOfBytes t
  | .invalid t => "invalid " ++ hexOfBytes t
  | .nomatch => "nomatch"

def actionStr : Action (Bytes × List Bytes) → String
  | .ok (p, args) => "ok " ++ hexOfBytes p ++ " " ++ hexList args
  | .error => "error"
  | .panic => "panic"

def listStr (xs : List String) : String :=
  if xs.isEmpty then "." else " ".intercalate xs

/-- `C08.lex`: the token stream, the comment blocks and the final position of
the model's scanner loop -/
def lexStr (b : Bytes) : String :=
  let raw := Martian.Tokenizer.lexAllRaw b
  let T := Martian.Tokenizer.genTables
  let toks := raw.1.filter fun t => !Martian.Tokenizer.isTrivia T t.id
  let cms := (raw.1.filter fun t => t.id != Martian.Tokenizer.skipId T && t.id == Martian.Tokenizer.commentId T).map
    fun t => (t.line, t.col, Martian.Tokenizer.trimRight t.text.length t.text)
  listStr (toks.map fun t => s!"{t.id}:{hexOfBytes t.text}:{t.line}:{t.col}") ++ " | " ++
  listStr (cms.map fun c => s!"{c.1}:{c.2.1}:{hexOfBytes c.2.2}") ++ " | " ++
  toString (b.length - raw.2.length)

def handle (op : String) (args : List String) : Option String :=
  match op, args with
  | "rules", [] =>
    pure (boolStr (Gen.tokIntRegex == intRuleSrc) ++ " " ++
          boolStr (Gen.tokFloatRegex == floatRuleSrc) ++ " " ++
          boolStr (Gen.tokFloatRegex == floatRuleSrcColon) ++ " " ++
          boolStr (Gen.tokStringRegex == stringRuleSrc))
  | "int", [s] => do
    let b ← bytesOfHex s
    pure (optTok (matchInt b))
  | "float", [s] => do
    let b ← bytesOfHex s
    pure (optTok (matchFloat colonRule b))
  | "string", [s] => do
    let b ← bytesOfHex s
    pure (optTok (matchString b))
  | "parseint", [s] => do
    let b ← bytesOfHex s
    match parseInt b with
    | some v => pure ("some " ++ toString v)
    | none => pure "panic"
  | "parsefloat", [bits, s] => do
    let b ← bytesOfHex s
    match parseFloat (bits == "32") b with
    | some _ => pure "ok"
    | none => pure "panic"
  | "unquote", [s] => do
    let b ← bytesOfHex s
    match unquoteBytes b with
    | some v => pure ("some " ++ hexOfBytes v)
    | none => pure "panic"
  | "numtok", [s] => do
    let b ← bytesOfHex s
    pure (numTokStr (numTok colonRule b))
  | "numtok0", [s] => do
    let b ← bytesOfHex s
    pure (numTokStr (numTokUnchecked colonRule b))
  | "src", [s] => do
    let b ← bytesOfHex s
    pure (actionStr (srcAction b))
  | "src0", [s] => do
    let b ← bytesOfHex s
    pure (actionStr (srcActionUnchecked b))
  -- generic regex matcher on a regex SOURCE text (hex) and an input
  | "re", [src, s] => do
    let rs ← bytesOfHex src
    let b ← bytesOfHex s
    match Martian.Regex.parseCodes (rs.map UInt8.toNat) with
    | none => pure "bad"
    | some r => pure (optTok (Martian.Regex.pmatch r b))
  -- the regenerated rule regexes through the generic matcher
  | "rule", [name, s] => do
    let b ← bytesOfHex s
    let src ← (match name with
      | "int" => some Gen.tokIntRegex
      | "float" => some Gen.tokFloatRegex
      | "string" => some Gen.tokStringRegex
      | "id" => some Gen.tokIdRegex
      | _ => none)
    match Martian.Regex.parse src with
    | none => pure "bad"
    | some r => pure (optTok (Martian.Regex.pmatch r b))
  -- the whole tokenizer: token stream of the scanner loop / one nextToken call
  | "lex", [s] => do
    let b ← bytesOfHex s
    pure (lexStr b)
  -- the regenerated token constants, `NAME=id` joined by spaces
  | "tokids", [] =>
    pure (listStr (Gen.tokIds.map fun (n, i) => n ++ "=" ++ toString i))
  | "next", [s] => do
    let b ← bytesOfHex s
    let nt := Martian.Tokenizer.nextToken b
    pure (toString nt.1 ++ " " ++ hexOfBytes nt.2)
  | _, _ => none

end Driver.C08
