import Martian.Lexer
import Martian.Regex
import Martian.LexerId
import Martian.FormatExp
import Martian.LexerLRGen
import Martian.LexerLRSem
import Martian.Tokenizer
import Martian.LexerActions
import Gen.Facts
import Driver.Util

/-! Line-protocol handler for property C08 (lexer → converter contract). -/
namespace Driver.C08
open Martian.Lexer Driver

/-- which float rule the current source has (regenerated regex string) -/
def colonRule : Bool := Gen.tokFloatRegex == floatRuleSrcColon

def optTok : Option Bytes → String
  | some t => "some " ++ hexOfBytes t
  | none => "none"

def numTokStr : NumTok → String
  | .float t => "float " ++ hexOfBytes t
  | .int t => "int " ++ hexOfBytes t
  | .invalid t => "invalid " ++ hexOfBytes t
  | .nomatch => "nomatch"

def actionStr : Action (Bytes × List Bytes) → String
  | .ok (p, args) => "ok " ++ hexOfBytes p ++ " " ++ hexList args
  | .error => "error"
  | .panic => "panic"

def listStr (xs : List String) : String :=
  if xs.isEmpty then "." else " ".intercalate xs

/-- `C08.lex`: the token stream, the comment blocks and the final position of
the model's scanner loop -/
def lexStr (b : Bytes) : String :=
  let raw := Martian.Tokenizer.lexAllRaw b
  let T := Martian.Tokenizer.genTables
  let toks := raw.1.filter fun t => !Martian.Tokenizer.isTrivia T t.id
  let cms := (raw.1.filter fun t => t.id != Martian.Tokenizer.skipId T && t.id == Martian.Tokenizer.commentId T).map
    fun t => (t.line, t.col, Martian.Tokenizer.trimRight t.text.length t.text)
  listStr (toks.map fun t => s!"{t.id}:{hexOfBytes t.text}:{t.line}:{t.col}") ++ " | " ++
  listStr (cms.map fun c => s!"{c.1}:{c.2.1}:{hexOfBytes c.2.2}") ++ " | " ++
  toString (b.length - raw.2.length)

/-! action level (`Martian.LexerActions`) -/
open Martian.LexerActions in
def siteOf : String → Option Site
  | "float32" => some .float32 | "threads" => some .threads | "mem_gb" => some .memGb | "vmem_gb" => some .vmemGb
  | "special" => some .special | "include" => some .incl | "help" => some .help | "outname" => some .outName
  | "mapkey" => some .mapKey | "src" => some .src | "valexp" => some .valExp
  | _ => none

open Martian.LexerActions in
def kindOf : String → Option Kind
  | "NUM_INT" => some .numInt | "NUM_FLOAT" => some .numFloat | "LITSTRING" => some .litString
  | _ => none

open Martian.LexerActions in
def valStr : Val → String
  | .int i => "int " ++ toString i
  | .float _ => "float"
  | .f32 (some i) => "f32 " ++ toString i
  | .f32 none => "f32 ?"
  | .str b => "str " ++ hexOfBytes b
  | .src p args => "src " ++ hexOfBytes p ++ " " ++ hexList args

def actValStr : Action Martian.LexerActions.Val → String
  | .ok v => "ok " ++ valStr v
  | .error => "error"
  | .panic => "panic"

def actIntStr : Action Int → String
  | .ok v => "ok " ++ toString v
  | .error => "error"
  | .panic => "panic"

/-! Comparison of C09's reduced tokenizer model (`Martian.FormatExp.lexAll`, value expressions
only) with the full tokenizer model. -/

def nameOfId (id : Nat) : String :=
  match Gen.tokIds.find? (fun p => p.2 == id) with
  | some p => p.1
  | none => ""

/-- the `FormatExp.Tok` a token of the full model corresponds to; `none` = the
reduced model has no such token (`@include`, INVALID) -/
def toFx (t : Martian.Tokenizer.Tok) : Option Martian.FormatExp.Tok :=
  if t.id < 128 then some (.punct (UInt8.ofNat t.id))
  else
    let n := nameOfId t.id
    if n == "LITSTRING" then some (.str t.text)
    else if n == "NUM_INT" then some (.int t.text)
    else if n == "NUM_FLOAT" then some (.float t.text)
    else if n == "ID" then some (.id t.text)
    else if n == "TRUE" then some .kTrue
    else if n == "FALSE" then some .kFalse
    else if n == "NULL" then some .kNull
    else if n == "SELF" then some .kSelf
    else if n == "DEFAULT" then some .kDefault
    else if n == "INVALID" || n == "" then none
    else if n == "INCLUDE_DIRECTIVE" then some (.reserved t.text)
    else if Martian.FormatExp.idTokens.contains n then some (.id t.text)
    else some (.reserved t.text)

/-- what the reduced model should return according to the full model -/
def fxExpected (src : Bytes) : Option (List Martian.FormatExp.Tok) :=
  (Martian.Tokenizer.lexAll src).mapM toFx

/-- is there a byte ≥ 0x80 outside the string literals (per the full model's
token stream, trivia and the unconsumed rest included)?  The reduced model
declares such input invalid; the code accepts Unicode white space there and
ends a comment before a rune decoding to U+FFFD. -/
def nonAsciiOutsideStrings (src : Bytes) : Bool :=
  let raw := Martian.Tokenizer.lexAllRaw src
  raw.2.any (· ≥ 0x80) ||
  raw.1.any fun t => nameOfId t.id != "LITSTRING" && t.text.any (· ≥ 0x80)

/-- the debug line of the real loop for one event, normalised as the hook does -/
def evStr : Martian.LexerLR.Event → String
  | .push s => "P" ++ toString s
  | .lex tok ch => "L" ++ toString tok ++ "/" ++ toString ch
  | .reduce n s => "R" ++ toString n ++ "@" ++ toString s
  | .err s tok => "E" ++ toString s ++ "/" ++ toString tok
  | .pop s => "X" ++ toString s
  | .discard tok => "D" ++ toString tok

def handle (op : String) (args : List String) : Option String :=
  match op, args with
  -- scanner + parser driver: the event trace, the result and the error position
  | "parse", [s, k] => do
    let b ← bytesOfHex s
    let fail : Nat → Bool := match k.toNat? with
      | some n => fun i => i == n
      | none => fun _ => false
    let r := Martian.LexerLR.parseSource fail b
    let evs := " ".intercalate (r.2.map evStr)
    match r.1 with
    | .accept => pure (evs ++ " =0")
    | .actionError => pure (evs ++ " =1")
    | .syntaxError i =>
      let p := Martian.LexerLR.posOf b i
      pure (evs ++ " =1 @" ++ toString p.1 ++ ":" ++ toString p.2)
    | .panic => pure (evs ++ " PANIC")
    | .outOfFuel => pure (evs ++ " OUT-OF-FUEL")
  -- the goyacc model with semantic values vs x-c09's recursive-descent reader, on the tokens of a source
  | "lrcmp", [s] => do
    let b ← bytesOfHex s
    match Martian.FormatExp.lexAll b with
    | none => pure "nolex"
    | some ts =>
      let a := Martian.LexerLR.parseLR ts
      let r := Martian.FormatExp.parseToks ts
      let sa := toString (repr a)
      let sr := toString (repr r)
      if sa == sr then pure ("same " ++ (if a.isSome then "some" else "none") ++ " " ++ toString ts.length)
      else pure ("differ LR=" ++ (sa.replace "\n" " ") ++ " READER=" ++ (sr.replace "\n" " "))
  | "failprods", [] => pure (" ".intercalate (Gen.mmFailProds.map toString))
  -- FormatExp.lexAll (C09's reduced tokenizer) vs the full tokenizer model
  | "fxcmp", [s] => do
    let b ← bytesOfHex s
    let same := Martian.FormatExp.lexAll b == fxExpected b
    pure ((if same then "same" else "differ") ++ " " ++ boolStr (nonAsciiOutsideStrings b) ++ " " ++
      (match Martian.FormatExp.lexAll b with | some l => toString l.length | none => "none") ++ " " ++
      (match fxExpected b with | some l => toString l.length | none => "none"))
  -- the hand-written identifier recogniser
  | "id", [s] => do
    let b ← bytesOfHex s
    pure (optTok (matchId b))
  -- every rune in [0x80, 0x10FFFF] the model takes for white space
  -- the productions whose semantic action can abort the parse (regenerated fact)
  -- mmLast mmPrivate mmFlag, number of states and of productions (regenerated facts)
  | "lrconsts", [] =>
    pure (s!"{Gen.mmLast} {Gen.mmPrivate} {Gen.mmFlag} " ++
      toString (Gen.mmPact.foldl (fun a l => a + l.length) 0) ++ " " ++
      toString (Gen.mmR1.foldl (fun a l => a + l.length) 0))
  | "unispaces", [] =>
    pure (" ".intercalate (((List.range 0x110000).filter fun r => r ≥ 0x80 && Martian.Tokenizer.isUniSpace r).map
      fun r => String.ofList (Nat.toDigits 16 r)))
  | "rules", [] =>
    pure (boolStr (Gen.tokIntRegex == intRuleSrc) ++ " " ++
          boolStr (Gen.tokFloatRegex == floatRuleSrc) ++ " " ++
          boolStr (Gen.tokFloatRegex == floatRuleSrcColon) ++ " " ++
          boolStr (Gen.tokStringRegex == stringRuleSrc))
  | "int", [s] => do
    let b ← bytesOfHex s
    pure (optTok (matchInt b))
  | "float", [s] => do
    let b ← bytesOfHex s
    pure (optTok (matchFloat colonRule b))
  | "string", [s] => do
    let b ← bytesOfHex s
    pure (optTok (matchString b))
  | "parseint", [s] => do
    let b ← bytesOfHex s
    match parseInt b with
    | some v => pure ("some " ++ toString v)
    | none => pure "panic"
  | "parsefloat", [bits, s] => do
    let b ← bytesOfHex s
    match parseFloat (bits == "32") b with
    | some _ => pure "ok"
    | none => pure "panic"
  | "unquote", [s] => do
    let b ← bytesOfHex s
    match unquoteBytes b with
    | some v => pure ("some " ++ hexOfBytes v)
    | none => pure "panic"
  | "numtok", [s] => do
    let b ← bytesOfHex s
    pure (numTokStr (numTok colonRule b))
  | "numtok0", [s] => do
    let b ← bytesOfHex s
    pure (numTokStr (numTokUnchecked colonRule b))
  | "src", [s] => do
    let b ← bytesOfHex s
    pure (actionStr (srcAction b))
  | "src0", [s] => do
    let b ← bytesOfHex s
    pure (actionStr (srcActionUnchecked b))
  -- generic regex matcher on a regex SOURCE text (hex) and an input
  | "re", [src, s] => do
    let rs ← bytesOfHex src
    let b ← bytesOfHex s
    match Martian.Regex.parseCodes (rs.map UInt8.toNat) with
    | none => pure "bad"
    | some r => pure (optTok (Martian.Regex.pmatch r b))
  -- the regenerated rule regexes through the generic matcher
  | "rule", [name, s] => do
    let b ← bytesOfHex s
    let src ← (match name with
      | "int" => some Gen.tokIntRegex
      | "float" => some Gen.tokFloatRegex
      | "string" => some Gen.tokStringRegex
      | "id" => some Gen.tokIdRegex
      | _ => none)
    match Martian.Regex.parse src with
    | none => pure "bad"
    | some r => pure (optTok (Martian.Regex.pmatch r b))
  -- the whole tokenizer: token stream of the scanner loop / one nextToken call
  | "lex", [s] => do
    let b ← bytesOfHex s
    pure (lexStr b)
  -- the regenerated token constants, `NAME=id` joined by spaces
  | "tokids", [] =>
    pure (listStr (Gen.tokIds.map fun (n, i) => n ++ "=" ++ toString i))
  | "next", [s] => do
    let b ← bytesOfHex s
    let nt := Martian.Tokenizer.nextToken b
    pure (toString nt.1 ++ " " ++ hexOfBytes nt.2)
  -- action level: `act <site> <kind> <hex token>`; `arr <number of [] pairs>`; `mapdim <inner dims>`;
  -- `f32u <hex>` = float_32 on a NUM_FLOAT written with the panicking converter
  | "act", [site, kind, s] => do
    let st ← siteOf site
    let k ← kindOf kind
    let b ← bytesOfHex s
    pure (actValStr (Martian.LexerActions.act st k b))
  | "f32u", [s] => do
    let b ← bytesOfHex s
    pure (actValStr (Martian.LexerActions.Action.map .f32 (Martian.LexerActions.float32FloatUnchecked b)))
  | "arr", [n] => do
    let k ← n.toNat?
    pure (actIntStr (Martian.LexerActions.arrList k))
  | "arr0", [n] => do
    let k ← n.toNat?
    pure (actIntStr (Martian.LexerActions.arrListUnguarded k))
  | "mapdim", [n] => do
    let k ← n.toNat?
    pure (actIntStr (Martian.LexerActions.mapDim k))
  | "mapdim0", [n] => do
    let k ← n.toNat?
    pure (toString (Martian.LexerActions.mapDimUnguarded k))
  | _, _ => none

end Driver.C08
