import Martian.FormatDeclText
import Driver.Util
import Driver.C09Decl
import Driver.C09Stage

/-!
Line-protocol ops of C09 for the exception hypotheses of section
`AcceptedDeclTexts` (Props/C09.lean; model: Martian/FormatDeclText.lean),
evaluated by the harness on what the REAL parser returns for accepted texts.
Codecs: Driver/C09Decl.lean (`<Struct>`, `<Params>`), Driver/C09Stage.lean
(`<Stage>`).

Ops:
  declstrsvalid <Struct>    → `valid=<bool>`                      (`declStrsValid`: F6b)
  paramsstrsvalid <Params>  → `valid=<bool>`                      (`paramsStrsValid`: F6b)
  stagestrsvalid <Stage>    → `strs=<bool> mb=<bool> mb32=<bool> raw=<bool>`  (`stageStrsValid`: F6b,
                                `stageMBValid`: F25, `stageMB32Valid`: F29, `stageRaw`: the range
                                of the reader)
  parsestagedecl32 <hex text> → `some <Stage>` | `none`  (`parseStage32`: `mem_gb` / `vmem_gb`
                                through the float32 rounding of the literal, as the real parser)
-/
namespace Driver.C09
open Driver

def handleDeclText (op : String) (args : List String) : Option String :=
  match op, args with
  | "declstrsvalid", [s] => do
    let s ← decStruct s
    pure ("valid=" ++ boolStr (Martian.FormatDecl.declStrsValid s))
  | "paramsstrsvalid", [ps] => do
    let ps ← decParams ps
    pure ("valid=" ++ boolStr (Martian.FormatDecl.paramsStrsValid ps))
  | "stagestrsvalid", [s] => do
    let s ← decStage s
    pure ("strs=" ++ boolStr (Martian.FormatStage.stageStrsValid s) ++
      " mb=" ++ boolStr (Martian.FormatStage.stageMBValid s) ++
      " mb32=" ++ boolStr (Martian.FormatStage.stageMB32Valid s) ++
      " raw=" ++ boolStr (Martian.FormatStage.stageRaw s))
  | "parsestagedecl32", [t] => do
    let b ← bytesOfHex t
    match Martian.FormatStage.parseStage32 b with
    | some s => pure ("some " ++ encStage s)
    | none => pure "none"
  | _, _ => none

end Driver.C09
