import Martian.FormatFile
import Driver.Util
import Driver.C09Decl
import Driver.C09Call2
import Driver.C09Stage
import Driver.C09Pipe

/-! Line-protocol handler for property C09, part File: a whole comment-free MRO file (model
Martian.FormatFile).

A file or a source travels as a list of ITEMS, one per TAB-separated field; the first character
of an item says what it is, the rest is the encoding of the part:
  `I<hex path>`          an `@include` directive
  `T<hex list>`          a filetype (the components of its id, Driver/C09Decl.lean)
  `S<Struct>`            a struct (Driver/C09Decl.lean)
  `G<Stage>`             a stage (Driver/C09Stage.lean)
  `P<Pipeline>`          a pipeline (Driver/C09Pipe.lean)
  `C<call words>`        the top-level call (Driver/C09Call2.lean)
The items of a request are in SOURCE order: include items, then declaration items in any order
of the four kinds, then at most one call item (anything else: `bad-op`).  A `File` in a reply is
the items of its includes, filetypes, structs, callables (in `Callables.List` order) and call.

Ops:
  fmtfile <item>…                  → hex text of `fmtFile (distribute …)` (`Ast.format(true)`)
  fmtsource <0|1> <hexlist> <item>… → hex text of `fmtSource raw w …`: the pieces in source order,
                                     piece `k` followed by the `k`-th element of the hex list (white
                                     space; nothing when the list is shorter); `1` = the calls of
                                     the pipelines in source order as well
  parsefile <hex text>             → `some` TAB `<item>`… | `none`   (`parseFile`)
  normfile <item>…                 → `<item>`… of `normFile (distribute …)`
  wffile <item>…                   → `wf=<bool>` (`wfSource` = `wfFile (distribute …)`)
-/
namespace Driver.C09
open Driver
open Martian.FormatDecl Martian.FormatCall2 Martian.FormatStage Martian.FormatPipe Martian.FormatFile

inductive FileItem
  | inc (p : List UInt8)
  | dec (d : Decl)
  | call (c : Call2)

def decFileItem (s : String) : Option FileItem :=
  match s.toList with
  | 'I' :: r => (bytesOfHex (String.ofList r)).map .inc
  | 'T' :: r => (parseHexList (String.ofList r)).map fun t => .dec (.filetype ⟨t⟩)
  | 'S' :: r => (decStruct (String.ofList r)).map fun x => .dec (.struct x)
  | 'G' :: r => (decStage (String.ofList r)).map fun x => .dec (.stage x)
  | 'P' :: r => (decPipeline (String.ofList r)).map fun x => .dec (.pipeline x)
  | 'C' :: r => (c2Call (String.ofList r)).map .call
  | _ => none

/-- includes, then declarations, then at most one call -/
def splitItems : List FileItem → Option (List (List UInt8) × List Decl × Option Call2)
  | .inc p :: r =>
    match splitItems r with
    | some (is, ds, c) => some (p :: is, ds, c)
    | none => none
  | r =>
    let rec decls : List FileItem → Option (List Decl × Option Call2)
      | [] => some ([], none)
      | [.call c] => some ([], some c)
      | .dec d :: r =>
        match decls r with
        | some (ds, c) => some (d :: ds, c)
        | none => none
      | _ => none
    (decls r).map fun (ds, c) => ([], ds, c)

def decSource (items : List String) : Option (List (List UInt8) × List Decl × Option Call2) := do
  let xs ← items.mapM decFileItem
  splitItems xs

def encCallable : Callable → String
  | .stage s => "G" ++ encStage s
  | .pipeline p => "P" ++ encPipeline p

def encFile (f : File) : String :=
  "\t".intercalate (f.includes.map (fun p => "I" ++ hexOfBytes p) ++
    f.filetypes.map (fun t => "T" ++ hexList t.id) ++
    f.structs.map (fun s => "S" ++ encStruct s) ++
    f.callables.map encCallable ++
    (match f.call with | some c => ["C" ++ c2Words (c2EncCall c)] | none => []))

def handleFile (op : String) (args : List String) : Option String :=
  match op, args with
  | "fmtfile", items => do
    let (is, ds, c) ← decSource items
    pure (hexOfBytes (fmtFile (distribute is ds c)))
  | "fmtsource", raw :: w :: items => do
    let ws ← parseHexList w
    let (is, ds, c) ← decSource items
    if raw == "0" || raw == "1" then
      pure (hexOfBytes (fmtSource (raw == "1") (fun k => ws.getD k []) is ds c))
    else none
  | "parsefile", [s] => do
    let b ← bytesOfHex s
    match parseFile b with
    | some f => pure ("some\t" ++ encFile f)
    | none => pure "none"
  | "normfile", items => do
    let (is, ds, c) ← decSource items
    pure (encFile (normFile (distribute is ds c)))
  | "wffile", items => do
    let (is, ds, c) ← decSource items
    pure ("wf=" ++ boolStr (wfSource is ds c))
  | _, _ => none

end Driver.C09
