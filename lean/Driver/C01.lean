import Martian.Dataflow
import Martian.Resolver
import Martian.ResolverStatic
import Martian.ResolverStaticCheck
import Martian.ResolverStaticTree
import Driver.Util

/-!
Line-protocol handler for property C01.

  C01.check <program> <observations>   → `ok <instances> <jobs>` or
       `diff` followed by up to 8 records `class|where|param|expected|observed`
       (TAB separated records; fields separated by U+001F)
  C01.den   <program> <observations>   → den's top outputs and instance args (debug)
  C01.static <program> <observations | ->  → the two-phase resolver model on a PLAIN program:
       `skip not-plain`, or TAB separated
         static  frag=0|1  den=eq|neq|na  rt=ok|na|<class|where|param|expected|observed>  <canonical static phase>
       frag: the decidable hypotheses of `resolver_refines_den_mapstatic_checked` hold (for a
             plain program they are those of `resolver_refines_den_plain_checked`);
       den:  twoPhase = den on the recorded outs (must be `eq` whenever frag=1: the theorem);
       rt:   the model's run-time phase on the model's static phase against the OBSERVED
             `_args` of every stage job and the observed top-level outs;
       canonical static phase (compared by the harness with the real `MakeCallGraph`):
         (cg (node FQID (in PARAM BASE MAPDIM ARRDIM REXP)*)* (out REXP))
         REXP = (lit JV) | (arr REXP*) | (map (kv XKEY REXP)*) | (st (kv XKEY REXP)*) | (ref FQID NAME*)
                | (split CALL REXP) | (merge CALL REXP) | (dis REXP REXP)      -- kv sorted by XKEY

S-expression encoding (names raw, keys / scalar texts hex with prefix `x`):
  prog  = (prog (structs (s NAME P*)*) (callables C*) (top CALL))
  P     = (p NAME BASE MAPDIM ARRDIM)
  C     = (stage NAME (ins P*) (outs P*)) | (pipe NAME (ins P*) (outs P*) (calls CALL*) (ret (r NAME EXP)*))
  CALL  = (call ID CALLEE 0|1 (binds (b PARAM 0|1 EXP)*) (dis) | (dis 0|1 EXP))
  EXP   = (lit JV) | (arr EXP*) | (map (kv XKEY EXP)*) | (st (kv XKEY EXP)*) | (self PARAM NAME*) | (ref CALL NAME*)
  JV    = n | (a XTEXT) | (l JV*) | (o (kv XKEY JV)*)
  obs   = (obs (outs (inst KEY JV)*) (jobs JOB*) (joins JOIN*) (top JV) (skip NAME*))
  KEY   = (path NAME*) (forks (f CALLID (i N) | (k XKEY) | (u))*)      -- (u) = undetermined part
  JOB   = (job XJOBKEY stage KEY JVargs) | (job XJOBKEY chunk KEY JVargs JVchunkdef)
  JOIN  = (join XJOBKEY JVobsChunkDefs (l JVdef*) JVobsChunkOuts (l JVouts*))
-/
namespace Driver.C01
open Martian.Dataflow Martian.Resolver Driver

inductive SX where
  | a (s : String)
  | l (xs : List SX)
deriving Inhabited

/-- tokens: "(" ")" and atoms -/
partial def tokens (cs : List Char) (cur : List Char) (acc : Array String) : Array String :=
  let flush (acc : Array String) := if cur.isEmpty then acc else acc.push (String.ofList cur.reverse)
  match cs with
  | [] => flush acc
  | c :: r =>
    if c == '(' then tokens r [] ((flush acc).push "(")
    else if c == ')' then tokens r [] ((flush acc).push ")")
    else if c == ' ' then tokens r [] (flush acc)
    else tokens r (c :: cur) acc

/-- parse with an explicit stack of partially built lists -/
partial def parseToks (ts : List String) (stack : List (Array SX)) : Option SX :=
  match ts with
  | [] =>
    match stack with
    | [top] => if top.size == 1 then some top[0]! else none
    | _ => none
  | t :: r =>
    if t == "(" then parseToks r (#[] :: stack)
    else if t == ")" then
      match stack with
      | cur :: parent :: rest => parseToks r (parent.push (.l cur.toList) :: rest)
      | _ => none
    else
      match stack with
      | cur :: rest => parseToks r (cur.push (.a t) :: rest)
      | [] => none

def parseSX (s : String) : Option SX :=
  parseToks (tokens s.toList [] #[]).toList [#[]]

def unhexStr (s : String) : Option String :=
  match s.toList with
  | 'x' :: r =>
    match bytesOfHexAux r [] with
    | some bs => String.fromUTF8? (ByteArray.mk bs.toArray)
    | none => none
  | _ => none

partial def pJ : SX → Option J
  | .a "n" => some .null
  | .a "d" => some .dnull
  | .l [.a "a", .a h] => do pure (.atom (← unhexStr h))
  | .l (.a "l" :: xs) => do pure (.arr (← xs.mapM pJ))
  | .l (.a "o" :: kvs) => do
    let fs ← kvs.mapM fun kv =>
      match kv with
      | .l [.a "kv", .a k, v] => do pure ((← unhexStr k), (← pJ v))
      | _ => none
    pure (.obj fs)
  | _ => none

def pParam : SX → Option Param
  | .l [.a "p", .a n, .a b, .a m, .a d] => do pure ⟨n, ⟨b, (← m.toNat?), (← d.toNat?)⟩⟩
  | _ => none

def names (xs : List SX) : Option (List String) :=
  xs.mapM fun x => match x with | .a s => some s | _ => none

partial def pExp : SX → Option Exp
  | .l [.a "lit", j] => do pure (.lit (← pJ j))
  | .l (.a "arr" :: xs) => do pure (.arr (← xs.mapM pExp))
  | .l (.a "map" :: kvs) => do pure (.map (← kvs.mapM pKV))
  | .l (.a "st" :: kvs) => do pure (.struct (← kvs.mapM pKV))
  | .l (.a "self" :: .a p :: path) => do pure (.self p (← names path))
  | .l (.a "ref" :: .a c :: path) => do pure (.ref c (← names path))
  | _ => none
where
  pKV : SX → Option (String × Exp)
    | .l [.a "kv", .a k, e] => do pure ((← unhexStr k), (← pExp e))
    | _ => none

def pBool : SX → Option Bool
  | .a "0" => some false
  | .a "1" => some true
  | _ => none

def pCall : SX → Option Call
  | .l [.a "call", .a id, .a callee, m, .l (.a "binds" :: bs), .l (.a "dis" :: dis)] => do
    let binds ← bs.mapM fun b =>
      match b with
      | .l [.a "b", .a p, s, e] => do pure (⟨p, (← pBool s), (← pExp e)⟩ : Bind)
      | _ => none
    let d ← match dis with
      | [] => some none
      | [s, e] => do pure (some ((← pBool s), (← pExp e)))
      | _ => none
    pure ⟨id, callee, (← pBool m), binds, d⟩
  | _ => none

def pCallable : SX → Option (String × Callable)
  | .l [.a "stage", .a n, .l (.a "ins" :: ins), .l (.a "outs" :: outs)] => do
    pure (n, .stage (← ins.mapM pParam) (← outs.mapM pParam))
  | .l [.a "pipe", .a n, .l (.a "ins" :: ins), .l (.a "outs" :: outs), .l (.a "calls" :: cs),
        .l (.a "ret" :: rs)] => do
    let ret ← rs.mapM fun r =>
      match r with
      | .l [.a "r", .a p, e] => do pure (p, (← pExp e))
      | _ => none
    pure (n, .pipeline (← ins.mapM pParam) (← outs.mapM pParam) (← cs.mapM pCall) ret)
  | _ => none

def pProg : SX → Option Program
  | .l [.a "prog", .l (.a "structs" :: ss), .l (.a "callables" :: cs), .l [.a "top", t]] => do
    let structs ← ss.mapM fun s =>
      match s with
      | .l (.a "s" :: .a n :: ps) => do pure (n, (← ps.mapM pParam))
      | _ => none
    pure ⟨structs, (← cs.mapM pCallable), (← pCall t)⟩
  | _ => none

def pKey : SX → SX → Option InstKey
  | .l (.a "path" :: ps), .l (.a "forks" :: fs) => do
    let forks ← fs.mapM fun f =>
      match f with
      | .l [.a "f", .a c, .l [.a "i", .a n]] => do pure (c, Idx.i (← n.toNat?))
      | .l [.a "f", .a c, .l [.a "k", .a k]] => do pure (c, Idx.k (← unhexStr k))
      | .l [.a "f", .a c, .l [.a "u"]] => some (c, Idx.none)
      | _ => none
    pure ⟨(← names ps), forks⟩
  | _, _ => none

structure Job where
  key : String
  chunk : Bool
  inst : InstKey
  args : J
  chunkDef : J

structure Join where
  key : String
  obsDefs : J
  defs : List J
  obsOuts : J
  outs : List J

structure Obs where
  outs : List (InstKey × J)
  jobs : List Job
  joins : List Join
  top : J
  /-- top-level outputs not compared (file-typed: rewritten by post-processing, C13) -/
  skip : List String

def pObs : SX → Option Obs
  | .l [.a "obs", .l (.a "outs" :: os), .l (.a "jobs" :: js), .l (.a "joins" :: jns), .l [.a "top", t],
        .l (.a "skip" :: sk)] => do
    let outs ← os.mapM fun o =>
      match o with
      | .l [.a "inst", p, f, v] => do pure ((← pKey p f), (← pJ v))
      | _ => none
    let jobs ← js.mapM fun j =>
      match j with
      | .l [.a "job", .a k, .a "stage", p, f, a] => do
        pure (⟨(← unhexStr k), false, (← pKey p f), (← pJ a), .null⟩ : Job)
      | .l [.a "job", .a k, .a "chunk", p, f, a, d] => do
        pure (⟨(← unhexStr k), true, (← pKey p f), (← pJ a), (← pJ d)⟩ : Job)
      | _ => none
    let joins ← jns.mapM fun j =>
      match j with
      | .l [.a "join", .a k, od, .l (.a "l" :: ds), oo, .l (.a "l" :: os)] => do
        pure (⟨(← unhexStr k), (← pJ od), (← ds.mapM pJ), (← pJ oo), (← os.mapM pJ)⟩ : Join)
      | _ => none
    pure ⟨outs, jobs, joins, (← pJ t), (← names sk)⟩
  | _ => none

/-! rendering -/

def quote (s : String) : String :=
  "\"" ++ String.join (s.toList.map fun c =>
    if c == '"' then "\\\"" else if c == '\\' then "\\\\" else String.singleton c) ++ "\""

partial def render : J → String
  | .null => "null"
  | .dnull => "null/*disabled-or-empty*/"
  | .atom s => s
  | .arr xs => "[" ++ ",".intercalate (xs.map render) ++ "]"
  | .obj kvs => "{" ++ ",".intercalate (kvs.map fun kv => quote kv.1 ++ ":" ++ render kv.2) ++ "}"

def renderKey (k : InstKey) : String :=
  ".".intercalate k.path ++ "[" ++ ",".intercalate (k.forks.map fun f =>
    f.1 ++ "=" ++ (match f.2 with | .i n => toString n | .k s => quote s | .none => "-")) ++ "]"

/-- observed fork part `a` against den's `b`.  Indices: equal, or `b` is the "no
element" placeholder of a mapped call over an empty collection (the run-time
then names the part arbitrarily: undetermined, or index 0).  Call ids: equal —
or the observed id is not one of the instance's enclosing mapped calls at all:
when a map call splits the merged output of an earlier sibling map call
(`map call B(x = split A.out)`), the run-time identifies B's fork dimension with
A's and names the part after A. -/
def partMatch (ids : List String) (a b : String × Idx) : Bool :=
  (a.1 == b.1 || !ids.contains a.1) && (a.2 == b.2 || b.2 == Idx.none)

/-- The run-time does not fork a stage over an enclosing mapped call when none of
its inputs depends on the split value: one observed fork then stands for every
index.  An observed fork (its parts = a sub-list of the enclosing mapped calls)
*covers* a den instance when the paths agree and its parts are a sub-list of the
instance's fork list. -/
def subList (ids : List String) : List (String × Idx) → List (String × Idx) → Bool
  | [], _ => true
  | _ :: _, [] => false
  | a :: as, b :: bs => if partMatch ids a b then subList ids as bs else subList ids (a :: as) bs

def covers (obs inst : InstKey) : Bool :=
  obs.path == inst.path && subList (inst.forks.map (·.1)) obs.forks inst.forks

def oracleOf (outs : List (InstKey × J)) : Oracle := fun k =>
  (outs.find? fun o => covers o.1 k).map (·.2)

def fieldsOf : J → List (String × J)
  | .obj kvs => kvs
  | _ => []

def sep : String := String.singleton (Char.ofNat 31)

def mkDiff (cls wher param : String) (e o : J) : String :=
  sep.intercalate [cls, wher, param, render e, render o]

/-- first differing parameter of an argument record -/
def diffRecord (cls wher : String) (expected observed : List (String × J)) : Option String :=
  match expected.find? (fun e =>
      match observed.lookup e.1 with
      | some o => !(e.2.matches o)
      | none => !(e.2.nullish)) with
  | some e => some (mkDiff cls wher e.1 e.2 ((observed.lookup e.1).getD .null))
  | none =>
    match observed.find? (fun o => (expected.lookup o.1).isNone) with
    | some o => some (mkDiff (cls ++ "-extra-param") wher o.1 .null o.2)
    | none => none

def checkAll (P : Program) (obs : Obs) : List String × Nat :=
  let d := den P (oracleOf obs.outs)
  let insts := d.2
  let jobDiffs := obs.jobs.filterMap fun j =>
    match insts.filter (fun i => covers j.inst i.key) with
    | [] => some (mkDiff "unexpected-instance" j.key (renderKey j.inst) .dnull j.args)
    | is =>
      -- every den instance this job stands for must denote the delivered arguments
      is.findSome? fun i =>
        let expected :=
          if j.chunk then chunkMerge (fieldsOf i.args) (fieldsOf j.chunkDef) else fieldsOf i.args
        diffRecord (if j.chunk then "chunk-args" else "args") j.key expected (fieldsOf j.args)
  let missing := insts.filterMap fun i =>
    match obs.jobs.filter (fun j => covers j.inst i.key && !j.chunk) with
    | [] => if i.optional then none else some (mkDiff "missing-instance" (renderKey i.key) "" i.args .null)
    | j :: js =>
      -- all the jobs covering one instance must belong to one observed fork
      if js.all (fun j' => j'.inst == j.inst) then none
      else some (mkDiff (if i.optional then "forks-under-empty-map" else "ambiguous-instance")
        (renderKey i.key) "" i.args .null)
  let joinDiffs := obs.joins.flatMap fun j =>
    (if (joinChunkDefs (j.defs.map fieldsOf)).matches j.obsDefs then []
     else [mkDiff "chunk-defs" j.key "_chunk_defs" (joinChunkDefs (j.defs.map fieldsOf)) j.obsDefs]) ++
    -- a join that was launched read every chunk's outs (`doJoinRead`: otherwise the fork fails)
    (if (doJoinRead (j.outs.map some)).2 && (doJoinRead (j.outs.map some)).1.matches j.obsOuts then []
     else [mkDiff "chunk-outs" j.key "_chunk_outs" (doJoinRead (j.outs.map some)).1 j.obsOuts])
  let topDiff := (diffRecord "top-outs" P.top.id
      ((fieldsOf d.1).filter fun kv => !obs.skip.contains kv.1)
      ((fieldsOf obs.top).filter fun kv => !obs.skip.contains kv.1)).toList
  (jobDiffs ++ missing ++ joinDiffs ++ topDiff, insts.length)

/-! ## the two-phase resolver model (plain programs) -/

section static
open Martian.ResolverStatic Martian.ResolverForks

def hexOfStr (s : String) : String :=
  let hexd (n : Nat) : Char := if n < 10 then Char.ofNat (48 + n) else Char.ofNat (87 + n)
  "x" ++ String.ofList (s.toUTF8.toList.flatMap fun b => [hexd (b.toNat / 16), hexd (b.toNat % 16)])

partial def printJV : J → String
  | .null => "n"
  | .dnull => "d"
  | .atom s => "(a " ++ hexOfStr s ++ ")"
  | .arr xs => "(l" ++ String.join (xs.map fun x => " " ++ printJV x) ++ ")"
  | .obj kvs => "(o" ++ String.join (kvs.map fun kv => " (kv " ++ hexOfStr kv.1 ++ " " ++ printJV kv.2 ++ ")") ++ ")"

def insertSorted (x : String × String) : List (String × String) → List (String × String)
  | [] => [x]
  | y :: ys => if x.1 < y.1 then x :: y :: ys else y :: insertSorted x ys

def sortKV (xs : List (String × String)) : List (String × String) := xs.foldr insertSorted []

def idxText : Idx → String
  | .i n => s!"(i {n})"
  | .k s => "(k " ++ hexOfStr s ++ ")"
  | .none => "(u)"

/-- `fs`: the `fork` annotations above (rendered inside the references they qualify, like
the known indices of `RefExp.Forks`; sorted by call id, innermost annotation wins) -/
partial def printRF (info : List (String × List String × RBMap × List RExp)) (table : List (String × List String)) (ctl : List String) (fs : List (String × Idx)) : RExp → String
  | .lit j => "(lit " ++ printJV j ++ ")"
  | .arr xs => "(arr" ++ String.join (xs.map fun x => " " ++ printRF info table ctl fs x) ++ ")"
  | .map kvs => "(map" ++ kvText kvs ++ ")"
  | .struct kvs => "(st" ++ kvText kvs ++ ")"
  | .ref node _ path =>
    "(ref " ++ node ++
      String.join ((sortKV ((fs.filter fun e => ((table.lookup node).getD []).contains e.1).map fun e =>
        (e.1, idxText e.2))).map fun e => " (fk " ++ e.1 ++ " " ++ e.2 ++ ")") ++
      String.join (path.map fun p => " " ++ p) ++ ")"
  | .split c _ e => "(split " ++ c ++ " " ++ printRF info table ctl fs e ++ ")"
  | .merge c _ e =>
    "(merge " ++ (match info.lookup c with | some (path, _, _) => ".".intercalate path | none => c) ++ " " ++
      (match mergeForkNode table (fun p => ".".intercalate p) info c e with
       | some n => "(fn " ++ n ++ ") "
       | none => "(fn) ") ++ printRF info table ctl fs e ++ ")"
  | .disabled d v =>
    -- two wrappers on the same control are one (the compiler's pointer-equality shortcut)
    -- a control that is itself conditional on an enclosing control is that control's value
    -- (`resolveDisableExp`, case `*DisabledExp`: "already disabled on the same control")
    let ds := match d with
      | .disabled d0 x => if ctl.contains (printRF info table ctl fs d0) then printRF info table ctl fs x else printRF info table ctl fs d
      | _ => printRF info table ctl fs d
    let vs := printRF info table (ds :: ctl) fs v
    if ctl.contains ds then vs
    else if vs.startsWith ("(dis " ++ ds ++ " ") then vs else "(dis " ++ ds ++ " " ++ vs ++ ")"
  | .fork c ix e => printRF info table ctl ((c, ix) :: fs.filter fun x => x.1 != c) e
where
  kvText (kvs : List (String × RExp)) : String :=
    String.join ((sortKV (kvs.map fun kv => (hexOfStr kv.1, printRF info table ctl fs kv.2))).map fun kv =>
      " (kv " ++ kv.1 ++ " " ++ kv.2 ++ ")")

def printR (info : List (String × List String × RBMap × List RExp)) (table : List (String × List String)) (ctl : List String) : RExp → String := printRF info table ctl []

partial def hasFork : RExp → Bool
  | .lit _ => false
  | .arr xs => xs.any hasFork
  | .map kvs => kvs.any fun kv => hasFork kv.2
  | .struct kvs => kvs.any fun kv => hasFork kv.2
  | .ref _ _ _ => false
  | .split _ _ e => hasFork e
  | .merge _ _ e => hasFork e
  | .disabled d v => hasFork d || hasFork v
  | .fork _ _ _ => true

partial def hasSplit : RExp → Bool
  | .lit _ => false
  | .arr xs => xs.any hasSplit
  | .map kvs => kvs.any fun kv => hasSplit kv.2
  | .struct kvs => kvs.any fun kv => hasSplit kv.2
  | .ref _ _ _ => false
  | .split _ _ _ => true
  | .merge _ _ e => hasSplit e
  | .disabled d v => hasSplit d || hasSplit v
  | .fork _ _ e => hasSplit e

def fqid (path : List String) : String := ".".intercalate path

def isLitTrue : RExp → Bool
  | .lit (.atom s) => s == "true"
  | _ => false

/-- `table`: node name ↦ the fork roots it depends on (what the compiler prints) -/
def printStatic (info : List (String × List String × RBMap × List RExp)) (table : List (String × List String)) (out : RExp) (nodes : List SNode) : String :=
  "(cg" ++ String.join ((nodes.filter fun n => !n.disable.any isLitTrue).map fun n =>
    -- the node's controls, each simplified with respect to the earlier ones, without repetitions
    let ctl := n.disable.foldl (fun acc d =>
      let ds := match d with
        | .disabled d0 x => if acc.contains (printR info table acc d0) then printR info table acc x else printR info table acc d
        | _ => printR info table acc d
      if acc.contains ds then acc else acc ++ [ds]) []
    " (node " ++ fqid n.path ++ " (forks" ++
      String.join (((table.lookup (fqid n.path)).getD []).map fun d => " " ++ d) ++ ")" ++
      " (disabled" ++ String.join (ctl.map fun d => " " ++ d) ++ ")" ++
      String.join (n.inputs.map fun kv =>
        s!" (in {kv.1} {kv.2.ty.base} {kv.2.ty.mapDim} {kv.2.ty.arrDim} " ++ printR info table [] kv.2.exp ++ ")") ++ ")") ++
  " (out " ++ printR info table [] out ++ "))"

def noDisabled (P : Program) : Bool :=
  Call.plain P.top && P.callables.all fun c =>
    match c.2 with
    | .stage _ _ => true
    | .pipeline _ _ calls _ => calls.all fun c => c.disabled.isNone

/-- den (may contain `dnull`) against the model's run-time values -/
def sameRun (a b : J × List Inst) : Bool :=
  a.1.matches b.1 && a.2.length == b.2.length &&
    (a.2.zip b.2).all fun p => renderKey p.1.key == renderKey p.2.key && p.1.args.matches p.2.args

/-- equality of two runs without `dnull` on the left (`≈` is equality on such values:
`approx_is_eq_on_values`) -/
def exactRun (a b : J × List Inst) : Bool :=
  a.1.clean && a.1.approx b.1 && a.2.length == b.2.length &&
    (a.2.zip b.2).all fun p => renderKey p.1.key == renderKey p.2.key && p.1.args.clean && p.1.args.approx p.2.args

def idxLt : Idx → Idx → Bool
  | .i a, .i b => a < b
  | .k a, .k b => a < b
  | .i _, _ => true
  | _, _ => false

def insertIdx (x : Idx) : List Idx → List Idx
  | [] => [x]
  | y :: ys => if x == y then y :: ys else if idxLt x y then x :: y :: ys else y :: insertIdx x ys

/-- the index sets the run recorded: the indices / keys of call `c` (the last element of the key's
path) in the fork ids of the stage instances below it that fork over it, in the given fork of the
calls around it -/
def recordedIdx (keys : List InstKey) : IdxRec := fun k =>
  match k.path.getLast? with
  | none => []
  | some c =>
    let cand := keys.filter fun j =>
      k.path.isPrefixOf j.path && k.forks.all fun e =>
        match j.forks.lookup e.1 with
        | some v => v == e.2
        | none => true
    (cand.filterMap fun j => j.forks.lookup c).foldr insertIdx []

mutual
partial def hasMapMode : STree → Bool
  | .node _ => false
  | .sub _ m _ _ ch => m || ch.any hasMapMode
  | .guard _ ch => ch.any hasMapMode
  | .subR _ m _ _ _ ch => m || ch.any hasMapMode
end

mutual
/-- (static map mode, run-time map mode, a map-mode call with something mapped or guarded below) -/
partial def mapModeKinds : STree → Bool × Bool × Bool
  | .node _ => (false, false, false)
  | .sub _ m _ _ ch =>
    let r := ch.foldl (fun a t => let x := mapModeKinds t; (a.1 || x.1, a.2.1 || x.2.1, a.2.2 || x.2.2)) (false, false, false)
    (m || r.1, r.2.1, r.2.2 || (m && ch.any fun t => match t with | .node _ => false | _ => true))
  | .guard _ ch =>
    ch.foldl (fun a t => let x := mapModeKinds t; (a.1 || x.1, a.2.1 || x.2.1, a.2.2 || x.2.2)) (false, false, false)
  | .subR _ m _ _ _ ch =>
    let r := ch.foldl (fun a t => let x := mapModeKinds t; (a.1 || x.1, a.2.1 || x.2.1, a.2.2 || x.2.2)) (false, false, false)
    (r.1, m || r.2.1, r.2.2 || (m && ch.any fun t => match t with | .node _ => false | _ => true))
end

mutual
partial def subNotOk : STree → Bool
  | .node _ => false
  | .sub _ _ _ ok ch => !ok || ch.any subNotOk
  | .guard _ ch => ch.any subNotOk
  | .subR _ _ _ _ _ ch => ch.any subNotOk
end

def staticReply (P : Program) (obs : Option Obs) : String :=
  if !Call.plain P.top then "skip not-plain" else
  let s := staticProgramT P fqid
  let info := subRInfoList [] s.2
  -- map calls of run-time size: call ids distinct (the index sets of the store are keyed by call id)
  let okR := treeOkRList [] [] s.2 && decide ((info.map (·.1)).Nodup)
  if !treeOkList [] s.2 && !okR then
    (if s.2.any subNotOk then "skip map call not covered (empty literal / static and run-time sources mixed / disabled map call / source of unknown kind)"
     else if !treeOkRList [] [] s.2 then "skip run-time sized source below a split over a statically sized call, or a call id repeats along a nesting chain"
     else "skip run-time sized map calls with the same call id") else
  let nodes := flattenDList [] [] s.2
  -- a control that is an element of a split collection (`resolveDisableExp` on `SplitExp`: single
  -- elements, all-equal literals, … are simplified away): not covered
  if nodes.any (fun n => n.disable.any hasSplit) then "skip disabled-control-depends-on-split" else
  let table := goForksTable fqid nodes []
  -- the hypotheses of the proved refinement (they speak about the flat static phase of
  -- Martian/ResolverStatic.lean: map calls of stages only)
  let frag := treeOkList [] s.2 && callGraphAcyclicB P && noGuardList s.2 && Program.mapsOfStages P && wellTypedGB P && acyclicB P.table && staticProgramOk P fqid &&
    decide (((staticProgram P fqid).2.map fun n => fqid n.path).Nodup)
  -- … and of the refinement over the tree-shaped static phase (mapped pipelines, nested map calls)
  let fragT := treeOkList [] s.2 && callGraphAcyclicB P && noGuardList s.2 && wellTypedTB P && acyclicB P.table &&
    decide ((nodes.map fun n => fqid n.path).Nodup)
  -- … and of the refinement with run-time `disabled` controls (modulo `dnull` ↦ null)
  let fragE := treeOkList [] s.2 && callGraphAcyclicB P && wellTypedEB P && acyclicB P.table &&
    decide ((nodes.map fun n => fqid n.path).Nodup) &&
    (match obs with
     | some obs => obs.outs.all fun o => J.clean o.2
     | none => true)
  let (denV, rtV, kindR) : String × String × String :=
    match obs with
    | none => ("na", "na", "")
    | some obs =>
      let O : Oracle := oracleOf obs.outs
      -- the recorded index sets (where no stage instance below a call forks over it: those of the
      -- collection it was split over)
      let ρc := storeOfNodesR P.table P.nfuel fqid nodes info O (info.length + 1)
      let occ := subROccList [] s.2
      let keys := obs.outs.map (·.1) ++ (obs.jobs.filter fun j => !j.chunk).map (·.inst)
      let I : IdxRec := fun k =>
        match recordedIdx keys k with
        | [] => (match k.path.getLast? with | some c => ρc.idx c k.forks | none => [])
        | r => r
      let ρ := storeOfRun fqid nodes occ O I
      let fragR0 := !treeOkList [] s.2 && callGraphAcyclicB P && wellTypedEB P && acyclicB P.table &&
        treeOkPList [] s.2 &&
        decide ((nodes.map fun n => fqid n.path).Nodup) && decide ((occ.map (·.1)).Nodup) &&
        (obs.outs.all fun o => J.clean o.2)
      let fragR := fragR0 && idxOkTList P.table P.nfuel ρ [] s.2
      let d := den P O
      let t := twoPhaseT P fqid ρ
      -- (the tree theorem says den = twoPhaseT exactly when fragT; compared for every program anyway)
      let same := sameRun d t &&
        (!frag || sameRun d (twoPhaseM P fqid (storeOfNodes fqid (staticProgram P fqid).2 O))) &&
        (!fragE || exactRun (eraseRun d) t) && (!fragR || exactRun (eraseRun d) t)
      let jobDiff := obs.jobs.findSome? fun j =>
        if j.chunk then none else
        match t.2.find? (fun i => covers j.inst i.key) with
        | none => some (mkDiff "rt-unexpected-node" j.key (renderKey j.inst) .dnull j.args)
        | some i => diffRecord "rt-args" j.key (fieldsOf i.args) (fieldsOf j.args)
      let topDiff := diffRecord "rt-top-outs" P.top.id
        ((fieldsOf t.1).filter fun kv => !obs.skip.contains kv.1)
        ((fieldsOf obs.top).filter fun kv => !obs.skip.contains kv.1)
      (if same then "eq" else "neq", match jobDiff.orElse (fun _ => topDiff) with | some d => d | none => "ok",
       if fragR then "R" else if fragR0 then "X" else "")
  -- why a program is outside every proved fragment (histogram only)
  let why := if frag || fragT || fragE || kindR == "R" then "" else
    if !callGraphAcyclicB P then "call-graph" else
    if !acyclicB P.table then "struct-table" else
    if !wellTypedEB P then
      (if s.2.any hasMapMode then
        (let k := s.2.foldl (fun a t => let x := mapModeKinds t; (a.1 || x.1, a.2.1 || x.2.1, a.2.2 || x.2.2)) (false, false, false)
         s!"typing: a typed-map mode map call (static={k.1} runtime={k.2.1} nested-below={k.2.2})") else "typing: other (struct to untyped map, map literal at untyped map, disabled map call, ...)") else
    if !decide ((nodes.map fun n => fqid n.path).Nodup) then "node names" else
    if !treeOkList [] s.2 && !treeOkPList [] s.2 then "tree: typed-map mode / cancelling merge / id repeats" else
    if kindR == "X" then "index sets" else "oracle not clean / other"
  "\t".intercalate ["static", s!"frag={if frag || fragT || fragE || kindR == "R" then 1 else 0}{if frag then "G" else ""}{if fragT then "T" else ""}{if fragE && !fragT then "E" else ""}{kindR}|{why}", "den=" ++ denV, "rt=" ++ rtV,
    printStatic info table s.1.exp nodes]

end static

def handle (op : String) (args : List String) : Option String :=
  match op, args with
  | "static", [p, o] => do
    let P ← pProg (← parseSX p)
    let obs ← if o == "-" then some none else (pObs (← parseSX o)).map some
    pure (staticReply P obs)
  | "check", [p, o] => do
    let P ← pProg (← parseSX p)
    let obs ← pObs (← parseSX o)
    let d := den P (oracleOf obs.outs)
    if let some bad := d.2.find? (·.undefined) then
      return s!"skip inconsistent-split {renderKey bad.key}"
    let (diffs, n) := checkAll P obs
    if diffs.isEmpty then pure s!"ok {n} {obs.jobs.length}"
    else pure ("diff\t" ++ "\t".intercalate (diffs.take 8))
  | "den", [p, o] => do
    let P ← pProg (← parseSX p)
    let obs ← pObs (← parseSX o)
    let d := den P (oracleOf obs.outs)
    pure ("top=" ++ render d.1 ++ "\t" ++ "\t".intercalate (d.2.map fun i => renderKey i.key ++ " " ++ render i.args))
  | "proj", [st, t, path, v] => do
    -- st = (structs …) ; t = (p _ base m d) ; path = (path …) ; v = JV
    let ss ← match (← parseSX st) with
      | .l (.a "structs" :: ss) => ss.mapM fun s =>
          match s with
          | .l (.a "s" :: .a n :: ps) => do pure (n, (← ps.mapM pParam))
          | _ => none
      | _ => none
    let ty ← pParam (← parseSX t)
    let pth ← match (← parseSX path) with
      | .l (.a "path" :: ps) => names ps
      | _ => none
    let val ← pJ (← parseSX v)
    pure (render (projPath ss ty.ty pth val) ++ "\t" ++ render (resolvePath ss ty.ty pth val))
  | "projnarrow", [st, t, path, dest, v] => do
    -- LazyArgumentMap.Path(path, source = t, dest): project, then filter to dest
    let ss ← match (← parseSX st) with
      | .l (.a "structs" :: ss) => ss.mapM fun s =>
          match s with
          | .l (.a "s" :: .a n :: ps) => do pure (n, (← ps.mapM pParam))
          | _ => none
      | _ => none
    let ty ← pParam (← parseSX t)
    let dty ← pParam (← parseSX dest)
    let pth ← match (← parseSX path) with
      | .l (.a "path" :: ps) => names ps
      | _ => none
    let val ← pJ (← parseSX v)
    let rt := pathTy ss ty.ty pth
    pure (s!"{rt.base} {rt.mapDim} {rt.arrDim}\t" ++
      render (narrow ss (ss.length + 2) dty.ty (projPath ss ty.ty pth val)) ++ "\t" ++
      render (narrow ss (ss.length + 2) dty.ty (resolvePath ss ty.ty pth val)))
  | "joinread", [r] => do
    -- r = (l R*) with R = u (unreadable) | JV : `doJoin`'s read of the chunk outs
    let reads ← match (← parseSX r) with
      | .l (.a "l" :: rs) => rs.mapM fun x =>
          match x with
          | .a "u" => some (none : Option J)
          | y => (pJ y).map some
      | _ => none
    let res := doJoinRead reads
    pure (s!"launched={if res.2 then 1 else 0}\t" ++ render res.1)
  | _, _ => none

end Driver.C01
