import Martian.FormatDecl
import Driver.Util

/-!
Line-protocol ops of C09 for type names, parameter lists, `struct` and
`filetype` declarations (model: Martian/FormatDecl.lean).

Word encoding (words separated by one space inside one TAB-separated field;
byte strings in hex, `-` = empty):

* TypeId   `<tname>:<arrayDim>:<mapDim>` — `<tname>` = the dot-separated
  components of `Tname` as a `,`-separated hex list (`.` = no component), the
  dimensions in decimal: `map<json.gz[]>[]` = `6a736f6e,677a:1:2`.
* Member   4 words: `<TypeId> <id> <help> <outName>`.
* Param    5 words: `<i|o> <TypeId> <id> <help> <outName>` (`i` = in, `o` = out).
* Params   `<n>` followed by the words of `n` Params.
* Struct   `<id> <n>` followed by the words of `n` Members.
* Filetype the `,`-separated hex list of the components of its id.

Ops:
  fmtparams <mw> <tw> <iw> <hw> <Params>   → hex text of `fmtParams`
  widths <Params>                          → `mw tw iw hw` of `widths` (`getWidths`)
  wfparams <Params>                        → `wf=<bool>` (`all wfParam`)
  parseparams <hex text>                   → `some <Params>` | `none`
  fmtstruct <Struct> / parsestruct <hex> / wfstruct <Struct>
  fmtfiletype <Filetype> / parsefiletype <hex> / wffiletype <Filetype>
-/
namespace Driver.C09
open Driver Martian.FormatDecl

def encType (t : TypeId) : String :=
  hexList t.tname ++ ":" ++ toString t.arrayDim ++ ":" ++ toString t.mapDim

def decType (s : String) : Option TypeId :=
  match s.splitOn ":" with
  | [n, a, m] => do
    let n ← parseHexList n
    let a ← a.toNat?
    let m ← m.toNat?
    pure ⟨n, a, m⟩
  | _ => none

def encMember (m : Member) : List String :=
  [encType m.type, hexOfBytes m.id, hexOfBytes m.help, hexOfBytes m.outName]

def encParam (p : Param) : List String := (if p.out then "o" else "i") :: encMember p.toMember

def encParams (ps : List Param) : String :=
  " ".intercalate (toString ps.length :: ps.flatMap encParam)

def decMember : List String → Option (Member × List String)
  | t :: i :: h :: o :: r => do
    let t ← decType t
    let i ← bytesOfHex i
    let h ← bytesOfHex h
    let o ← bytesOfHex o
    pure (⟨t, i, h, o⟩, r)
  | _ => none

def decMembers : Nat → List String → Option (List Member × List String)
  | 0, ws => some ([], ws)
  | n + 1, ws => do
    let (m, r) ← decMember ws
    let (ms, r') ← decMembers n r
    pure (m :: ms, r')

def decParamList : Nat → List String → Option (List Param × List String)
  | 0, ws => some ([], ws)
  | n + 1, k :: ws => do
    let (m, r) ← decMember ws
    let (ps, r') ← decParamList n r
    if k == "o" then pure (⟨m, true⟩ :: ps, r')
    else if k == "i" then pure (⟨m, false⟩ :: ps, r')
    else none
  | _ + 1, [] => none

def decParams (s : String) : Option (List Param) :=
  match s.splitOn " " with
  | n :: ws => do
    let n ← n.toNat?
    match decParamList n ws with
    | some (ps, []) => pure ps
    | _ => none
  | _ => none

def encStruct (s : Struct) : String :=
  " ".intercalate (hexOfBytes s.id :: toString s.members.length :: s.members.flatMap encMember)

def decStruct (s : String) : Option Struct :=
  match s.splitOn " " with
  | i :: n :: ws => do
    let i ← bytesOfHex i
    let n ← n.toNat?
    match decMembers n ws with
    | some (ms, []) => pure ⟨i, ms⟩
    | _ => none
  | _ => none

def handleDecl (op : String) (args : List String) : Option String :=
  match op, args with
  | "fmtparams", [mw, tw, iw, hw, ps] => do
    let mw ← mw.toNat?
    let tw ← tw.toNat?
    let iw ← iw.toNat?
    let hw ← hw.toNat?
    let ps ← decParams ps
    pure (hexOfBytes (fmtParams mw tw iw hw ps))
  | "widths", [ps] => do
    let ps ← decParams ps
    let w := widths ps
    pure (s!"{w.1} {w.2.1} {w.2.2.1} {w.2.2.2}")
  | "wfparams", [ps] => do
    let ps ← decParams ps
    pure ("wf=" ++ boolStr (ps.all wfParam))
  | "parseparams", [s] => do
    let b ← bytesOfHex s
    match parseParams b with
    | some ps => pure ("some " ++ encParams ps)
    | none => pure "none"
  | "fmtstruct", [s] => do
    let s ← decStruct s
    pure (hexOfBytes (fmtStruct s))
  | "wfstruct", [s] => do
    let s ← decStruct s
    pure ("wf=" ++ boolStr (wfStruct s))
  | "parsestruct", [s] => do
    let b ← bytesOfHex s
    match parseStruct b with
    | some s => pure ("some " ++ encStruct s)
    | none => pure "none"
  | "fmtfiletype", [t] => do
    let t ← parseHexList t
    pure (hexOfBytes (fmtFiletype ⟨t⟩))
  | "wffiletype", [t] => do
    let t ← parseHexList t
    pure ("wf=" ++ boolStr (wfFiletype ⟨t⟩))
  | "parsefiletype", [s] => do
    let b ← bytesOfHex s
    match parseFiletype b with
    | some t => pure ("some " ++ hexList t.id)
    | none => pure "none"
  | _, _ => none

end Driver.C09
