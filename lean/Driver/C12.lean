import Martian.Semaphore
import Martian.SemaphoreSys
import Martian.SemaphoreQueue
import Martian.SemaphoreRefresh
import Martian.SemaphoreMJP
import Martian.SemaphoreConfig
import Driver.Util

/-! Line-protocol handler for property C12.

* `C12.sem  <size>  <ops>`: ops `,`-separated: `a<id>:<n>` Acquire, `r<n>` Release,
  `ua<n>` UpdateActual, `us<n>` UpdateSize, `uf<free>:<used>` UpdateFreeUsed (`.` = no ops).
  Reply: one entry per op, `;`-separated: `cur:reserved:qlen:events`, events
  `,`-separated: `g<id>=<n>` grant, `x<id>=<n>` reject, `p` panic, `v<n>` return value.
* `C12.mj  <limit>  <ops>`: `t<id>:<w|q|r|o>:<0|1>` one pass of Acquire, `r<id>` Release,
  `f<id>.<id>…` FindDone with these ids finished, `c` Clear.
  Reply per op: `limit:len:ids(.-separated):<T|F|W|->`.
* `C12.sys  <sizes,…>  <id:a,a,…;id:a,a,…>`: the nested-semaphore system run to the end with
  the "first job that can act" schedule. Reply per job `id:<phase over 1/0>:<ran 1/0>:<refused 1/0>` `;`-separated,
  then `|` and the number of actions taken.
* `C12.norm  <maxCores,maxMemGB,maxVmemMB,threadsPerJob,memGBPerJob,extraVmemGB>  <memCur>  <vmemCur>  <centi,memMb,vmemMb>`
  Reply: `centi,memMb,vmemMb|cores,mem,vmem,procs` (normalised request | Acquire amounts).
* `C12.queue  <grace>  <limit>  <jobs>  <events>`: the queue-query reconciliation
  (Martian/SemaphoreQueue.lean). jobs `;`-separated `jobid:<0|1 has a job id>:<st>:<disk>` with states
  `q r d f n`; events `,`-separated: `I<t>` queryQueue called, `A<t>:<hex of the command's stdout>` /
  `A<t>:!` (command failed) the query finishes, `R<t>` refreshState, `P<jobid>:<st>` the job writes files.
  Reply per event, `;`-separated: `<last|->|<ids in flight +-separated | ->|<st>/<since|->,…`.
* `C12.mjp  <limit>  <ops>`: MaxJobsSemaphore with its callers (Martian/SemaphoreMJP.lean): `e<caller>:<job>:<w|q|r|o>:<0|1>` a new
  Acquire, `u<caller>:<st>` a signalled caller re-runs the loop, `r<job>`, `f<job>.<job>…`, `c`, `Q<st of job 0><st of job 1>…` quiesce
  (every signalled caller runs). Reply per op: `<|running|>:<parked callers .-separated>:<woken callers>:<T|F|-|!>`; for `Q` the last
  field lists the callers that returned: `<caller>=<T|F>` `.`-separated (or `-`).
* `C12.setmax  <localcores,localmem,localvmem,cluster 0|1>  <numCPU,total,actualFree,cgMem,cgUse,vmemLimit,highVmem,threadsPerJob,memGBPerJob>`:
  the limits `NewLocalJobManager` arrives at (Martian/SemaphoreConfig.lean). Reply `maxCores,maxMemGB,maxVmemMB`.
* `C12.acq  <max,cur,reserved>  <waiting amounts | .>  <n>`: one `Acquire(n)` (id 0) on that state, reply as an entry of `C12.sem`.
* `C12.cfgsizes  <maxCores,maxMemGB,maxVmemMB,threadsPerJob,memGBPerJob,extraVmemGB>  <procs left for jobs | ->  <cores,mem,vmem,procs amounts>`:
  reply `<Sane 1/0>|<localSizes ,-separated>|<localAmounts ,-separated>`.
* `C12.refresh  <mem|vmem|cores|procs>  <max,cur,reserved>  <waiting amounts ,-separated | .>  <actualFree,rss,vmem,procs,idleCenti,rlimCur,userProcs>`:
  what `refreshResources` does to that semaphore (Martian/SemaphoreRefresh.lean; the vmem semaphore's limit is its max).
  Reply as one entry of `C12.sem`: `cur:reserved:qlen:events` (waiters get the ids 1, 2, …).
-/
namespace Driver.C12
open Martian.Semaphore

def int? (s : String) : Option Int := s.toInt?
def nat? (s : String) : Option Nat := s.toNat?

def pair? (s : String) : Option (String × String) :=
  match s.splitOn ":" with
  | [a, b] => some (a, b)
  | _ => none

def parseSemOp (t : String) : Option SemOp :=
  if t.startsWith "ua" then do let n ← int? (t.drop 2).toString; pure (.updActual n)
  else if t.startsWith "us" then do let n ← int? (t.drop 2).toString; pure (.updSize n)
  else if t.startsWith "uf" then do
    let (a, b) ← pair? (t.drop 2).toString
    let f ← int? a; let u ← int? b; pure (.updFreeUsed f u)
  else if t.startsWith "a" then do
    let (a, b) ← pair? (t.drop 1).toString
    let id ← nat? a; let n ← int? b; pure (.acquire id n)
  else if t.startsWith "r" then do let n ← int? (t.drop 1).toString; pure (.release n)
  else none

def parseList {α} (f : String → Option α) (s : String) : Option (List α) :=
  if s == "." then some [] else (s.splitOn ",").mapM f

def showEv : Ev → String
  | .grant id n => s!"g{id}={n}"
  | .reject id n => s!"x{id}={n}"
  | .panic => "p"
  | .ret v => s!"v{v}"

def showStep (r : Sem × List Ev) : String :=
  s!"{r.1.cur}:{r.1.reserved}:{r.1.waiters.length}:" ++ ",".intercalate (r.2.map showEv)

def parseSt : String → Option MdState
  | "w" => some .waiting
  | "q" => some .queued
  | "r" => some .running
  | "o" => some .other
  | _ => none

def parseMJOp (t : String) : Option MJOp :=
  if t == "c" then some .clear
  else if t.startsWith "t" then
    match (t.drop 1).toString.splitOn ":" with
    | [a, b, c] => do
      let id ← nat? a; let st ← parseSt b
      let nb ← (if c == "1" then some true else if c == "0" then some false else none)
      pure (.attempt id st nb)
    | _ => none
  else if t.startsWith "r" then do let id ← nat? (t.drop 1).toString; pure (.release id)
  else if t.startsWith "f" then
    let rest := (t.drop 1).toString
    if rest == "" then some (.findDone []) else do
      let ids ← (rest.splitOn ".").mapM nat?
      pure (.findDone ids)
  else none

def showMJ (r : MJ × Option Bool) : String :=
  let res := match r.2 with
    | some true => "T"
    | some false => "F"
    | none => "-"
  s!"{r.1.limit}:{r.1.running.length}:" ++ ".".intercalate (r.1.running.map toString) ++ ":" ++ res

/-- attempts that go to `cond.Wait()` are shown as `W` -/
def showMJStep (op : MJOp) (r : MJ × Option Bool) : String :=
  match op, r.2 with
  | .attempt .., none =>
    s!"{r.1.limit}:{r.1.running.length}:" ++ ".".intercalate (r.1.running.map toString) ++ ":W"
  | _, _ => showMJ r

def mjTrace : MJ → List MJOp → List String
  | _, [] => []
  | s, op :: ops => let r := s.step op; showMJStep op r :: mjTrace r.1 ops

def ints? (s : String) : Option (List Int) := (s.splitOn ",").mapM int?

def greedyRun : Nat → Nat → Sys → Sys × Nat
  | 0, k, y => (y, k)
  | n + 1, k, y =>
    match y.jobs.find? (fun b => b.enabled) with
    | none => (y, k)
    | some b => greedyRun n (k + 1) (y.act b.id)

def parseJob (t : String) : Option (Nat × List Int) :=
  match t.splitOn ":" with
  | [a, b] => do let id ← nat? a; let am ← ints? b; pure (id, am)
  | _ => none

def b01 (b : Bool) : String := if b then "1" else "0"

namespace QQ
open Martian.SemaphoreQueue

def parseJSt : String → Option JSt
  | "q" => some .queued
  | "r" => some .running
  | "d" => some .done
  | "f" => some .failed
  | "n" => some .notQueued
  | _ => none

def showJSt : JSt → String
  | .queued => "q"
  | .running => "r"
  | .done => "d"
  | .failed => "f"
  | .notQueued => "n"

def parseJob (t : String) : Option Job :=
  match t.splitOn ":" with
  | [id, h, a, b] => do
    let st ← parseJSt a
    let dk ← parseJSt b
    let hid ← (if h == "1" then some true else if h == "0" then some false else none)
    pure ⟨id, hid, st, dk, none⟩
  | _ => none

def asciiOfBytes (bs : List UInt8) : String := String.ofList (bs.map fun b => Char.ofNat b.toNat)

def parseEv (t : String) : Option Martian.SemaphoreQueue.Ev :=
  if t.startsWith "I" then do let n ← (t.drop 1).toString.toNat?; pure (.issue n)
  else if t.startsWith "R" then do let n ← (t.drop 1).toString.toNat?; pure (.refresh n)
  else if t.startsWith "A" then
    match (t.drop 1).toString.splitOn ":" with
    | [a, b] => do
      let n ← a.toNat?
      if b == "!" then pure (.answer n none) else do
        let bs ← Driver.bytesOfHex b
        pure (.answer n (some (parseAnswer (asciiOfBytes bs))))
    | _ => none
  else if t.startsWith "P" then
    match (t.drop 1).toString.splitOn ":" with
    | [id, st] => do let d ← parseJSt st; pure (.progress id d)
    | _ => none
  else none

def showOptNat : Option Nat → String
  | none => "-"
  | some n => toString n

def showQ (s : Q) : String :=
  showOptNat s.last ++ "|" ++
  (match s.active with
   | none => "-"
   | some ids => "+".intercalate ids) ++ "|" ++
  ",".intercalate (s.jobs.map fun j => showJSt j.st ++ "/" ++ showOptNat j.since)

end QQ

def showCallers (l : List Caller) : String := ".".intercalate (l.map fun c => toString c.1)

def showMJP (s : MJP) (res : String) : String :=
  s!"{s.running.length}:{showCallers s.parked}:{showCallers s.woken}:{res}"

def tf (b : Bool) : String := if b then "T" else "F"

/-- one textual op on the model with callers -/
def mjpOp (s : MJP) (t : String) : Option (MJP × String) :=
  if t.startsWith "Q" then
    let sts := (t.drop 1).toString.toList.map fun ch => (parseSt (String.singleton ch)).getD .other
    let stOf := fun (id : Nat) => sts.getD id .other
    let r := MJP.quiesce stOf (s.woken.length + s.parked.length + 1) s []
    let res := if r.2.isEmpty then "-" else ".".intercalate (r.2.map fun p => s!"{p.1}={tf p.2}")
    some (r.1, showMJP r.1 res)
  else
    let op : Option MJPOp :=
      if t == "c" then some .clear
      else if t.startsWith "e" then
        match (t.drop 1).toString.splitOn ":" with
        | [a, b, c, d] => do
          let w ← nat? a; let id ← nat? b; let st ← parseSt c
          let nb ← (if d == "1" then some true else if d == "0" then some false else none)
          pure (.enter w id st nb)
        | _ => none
      else if t.startsWith "u" then
        match (t.drop 1).toString.splitOn ":" with
        | [a, b] => do let w ← nat? a; let st ← parseSt b; pure (.resume w st)
        | _ => none
      else if t.startsWith "r" then do let id ← nat? (t.drop 1).toString; pure (.release id)
      else if t.startsWith "f" then
        let rest := (t.drop 1).toString
        if rest == "" then some (.findDone []) else do
          let ids ← (rest.splitOn ".").mapM nat?
          pure (.findDone ids)
      else none
    op.map fun o =>
      let r := s.step o
      let res := if !r.valid then "!" else match r.ret with
        | some b => tf b
        | none => "-"
      (r.st, showMJP r.st res)

def mjpTrace : MJP → List String → Option (List String)
  | _, [] => some []
  | s, t :: ts => do
    let r ← mjpOp s t
    let rest ← mjpTrace r.1 ts
    pure (r.2 :: rest)

def withIds : Nat → List Int → List Waiter
  | _, [] => []
  | k, a :: as => (k, a) :: withIds (k + 1) as

def handle (op : String) (args : List String) : Option String :=
  match op, args with
  | "mjp", [limit, ops] => do
    let l ← int? limit
    let out ← mjpTrace (MJP.init l) (if ops == "." then [] else ops.splitOn ",")
    pure (";".intercalate out)
  | "setmax", [fl, ma] => do
    let f ← ints? fl
    let m ← ints? ma
    match f, m with
    | [c, mg, vg, cl], [ncpu, tot, af, cgm, cgu, vl, hv, tpj, mpj] =>
      let fl : Martian.SemaphoreConfig.Flags := ⟨c, mg, vg, cl != 0⟩
      let mc : Martian.SemaphoreConfig.Machine := ⟨ncpu, tot, af, cgm, cgu, vl, hv, tpj, mpj⟩
      let r := Martian.SemaphoreConfig.setMaxModel fl mc 0
      pure s!"{r.maxCores},{r.maxMemGB},{r.maxVmemMB}"
    | _, _ => none
  | "acq", [st, ws, n] => do
    let st ← ints? st
    let ws ← (if ws == "." then some [] else ints? ws)
    let n ← int? n
    match st with
    | [m, c, r] => pure (showStep (step ⟨m, c, r, withIds 1 ws⟩ (.acquire 0 n)))
    | _ => none
  | "cfgsizes", [cfg, procs, amts] => do
    let c ← ints? cfg
    let p ← (if procs == "-" then some none else (int? procs).map some)
    let a ← ints? amts
    match c, a with
    | [a1, a2, a3, a4, a5, a6], [x, y, z, w] =>
      let cfg : LocalCfg := ⟨a1, a2, a3, a4, a5, a6⟩
      let show' := fun (l : List Int) => ",".intercalate (l.map toString)
      pure s!"{b01 (saneB cfg)}|{show' (localSizes cfg p)}|{show' (localAmounts cfg p.isSome (x, y, z, w))}"
    | _, _ => none
  | "refresh", [kind, st, ws, obs] => do
    let st ← ints? st
    let ws ← (if ws == "." then some [] else ints? ws)
    let ob ← ints? obs
    match st, ob with
    | [m, c, r], [af, rss, vm, pr, idle, rc, up] =>
      let s : Sem := ⟨m, c, r, withIds 1 ws⟩
      let o : Martian.SemaphoreRefresh.Obs := ⟨af, rss, vm, pr, idle, rc, up⟩
      let sop ← (match kind with
        | "mem" => some (Martian.SemaphoreRefresh.refreshMemOp o)
        | "vmem" => some (Martian.SemaphoreRefresh.refreshVmemOp m o)
        | "cores" => some (Martian.SemaphoreRefresh.refreshCoresOp o)
        | "procs" => some (Martian.SemaphoreRefresh.refreshProcsOp o)
        | _ => none)
      pure (showStep (step s sop))
    | _, _ => none
  | "queue", [grace, limit, jobs, evs] => do
    let g ← nat? grace
    let l ← nat? limit
    let js ← (jobs.splitOn ";").mapM QQ.parseJob
    let es ← parseList QQ.parseEv evs
    pure (";".intercalate ((Martian.SemaphoreQueue.trace ⟨g, l, none, none, js⟩ es).map QQ.showQ))
  | "sem", [size, ops] => do
    let m ← int? size
    let ops ← parseList parseSemOp ops
    pure (";".intercalate ((trace (Sem.init m) ops).map showStep))
  | "mj", [limit, ops] => do
    let l ← int? limit
    let ops ← parseList parseMJOp ops
    pure (";".intercalate (mjTrace (MJ.init l) ops))
  | "sys", [sizes, jobs] => do
    let sz ← ints? sizes
    let js ← (jobs.splitOn ";").mapM parseJob
    let y := Sys.init sz js
    let r := greedyRun (y.rank + 1) 0 y
    pure (";".intercalate (r.1.jobs.map fun b =>
      s!"{b.id}:{b01 (b.ph == .rel 0)}:{b01 b.ran}:{b01 b.failed}") ++ s!"|{r.2}")
  | "norm", [cfg, memCur, vmemCur, req] => do
    let c ← ints? cfg
    let mc ← int? memCur
    let vc ← int? vmemCur
    let r ← ints? req
    match c, r with
    | [a, b, cc, d, e, f], [x, y, z] =>
      let n := normalize ⟨a, b, cc, d, e, f⟩ mc vc ⟨x, y, z⟩
      let q := acquireAmounts n
      pure s!"{n.centi},{n.memMb},{n.vmemMb}|{q.1},{q.2.1},{q.2.2.1},{q.2.2.2}"
    | _, _ => none
  | _, _ => none

end Driver.C12
