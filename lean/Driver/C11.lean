import Driver.Util

/-! Line-protocol handler for property C11 (stub: replaced when the model exists). -/
namespace Driver.C11

def handle (_op : String) (_args : List String) : Option String := none

end Driver.C11
