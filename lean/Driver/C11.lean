import Martian.ForkName
import Martian.ForkNameBatch
import Martian.ForkNameSet
import Proofs.ForkNameBatch
import Gen.Facts
import Driver.Util

/-! Line-protocol handler for property C11 (fork names and journal routing).

Ops (byte strings hex-encoded, `-` = empty):
  esc k                  -> hex            pathEscape
  unesc s                -> some hex|none  pathUnescape
  jenc s                 -> hex            journalEnc Gen.journalPairs
  forkid parts           -> some hex|none  forkIdString Gen.forkIdReenters Gen.forkIdSkipsEmpty
       parts = `;`-separated: `a:<idx>:<len>:<0|1>` | `k:<hexkey>:<hexlist>:<0|1>` | `u` | `e`; `.` = no parts
  pad w n                -> hex            padded
  width n                -> nat            widthForInt
  chunk n i              -> hex            chunkName
  render fq fp ch uq f   -> hex            JName.render  (ch, uq: `-` = absent)
  parse s                -> nl | none | some fq fp ch uq file
  find top fqids name    -> none | some hex  findNode (the fqid found)
  route top nodes s      -> nl | none | some fqid forkpos ch uq file   (nodes = `;`-separated `hexfqid:hexlist of fork names`)
  getfork names index    -> none | some i  getForkNew
  routebatch top nodes names  -> `;`-separated, one per entry: nl | none | n,f,ch,uq,file     routeBatch (n, f = list positions)
  creditbatch top nodes names -> `;`-separated, one per entry: nl | none | n,f,slot,uq,name   deliver
       (nodes = `;`-separated `hexfqid:hexlist of fork names:chunk counts` (`,`-separated naturals, `.` = none);
        slot = o | s | j | c<i>; uq = the uniquifier carried, `-` = none)
  makeforkids srcs       -> `;`-separated fork id strings (hex; `none` = error) of makeForkIds, in list order
       srcs = `;`-separated `a:<len>` | `k:<hexlist of keys, sorted>` | `u`, first source first (fastest)
  validbatch top nodes recs -> <tree ok 0|1>;<per record: 0|1 ValidJob holds>:<hex of JobRec.name>;…
       recs = `;`-separated `node,fork,slot,uq,file,path,forkname,width` (slot = o|s|j|c<i>, uq `-` = none)
  keylen k               -> <|fork_ ++ pathEscape k|> <|journalEnc of it|>
-/
namespace Driver.C11
open Martian.ForkName Driver

def parsePart (s : String) : Option Part :=
  match s.splitOn ":" with
  | ["a", i, l, st] => do
    let i ← i.toNat?
    let l ← l.toNat?
    pure (.arr i l (st == "1"))
  | ["k", k, ks, st] => do
    let k ← bytesOfHex k
    let ks ← parseHexList ks
    pure (.key k ks (st == "1"))
  | ["u"] => some .undet
  | ["e"] => some .empty
  | _ => none

def parseParts (s : String) : Option (List Part) :=
  if s == "." then some [] else (s.splitOn ";").mapM parsePart

def optB (s : String) : Option (Option Bytes) :=
  if s == "-" then some none else (bytesOfHex s).map some

def showOpt : Option Bytes → String
  | some b => hexOfBytes b
  | none => "-"

def parseNats (s : String) : Option (List Nat) :=
  if s == "." then some [] else (s.splitOn ",").mapM (·.toNat?)

/-- nodes with (optional) chunk counts per fork -/
def parseNodesC (s : String) : Option (List (NodeM × List Nat)) :=
  if s == "." then some [] else (s.splitOn ";").mapM fun nd =>
    match nd.splitOn ":" with
    | [fq, fs] => do
      let fq ← bytesOfHex fq
      let fs ← parseHexList fs
      pure ((⟨fq, fs⟩ : NodeM), [])
    | [fq, fs, cs] => do
      let fq ← bytesOfHex fq
      let fs ← parseHexList fs
      let cs ← parseNats cs
      pure ((⟨fq, fs⟩ : NodeM), cs)
    | _ => none

def showSlot : Slot → String
  | .own => "o"
  | .split => "s"
  | .join => "j"
  | .chunk i => s!"c{i}"

def handle (op : String) (args : List String) : Option String :=
  match op, args with
  | "routebatch", [top, nodes, names] => do
    let top ← bytesOfHex top
    let nodes ← parseNodesC nodes
    let names ← parseHexList names
    let ns := nodes.map (·.1)
    let rs := routeBatch top ns names
    pure (";".intercalate ((names.zip rs).map fun (s, r) =>
      if s.contains cNL then "nl" else
      match r with
      | none => "none"
      | some (n, f, ch, uq, file) => s!"{n},{f},{showOpt ch},{showOpt uq},{hexOfBytes file}"))
  | "creditbatch", [top, nodes, names] => do
    let top ← bytesOfHex top
    let nodes ← parseNodesC nodes
    let names ← parseHexList names
    let ns := nodes.map (·.1)
    let nch := fun (n f : Nat) => ((nodes.getD n (⟨[], []⟩, [])).2).getD f 0
    pure (";".intercalate (names.map fun s =>
      if s.contains cNL then "nl" else
      match deliver top ns nch s with
      | none => "none"
      | some d => s!"{d.owner.node},{d.owner.fork},{showSlot d.owner.slot},{hexOfBytes d.uniq},{hexOfBytes d.file}"))
  | "makeforkids", [srcs] => do
    let srcs ← (if srcs == "." then some [] else (srcs.splitOn ";").mapM fun x =>
      match x.splitOn ":" with
      | ["a", n] => n.toNat?.map Src.arr
      | ["k", ks] => (parseHexList ks).map Src.keys
      | ["u"] => some Src.undet
      | _ => none)
    pure (";".intercalate ((makeForkIds srcs).map fun ps =>
      match forkIdString Gen.forkIdReenters Gen.forkIdSkipsEmpty ps with
      | some b => hexOfBytes b
      | none => "none"))
  | "validbatch", [top, nodes, recs] => do
    let top ← bytesOfHex top
    let nodes ← parseNodesC nodes
    let ns := nodes.map (·.1)
    let nch := fun (n f : Nat) => ((nodes.getD n (⟨[], []⟩, [])).2).getD f 0
    let recs ← (if recs == "." then some [] else (recs.splitOn ";").mapM fun x =>
      match x.splitOn "," with
      | [n, f, sl, uq, file, path, fk, w] => do
        let n ← n.toNat?
        let f ← f.toNat?
        let sl ← (if sl == "o" then some Slot.own else if sl == "s" then some Slot.split else if sl == "j" then some Slot.join
          else if sl.startsWith "c" then (sl.drop 1).toNat?.map Slot.chunk else none)
        let uq ← optB uq
        let file ← bytesOfHex file
        let path ← bytesOfHex path
        let fk ← bytesOfHex fk
        let w ← w.toNat?
        pure (⟨n, f, sl, uq, file, path, fk, w⟩ : JobRec)
      | _ => none)
    let t := if treeOkB ns then "1" else "0"
    pure (";".intercalate (t :: recs.map fun r => (if validJobB top ns nch r then "1" else "0") ++ ":" ++ hexOfBytes r.name))
  | "keylen", [k] => do
    let k ← bytesOfHex k
    pure s!"{(mapForkDir k).length} {(journalEnc Gen.journalPairs (mapForkDir k)).length}"
  | "esc", [k] => do
    let k ← bytesOfHex k
    pure (hexOfBytes (pathEscape k))
  | "unesc", [s] => do
    let s ← bytesOfHex s
    pure (optHex (pathUnescape s))
  | "jenc", [s] => do
    let s ← bytesOfHex s
    pure (hexOfBytes (journalEnc Gen.journalPairs s))
  | "forkid", [ps] => do
    let ps ← parseParts ps
    pure (optHex (forkIdString Gen.forkIdReenters Gen.forkIdSkipsEmpty ps))
  | "pad", [w, n] => do
    let w ← w.toNat?
    let n ← n.toNat?
    pure (hexOfBytes (padded w n))
  | "width", [n] => do
    let n ← n.toNat?
    pure (toString (widthForInt n))
  | "chunk", [n, i] => do
    let n ← n.toNat?
    let i ← i.toNat?
    pure (hexOfBytes (chunkName n i))
  | "render", [fq, fp, ch, uq, f] => do
    let fq ← bytesOfHex fq
    let fp ← bytesOfHex fp
    let ch ← optB ch
    let uq ← optB uq
    let f ← bytesOfHex f
    pure (hexOfBytes (JName.render ⟨fq, fp, ch, uq, f⟩))
  | "parse", [s] => do
    let s ← bytesOfHex s
    if s.contains cNL then pure "nl" else
    match parseRun s with
    | none => pure "none"
    | some x => pure s!"some {hexOfBytes x.fqid} {hexOfBytes x.forkPart} {showOpt x.chunk} {showOpt x.uniq} {hexOfBytes x.file}"
  | "getfork", [names, index] => do
    let names ← parseHexList names
    let index ← bytesOfHex index
    match getForkNew names index with
    | some i => pure s!"some {i}"
    | none => pure "none"
  | "find", [top, fqids, name] => do
    let top ← bytesOfHex top
    let fqids ← parseHexList fqids
    let name ← bytesOfHex name
    match findNode top fqids name with
    | some i => pure s!"some {hexOfBytes (fqids.getD i [])}"
    | none => pure "none"
  | "route", [top, nodes, s] => do
    let top ← bytesOfHex top
    let nodes ← (if nodes == "." then some [] else (nodes.splitOn ";").mapM fun nd =>
      match nd.splitOn ":" with
      | [fq, fs] => do
        let fq ← bytesOfHex fq
        let fs ← parseHexList fs
        pure (⟨fq, fs⟩ : NodeM)
      | _ => none)
    let s ← bytesOfHex s
    if s.contains cNL then pure "nl" else
    match route top nodes s with
    | none => pure "none"
    | some (n, f, ch, uq, file) =>
      pure s!"some {hexOfBytes ((nodes.getD n ⟨[], []⟩).fqid)} {f} {showOpt ch} {showOpt uq} {hexOfBytes file}"
  | _, _ => none

end Driver.C11
