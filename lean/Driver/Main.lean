import Driver.Util
import Driver.C18

def dispatch (line : String) : String :=
  match line.splitOn "\t" with
  | [] => "bad-op"
  | opfull :: args =>
    match opfull.splitOn "." with
    | [p, op] =>
      let r : Option String :=
        match p with
        | "C18" => Driver.C18.handle op args
        | _ => none
      r.getD "bad-op"
    | _ => "bad-op"

partial def loop (hin hout : IO.FS.Stream) : IO Unit := do
  let line ← hin.getLine
  if line.isEmpty then return ()
  let line := if line.endsWith "\n" then line.dropRight 1 else line
  hout.putStrLn (dispatch line)
  hout.flush
  loop hin hout

def main : IO Unit := do
  loop (← IO.getStdin) (← IO.getStdout)
