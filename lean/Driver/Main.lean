import Driver.Util
import Driver.C01
import Driver.C02
import Driver.C03
import Driver.C04
import Driver.C05
import Driver.C06
import Driver.C07
import Driver.C08
import Driver.C09
import Driver.C10
import Driver.C11
import Driver.C12
import Driver.C13
import Driver.C14
import Driver.C15
import Driver.C16
import Driver.C17
import Driver.C18
import Driver.C19

def dispatch (line : String) : String :=
  match line.splitOn "\t" with
  | [] => "bad-op"
  | opfull :: args =>
    match opfull.splitOn "." with
    | [p, op] =>
      let r : Option String :=
        match p with
        | "C01" => Driver.C01.handle op args
        | "C02" => Driver.C02.handle op args
        | "C03" => Driver.C03.handle op args
        | "C04" => Driver.C04.handle op args
        | "C05" => Driver.C05.handle op args
        | "C06" => Driver.C06.handle op args
        | "C07" => Driver.C07.handle op args
        | "C08" => Driver.C08.handle op args
        | "C09" => Driver.C09.handle op args
        | "C10" => Driver.C10.handle op args
        | "C11" => Driver.C11.handle op args
        | "C12" => Driver.C12.handle op args
        | "C13" => Driver.C13.handle op args
        | "C14" => Driver.C14.handle op args
        | "C15" => Driver.C15.handle op args
        | "C16" => Driver.C16.handle op args
        | "C17" => Driver.C17.handle op args
        | "C18" => Driver.C18.handle op args
        | "C19" => Driver.C19.handle op args
        | _ => none
      r.getD "bad-op"
    | _ => "bad-op"

partial def loop (hin hout : IO.FS.Stream) : IO Unit := do
  let line ← hin.getLine
  if line.isEmpty then return ()
  let line := if line.endsWith "\n" then String.ofList line.toList.dropLast else line
  hout.putStrLn (dispatch line)
  hout.flush
  loop hin hout

def main : IO Unit := do
  loop (← IO.getStdin) (← IO.getStdout)
