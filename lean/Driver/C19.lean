import Martian.Refactor
import Martian.RefactorGraph
import Martian.RefactorGraphD
import Driver.Util

/-! Line-protocol handler for property C19.

`C19.apply <prog> <op> <callable> <param> <new> <calls 0|1> <tops a,b|.>`
→ the edited program in the same encoding (see harness/c19_enc.go):

    prog     := callable* top
    callable := ( S name flags ( in* ) ( out* ) ( retainedparam* ) )
              | ( P name flags ( in* ) ( out* ) ( call* ) ( bind* ) ( ref* ) )
    call     := ( id decId flags ( bind* ) ( bind* ) )
    bind     := ( name exp )
    exp      := ( L hex ) | ( S id path* ) | ( C id path* ) | ( A exp* )
              | ( M ( hexkey exp )* ) | ( T ( hexkey exp )* ) | ( X exp )
    top      := @ call | -
-/
namespace Driver.C19
open Martian.Refactor

abbrev P (α : Type) := List String → Option (α × List String)

def unDash (s : String) : String := if s == "-" then "" else s
def dash (s : String) : String := if s == "" then "-" else s

def expect (t : String) : P Unit
  | x :: r => if x == t then some ((), r) else none
  | [] => none

/-- tokens up to the closing paren of the current list (atoms only) -/
def atomsUntilClose : List String → List String → Option (List String × List String)
  | ")" :: r, acc => some (acc.reverse, r)
  | "(" :: _, _ => none
  | x :: r, acc => atomsUntilClose r (x :: acc)
  | [], _ => none

mutual
  partial def pExp : P Exp
    | "(" :: "L" :: h :: ")" :: r => some (.lit h, r)
    | "(" :: "S" :: id :: r => do
      let (path, r) ← atomsUntilClose r []
      some (.ref ⟨RefKind.self, unDash id, path⟩, r)
    | "(" :: "C" :: id :: r => do
      let (path, r) ← atomsUntilClose r []
      some (.ref ⟨RefKind.call, unDash id, path⟩, r)
    | "(" :: "X" :: r => do
      let (e, r) ← pExp r
      let (_, r) ← expect ")" r
      some (.split e, r)
    | "(" :: "A" :: r => do
      let (es, r) ← pElems r
      some (.arr es, r)
    | "(" :: "M" :: r => do
      let (es, r) ← pEntries r
      some (.map false es, r)
    | "(" :: "T" :: r => do
      let (es, r) ← pEntries r
      some (.map true es, r)
    | _ => none
  partial def pElems : P Exp
    | ")" :: r => some (.nil, r)
    | ts => do
      let (h, r) ← pExp ts
      let (t, r) ← pElems r
      some (.cons "" h t, r)
  partial def pEntries : P Exp
    | ")" :: r => some (.nil, r)
    | "(" :: k :: r => do
      let (h, r) ← pExp r
      let (_, r) ← expect ")" r
      let (t, r) ← pEntries r
      some (.cons k h t, r)
    | _ => none
end

partial def pMany {α : Type} (one : P α) : List String → List α → Option (List α × List String)
  | ")" :: r, acc => some (acc.reverse, r)
  | ts, acc => do
    let (x, r) ← one ts
    pMany one r (x :: acc)

def pBind : P Bind
  | "(" :: name :: r => do
    let (e, r) ← pExp r
    let (_, r) ← expect ")" r
    some (⟨name, e⟩, r)
  | _ => none

def pList {α : Type} (one : P α) : P (List α)
  | "(" :: r => pMany one r []
  | _ => none

def pAtomList : P (List String)
  | "(" :: r => atomsUntilClose r []
  | _ => none

def pRef : P Ref := fun ts => do
  let (e, r) ← pExp ts
  match e with
  | .ref x => some (x, r)
  | _ => none

def pCall : P Call
  | "(" :: id :: dec :: flags :: r => do
    let (binds, r) ← pList pBind r
    let (mods, r) ← pList pBind r
    let (_, r) ← expect ")" r
    some (⟨id, dec, unDash flags, binds, mods⟩, r)
  | _ => none

def outOf (s : String) : String × Bool :=
  if s.endsWith "!" then (String.ofList s.toList.dropLast, true) else (s, false)

def pCallable : P Callable
  | "(" :: "S" :: name :: flags :: r => do
    let (ins, r) ← pAtomList r
    let (outs, r) ← pAtomList r
    let (ret, r) ← pAtomList r
    let (_, r) ← expect ")" r
    some ({ isPipe := false, name := name, keep := flags.toList.contains 'k', ins := ins,
            outs := outs.map outOf, sretain := ret, calls := [], ret := [], retain := [] }, r)
  | "(" :: "P" :: name :: flags :: r => do
    let (ins, r) ← pAtomList r
    let (outs, r) ← pAtomList r
    let (calls, r) ← pList pCall r
    let (ret, r) ← pList pBind r
    let (retain, r) ← pList pRef r
    let (_, r) ← expect ")" r
    some ({ isPipe := true, name := name, keep := flags.toList.contains 'k', ins := ins,
            outs := outs.map outOf, sretain := [], calls := calls, ret := ret, retain := retain }, r)
  | _ => none

partial def pProgram : List String → List Callable → Option Program
  | ["-"], acc => some ⟨acc.reverse, none⟩
  | ts, acc =>
    match ts with
    | "(" :: "S" :: _ | "(" :: "P" :: _ => do
      let (c, r) ← pCallable ts
      pProgram r (c :: acc)
    | "@" :: ts => do
      let (c, r) ← pCall ts
      if r.isEmpty then some ⟨acc.reverse, some c⟩ else none
    | _ => none

/-! printer -/

def join (xs : List String) : String := " ".intercalate xs

def showRef (r : Ref) : String :=
  join (["(", (match r.kind with | .self => "S" | .call => "C"), dash r.id] ++ r.path ++ [")"])

mutual
  partial def showExp : Exp → String
    | .lit h => join ["(", "L", h, ")"]
    | .ref r => showRef r
    | .split e => join ["(", "X", showExp e, ")"]
    | .arr es => join (["(", "A"] ++ showElems es ++ [")"])
    | .map false es => join (["(", "M"] ++ showEntries es ++ [")"])
    | .map true es => join (["(", "T"] ++ showEntries es ++ [")"])
    | .nil => "?nil"
    | .cons _ _ _ => "?cons"
  partial def showElems : Exp → List String
    | .cons _ h t => showExp h :: showElems t
    | _ => []
  partial def showEntries : Exp → List String
    | .cons k h t => join ["(", k, showExp h, ")"] :: showEntries t
    | _ => []
end

def showBind (b : Bind) : String := join ["(", b.name, showExp b.exp, ")"]

def showList (xs : List String) : String := join (["("] ++ xs ++ [")"])

def showCall (c : Call) : String :=
  join ["(", c.id, c.decId, dash c.flags, showList (c.binds.map showBind), showList (c.mods.map showBind), ")"]

def showCallable (c : Callable) : String :=
  let flags := if c.keep then "k" else "-"
  let outs := c.outs.map fun o => if o.2 then o.1 ++ "!" else o.1
  if c.isPipe then
    join ["(", "P", c.name, flags, showList c.ins, showList outs, showList (c.calls.map showCall),
          showList (c.ret.map showBind), showList (c.retain.map showRef), ")"]
  else
    join ["(", "S", c.name, flags, showList c.ins, showList outs, showList c.sretain, ")"]

def showProgram (p : Program) : String :=
  join (p.callables.map showCallable ++ [match p.top with | some c => "@ " ++ showCall c | none => "-"])

/-- one operation; `some none` = operation not modelled -/
def applyOne (p : Program) : List String → Option (Option Program)
  | [eop, callable, param, new, calls, tops] =>
    let tops := if tops == "." then [] else tops.splitOn ","
    match eop with
    | "renameCallable" => some (some (renameCallable callable new p))
    | "renameInput" => some (some (renameInput callable param new p))
    | "renameOutput" => some (some (renameOutput callable param new p))
    | "removeInput" => some (some (removeInput callable param p))
    | "removeUnused" => some (some (removeUnused (calls == "1") tops p))
    | "removeOutput" => some (some (removeOutput callable param p))
    | _ => none
  | _ => none

/-- copy to `cur` the binding expressions that differ between `before` and
`after` (same callable name, call id, binding name): what `editBinding` does. -/
def transplantBinds (before after cur : List Bind) : List Bind :=
  cur.map fun b =>
    match before.find? (·.name == b.name), after.find? (·.name == b.name) with
    | some b0, some b1 => if b0.exp = b1.exp then b else { b with exp := b1.exp }
    | _, _ => b

def transplant (before after cur : Program) : Program :=
  { cur with callables := cur.callables.map fun c =>
      match before.find? c.name, after.find? c.name with
      | some c0, some c1 =>
        { c with
          calls := c.calls.map (fun k =>
            match c0.calls.find? (·.id == k.id), c1.calls.find? (·.id == k.id) with
            | some k0, some k1 => { k with binds := transplantBinds k0.binds k1.binds k.binds }
            | _, _ => k),
          ret := transplantBinds c0.ret c1.ret c.ret }
      | _, _ => c }

/-- Several operations of ONE Refactor call.  Renames are applied to the compiled
AST as they are made; the edits of a removeInput step are applied to it only when
the remove-unused loop is requested as well (refactor.go), so without the loop a
later removal step still analyses the program as it was after the renames
(`ref`), while the edits of all steps accumulate in the result (`cur`). -/
def applySeqAux (loop : Bool) (ref cur : Program) : List String → Option (Option Program)
  | [] => some (some cur)
  | eop :: callable :: param :: new :: calls :: tops :: rest =>
    if eop == "removeOutput" then
      match ref.find? callable with
      | none => applySeqAux loop ref cur rest
      | some _ =>
        -- analysis on `ref`; rewritten binding expressions go to both, removals to the result
        let (ref', acts) := removeOutputWalk (outFuel ref) callable param (ref, [])
        let cur' := acts.foldl applyOutAction (transplant ref ref' cur)
        applySeqAux loop (if loop then acts.foldl applyOutAction ref' else ref') cur' rest
    else if eop == "removeInput" then
      match ref.find? callable with
      | none => applySeqAux loop ref cur rest
      | some _ =>
        let pairs := removeInputClosure ref (closureFuel ref) [(callable, param)] []
        let cur' := removeInputs pairs cur
        applySeqAux loop (if loop then removeInputs pairs ref else ref) cur' rest
    else
      match applyOne cur [eop, callable, param, new, calls, tops] with
      | some (some cur') =>
        if eop == "removeUnused" then applySeqAux loop cur' cur' rest
        else
          match applyOne ref [eop, callable, param, new, calls, tops] with
          | some (some ref') => applySeqAux loop ref' cur' rest
          | r => r
      | r => r
  | _ => none
termination_by l => l.length

def stepsHaveLoop : List String → Bool
  | eop :: _ :: _ :: _ :: calls :: tops :: rest =>
    (eop == "removeUnused" && (calls == "1" || tops != ".")) || stepsHaveLoop rest
  | _ => false
termination_by l => l.length

def applySeq (p : Program) (steps : List String) : Option (Option Program) :=
  applySeqAux (stepsHaveLoop steps) p p steps


/-! ## resolved call graph (Martian/RefactorGraph.lean)

`C19.graph <prog> <types>` → the nodes of `deepGraph`, separated by ` ; `:

    node  := ( N fqid callable S|P ( ( name rexp )* ) rexp ( rexp* ) )
    rexp  := ( L hex ) | ( R fqid callable path* ) | ( A rexp* ) | ( M ( hexkey rexp )* )
           | ( T ( key rexp )* ) | ( X rexp )
    types := ( S name ( member base adim mdim )* )* | ( C name ( ( in base a m )* ) ( ( out base a m )* ) )*

Struct keys travel hex-encoded in programs; the graph model compares them with
member names, so they are decoded here (and printed plain). -/

def unhexStr (s : String) : String :=
  match Driver.bytesOfHex s with
  | some bs => String.ofList (bs.map fun b => Char.ofNat b.toNat)
  | none => s

mutual
  def decodeKeys : Exp → Exp
    | .lit s => .lit s
    | .ref r => .ref r
    | .split e => .split (decodeKeys e)
    | .arr es => .arr (decodeElems false es)
    | .map st es => .map st (decodeElems st es)
    | .nil => .nil
    | .cons k h t => .cons k (decodeKeys h) (decodeElems false t)
  def decodeElems (st : Bool) : Exp → Exp
    | .cons k h t => .cons (if st then unhexStr k else k) (decodeKeys h) (decodeElems st t)
    | .lit s => .lit s
    | .ref r => .ref r
    | .split e => .split e
    | .arr es => .arr es
    | .map b es => .map b es
    | .nil => .nil
end

def decodeBind (b : Bind) : Bind := { b with exp := decodeKeys b.exp }
def decodeCall (c : Call) : Call := { c with binds := c.binds.map decodeBind, mods := c.mods.map decodeBind }
def decodeProgram (p : Program) : Program :=
  { callables := p.callables.map (fun c => { c with calls := c.calls.map decodeCall, ret := c.ret.map decodeBind }),
    top := p.top.map decodeCall }

def pMember : P (String × Ty)
  | "(" :: name :: base :: a :: m :: ")" :: r => do
    let a ← a.toNat?
    let m ← m.toNat?
    some ((name, ⟨base, a, m⟩), r)
  | _ => none

def pStructDef : P (String × Members)
  | "(" :: "S" :: name :: r => do
    let (ms, r) ← pMany pMember r []
    some ((name, ms), r)
  | _ => none

def pSig : P (String × Members × Members)
  | "(" :: "C" :: name :: r => do
    let (ins, r) ← pList pMember r
    let (outs, r) ← pList pMember r
    let (_, r) ← expect ")" r
    some ((name, ins, outs), r)
  | _ => none

partial def pUntilBar {α : Type} (one : P α) : List String → List α → Option (List α × List String)
  | "|" :: r, acc => some (acc.reverse, r)
  | ts, acc => do
    let (x, r) ← one ts
    pUntilBar one r (x :: acc)

partial def pAll {α : Type} (one : P α) : List String → List α → Option (List α)
  | [], acc => some acc.reverse
  | ts, acc => do
    let (x, r) ← one ts
    pAll one r (x :: acc)

def pTypes (s : String) : Option TypeInfo := do
  let toks := (s.splitOn " ").filter (· != "")
  let (structs, r) ← pUntilBar pStructDef toks []
  let sigs ← pAll pSig r []
  some ⟨structs, sigs.map (fun s => (s.1, s.2.1)), sigs.map (fun s => (s.1, s.2.2))⟩

def fqStr (fq : List String) : String := ".".intercalate fq

mutual
  partial def showR : RExp → String
    | .lit h => join ["(", "L", h, ")"]
    | .sref fq c path => join (["(", "R", fqStr fq, dash c] ++ path ++ [")"])
    | .split e => join ["(", "X", showR e, ")"]
    | .arr es => join (["(", "A"] ++ showRElems es ++ [")"])
    | .map false es => join (["(", "M"] ++ showREntries es ++ [")"])
    | .map true es => join (["(", "T"] ++ showREntries es ++ [")"])
    | .nil => "?nil"
    | .cons _ _ _ => "?cons"
  partial def showRElems : RExp → List String
    | .cons _ h t => showR h :: showRElems t
    | _ => []
  partial def entriesOf : RExp → List (String × String)
    | .cons k h t => (k, showR h) :: entriesOf t
    | _ => []
  partial def showREntries (es : RExp) : List String :=
    ((entriesOf es).mergeSort (fun a b => a.1 ≤ b.1)).map fun e => join ["(", dash e.1, e.2, ")"]
end

def showNode (n : Node) : String :=
  let ins := (n.inputs.mergeSort (fun a b => a.1 ≤ b.1)).map fun e => join ["(", e.1, showR e.2, ")"]
  join ["(", "N", fqStr n.fqid, dash n.callable, if n.isPipe then "P" else "S", showList ins,
        showR n.outputs, showList (n.retained.map showR), ")"]

def showGraph (g : List Node) : String :=
  if g.isEmpty then "-" else " ; ".intercalate (g.map showNode)


/-! ## resolved call graph with `disabled` modifiers (Martian/RefactorGraphD.lean)

`C19.graphd <prog> <types>` → like `C19.graph`, with `( D control value )` for a value
that is null when `control` is true, and a fourth list per node: the resolved
expressions which could disable it.  `same=` tells whether `deepGraphD` is the
embedding of `deepGraph` (expected on programs without `disabled` modifiers). -/

mutual
  partial def showD : DExp → String
    | .lit h => join ["(", "L", h, ")"]
    | .sref fq c path => join (["(", "R", fqStr fq, dash c] ++ path ++ [")"])
    | .split e => join ["(", "X", showD e, ")"]
    | .arr es => join (["(", "A"] ++ showDElems es ++ [")"])
    | .map false es => join (["(", "M"] ++ showDEntries es ++ [")"])
    | .map true es => join (["(", "T"] ++ showDEntries es ++ [")"])
    | .dis d v => join ["(", "D", showD d, showD v, ")"]
    | .nil => "?nil"
    | .cons _ _ _ => "?cons"
  partial def showDElems : DExp → List String
    | .cons _ h t => showD h :: showDElems t
    | _ => []
  partial def entriesOfD : DExp → List (String × String)
    | .cons k h t => (k, showD h) :: entriesOfD t
    | _ => []
  partial def showDEntries (es : DExp) : List String :=
    ((entriesOfD es).mergeSort (fun a b => a.1 ≤ b.1)).map fun e => join ["(", dash e.1, e.2, ")"]
end

def showDNode (n : DNode) : String :=
  let ins := (n.inputs.mergeSort (fun a b => a.1 ≤ b.1)).map fun e => join ["(", e.1, showD e.2, ")"]
  join ["(", "N", fqStr n.fqid, dash n.callable, if n.isPipe then "P" else "S", showList ins,
        showD n.outputs, showList (n.retained.map showD), showList (n.disable.map showD), ")"]

def showGraphD (g : List DNode) : String :=
  if g.isEmpty then "-" else " ; ".intercalate (g.map showDNode)

def handle (op : String) (args : List String) : Option String :=
  match op, args with
  | "ping", _ => some "pong"
  | "gthm", [prog, types, eop, x, a, b] => do
    -- instances of the call-graph theorems on a concrete program: hypothesis, conclusion
    let p0 ← pProgram (prog.splitOn " ") []
    let p := decodeProgram p0
    let ti ← pTypes types
    match eop with
    | "renameInput" =>
      some s!"hyp={RenInOK x a b ti p} same={decide (deepGraph (ti.renameInput x a b) (renameInput x a b p) = (deepGraph ti p).map (renNodeIn x a b))}"
    | "renameOutput" =>
      some s!"hyp={RenOutOK x a b ti p} same={decide (deepGraph (ti.renameOutput x a b) (renameOutput x a b p) = (deepGraph ti p).map (renNodeOut x a b))}"
    | "removeInput" =>
      let pairs := removeInputClosure p (closureFuel p) [(x, a)] []
      let hyp := (p.find? x).isSome && RemInsOK pairs p
      -- the derived form: structural well-formedness + the seed condition imply `RemInsOK`
      let hyp2 := (p.find? x).isSome && StructOK p && seedOK x a p
      some s!"hyp={hyp} same={decide (deepGraph (ti.removeInputs pairs) (removeInput x a p) = pairs.foldl (fun g xq => g.map (remNodeIn xq.1 xq.2)) (deepGraph ti p))} derived={hyp2} implies={!hyp2 || hyp}"
    | "removeOutput" =>
      some s!"hyp={RemOutOK x a ti p} same={decide (deepGraph (ti.removeOutput x a) (outStep x a p) = (deepGraph ti p).map (remNodeOut x a))}"
    | "removeCalls" =>
      -- one pass of removeUnusedCalls and the loop, at the unfolding budget of the program
      let plan := unusedCallPlan p
      let n := graphFuel p
      let lhs := deepGraphAt n n (ti.removeInputs plan.2) (removeInputs plan.2 (applyCallRemovals plan.1 p))
      let rhs := plan.2.foldl (fun g xq => g.map (remNodeIn xq.1 xq.2)) (deepGraphKeepAt (keepOf plan.1) n n ti p)
      let after := deepGraphAt n n TypeInfo.empty (removeUnused true [] p)
      let before := deepGraphAt n n TypeInfo.empty p
      let le := after.all fun n' => before.any fun m =>
        n'.fqid == m.fqid && n'.callable == m.callable && n'.isPipe == m.isPipe && decide (n'.outputs = m.outputs)
          && decide (n'.retained = m.retained) && n'.inputs.all (fun kv => m.inputs.contains kv)
      -- the loop as one equation about the original graph (remove_unused_calls_loop_graph_exact_partial)
      let m := loopCount (measure p + 1) (ti, p)
      let pairs := loopPairs m (ti, p)
      let lhsL := deepGraphAt n n (ti.removeInputs pairs) (removeUnused true [] p)
      let rhsL := pairs.foldl (fun g xq => g.map (remNodeIn xq.1 xq.2))
        (deepGraphKeepAt (fun c i => loopKeep m (ti, p) c.name c.isPipe i) n n ti p)
      let fix := (unusedCallPlan (removeUnused true [] p)).1.isEmpty
      some s!"hyp={StructOK p} same={decide (lhs = rhs) && le && decide (lhsL = rhsL) && fix && decide (removeUnused true [] p = (callsIter m (ti, p)).2)} removed={plan.1.length} passes={m}"
    | "removeOutputsPass" =>
      -- one outputs pass of the -top-calls loop (remove_unused_outputs_pass_graph_partial); x = top pipelines
      let tops := x.splitOn ","
      match unusedOutputsO p p tops with
      | none => some s!"hyp=false exhausted=false same=true"
      | some T =>
        let pairs := tablePairs T
        let ins := outPassIns p T
        let hyp := StructOK p && allReachB p tops && !T.isEmpty && TableShapeOK T p && TableStructOK pairs ti p
        let after := (removeUnusedOutputsPass p tops p).1
        let lhs := deepGraph ((ti.removeOutputs pairs).removeInputs ins) after
        let rhs := ins.foldl (fun g xq => g.map (remNodeIn xq.1 xq.2))
          (pairs.foldl (fun g xo => g.map (remNodeOut xo.1 xo.2)) (deepGraph ti p))
        let same := decide (lhs = rhs) && decide (after = removeInputs ins (outSteps pairs p))
          && decide (unusedOutputs p p tops = T)
        some s!"hyp={hyp} exhausted=true same={same} struct={StructOK p} reach={allReachB p tops} nonempty={!T.isEmpty} shape={TableShapeOK T p} tstruct={TableStructOK pairs ti p} outs={pairs.length} ins={ins.length} onepass={decide (removeUnused false tops p = after)}"
    | "renameCallable" =>
      let hyp := WF p && FreshFor x b p && (p.find? x).isSome && RenCallOK x b ti (eraseIds p)
      some s!"hyp={hyp} same={decide (deepGraph (ti.renameCallable x b) (eraseIds (renameCallable x b p)) = (deepGraph ti (eraseIds p)).map (renNodeCallable x b))}"
    | _ => none
  | "gpred", [prog, types, eop, x, a, b] => do
    -- the graph after the edit as the theorem predicts it from the graph before
    let p0 ← pProgram (prog.splitOn " ") []
    let p := decodeProgram p0
    let ti ← pTypes types
    match eop with
    | "renameInput" => some (showGraph ((deepGraph ti p).map (renNodeIn x a b)))
    | "renameOutput" => some (showGraph ((deepGraph ti p).map (renNodeOut x a b)))
    | "removeInput" =>
      let pairs := removeInputClosure p (closureFuel p) [(x, a)] []
      some (showGraph (pairs.foldl (fun g xq => g.map (remNodeIn xq.1 xq.2)) (deepGraph ti p)))
    | "removeOutputsPass" =>
      let tops := x.splitOn ","
      match unusedOutputsO p p tops with
      | none => none
      | some T =>
        some (showGraph ((outPassIns p T).foldl (fun g xq => g.map (remNodeIn xq.1 xq.2))
          ((tablePairs T).foldl (fun g xo => g.map (remNodeOut xo.1 xo.2)) (deepGraph ti p))))
    | "removeCalls" =>
      -- the right-hand side of remove_unused_calls_loop_graph_exact_partial: the original graph restricted
      -- to the calls every pass keeps, minus the cascaded input keys
      let n := graphFuel p
      let m := loopCount (measure p + 1) (ti, p)
      some (showGraph ((loopPairs m (ti, p)).foldl (fun g xq => g.map (remNodeIn xq.1 xq.2))
        (deepGraphKeepAt (fun c i => loopKeep m (ti, p) c.name c.isPipe i) n n ti p)))
    | "removeOutput" =>
      -- removeOutputPlain: the parameter, then the cascade of the inputs it leaves unbound
      let pairs := match p.find? x with
        | some xc => if xc.isPipe then removeInputClosure p (closureFuel p) ((unboundInputs p xc [a] []).map (fun i => (x, i))) [] else []
        | none => []
      some (showGraph (pairs.foldl (fun g xq => g.map (remNodeIn xq.1 xq.2)) ((deepGraph ti p).map (remNodeOut x a))))
    | _ => none
  | "gfuel", [prog, types] => do
    -- the hypotheses of graph_fuel_adequate / deepGraphD_embeds_deepGraph on a concrete program
    let p0 ← pProgram (prog.splitOn " ") []
    let p := decodeProgram p0
    let ti ← pTypes types
    let n := graphFuel p
    let o := deepGraphO n n ti p
    some s!"fuel_ok={o.isSome} agrees={decide (o = some (deepGraph ti p)) || o.isNone} nodis={noDisabledMods p}"
  | "graphd", [prog, types] => do
    let p0 ← pProgram (prog.splitOn " ") []
    let p := decodeProgram p0
    let ti ← pTypes types
    let g := deepGraphD ti p
    some (s!"same={decide (g = (deepGraph ti p).map Node.toD)} " ++ showGraphD g)
  | "graph", [prog, types] => do
    let p ← pProgram (prog.splitOn " ") []
    let ti ← pTypes types
    some (showGraph (deepGraph ti (decodeProgram p)))
  | "apply", [prog, eop, callable, param, new, calls, tops] => do
    let p ← pProgram (prog.splitOn " ") []
    match applyOne p [eop, callable, param, new, calls, tops] with
    | some (some p') => some (showProgram p')
    | some none => some "unsupported"
    | none => none
  | "applyseq", prog :: steps => do
    -- several operations of one Refactor call = the composition of the single steps
    let p ← pProgram (prog.splitOn " ") []
    match applySeq p steps with
    | some (some p') => some (showProgram p')
    | some none => some "unsupported"
    | none => none
  | "thm", [prog, x, y, calls, tops] => do
    -- instances of the property theorems on a concrete program (falsification test)
    let p ← pProgram (prog.splitOn " ") []
    let tops := if tops == "." then [] else tops.splitOn ","
    let wf := WF p
    let fresh := FreshFor x y p
    let rt := decide (renameCallable y x (renameCallable x y p) = p)
    let cg := decide (eraseIds (renameCallable x y p) = renameDec x y (eraseIds p))
    let st := removeStep p (calls == "1") tops p
    let dec := !st.2 || decide (measure st.1 < measure p)
    let fix := !(removeStep p (calls == "1") tops (removeLoop p (calls == "1") tops (measure p + 1) p)).2
    some (s!"wf={wf} fresh={fresh} rt={rt} cg={cg} dec={dec} fix={fix} found={(p.find? x).isSome}")
  | "thmout", [prog, x, o] => do
    let p ← pProgram (prog.splitOn " ") []
    some (s!"unref={outputUnreferenced x o p} same={decide (removeOutput x o p = removeOutputPlain x o p)}")
  | "roundtrip", [prog] => do
    let p ← pProgram (prog.splitOn " ") []
    some (showProgram p)
  | _, _ => none

end Driver.C19
