import Martian.FormatFileText
import Driver.Util
import Driver.C09File

/-! Line-protocol handler for property C09, part FileText: the Bool hypotheses of the text-side
theorems of Props.C09 section AcceptedFileTexts (model Martian.FormatFileText), evaluated on the
file the REAL parser returned for an accepted text (item encoding of Driver/C09File.lean; a float
leaf holds what Go prints for its `float64`, a `threads` value what Go prints for its `float32`,
i.e. `canonFile g h` applied).

Ops:
  filehyps <item>…       → `strs=<b> nonegz=<b> mb=<b> mb32=<b> dist=<b> calls=<b> hyps=<b> hyps32=<b> wf=<b>`
                           (`fileStrsValid` F6b, `fileNoNegZero` F26, `fileMBValid` F25, `fileMB32Valid` F29,
                           `fileModsDistinct` F40, `fileCallsDistinct` F34, `fileHyps`, `fileHyps32`, `wfFile`
                           of `distribute …`)
  parsefile32 <hex text> → `some` TAB `<item>`… | `none`   (`parseFile32`: `mem_gb` / `vmem_gb` of every
                           stage through the float32 rounding of the literal, as the real parser)
  filesample             → `<hex sampleFileText> <hex sampleFileCanon>` (the texts of the non-vacuity
                           example)
-/
namespace Driver.C09
open Driver
open Martian.FormatFile

def handleFileText (op : String) (args : List String) : Option String :=
  match op, args with
  | "filesample", [] => pure (hexOfBytes sampleFileText ++ " " ++ hexOfBytes sampleFileCanon)
  | "parsefile32", [s] => do
    let b ← bytesOfHex s
    match parseFile32 b with
    | some f => pure ("some\t" ++ encFile f)
    | none => pure "none"
  | "filehyps", items => do
    let (is, ds, c) ← decSource items
    let f := distribute is ds c
    pure ("strs=" ++ boolStr (fileStrsValid f) ++ " nonegz=" ++ boolStr (fileNoNegZero f) ++
      " mb=" ++ boolStr (fileMBValid f) ++ " mb32=" ++ boolStr (fileMB32Valid f) ++
      " dist=" ++ boolStr (fileModsDistinct f) ++ " calls=" ++ boolStr (fileCallsDistinct f) ++
      " hyps=" ++ boolStr (fileHyps f) ++ " hyps32=" ++ boolStr (fileHyps32 f) ++
      " wf=" ++ boolStr (wfFile f))
  | _, _ => none

end Driver.C09
