import Martian.FormatExpText
import Driver.Util

/-! Line-protocol ops for the accepted-texts part of C09 (part `Text`): the two exception
predicates of `parse_produces_wf_partial` / `format_preserves_accepted_exp_partial`
(Props/C09.lean, section AcceptedTexts) evaluated on an encoded expression.

* `strsvalid <enc>` → `true` | `false`: `Martian.FormatExp.strsValid` (every string and every map
  key of the expression is valid UTF-8; `false` = an F6b input).
* `noneg0 <enc>` → `true` | `false`: `Martian.FormatExp.noNegZero` (no float leaf whose 'g' text
  is `-0`; `false` = an F26 input).

`<enc>` is the expression encoding of Driver/C09.lean (`encode`/`decode`; one TAB-separated
argument, words separated by one space).  The decoder is passed in by `Driver.C09.handle`
(Driver/C09.lean imports this file, not the other way round). -/
namespace Driver.C09
open Driver

def handleText (decode : String → Option Martian.FormatExp.Exp) (op : String) (args : List String) :
    Option String :=
  match op, args with
  | "strsvalid", [e] => do
    let e ← decode e
    pure (boolStr (Martian.FormatExp.strsValid e))
  | "noneg0", [e] => do
    let e ← decode e
    pure (boolStr (Martian.FormatExp.noNegZero e))
  | _, _ => none

end Driver.C09
