import Martian.Determinism
import Martian.DeterminismAccum
import Martian.DeterminismAccum2
import Martian.ForkOrder
import Proofs.ForkOrderBij
import Proofs.ForkOrderOn
import Driver.Util

/-! Line-protocol handler for property C10.
  mapformat <isStruct 0|1> <prefix hex> <vindent hex> <entries>   entries: key:keyText:single:text,…  (hex fields) or `.`
  json <entries>                                                  entries: key:keyJson:valJson,…
  sortkeys <hex list>
  accum <entries>        entries: key:done:changed:hasErr:err:val,…  (flags 0|1, others hex) or `.`
                         reply: done changed errs(hex list) vals(key=val;…) errText nodup
                                + the same for the loop in the order GIVEN (accumulateIn): errsIn valsIn
  fsc <tree> <initial hex list>   tree ::= L <hex list> | S <c hex> <ins 0|1> tree | M <c hex> tree | N <n> tree^n
                         reply: the set after STree.walk, sorted (hex list), and sorted S ∪ free
  callmode <kinds>       kinds: key:kind,…  kind ∈ x(not a source) s a m n u     reply: callMode callModeIn
  forkorder <roots> <table> <rt table>   roots: `;`-separated a<n> | m<hex,hex,…> | d ;  table: `.` or `/`-separated
                         <j>:<pre>=<elems>, pre = `.` or parts joined by `+` (i<n> k<hex> u e), elems = a<n> | m<hex,…> | u
                         (no entry = unknown); reply: the forks of MakeForkIds (then, if the rt table is not `.`, of
                         the run-time expansion of that list), `;`-separated, parts joined by `+`
  firstfail <entries>    entries: key:ok:text,…   reply: vals(key=val;…) err(`none`|`some hex`) nodup
-/
namespace Driver.C10
open Martian.Determinism Martian.SortKeys Driver

def nats (s : String) : Option (List Nat) := (bytesOfHex s).map (·.map UInt8.toNat)
def hexOfNats (l : List Nat) : String := hexOfBytes (l.map UInt8.ofNat)

def entries (s : String) : Option (List (List String)) :=
  if s == "." then some [] else some ((s.splitOn ",").map (·.splitOn ":"))

/-- tree ::= L <hex> | O <n> (<key hex> <keyJson hex> tree)^n   (tokens separated by spaces) -/
partial def tree : List String → Option (JTree × List String)
  | "L" :: t :: r => do let b ← nats t; pure (.leaf b, r)
  | "O" :: n :: r => do
    let n ← n.toNat?
    let rec go : Nat → List String → Option (List (Key × Bytes × JTree) × List String)
      | 0, r => some ([], r)
      | m + 1, k :: kj :: r => do
        let k ← nats k; let kj ← nats kj
        let (v, r) ← tree r
        let (rest, r) ← go m r
        pure ((k, kj, v) :: rest, r)
      | _, _ => none
    let (es, r) ← go n r
    pure (es.foldr (fun e acc => JTree.ocons e.1 e.2.1 e.2.2 acc) .onil, r)
  | _ => none

partial def stree : List String → Option (STree × List String)
  | "L" :: cs :: r => do let cs ← parseHexList cs; pure (.leaf (cs.map (·.map UInt8.toNat)), r)
  | "S" :: c :: ins :: r => do
    let c ← nats c
    let (t, r) ← stree r
    pure (.split c (ins == "1") t, r)
  | "M" :: c :: r => do
    let c ← nats c
    let (t, r) ← stree r
    pure (.merge c t, r)
  | "N" :: n :: r => do
    let n ← n.toNat?
    let rec go : Nat → List String → Option (List STree × List String)
      | 0, r => some ([], r)
      | m + 1, r => do
        let (t, r) ← stree r
        let (ts, r) ← go m r
        pure (t :: ts, r)
    let (ts, r) ← go n r
    pure (ts.foldr STree.cons .nil, r)
  | _ => none

def modeOfKind : String → Option (Option Mode)
  | "x" => some none
  | "s" => some (some .single)
  | "a" => some (some .array)
  | "m" => some (some .map)
  | "n" => some (some .null)
  | "u" => some (some .unknown)
  | _ => none

def modeStr : Mode → String
  | .single => "simple" | .array => "array" | .map => "map" | .null => "null" | .unknown => "unknown"

def dedup (l : List Key) : List Key := l.foldl (fun acc k => if acc.contains k then acc else acc ++ [k]) []

def kvList (l : List (Key × Bytes)) : String :=
  if l.isEmpty then "." else ";".intercalate (l.map fun p => hexOfNats p.1 ++ "=" ++ hexOfNats p.2)

open Martian.ForkOrder in
def foKeys (s : String) : Option (List Key) :=
  if s == "" then some [] else (s.splitOn ",").mapM nats

open Martian.ForkOrder in
def foElems (s : String) : Option Elems :=
  match s.toList with
  | 'u' :: _ => some .unknown
  | 'a' :: r => (String.ofList r).toNat?.map Elems.arr
  | 'm' :: r => (foKeys (String.ofList r)).map Elems.keys
  | _ => none

open Martian.ForkOrder in
def foPart (s : String) : Option Part :=
  match s.toList with
  | ['u'] => some .undet
  | ['e'] => some .empty
  | 'i' :: r => (String.ofList r).toNat?.map Part.idx
  | 'k' :: r => (nats (String.ofList r)).map Part.key
  | _ => none

open Martian.ForkOrder in
def foPartStr : Part → String
  | .undet => "u"
  | .empty => "e"
  | .idx n => "i" ++ toString n
  | .key k => "k" ++ hexOfNats k

open Martian.ForkOrder in
def foTable (s : String) : Option (List (Nat × List Part × Elems)) :=
  if s == "." then some [] else
  (s.splitOn "/").mapM fun e =>
    match e.splitOn "=" with
    | [lhs, el] =>
      match lhs.splitOn ":" with
      | [j, pre] => do
        let j ← j.toNat?
        let pre ← if pre == "." then some [] else (pre.splitOn "+").mapM foPart
        let el ← foElems el
        pure (j, pre, el)
      | _ => none
    | _ => none

open Martian.ForkOrder in
def foInner (t : List (Nat × List Part × Elems)) : Inner := fun j pre =>
  match t.find? fun e => e.1 == j && e.2.1 == pre with
  | some e => e.2.2
  | none => .unknown

open Martian.ForkOrder in
def foRoots (s : String) : Option (List Root) :=
  (s.splitOn ";").mapM fun r =>
    if r == "d" then some Root.dyn else (foElems r).map Root.static

def handle (op : String) (args : List String) : Option String :=
  match op, args with
  | "mapformat", [st, pre, vind, es] => do
    let pre ← nats pre
    let vind ← nats vind
    let es ← entries es
    let l ← es.mapM fun f => match f with
      | [k, kt, s, t] => do
        let k ← nats k; let kt ← nats kt; let t ← nats t
        pure (k, ({ keyText := kt, single := s == "1", text := t } : Rendered))
      | _ => none
    pure (hexOfNats (mapFormat (st == "1") pre vind l) ++ " " ++ boolStr (nodupKeys l))
  | "json", [es] => do
    let es ← entries es
    let l ← es.mapM fun f => match f with
      | [k, kj, vj] => do
        let k ← nats k; let kj ← nats kj; let vj ← nats vj
        pure (k, kj, vj)
      | _ => none
    pure (hexOfNats (jsonObject l) ++ " " ++ boolStr (nodupKeys l))
  | "nested", [t] => do
    match tree (t.splitOn " ") with
    | some (t, []) => pure (hexOfNats t.emit ++ " " ++ boolStr t.wf)
    | _ => none
  | "accum", [es] => do
    let es ← entries es
    let l ← es.mapM fun f => match f with
      | [k, d, c, he, e, v] => do
        let k ← nats k; let e ← nats e; let v ← nats v
        pure (k, ({ done := d == "1", changed := c == "1", err := if he == "1" then some e else none, val := v } : EntryRes))
      | _ => none
    let a := accumulate l
    let b := accumulateIn l
    let hl (x : List Bytes) := hexList (x.map (·.map UInt8.ofNat))
    pure (" ".intercalate [boolStr a.done, boolStr a.changed, hl a.errs, kvList a.vals,
      hexOfNats (errorListText a.errs), boolStr (nodupKeys l), hl b.errs, kvList b.vals])
  | "fsc", [t, init] => do
    let init ← parseHexList init
    let init := init.map (·.map UInt8.toNat)
    match stree (t.splitOn " ") with
    | some (t, []) =>
      let hl (x : List Key) := hexList ((sortKeys (dedup x)).map (·.map UInt8.ofNat))
      pure (hl (t.walk (dedup init)) ++ " " ++ hl (init ++ t.free))
    | _ => none
  | "callmode", [es] => do
    let es ← entries es
    let l ← es.mapM fun f => match f with
      | [k, kind] => do let k ← nats k; let m ← modeOfKind kind; pure (k, m)
      | _ => none
    pure (modeStr (callMode l) ++ " " ++ modeStr (callModeIn l) ++ " " ++ boolStr (nodupKeys l))
  | "forkorder", [roots, tbl, rt] => do
    let roots ← foRoots roots
    let tbl ← foTable tbl
    let static := Martian.ForkOrder.forkOrder roots (foInner tbl)
    let res ← if rt == "." then some static else do
      let rtt ← foTable rt
      pure (Martian.ForkOrder.expandRuntime roots.length (foInner rtt) static)
    pure (if res.isEmpty then "." else
      ";".intercalate (res.map fun f => "+".intercalate (f.map foPartStr)))
  -- instance of theorem forks_bijection: is the static list a duplicate-free enumeration of
  -- exactly the combinations the sources define (`allForks`)?
  | "forkbij", [roots, tbl] => do
    let roots ← foRoots roots
    let tbl ← foTable tbl
    let res := Martian.ForkOrder.forkOrder roots (foInner tbl)
    let all := Martian.ForkOrder.allForks (foInner tbl) 0 [] roots
    -- first the HYPOTHESIS of forks_bijection_where_known evaluated on this table, then the conclusion
    pure (boolStr (Martian.ForkOrder.knownWhereNeeded roots (foInner tbl)) ++ " " ++
      boolStr (res.length == all.length && res.all (fun f => all.contains f)
        && all.all (fun f => res.contains f) && res.eraseDups.length == res.length))
  | "firstfail", [es] => do
    let es ← entries es
    let l ← es.mapM fun f => match f with
      | [k, ok, t] => do
        let k ← nats k; let t ← nats t
        pure (k, (ok == "1", t))
      | _ => none
    let r := firstFailure (fun _ (w : Bool × Bytes) => if w.1 then Except.ok w.2 else Except.error w.2) l
    pure (" ".intercalate [kvList r.1, (match r.2 with | some e => "some " ++ hexOfNats e | none => "none"),
      boolStr (nodupKeys l)])
  | "sortkeys", [ks] => do
    let ks ← parseHexList ks
    pure (hexList ((forkKeyParts (ks.map (·.map UInt8.toNat))).map (·.map UInt8.ofNat)))
  | _, _ => none

end Driver.C10
