import Martian.Invocation
import Martian.InvocationStr
import Martian.JsonBytes
import Martian.InvocationText
import Martian.InvocationJson
import Martian.InvocationFork
import Martian.InvocationSort
import Driver.Util

/-!
Line-protocol handler for property C16.

Trees travel as space-separated token lists inside one TAB field:
  value   := `n` | `T` | `F` | `i<int>` | `d<0|1>:<m>:<e>` (exact float64 = ± m·2^e) | `s<hex>`
           | `[` value* `]` | `{` (`k<hex>` value)* `}`        (`{` = `{m`; struct literal: `{s`)
  typeid  := `t<arrayDim>:<mapDim>` base
  base    := `c` (scalar) | `u` (untyped map) | `x` (unknown) | `(` (`f<hex>` typeid)* `)`
Replies: `some …` / `none`; expressions print with `{m` / `{s`.
-/
namespace Driver.C16
open Martian.Invocation Driver

/-! ### parsing -/

def parseFlt (s : String) : Option Flt :=
  match s.splitOn ":" with
  | [n, m, e] => do
    let m ← m.toNat?
    let e ← e.toInt?
    let n ← if n == "0" then some false else if n == "1" then some true else none
    pure ⟨n, m, e⟩
  | _ => none

def parseScalar (tok : String) : Option Lit :=
  if tok == "n" then some .null
  else if tok == "T" then some (.bool true)
  else if tok == "F" then some (.bool false)
  else match tok.toList with
    | 'i' :: r => (String.ofList r).toInt?.map .int
    | 'd' :: r => (parseFlt (String.ofList r)).map .flt
    | 's' :: r => (bytesOfHex (String.ofList r)).map .str
    | _ => none

mutual
def parseExp : Nat → List String → Option (Exp × List String)
  | 0, _ => none
  | _ + 1, [] => none
  | fuel + 1, tok :: rest =>
    if tok == "[" then
      (parseList fuel rest).map fun (xs, r) => (.arr xs, r)
    else if tok == "{" || tok == "{m" then
      (parseKvs fuel rest).map fun (kvs, r) => (.map false kvs, r)
    else if tok == "{s" then
      (parseKvs fuel rest).map fun (kvs, r) => (.map true kvs, r)
    else (parseScalar tok).map fun l => (.lit l, rest)
def parseList : Nat → List String → Option (EList × List String)
  | 0, _ => none
  | _ + 1, [] => none
  | fuel + 1, tok :: rest =>
    if tok == "]" then some (.nil, rest)
    else match parseExp fuel (tok :: rest) with
      | some (e, r) => (parseList fuel r).map fun (es, r') => (.cons e es, r')
      | none => none
def parseKvs : Nat → List String → Option (EKvs × List String)
  | 0, _ => none
  | _ + 1, [] => none
  | fuel + 1, tok :: rest =>
    if tok == "}" then some (.nil, rest)
    else match tok.toList with
      | 'k' :: kh =>
        match bytesOfHex (String.ofList kh) with
        | some k =>
          match parseExp fuel rest with
          | some (e, r) => (parseKvs fuel r).map fun (es, r') => (.cons k e es, r')
          | none => none
        | none => none
      | _ => none
end

def tokens (s : String) : List String := (s.splitOn " ").filter (· ≠ "")

def parseExpStr (s : String) : Option Exp :=
  let ts := tokens s
  match parseExp (ts.length + 1) ts with
  | some (e, []) => some e
  | _ => none

mutual
/-- structure-preserving reading of a token tree as JSON (flags dropped) -/
def toJ : Exp → J
  | .lit l => .lit l
  | .arr xs => .arr (toJList xs)
  | .map _ kvs => .obj (toJKvs kvs)
def toJList : EList → JList
  | .nil => .nil
  | .cons e r => .cons (toJ e) (toJList r)
def toJKvs : EKvs → JKvs
  | .nil => .nil
  | .cons k e r => .cons k (toJ e) (toJKvs r)
end

def parseJStr (s : String) : Option J := (parseExpStr s).map toJ

def parseDims (s : String) : Option (Nat × Nat) :=
  match s.toList with
  | 't' :: r =>
    match (String.ofList r).splitOn ":" with
    | [a, m] => do pure (← a.toNat?, ← m.toNat?)
    | _ => none
  | _ => none

mutual
def parseType : Nat → List String → Option (TypeId × List String)
  | 0, _ => none
  | _ + 1, [] => none
  | _ + 1, [_] => none
  | fuel + 1, dims :: b :: rest =>
    match parseDims dims with
    | none => none
    | some (ad, md) =>
      if b == "c" then some (⟨.scalar, ad, md⟩, rest)
      else if b == "u" then some (⟨.umap, ad, md⟩, rest)
      else if b == "x" then some (⟨.unknown, ad, md⟩, rest)
      else if b == "(" then
        (parseFields fuel rest).map fun (fs, r) => (⟨.struct fs, ad, md⟩, r)
      else none
def parseFields : Nat → List String → Option (Fields × List String)
  | 0, _ => none
  | _ + 1, [] => none
  | fuel + 1, tok :: rest =>
    if tok == ")" then some (.nil, rest)
    else match tok.toList with
      | 'f' :: nh =>
        match bytesOfHex (String.ofList nh) with
        | some n =>
          match parseType fuel rest with
          | some (t, r) =>
            (parseFields fuel r).map fun (fs, r') => (.cons n t.base t.arrayDim t.mapDim fs, r')
          | none => none
        | none => none
      | _ => none
end

def parseTypeStr (s : String) : Option TypeId :=
  let ts := tokens s
  match parseType (ts.length + 1) ts with
  | some (t, []) => some t
  | _ => none

/-! ### printing -/

def showInt (i : Int) : String := toString i

def showLit : Lit → String
  | .null => "n"
  | .bool true => "T"
  | .bool false => "F"
  | .int i => "i" ++ showInt i
  | .flt f => "d" ++ (if f.neg then "1" else "0") ++ ":" ++ toString f.m ++ ":" ++ showInt f.e
  | .str s => "s" ++ hexOfBytes s

mutual
def showExp : Exp → List String
  | .lit l => [showLit l]
  | .arr xs => "[" :: (showList xs ++ ["]"])
  | .map k kvs => (if k then "{s" else "{m") :: (showKvs kvs ++ ["}"])
def showList : EList → List String
  | .nil => []
  | .cons e r => showExp e ++ showList r
def showKvs : EKvs → List String
  | .nil => []
  | .cons k e r => ("k" ++ hexOfBytes k) :: (showExp e ++ showKvs r)
end

mutual
def showJ : J → List String
  | .lit l => [showLit l]
  | .arr xs => "[" :: (showJList xs ++ ["]"])
  | .obj kvs => "{" :: (showJKvs kvs ++ ["}"])
def showJList : JList → List String
  | .nil => []
  | .cons e r => showJ e ++ showJList r
def showJKvs : JKvs → List String
  | .nil => []
  | .cons k e r => ("k" ++ hexOfBytes k) :: (showJ e ++ showJKvs r)
end

def join (ts : List String) : String := " ".intercalate ts

def showArg : Arg → String
  | .plain e => "P " ++ join (showExp e)
  | .split e => "S " ++ join (showExp e)

def parseKV (p : String) : Option (List UInt8 × List UInt8) :=
  match p.splitOn ":" with
  | [k, v] => do
    let k ← bytesOfHex k
    let v ← bytesOfHex v
    pure (k, v)
  | _ => none

/-- strconv as given by the harness: `<neg>:<m>:<e>=<hex text>,…` (`.` = no float) -/
def parseG (s : String) : Option Martian.InvocationText.G :=
  if s == "." then some ⟨fun _ => [], fun _ => ⟨false, 0, 0⟩⟩ else do
    let tbl ← (s.splitOn ",").mapM fun p =>
      match p.splitOn "=" with
      | [f, t] => do
        let f ← parseFlt f
        let t ← bytesOfHex t
        pure (f, t)
      | _ => none
    pure ⟨fun f => ((tbl.find? fun p => p.1 == f).map (·.2)).getD [],
          fun t => ((tbl.find? fun p => p.2 == t).map (·.1)).getD ⟨false, 0, 0⟩⟩

def parseArgStr (s : String) : Option Arg :=
  match tokens s with
  | "S" :: r => (parseExpStr (" ".intercalate r)).map .split
  | "P" :: r => (parseExpStr (" ".intercalate r)).map .plain
  | _ => none

/-! ### fork invocations (C16-H2): values in the resolver's dynamic types

  mv := `_` (nil) | `V` iexp (ValExp; iexp = exp tokens plus `SPLIT` iexp) | `R` value (RawMessage)
      | `L{` (`k<hex>` value)* `}` (LazyArgumentMap) | `M{` (`k<hex>` mv)* `}` (MarshalerMap) | `A[` mv* `]` -/
open Martian.InvocationFork in
mutual
def parseIExp : Nat → List String → Option (IExp × List String)
  | 0, _ => none
  | _ + 1, [] => none
  | fuel + 1, tok :: rest =>
    if tok == "SPLIT" then (parseIExp fuel rest).map fun (e, r) => (.split e, r)
    else if tok == "[" then (parseIList fuel rest).map fun (xs, r) => (.arr xs, r)
    else if tok == "{" || tok == "{m" then (parseIKvs fuel rest).map fun (kvs, r) => (.map false kvs, r)
    else if tok == "{s" then (parseIKvs fuel rest).map fun (kvs, r) => (.map true kvs, r)
    else (parseScalar tok).map fun l => (.lit l, rest)
def parseIList : Nat → List String → Option (IList × List String)
  | 0, _ => none
  | _ + 1, [] => none
  | fuel + 1, tok :: rest =>
    if tok == "]" then some (.nil, rest)
    else match parseIExp fuel (tok :: rest) with
      | some (e, r) => (parseIList fuel r).map fun (es, r') => (.cons e es, r')
      | none => none
def parseIKvs : Nat → List String → Option (IKvs × List String)
  | 0, _ => none
  | _ + 1, [] => none
  | fuel + 1, tok :: rest =>
    if tok == "}" then some (.nil, rest)
    else match tok.toList with
      | 'k' :: kh =>
        match bytesOfHex (String.ofList kh) with
        | some k =>
          match parseIExp fuel rest with
          | some (e, r) => (parseIKvs fuel r).map fun (es, r') => (.cons k e es, r')
          | none => none
        | none => none
      | _ => none
end

def parseJKvsTok (fuel : Nat) (ts : List String) : Option (JKvs × List String) :=
  (parseKvs fuel ts).map fun (kvs, r) => (toJKvs kvs, r)

open Martian.InvocationFork in
mutual
def parseMV : Nat → List String → Option (MV × List String)
  | 0, _ => none
  | _ + 1, [] => none
  | fuel + 1, tok :: rest =>
    if tok == "_" then some (.nil, rest)
    else if tok == "V" then (parseIExp fuel rest).map fun (e, r) => (.val e, r)
    else if tok == "R" then (parseExp fuel rest).map fun (e, r) => (.raw (toJ e), r)
    else if tok == "L{" then (parseJKvsTok fuel rest).map fun (kvs, r) => (.lazy kvs, r)
    else if tok == "M{" then (parseMKvs fuel rest).map fun (kvs, r) => (.mmap kvs, r)
    else if tok == "A[" then (parseMList fuel rest).map fun (xs, r) => (.marr xs, r)
    else none
def parseMList : Nat → List String → Option (MList × List String)
  | 0, _ => none
  | _ + 1, [] => none
  | fuel + 1, tok :: rest =>
    if tok == "]" then some (.nil, rest)
    else match parseMV fuel (tok :: rest) with
      | some (v, r) => (parseMList fuel r).map fun (vs, r') => (.cons v vs, r')
      | none => none
def parseMKvs : Nat → List String → Option (MKvs × List String)
  | 0, _ => none
  | _ + 1, [] => none
  | fuel + 1, tok :: rest =>
    if tok == "}" then some (.nil, rest)
    else match tok.toList with
      | 'k' :: kh =>
        match bytesOfHex (String.ofList kh) with
        | some k =>
          match parseMV fuel rest with
          | some (v, r) => (parseMKvs fuel r).map fun (vs, r') => (.cons k v vs, r')
          | none => none
        | none => none
      | _ => none
end

def parseMVStr (s : String) : Option Martian.InvocationFork.MV :=
  let ts := tokens s
  match parseMV (ts.length + 1) ts with
  | some (v, []) => some v
  | _ => none

/-- `<hex id>=<rest>` -/
def splitEq (s : String) : Option (List UInt8 × String) :=
  match s.splitOn "=" with
  | k :: r@(_ :: _) => (bytesOfHex k).map fun k => (k, "=".intercalate r)
  | _ => none

def handle (op : String) (args : List String) : Option String :=
  match op, args with
  | "encode", [e] => do
    let e ← parseExpStr e
    pure (join (showJ (encode e)))
  | "binding", [s, t, j] => do
    let s ← if s == "0" then some false else if s == "1" then some true else none
    let t ← parseTypeStr t
    let j ← parseJStr j
    match buildBinding s t j with
    | some a =>
      pure ("some " ++ showArg a ++ " | " ++ boolStr (dataOfBinding a).1 ++ " "
        ++ join (showJ (dataOfBinding a).2) ++ " | " ++ boolStr a.printable)
    | none => pure "none"
  | "jwt", [t, j] => do
    -- JSON-side typing (hypothesis of convert_wt) and the well-typedness of the conversion
    let t ← parseTypeStr t
    let j ← parseJStr j
    pure (boolStr (jWt t.base t.arrayDim t.mapDim j) ++ " " ++ boolStr (jIntsOk j) ++ " " ++
      (match convert t j with
        | some e => boolStr (wt t.base t.arrayDim t.mapDim e)
        | none => "none"))
  | "bindok", [t, a] => do
    -- the hypotheses of binding_roundtrip on a real binding: `<wt | splitOperandOk> <intsOk>`
    let t ← parseTypeStr t
    let a ← parseArgStr a
    pure (match a with
      | .plain e => boolStr (wt t.base t.arrayDim t.mapDim e) ++ " " ++ boolStr (intsOk e)
      | .split e => boolStr (splitOperandOk t e) ++ " " ++ boolStr (intsOk e))
  | "fltint", [f] => do
    let f ← parseFlt f
    pure ("text=" ++ (if f.textAsInt then "int " ++ showInt f.intVal else "float")
      ++ " json=" ++ (if f.jsonAsInt then "int " ++ showInt f.intVal else "float"))
  | "jsonenc", [h, s] => do
    let h ← if h == "0" then some false else if h == "1" then some true else none
    let s ← bytesOfHex s
    pure (hexOfBytes (Martian.InvocationStr.jsonEncodeString h s))
  | "pyenc", [s] => do
    let s ← bytesOfHex s
    pure (hexOfBytes (Martian.InvocationStr.pyEncodeString s))
  | "mroquote", [s] => do
    let s ← bytesOfHex s
    pure (hexOfBytes (Martian.Format.quoteString s))
  | "jsondec", [t] => do
    let t ← bytesOfHex t
    pure (optHex (Martian.InvocationStr.jsonDecodeString t))
  | "unq", [t] => do
    let t ← bytesOfHex t
    pure (optHex (Martian.Lexer.unquoteBytes t))
  | "jsontree", [b] => do
    -- bytes of a JSON value → the invocation tree (grammar model + ParseFloat rounding): `some <json>` | `none`
    let b ← bytesOfHex b
    pure (match Martian.InvocationJson.treeOfBytes b with
      | some j => "some " ++ join (showJ j)
      | none => "none")
  | "textleg", [g, e] => do
    -- the REAL text leg on one expression: `wf=<b> fok=<b> text=<hex> back=<exp>|none`
    let g ← parseG g
    let e ← parseExpStr e
    let back := match Martian.InvocationText.textLeg g e with
      | some e' => join (showExp e')
      | none => "none"
    pure ("wf=" ++ boolStr (Martian.InvocationText.wfText g e) ++ " fok=" ++
      boolStr (Martian.InvocationText.floatsOk g e) ++ " text=" ++
      hexOfBytes (Martian.InvocationText.printExp g e) ++ " back=" ++ back)
  | "calltext", g :: name :: binds => do
    -- the REAL text leg on a call: bindings as `<hex id>=<arg>`; `wf=<b> fok=<b> text=<hex> back=<name> <id>=<arg>;…|none`
    let g ← parseG g
    let name ← bytesOfHex name
    let bs ← binds.mapM fun b =>
      match b.splitOn "=" with
      | [k, a] => do
        let k ← bytesOfHex k
        let a ← parseArgStr a
        pure (k, a)
      | _ => none
    let back := match Martian.InvocationText.callTextLeg g name bs with
      | some (n, bs') => hexOfBytes n ++ " " ++ ";".intercalate (bs'.map fun b => hexOfBytes b.1 ++ "=" ++ showArg b.2)
      | none => "none"
    pure ("wf=" ++ boolStr (Martian.InvocationText.wfCallText g name bs) ++ " fok=" ++
      boolStr (Martian.InvocationText.floatsOkBinds g bs) ++ " text=" ++
      hexOfBytes (Martian.InvocationText.printCall g name bs) ++ " back=" ++ back)
  | "forkinv", g :: decId :: id :: mapped :: rest => do
    -- the model of Fork.writeInvocation on the resolved inputs of one fork: sig fields `<hex id>=<typeid>`,
    -- then `|`, then argument fields `<hex id>=<mv>`.  Reply: `built=<b>` and, when built,
    -- `plain=<b> compiles=<b> ph=<placeholder map call> wf=<b> fok=<b> cons=<b> text=<hex> data=<hex id>=<json>;… split=<hex,…>`
    let g ← parseG g
    let decId ← bytesOfHex decId
    let id ← bytesOfHex id
    let mapped ← if mapped == "." then some [] else (mapped.splitOn ",").mapM bytesOfHex
    let sigF := rest.takeWhile (· != "|")
    let argF := (rest.dropWhile (· != "|")).drop 1
    let sig ← sigF.mapM fun f => do
      let (k, t) ← splitEq f
      let t ← parseTypeStr t
      pure (k, t)
    let margs ← argF.mapM fun f => do
      let (k, v) ← splitEq f
      let v ← parseMVStr v
      pure (k, v)
    match Martian.InvocationFork.invocationOf sig mapped margs with
    | none => pure "built=false"
    | some ibs =>
      let compiles := Martian.InvocationFork.forkCompiles g decId id mapped ibs
      let ph := Martian.InvocationFork.mapPlaceholder mapped ibs
      match Martian.InvocationFork.plainBinds ibs with
      | none => pure ("built=true plain=false compiles=" ++ boolStr compiles ++ " ph=" ++ boolStr ph)
      | some bs0 =>
        let bs := Martian.InvocationSort.sortBinds bs0
        let data := match (if ph then none else Martian.InvocationFork.forkTextLeg g decId id bs) with
          | some (_, _, bs') =>
            let d := dataOf bs'
            ";".intercalate (d.args.map fun a => hexOfBytes a.1 ++ "=" ++ join (showJ a.2)) ++ " split=" ++
              (if d.splitargs.isEmpty then "." else ",".intercalate (d.splitargs.map hexOfBytes))
          | none => "none"
        pure ("built=true plain=true compiles=" ++ boolStr compiles ++ " ph=" ++ boolStr ph ++ " wf=" ++
          boolStr (Martian.InvocationFork.wfForkText g decId id bs) ++ " fok=" ++
          boolStr (Martian.InvocationText.floatsOkBinds g bs) ++ " cons=" ++
          boolStr (Martian.InvocationFork.splitsConsistent bs) ++ " text=" ++
          hexOfBytes (Martian.InvocationFork.printForkM g decId id mapped ibs bs0) ++ " data=" ++ data)
  | "sortkeys", [e] => do
    -- member order (C16-M1): the Go map of the members read out in printing order; `sorted=<b> <exp>`
    let e ← parseExpStr e
    pure ("sorted=" ++ boolStr (Martian.InvocationSort.sortedE e) ++ " " ++
      join (showExp (Martian.InvocationSort.sortE e)))
  | "encmap", [h, m] => do
    -- sorted-key raw-message map writer: `<khex>:<vhex>,…` (`.` = empty map)
    let h ← if h == "0" then some false else if h == "1" then some true else none
    let ps ← if m == "." then some [] else (m.splitOn ",").mapM parseKV
    pure (hexOfBytes (Martian.JsonBytes.encodeRawMap h ps))
  | "encarr", [xs] => do
    let xs ← parseHexList xs
    pure (hexOfBytes (Martian.JsonBytes.encodeRawArr xs))
  | _, _ => none

end Driver.C16
