import Martian.Sched
import Martian.SchedProgress
import Driver.Util

/-!
Line-protocol handler for the `Sched` model (properties C02, C03, C05, C06).

Ops (request = `C02.<op>\t<arg>…`):

* `C02.metastate <s1,s2,…>`  — sentinel names as in Go without the `_` prefix
  (`errors assert complete disabled log jobinfo queued_locally`; unknown names are
  ignored; `-` = none).  Reply `<state> <true|false>` exactly like
  `Metadata._getStateNoLock` (`none false` when no sentinel gives a state).
* (removed: `forkstate`, `chunkstate`, `nodestate`, `final` — no harness stream called them; the
  derived states are compared on every `snapshot` line of `replay` instead)
* formerly `C02.forkstate <fork>|<join>|<split>[|<chunk0>|<chunk1>…]` — each field a
  comma separated sentinel list (`-` = empty) = the cache of the fork's own
  metadata, of its join, of its split and of every chunk object.  Reply: the
  `Fork.getState` name (`ready failed complete disabled split_<s> chunks_complete
  chunks_running join_<s>`).
* `C02.chunkstate <s1,s2,…>` — `Chunk.getState` name.
* `C02.nodestate <forkstates> <prestates>` (two TAB separated args) — comma
  separated fork state names in `Node.forks` order (`-` = no forks) and comma
  separated `Node.getState` names of the prenodes (`none` = waiting, `-` = no
  prenodes).  Reply: the `Node.getState` name (`none running complete failed
  disabled`).
* `C02.replay <line;line;…>` — a whole history as emitted by
  harness/tiera_trace.go (`node …` lines, `start`, then events; an optional line
  `mode fullreset` before `start` selects `Config.FullStageReset` semantics).  Reply
  `ok <number of lines>[ note=reopened-finished-node][ note=failed-fork-masked@<line index>]`
  (`reopened…`: a restart gave an already finished node new forks; `masked`: first
  snapshot at which a node has a failed fork but `Node.getState` ≠ failed) or `reject <0-based line index> <reason…>`.
  `snapshot` lines are compared with the model's own derived states
  (`reject i snapshot-mismatch …`).  One normalisation is applied: the tracer
  prints `mkchunks n f k` before the `W n f split complete` of the same
  scheduler pass (diff order); the two are swapped back into causal order.
  A line `fatal <n> <f> <role> <errors|assert>` (what the real `Node.getFatalError` of failed
  node n reported: the metadata object and the file) is compared with the model's
  `fatalError` (`reject i fatal-mismatch …`).  After `<number of lines>` the reply carries
  `end=<finished|done|open:<k>|crashed|loading>`: the model's end state is `Finished`
  (every node finished and every cached node state current) / every node finished / k
  nodes unfinished / mrp dead / still loading, `mu=<a>,<b>` the progress measure there, and
  `topo=<ok|no> ff=<ok|no> benign=<ok|no> alive=<ok|no>`: the decidable hypotheses of the run theorems
  evaluated on this history (`topoSorted` of the graph ⇒ `Acyclic`; every event `failureFree`; every
  event `Ev.benign`; `aliveOk` (⇒ `AliveInv`) in the state reached each time loading ends), and
  `quiescent=<ok|no>`: `quiescent` of the end state (hypothesis of `maximal_run_complete`).
* `C02.final <line;…>` — like replay, reply `ok <launches> <resets> <inc>` (summary of
  the ghost history) or `reject …`.
-/
namespace Driver.C02
open Martian.Sched Driver

def parseSentinel : String → Option Sentinel
  | "errors" => some .errors | "assert" => some .assert | "complete" => some .complete
  | "disabled" => some .disabled | "log" => some .log | "jobinfo" => some .jobinfo
  | "queued_locally" => some .queuedLocally
  | _ => none

def parseSSet (s : String) : SSet :=
  if s == "-" || s == "" then {} else
  (s.splitOn ",").foldl (fun acc n => match parseSentinel n with
    | some x => acc.add x | none => acc) {}

def parseMState : String → Option MState
  | "failed" => some .failed | "complete" => some .complete | "disabled" => some .disabled
  | "running" => some .running | "queued" => some .queued | _ => none

def dropStr (n : Nat) (s : String) : String := String.ofList (s.toList.drop n)

def parseFState (s : String) : Option FState :=
  match s with
  | "ready" => some .ready | "failed" => some .failed | "complete" => some .complete
  | "disabled" => some .disabled | "chunks_complete" => some .chunksComplete
  | "chunks_running" => some .chunksRunning
  | _ =>
    if s.startsWith "split_" then (parseMState (dropStr 6 s)).map .split
    else if s.startsWith "join_" then (parseMState (dropStr 5 s)).map .join
    else none

def parseNState : String → Option NState
  | "none" => some .waiting | "running" => some .running | "complete" => some .complete
  | "failed" => some .failed | "disabled" => some .disabled | _ => none

def parseRole (s : String) : Option Role :=
  match s with
  | "split" => some .split | "join" => some .join | "fork" => some .fork
  | "main" => some (.chunk 0)
  | _ => if s.startsWith "chunk:" then (dropStr 6 s).toNat?.map .chunk else none

def parseObj (n f r : String) : Option Obj := do
  pure ⟨← n.toNat?, ← f.toNat?, ← parseRole r⟩

inductive Item where
  | node (id : Nat) (info : NodeInfo)
  | start
  | mode (full : Bool)
  | ev (e : Ev)
  | snapshot (n : Nat) (cached live : String) (forks : List (Nat × String × List (Nat × String)))
  | fatal (o : Obj) (x : Sentinel)
  deriving Inhabited

def stripBr (s : String) : String := String.ofList (s.toList.filter fun c => c != '[' && c != ']')

def parseSnapFork (s : String) : Option (Nat × String × List (Nat × String)) :=
  match s.splitOn "," with
  | [] => none
  | hd :: cs =>
    match hd.splitOn ":" with
    | [f, st] => do
      let f ← f.toNat?
      let cs ← cs.mapM fun c => match c.splitOn "=" with
        | [i, cst] => do pure ((← i.toNat?), cst)
        | _ => none
      pure (f, st, cs)
    | _ => none

def parseLine (l : String) : Option Item :=
  match (l.splitOn " ").filter (· != "") with
  | "node" :: id :: kind :: rest => do
    let id ← id.toNat?
    let k ← match kind with
      | "stage" => some Kind.stage | "splitstage" => some Kind.splitstage
      | "pipeline" => some Kind.pipeline | _ => none
    let pf := rest.contains "preflight"
    let pre ← ((rest.filter (· != "preflight")).map stripBr |>.filter (· != "")).mapM String.toNat?
    pure (.node id { kind := k, pre := pre, preflight := pf })
  | ["start"] => some .start
  | ["mode", "fullreset"] => some (.mode true)
  | ["mode", "default"] => some (.mode false)
  | ["W", n, f, r, x] => do pure (.ev (.W (← parseObj n f r) (← parseSentinel x)))
  | ["R", n, f, r, x] => do pure (.ev (.R (← parseObj n f r) (← parseSentinel x)))
  | ["D", n, f, r, x] => do pure (.ev (.D (← parseObj n f r) (← parseSentinel x)))
  | ["U", n, f, r, x] => do pure (.ev (.U (← parseObj n f r) (← parseSentinel x)))
  | ["fork", n, f] => do pure (.ev (.fork (← n.toNat?) (← f.toNat?)))
  | "forkorder" :: n :: l => do pure (.ev (.forkorder (← n.toNat?) (← l.mapM String.toNat?)))
  | ["mkchunks", n, f, k] => do pure (.ev (.mkchunks (← n.toNat?) (← f.toNat?) (← k.toNat?)))
  | ["launch", n, f, r] => do pure (.ev (.launch (← parseObj n f r)))
  | ["joblog", n, f, r] => do pure (.ev (.joblog (← parseObj n f r)))
  | ["jobend", n, f, r, x] => do pure (.ev (.jobend (← parseObj n f r) (← parseSentinel x)))
  | ["silentfail", n, f, r] => do pure (.ev (.silentfail (← parseObj n f r)))
  | ["killed", n, f, r] => do pure (.ev (.killed (← parseObj n f r)))
  | ["refresh"] => some (.ev .refresh)
  | ["stepend"] => some (.ev .stepend)
  | ["nodestate", n, st] => do pure (.ev (.nodestate (← n.toNat?) (← parseNState st)))
  | ["crash"] => some (.ev .crash)
  | ["restart"] => some (.ev .restart)
  | ["reset", n, f, r] => do pure (.ev (.reset (← parseObj n f r)))
  | ["fatal", n, f, r, x] => do pure (.fatal (← parseObj n f r) (← parseSentinel x))
  | "snapshot" :: n :: cached :: live :: forks => do
    pure (.snapshot (← n.toNat?) cached live (← forks.mapM parseSnapFork))
  | _ => none

/-- compare one snapshot with the model; `none` = equal -/
def checkSnapshot (s : State) (n : Nat) (cached live : String)
    (forks : List (Nat × String × List (Nat × String))) : Option String :=
  if (s.cachedOf n).name != cached then
    some s!"cached-node-state model={(s.cachedOf n).name} real={cached}"
  else if (nodeState s n).name != live then
    some s!"live-node-state model={(nodeState s n).name} real={live}"
  else if forks.length != (s.forksOf n).length then
    some s!"fork-count model={(s.forksOf n).length} real={forks.length}"
  else
    forks.findSome? fun (f, st, cs) =>
      if !(s.forksOf n).contains f then some s!"unknown-fork {f}"
      else if (forkState s n f).name != st then
        some s!"fork-state fork={f} model={(forkState s n f).name} real={st}"
      else if cs.length != s.nch n f then
        some s!"chunk-count fork={f} model={s.nch n f} real={cs.length}"
      else cs.findSome? fun (i, cst) =>
        if chunkStateName (chunkState s n f i) != cst then
          some s!"chunk-state fork={f} chunk={i} model={chunkStateName (chunkState s n f i)} real={cst}"
        else none

/-- undo the tracer's diff order: `mkchunks n f k ; W n f split complete` → swapped -/
def normalise : List (Nat × Item) → List (Nat × Item)
  | (i, .ev (.mkchunks n f k)) :: (j, .ev (.W o x)) :: r =>
    if o == ⟨n, f, .split⟩ && x == .complete then
      (j, .ev (.W o x)) :: (i, .ev (.mkchunks n f k)) :: normalise r
    else (i, .ev (.mkchunks n f k)) :: normalise ((j, .ev (.W o x)) :: r)
  | a :: r => a :: normalise r
  | [] => []

def header : List (Nat × Item) → List NodeInfo → Bool →
    Except String (List NodeInfo × Bool × List (Nat × Item))
  | (i, .node id info) :: r, acc, full =>
    if id == acc.length then header r (acc ++ [info]) full
    else .error s!"reject {i} node-ids-not-consecutive"
  | (_, .mode m) :: r, acc, _ => header r acc m
  | (_, .start) :: r, acc, full => .ok (acc, full, r)
  | (i, _) :: _, _, _ => .error s!"reject {i} expected-node-or-start"
  | [], _, _ => .error "reject 0 no-start-line"

/-- `FullStageReset` ONLY (in the default mode the guard `chunks-redefined-at-reattach` must see the
history as it is): chunk objects that vanish with their stage directory are not
listed by the tracer (it only says `mkchunks n f 0`): reset them first -/
def dropChunks (s : State) (n f k : Nat) : State :=
  if s.full && s.phase == .loading && k < s.nch n f then
    (List.range (s.nch n f)).foldl (fun s i =>
      let o : Obj := ⟨n, f, .chunk i⟩
      if k ≤ i && s.m o != {} && enabled s (.reset o) then apply s (.reset o) else s) s
  else s

/-- a failed fork hidden from `Node.getState` by the `break` at an earlier unfinished fork -/
def masked (s : State) (n : Nat) : Bool :=
  (forkStates s n).any (· == .failed) && nodeState s n != .failed

def roleStr : Role → String
  | .split => "split" | .join => "join" | .fork => "fork" | .chunk i => s!"chunk:{i}"

def objStr (o : Obj) : String := s!"{o.n}.{o.f}.{roleStr o.r}"

def fatalStr : Option (Obj × Sentinel) → String
  | none => "none"
  | some (o, x) => s!"{objStr o}:{x.name}"

/-- classification of the end state of a history (see header) -/
def endStr (s : State) : String :=
  if s.phase == .crashed then "crashed"
  else if s.phase == .loading then "loading"
  else
    let open_ := ((List.range s.nodes.length).filter fun n => !nodeDone s n).length
    if open_ != 0 then s!"open:{open_}"
    else if (List.range s.nodes.length).all fun n => s.cachedOf n == nodeState s n then "finished"
    else "done"

def run : State → Option Nat → List (Nat × Item) → Except String (State × Option Nat)
  | s, note, [] => .ok (s, note)
  | s, note, (i, .ev e) :: r =>
    let s := match e with
      | .mkchunks n f k => dropChunks s n f k
      | _ => s
    match step s e with
    | some s' => run s' note r
    | none => .error s!"reject {i} {(whyNot s e).getD "?"}"
  | s, note, (i, .snapshot n c l fs) :: r =>
    -- fallback while the tracer emits no `forkorder` line: at load time the
    -- fork list of the node is whatever the snapshot lists
    let s := if s.phase == .loading && fs.map (·.1) != s.forksOf n
                && enabled s (.forkorder n (fs.map (·.1))) then apply s (.forkorder n (fs.map (·.1))) else s
    match checkSnapshot s n c l fs with
    | none => run s (if note.isNone && masked s n then some i else note) r
    | some why => .error s!"reject {i} snapshot-mismatch node={n} {why}"
  | s, note, (i, .fatal o x) :: r =>
    if fatalError s o.n == some (o, x) then run s note r
    else .error s!"reject {i} fatal-mismatch real={objStr o}:{x.name} model={fatalStr (fatalError s o.n)}"
  | _, _, (i, _) :: _ => .error s!"reject {i} unexpected-header-line"

/-- the decidable hypotheses of the run theorems, evaluated along an accepted history:
`ff` = every event `failureFree`; `benign` = every event `Ev.benign` in its state -/
def hypFlags : State → Bool → Bool → Bool → List (Nat × Item) → Bool × Bool × Bool
  | _, ff, bn, al, [] => (ff, bn, al)
  | s, ff, bn, al, (_, .ev e) :: r =>
    let s0 := match e with
      | .mkchunks n f k => dropChunks s n f k
      | _ => s
    match step s0 e with
    | some s' =>
      -- `AliveInv` where the completion theorems need it: whenever loading ends
      let al' := if e == .refresh && s0.phase == .loading then aliveOk s' else true
      hypFlags s' (ff && e.failureFree) (bn && e.benign s0) (al && al') r
    | none => (ff, bn, al)
  | s, ff, bn, al, (_, .snapshot n _ _ fs) :: r =>
    let s := if s.phase == .loading && fs.map (·.1) != s.forksOf n
                && enabled s (.forkorder n (fs.map (·.1))) then apply s (.forkorder n (fs.map (·.1))) else s
    hypFlags s ff bn al r
  | s, ff, bn, al, _ :: r => hypFlags s ff bn al r

def replayLines (arg : String) : Except String (Nat × State × Option Nat) := do
  let lines := (arg.splitOn ";").filter (· != "")
  let rec parseAll (i : Nat) : List String → Except String (List (Nat × Item))
    | [] => .ok []
    | l :: r => match parseLine l with
      | some it => do pure ((i, it) :: (← parseAll (i + 1) r))
      | none => .error s!"reject {i} unparsable-line"
  let items ← parseAll 0 lines
  let (nodes, full, evs) ← header items [] false
  let (s, note) ← run (if full then initFull nodes else init nodes) none (normalise evs)
  pure (lines.length, s, note)

/-- `topo=<ok|no> ff=<ok|no> benign=<ok|no> alive=<ok|no>` for an accepted history (`alive`: the
decidable form `aliveOk` of `AliveInv` holds each time loading ends) -/
def hypStr (arg : String) : String :=
  let lines := (arg.splitOn ";").filter (· != "")
  let items := (List.range lines.length).zip (lines.filterMap parseLine)
  match header items [] false with
  | .ok (nodes, full, evs) =>
    let (ff, bn, al) := hypFlags (if full then initFull nodes else init nodes) true true true (normalise evs)
    let b := fun (x : Bool) => if x then "ok" else "no"
    s!" topo={b (topoSorted nodes)} ff={b ff} benign={b bn} alive={b al}"
  | .error _ => ""

def noteStr : Option Nat → String
  | some i => s!" note=failed-fork-masked@{i}"
  | none => ""

def handle (op : String) (args : List String) : Option String :=
  match op, args with
  | "metastate", [s] =>
    match metaState (parseSSet s) with
    | some st => some s!"{st.name} true"
    | none => some "none false"
  | "replay", [h] =>
    match replayLines h with
    | .ok (n, s, note) =>
      some s!"ok {n} end={endStr s} mu={(mu s).1},{(mu s).2}{hypStr h} quiescent={if quiescent s then "ok" else "no"}{if s.reopened then " note=reopened-finished-node" else ""}{noteStr note}"
    | .error e => some e
  | _, _ => none

end Driver.C02
