import Martian.PostProcess
import Martian.PostProcessDefs
import Gen.Facts
import Driver.Util

/-! Line-protocol handler for property C13.

`C13.run <mode> <dimAware> <ps> <outsPath> <params> <value> <fs>`
* mode     `p` = one parameter through `moveOut` (value = its JSON value),
           `o2` = `processStructOuts` twice on the same record (interrupted post-process + restart),
           `o` = `processStructOuts` (value = the `_outs` object),
           `x` = the record `content_preserved_record` promises (`pureOuts (expectVal fs)`),
           `a`/`m` = `postProcess` of a top-level call mapped over an array / a typed map
* dimAware `g` = the regenerated fact, `t`/`f` = forced
* ps, outsPath: hex of the path string
* params   `<n> {<hex id> <hex outName> <Ty>}`
* Ty       `s` | `f <hex ext>` | `a <extraDims> <Ty>` | `m <Ty>` | `t <n> {<hex id> <hex outName> <Ty>}`
* value    `n` | `l <hex>` | `q <hex>` | `A <n> {J}` | `O <n> {<hex key> J}`
* fs       `<n> {<hex path> (F<content>|D|La<hex path>|Lr<hex rel>)}`
In the `m` modes the per-key directory is `joinKey outs key` (= `path.Join`).
`C13.keydirs <outsPath> <n> {<hex key>}`: the per-key directories and whether the key set is separable.
Reply: `<hex of the rewritten JSON text> <TAB> <entries path=kind joined by ,>`.
Tokens are separated by single spaces.
-/
namespace Driver.C13
open Martian.PostProcess Driver

def hexStr (s : String) : Option String := do
  let b ← bytesOfHex s
  String.fromUTF8? (ByteArray.mk b.toArray)

def strHex (s : String) : String := hexOfBytes s.toUTF8.toList

abbrev P := StateT (List String) Option

def tok : P String := do
  match (← get) with
  | [] => failure
  | t :: r => set r; pure t

def pStr : P String := do
  let t ← tok
  match hexStr t with
  | some s => pure s
  | none => failure

def pNat : P Nat := do
  let t ← tok
  match t.toNat? with
  | some n => pure n
  | none => failure

partial def pTy : P Ty := do
  let t ← tok
  match t with
  | "s" => pure .scalar
  | "f" => do let e ← pStr; pure (.file e)
  | "a" => do let k ← pNat; let e ← pTy; pure (.arr e k)
  | "m" => do let e ← pTy; pure (.tmap e)
  | "t" => do
    let n ← pNat
    let mut ms := []
    for _ in [0:n] do
      let id ← pStr; let on ← pStr; let ty ← pTy
      ms := (id, on, ty) :: ms
    pure (.struct ms.reverse)
  | _ => failure

def pParams : P (List (String × String × Ty)) := do
  let n ← pNat
  let mut ms := []
  for _ in [0:n] do
    let id ← pStr; let on ← pStr; let ty ← pTy
    ms := (id, on, ty) :: ms
  pure ms.reverse

partial def pJ : P J := do
  let t ← tok
  match t with
  | "n" => pure .null
  | "l" => do let s ← pStr; pure (.lit s)
  | "q" => do let s ← pStr; pure (.str s)
  | "A" => do
    let n ← pNat
    let mut xs := []
    for _ in [0:n] do
      let x ← pJ
      xs := x :: xs
    pure (.arr xs.reverse)
  | "O" => do
    let n ← pNat
    let mut kvs := []
    for _ in [0:n] do
      let k ← pStr; let v ← pJ
      kvs := (k, v) :: kvs
    pure (.obj kvs.reverse)
  | _ => failure

def pathOf (s : String) : Path := (parsePath s).getD []

def pEntry (t : String) : Option Entry :=
  if t == "D" then some .dir
  else if t.startsWith "F" then (t.drop 1).toString.toNat?.map Entry.file
  else if t.startsWith "La" then (hexStr (t.drop 2).toString).map fun s => .link (.abs (pathOf s))
  else if t.startsWith "Lr" then (hexStr (t.drop 2).toString).map fun s => .link (.rel (s.splitOn "/"))
  else none

def pFS : P FS := do
  let n ← pNat
  let mut ents : List (Path × Entry) := []
  for _ in [0:n] do
    let p ← pStr
    let t ← tok
    match pEntry t with
    | some e => ents := (pathOf p, e) :: ents
    | none => failure
  let es := ents.reverse
  pure { get := fun q => (es.find? (fun pe => pe.1 == q)).map (·.2), dom := es.map (·.1) }

def runP {α} (p : P α) (s : String) : Option α :=
  match p.run (s.splitOn " ") with
  | some (a, []) => some a
  | _ => none

/-! rendering -/

def hex4 (n : Nat) : String :=
  String.ofList [hexDigit (n / 4096 % 16), hexDigit (n / 256 % 16), hexDigit (n / 16 % 16), hexDigit (n % 16)]

/-- `json.Marshal` of a string (HTML-escaping on, as Go's default) -/
def jsonStr (s : String) : String :=
  "\"" ++ String.join (s.toList.map fun c =>
    if c = '"' then "\\\"" else if c = '\\' then "\\\\"
    else if c = '\n' then "\\n" else if c = '\r' then "\\r" else if c = '\t' then "\\t"
    else if c.toNat < 0x20 ∨ c = '<' ∨ c = '>' ∨ c = '&' ∨ c.toNat = 0x2028 ∨ c.toNat = 0x2029 then "\\u" ++ hex4 c.toNat
    else String.singleton c) ++ "\""

def renderTok : Tok → String
  | .lbrace => "{" | .rbrace => "}" | .lbrack => "[" | .rbrack => "]"
  | .comma => "," | .colon => ":" | .null => "null"
  | .lit s => s | .str s => jsonStr s

def renderJ (j : J) : String := String.join ((emit j).map renderTok)

def relStr (cs : List String) : String := "/".intercalate cs

def renderEntry : Entry → String
  | .file c => "F" ++ toString c
  | .dir => "D"
  | .link (.abs p) => "La" ++ strHex (renderPath p)
  | .link (.rel cs) => "Lr" ++ strHex (relStr cs)

def renderFS (fs : FS) : String :=
  let ps := fs.dom.eraseDups.filter (· ≠ [])
  let ents := ps.filterMap fun p => (fs.get p).map fun e => strHex (renderPath p) ++ "=" ++ renderEntry e
  if ents.isEmpty then "." else ",".intercalate ents

/-- the typed-map branch of `Fork.postProcess` as the working tree has it (regenerated) -/
def postMapCur (da : Bool) (ps : Path) (params : List (String × String × Ty)) (outs : Path)
    (kvs : List (String × J)) (fs : FS) : List (String × J) × FS :=
  if Gen.postProcessMappedKeyCheck then postMapChecked da ps params outs kvs fs
  else postMap da ps params outs kvs fs

def handle (op : String) (args : List String) : Option String :=
  match op, args with
  | "run", [mode, da, ps, outs, params, value, fs] => do
    let da ← (match da with
      | "g" => some Gen.postProcessDimAware | "t" => some true | "f" => some false | _ => none)
    let ps := pathOf (← hexStr ps)
    let outs := pathOf (← hexStr outs)
    let params ← runP pParams params
    let v ← runP pJ value
    let fs ← runP pFS fs
    let r ← (match mode, params, v with
      | "p", [(id, on, ty)], v => some (moveOut da ps ty id on v outs fs)
      | "o", params, v => some (processStructOuts da ps params v outs fs)
      | "x", params, v =>
        -- the record content_preserved_record promises when `Clean` holds: every file leaf
        -- replaced by `expectVal` judged in the initial file system; no file-system effect
        let kvs := match v with | .obj kvs => kvs | _ => []
        some (J.obj (pureOuts (expectVal fs) params kvs outs), fs)
      | "o2", params, v =>
        -- post-processing interrupted before `_outs` was rewritten, then run again on the same record
        some (processStructOuts da ps params v outs (processStructOuts da ps params v outs fs).2)
      | "oo", params, v =>
        -- post-processing completed, then run again on the rewritten record
        let r := processStructOuts da ps params v outs fs
        some (processStructOuts da ps params r.1 outs r.2)
      | "a", params, .arr xs =>
        let r := postArray da ps params outs 0 xs fs
        some (J.arr r.1, r.2)
      | "a2", params, .arr xs =>
        let r := postArray da ps params outs 0 xs (postArray da ps params outs 0 xs fs).2
        some (J.arr r.1, r.2)
      | "aa", params, .arr xs =>
        let r1 := postArray da ps params outs 0 xs fs
        let r := postArray da ps params outs 0 r1.1 r1.2
        some (J.arr r.1, r.2)
      | "mx", params, .obj kvs =>
        -- the record content_preserved_mapped promises (refused keys unchanged, legal keys:
        -- every file leaf replaced by expectVal judged in the initial file system)
        some (J.obj (expectedMapped fs params outs kvs), fs)
      | "m", params, .obj kvs =>
        let r := postMapCur da ps params outs kvs fs
        some (J.obj r.1, r.2)
      | "m2", params, .obj kvs =>
        let r := postMapCur da ps params outs kvs (postMapCur da ps params outs kvs fs).2
        some (J.obj r.1, r.2)
      | "mm", params, .obj kvs =>
        let r1 := postMapCur da ps params outs kvs fs
        let r := postMapCur da ps params outs r1.1 r1.2
        some (J.obj r.1, r.2)
      | _, _, _ => none)
    pure (strHex (renderJ r.1) ++ "\t" ++ renderFS r.2)
  | "parse", [value] => do
    -- round trip of the token-level writer: emit, parse back, render again
    let v ← runP pJ value
    match parse (emit v) with
    | some v' => pure ("some " ++ strHex (renderJ v'))
    | none => pure "none"
  | "refused", [keys] => do
    -- fork keys the repaired typed-map branch refuses with an error
    let ks ← runP (do
      let n ← pNat
      let mut ks := []
      for _ in [0:n] do
        let k ← pStr
        ks := k :: ks
      pure ks.reverse) keys
    pure (boolStr Gen.postProcessMappedKeyCheck ++ "\t" ++
      ",".intercalate ((refusedKeys (ks.map fun k => (k, J.null))).map strHex))
  | "keydirs", [outs, keys] => do
    -- fork keys of a top-level call mapped over a typed map: `<n> {<hex key>}` ↦
    -- `<separable> <TAB> <hex dir>,…` and per key `legalName`
    let outs := pathOf (← hexStr outs)
    let ks ← runP (do
      let n ← pNat
      let mut ks := []
      for _ in [0:n] do
        let k ← pStr
        ks := k :: ks
      pure ks.reverse) keys
    pure (boolStr (keysSeparable outs ks) ++ "\t" ++
      ",".intercalate (ks.map fun k => strHex (renderPath (joinKey outs k)) ++ ":" ++ boolStr (legalName k)))
  | "hyp", [ps, outs, params, value, fs] => do
    -- the decidable hypotheses of the global theorems on one real input:
    -- wfParams (dest_injective, content_preserved) and cleanB (content_preserved), number of leaves
    let ps := pathOf (← hexStr ps)
    let outs := pathOf (← hexStr outs)
    let params ← runP pParams params
    let v ← runP pJ value
    let fs ← runP pFS fs
    let kvs := match v with | .obj kvs => kvs | _ => []
    let ls := leavesRec params kvs outs
    pure ("wf=" ++ boolStr (wfParams params) ++ " clean=" ++ boolStr (cleanB ps outs fs ls) ++
      " leaves=" ++ toString ls.length)
  | "keysok", [params, value] => do
    -- the model's reading of the verification gate on a whole record
    let params ← runP pParams params
    let v ← runP pJ value
    pure (boolStr (recordKeysVerified params v))
  | "outname", [ty, id, on] => do
    -- StructMember.GetOutFilename for a member / map entry / array element `id` of type `ty`
    let ty ← runP pTy ty
    pure (strHex (outFilename ty (← hexStr id) (← hexStr on)))
  | "hypm", [ps, outs, params, value, fs] => do
    -- the hypotheses of content_preserved_mapped on one input of the mapped-keys stream
    let ps := pathOf (← hexStr ps)
    let outs := pathOf (← hexStr outs)
    let params ← runP pParams params
    let v ← runP pJ value
    let fs ← runP pFS fs
    let kvs := match v with | .obj kvs => kvs | _ => []
    let ls := leavesMap params outs (legalForks kvs)
    let keys := kvs.map Prod.fst
    pure ("wf=" ++ boolStr (wfParams params) ++ " nodup=" ++ boolStr (keys.eraseDups.length == keys.length) ++
      " clean=" ++ boolStr (cleanB ps outs fs ls) ++ " leaves=" ++ toString ls.length)
  | "wcut", [w, old, new, k] => do
    -- a record write cut after `k` units of progress: `a` = writeAtomicAt (temp file, rename),
    -- `i` = os.WriteFile in place; old = `N` (no record yet) | `S<hex>`; reply: record and `.tmp` sibling
    let w ← (match w with | "a" => some RecordWriter.atomic | "i" => some RecordWriter.inplace | _ => none)
    let dec : String → Option (Option (List UInt8)) := fun t =>
      if t == "N" then some none
      else if t.startsWith "S" then (bytesOfHex (t.drop 1).toString).map some
      else none
    let old ← dec old
    let new ← bytesOfHex new
    let k ← k.toNat?
    let target : Path := ["d", "_outs"]
    let fs : BFS := fun q => if q = target then old else none
    let fs' := writeCut w fs target new k
    let enc : Option (List UInt8) → String := fun o =>
      match o with | none => "N" | some b => "S" ++ hexOfBytes b
    pure (enc (fs' target) ++ "\t" ++ enc (fs' (tmpPath target)))
  | "dimaware", [] => pure (boolStr Gen.postProcessDimAware)
  | "nodup", [members] => do
    -- the compile-time duplicate-output-name check on one member list
    let ms ← runP pParams members
    pure (boolStr (noDupNames ms []))
  | _, _ => none

end Driver.C13
