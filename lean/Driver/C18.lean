import Martian.ShellQuote
import Martian.JobTemplate
import Gen.Facts
import Driver.Util

namespace Driver.C18
open Martian.ShellQuote Martian.JobTemplate Driver

def parsePairs (s : String) : Option (List (List UInt8 × List UInt8)) :=
  if s == "." then some [] else
  (s.splitOn ",").mapM fun kv =>
    match kv.splitOn "=" with
    | [k, v] => do let k ← bytesOfHex k; let v ← bytesOfHex v; pure (k, v)
    | _ => none

def tokStr : Tok → String
  | .word v a => "w:" ++ hexOfBytes v ++ ":" ++ (if a then "1" else "0")
  | .special v => "s:" ++ hexOfBytes v
  | .op o => "o:" ++ hexOfBytes o
  | .nl => "n"

def toksStr : Option (List Tok) → String
  | some ts => "some " ++ (if ts.isEmpty then "." else ",".intercalate (ts.map tokStr))
  | none => "none"

def parseNats (s : String) : Option (List Nat) := (s.splitOn ",").mapM String.toNat?

/-- fields: tmpl fqname shellName stdout stderr workdir threadEnvs envs cmd argv
nums(threads,mem,vmem as the decimal IEEE-754 bit patterns of the float64 requests,
threadsPerJob,memPerJob,extraVmem,memPerCore,alwaysVmem) account special mappings resOpt -/
def parseJob : List String → Option JobIn
  | [tmpl, fq, sh, so, se, wd, tenv, envs, cmd, argv, nums, acct, spec, maps, ro] => do
    let ns ← parseNats nums
    match ns with
    | [t, m, v, tpj, mpj, ex, mpc, av] =>
      pure { tmpl := ← bytesOfHex tmpl, fqname := ← bytesOfHex fq, shellName := ← bytesOfHex sh,
             stdout := ← bytesOfHex so, stderr := ← bytesOfHex se, workdir := ← bytesOfHex wd,
             threadEnvs := ← parseHexList tenv, envs := ← parsePairs envs, cmd := ← bytesOfHex cmd,
             argv := ← parseHexList argv, threads := Float.ofBits t.toUInt64, memGB := Float.ofBits m.toUInt64,
             vmemGB := Float.ofBits v.toUInt64, threadsPerJob := tpj,
             memGBPerJob := mpj, extraVmemGB := ex, memGBPerCore := mpc, alwaysVmem := av != 0,
             account := ← bytesOfHex acct, special := ← bytesOfHex spec, mappings := ← parsePairs maps,
             resOpt := ← bytesOfHex ro }
    | _ => none
  | _ => none

def handle (op : String) (args : List String) : Option String :=
  match op, args with
  | "quote", [s] => do
    let b ← bytesOfHex s
    pure (hexOfBytes (quote Gen.shellEscapes b))
  | "valid", [s] => do
    let b ← bytesOfHex s
    pure (boolStr (validUtf8 b))
  | "dqeval", [s] => do
    let b ← bytesOfHex s
    pure (optHex (dqEval b))
  | "words", [s] => do
    let b ← bytesOfHex s
    match shWords b with
    | some ws => pure ("some " ++ hexList ws)
    | none => pure "none"
  | "formatargs", [envs, cmd, argv] => do
    let envs ← parsePairs envs
    let cmd ← bytesOfHex cmd
    let argv ← parseHexList argv
    pure (hexOfBytes (formatArgs Gen.shellEscapes envs cmd argv))
  | "toks", [s] => do
    let b ← bytesOfHex s
    pure (toksStr (shToks b))
  -- shipped template by name: the template text the segments stand for, the
  -- segment-level rendering, the byte-level rendering of that text, the tokens
  -- the theorems promise, and whether every line has a covered shape
  | "render", name :: args => do
    let ls ← Gen.jobTemplates.lookup name
    let j0 ← parseJob (("-" : String) :: args)
    let j := { j0 with tmpl := templateTextK Gen.jobScriptKeys ls }
    let ps := params Gen.shellEscapes j
    let covered := ls.all fun l => shapeOf l != Shape.other
    pure (hexOfBytes j.tmpl ++ " " ++ hexOfBytes (renderScript (valsOf ps) ls) ++ " "
      ++ hexOfBytes (jobScript Gen.shellEscapes j) ++ " " ++ boolStr covered ++ " "
      ++ toksStr (some (expectedToks (givenOf Gen.shellEscapes j) ls)))
  -- arbitrary template text: cut it into segments; when the segmentation spells the text and is
  -- well formed, theorem replacer_is_renderScript promises renderScript = the replacer
  | "wfrender", args => do
    let j ← parseJob args
    let ls := segmentText Gen.jobScriptKeys j.tmpl
    let spelled := templateTextK Gen.jobScriptKeys ls == j.tmpl
    let wf := spelled && wfTemplate Gen.jobScriptKeys maybeEmptyParams ls
    pure (boolStr wf ++ " " ++ hexOfBytes (renderScript (valsOf (params Gen.shellEscapes j)) ls)
      ++ " " ++ hexOfBytes (jobScript Gen.shellEscapes j))
  | "templates", [] => pure (",".intercalate (Gen.jobTemplates.map (·.1)))
  | _, _ => none

end Driver.C18
