import Martian.ShellQuote
import Gen.Facts
import Driver.Util

namespace Driver.C18
open Martian.ShellQuote Driver

def parsePairs (s : String) : Option (List (List UInt8 × List UInt8)) :=
  if s == "." then some [] else
  (s.splitOn ",").mapM fun kv =>
    match kv.splitOn "=" with
    | [k, v] => do let k ← bytesOfHex k; let v ← bytesOfHex v; pure (k, v)
    | _ => none

def handle (op : String) (args : List String) : Option String :=
  match op, args with
  | "quote", [s] => do
    let b ← bytesOfHex s
    pure (hexOfBytes (quote Gen.shellEscapes b))
  | "valid", [s] => do
    let b ← bytesOfHex s
    pure (boolStr (validUtf8 b))
  | "dqeval", [s] => do
    let b ← bytesOfHex s
    pure (optHex (dqEval b))
  | "words", [s] => do
    let b ← bytesOfHex s
    match shWords b with
    | some ws => pure ("some " ++ hexList ws)
    | none => pure "none"
  | "formatargs", [envs, cmd, argv] => do
    let envs ← parsePairs envs
    let cmd ← bytesOfHex cmd
    let argv ← parseHexList argv
    pure (hexOfBytes (formatArgs Gen.shellEscapes envs cmd argv))
  | _, _ => none

end Driver.C18
