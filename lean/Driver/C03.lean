import Driver.Util

/-! Line-protocol handler for property C03 (stub: replaced when the model exists). -/
namespace Driver.C03

def handle (_op : String) (_args : List String) : Option String := none

end Driver.C03
