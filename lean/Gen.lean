import Gen.Facts
