import Martian.ShellQuote
