/-
C01 — the SPECIFICATION: a denotational dataflow semantics `den` of MRO programs.

`den` takes a program (source-level: callables, calls, binding expressions,
types), and an ORACLE giving, for every stage instance (call path + fork
index list), the outputs that instance actually produced.  It yields
  (a) for every stage instance the argument record it must receive,
  (b) the top-level pipeline's outputs.

Semantics in words
* a binding denotes its literal / the pipeline input / the upstream call's output;
* projection `.f` is type-directed and distributes through arrays and typed maps;
  a null intermediate projects to null;
* a value bound to a parameter of a (narrower) struct type keeps exactly the
  declared fields (recursively through arrays, typed maps and struct members);
* `map call`: one invocation per index / key of the (first) split collection,
  the outputs are the array / typed map of the per-element outputs;
* a `disabled` control without a value counts as "not disabled".  The code does the same for a
  null SCALAR output (`Fork.disabled`: unmarshalling the raw `null` into a bool leaves false), but
  FAILS the fork when the control is a member projected from a NULL STRUCT value ("disabled is bound
  to a null value"): there den is not the code (known finding C01-F39, audit pass 3 A3; fail-stop).
  A control bound to an output of a call that may itself be disabled is rejected by the compiler
  (all observed: family null-control);
* a disabled call, and a mapped call over an empty / null collection, runs
  nothing and every output is `dnull` (a distinguished null which an
  implementation may render as null, an empty collection or a collection of nulls);
* a call of a sub-pipeline is the denotation of its body (so nesting, inlining
  and aliasing cannot matter); nothing depends on any order of completion:
  the only run-time input is the oracle.

Core Lean only; every function is total and structurally recursive (fuel for
the callable nesting depth and the struct nesting depth).
-/
namespace Martian.Dataflow

/-- JSON trees.  Scalars are opaque atoms in canonical text (numbers, quoted
strings, `true`, `false`).  `dnull` = "no value: the producer was disabled or empty". -/
inductive J where
  | null
  | dnull
  | atom (s : String)
  | arr (xs : List J)
  | obj (kvs : List (String × J))
deriving Repr, Inhabited

/-- MRO type in TypeId normal form: `base[arrDim]`, or `map<base[mapDim-1]>[arrDim]`. -/
structure Ty where
  base : String
  mapDim : Nat
  arrDim : Nat
deriving Repr, DecidableEq, Inhabited

structure Param where
  name : String
  ty : Ty
deriving Repr, DecidableEq, Inhabited

/-- struct name ↦ members.  Callables are struct types too (their out params). -/
abbrev StructTable := List (String × List Param)

/-! ## values -/

def J.field (v : J) (k : String) : J :=
  match v with
  | .obj kvs => (kvs.lookup k).getD .null
  | .dnull => .dnull
  | _ => .null

/-- apply `f` below `n` array levels; null (or an ill-shaped value) stays null -/
def mapArr : Nat → (J → J) → J → J
  | 0, f, v => f v
  | n+1, f, .arr xs => .arr (xs.map (mapArr n f))
  | _+1, _, .dnull => .dnull
  | _+1, _, _ => .null

/-- apply `f` to every value of a typed map -/
def mapObj (f : J → J) : J → J
  | .obj kvs => .obj (kvs.map fun kv => (kv.1, f kv.2))
  | .dnull => .dnull
  | _ => .null

/-- apply `f` at the base level of a value of type `t` -/
def atBase (t : Ty) (f : J → J) : J → J :=
  mapArr t.arrDim (match t.mapDim with
    | 0 => f
    | k+1 => mapObj (mapArr k f))

/-! ## types and projection -/

def fieldTy (st : StructTable) (base f : String) : Option Ty :=
  match st.lookup base with
  | none => none
  | some ps => (ps.find? (fun p => p.name == f)).map (·.ty)

def badTy : Ty := ⟨"?", 0, 0⟩

/-- type of `e.f` when `e : t` (`fieldType` in struct_type.go) -/
def projTy1 (st : StructTable) (t : Ty) (f : String) : Ty :=
  match fieldTy st t.base f with
  | none => { t with base := "?" }
  | some ft =>
    if t.mapDim = 0 then { ft with arrDim := ft.arrDim + t.arrDim }
    else ⟨ft.base, t.mapDim + ft.arrDim, t.arrDim⟩

def pathTy (st : StructTable) : Ty → List String → Ty
  | t, [] => t
  | t, f :: r => pathTy st (projTy1 st t f) r

/-- one projection step on a value of type `t` -/
def proj1 (t : Ty) (f : String) (v : J) : J := atBase t (fun s => s.field f) v

/-- projection along a path -/
def projPath (st : StructTable) : Ty → List String → J → J
  | _, [], v => v
  | t, f :: r, v => projPath st (projTy1 st t f) r (proj1 t f v)

/-- keep exactly the declared fields (struct narrowing), recursively -/
def narrow (st : StructTable) : Nat → Ty → J → J
  | 0, _, v => v
  | fuel+1, t, v =>
    atBase t (fun s =>
      match st.lookup t.base with
      | none => s
      | some ps =>
        match s with
        | .obj _ => .obj (ps.map fun p => (p.name, narrow st fuel p.ty (s.field p.name)))
        | other => other) v

/-! ## programs -/

inductive Exp where
  | lit (j : J)
  | arr (xs : List Exp)
  | map (kvs : List (String × Exp))
  | struct (kvs : List (String × Exp))
  | self (param : String) (path : List String)
  | ref (call : String) (path : List String)
deriving Repr, Inhabited

structure Bind where
  param : String
  split : Bool
  exp : Exp
deriving Repr, Inhabited

structure Call where
  id : String
  callee : String
  mapped : Bool
  binds : List Bind
  /-- `disabled = [split] e` -/
  disabled : Option (Bool × Exp)
deriving Repr, Inhabited

inductive Callable where
  | stage (ins outs : List Param)
  | pipeline (ins outs : List Param) (calls : List Call) (ret : List (String × Exp))
deriving Repr, Inhabited

def Callable.ins : Callable → List Param
  | .stage i _ => i
  | .pipeline i _ _ _ => i

def Callable.outs : Callable → List Param
  | .stage _ o => o
  | .pipeline _ o _ _ => o

structure Program where
  structs : StructTable
  callables : List (String × Callable)
  top : Call
deriving Repr, Inhabited

/-- all struct types: declared structs + one per callable (its outputs) -/
def Program.table (P : Program) : StructTable :=
  P.structs ++ P.callables.map fun c => (c.1, c.2.outs)

/-! ## stage instances -/

inductive Idx where
  | i (n : Nat)
  | k (s : String)
  /-- "no element": the placeholder index of a mapped call over an empty collection -/
  | none
deriving Repr, DecidableEq, Inhabited

/-- a stage instance: the call path from the top call down to the stage's call
id, and one (mapped call id, index) per enclosing mapped call, outermost first -/
structure InstKey where
  path : List String
  forks : List (String × Idx)
deriving Repr, DecidableEq, Inhabited

/-- `optional`: the instance lies below a mapped call over an empty / null
collection.  Nothing needs to run there (every output of that call is `dnull`);
an implementation may still run the stages whose inputs do not depend on the
split value, and then they must receive exactly these arguments. -/
structure Inst where
  key : InstKey
  args : J
  optional : Bool := false
  /-- sentinel: the call at `key.path` is outside the domain of the semantics (its
  split collections disagree in length / key set: no invocation is well defined) -/
  undefined : Bool := false
deriving Repr, Inhabited

/-- the outputs the stage instances actually produced -/
abbrev Oracle := InstKey → Option J

/-! ## evaluation of expressions -/

structure Env where
  selfTys : List Param
  selfVal : J
  /-- call id ↦ (type of the struct of all outputs, lifted if mapped; value) -/
  calls : List (String × Ty × J)
deriving Inhabited

def Env.selfTy (env : Env) (p : String) : Ty :=
  ((env.selfTys.find? (fun q => q.name == p)).map (·.ty)).getD badTy

def Env.callTy (env : Env) (c : String) : Ty :=
  ((env.calls.lookup c).map (·.1)).getD badTy

def Env.callVal (env : Env) (c : String) : J :=
  ((env.calls.lookup c).map (·.2)).getD .null

mutual
def eval (st : StructTable) (env : Env) : Exp → J
  | .lit j => j
  | .arr xs => .arr (evalList st env xs)
  | .map kvs => .obj (evalFields st env kvs)
  | .struct kvs => .obj (evalFields st env kvs)
  | .self p path => projPath st (env.selfTy p) path (env.selfVal.field p)
  | .ref c path => projPath st (env.callTy c) path (env.callVal c)
def evalList (st : StructTable) (env : Env) : List Exp → List J
  | [] => []
  | e :: es => eval st env e :: evalList st env es
def evalFields (st : StructTable) (env : Env) : List (String × Exp) → List (String × J)
  | [] => []
  | (k, e) :: es => (k, eval st env e) :: evalFields st env es
end

/-! ## calls -/

inductive Mode where
  | single | arr | map | nul
deriving Repr, DecidableEq, Inhabited

/-- how a split expression is iterated (array / typed map), from its static type -/
def splitMode (st : StructTable) (env : Env) : Exp → Mode
  | .arr _ => .arr
  | .map _ => .map
  | .struct _ => .map
  | .lit _ => .nul
  | .self p path =>
    let t := pathTy st (env.selfTy p) path
    if t.arrDim > 0 then .arr else if t.mapDim > 0 then .map else .nul
  | .ref c path =>
    let t := pathTy st (env.callTy c) path
    if t.arrDim > 0 then .arr else if t.mapDim > 0 then .map else .nul

def firstSplit (c : Call) : Option Exp :=
  match c.binds.find? (·.split) with
  | some b => some b.exp
  | none =>
    match c.disabled with
    | some (true, e) => some e
    | _ => none

def callMode (st : StructTable) (env : Env) (c : Call) : Mode :=
  if c.mapped then
    match firstSplit c with
    | some e => splitMode st env e
    | none => .nul
  else .single

/-- type of `CALL` (the struct of all outputs) as seen by later bindings -/
def liftTy (callee : String) : Mode → Ty
  | .single => ⟨callee, 0, 0⟩
  | .arr => ⟨callee, 0, 1⟩
  | .map => ⟨callee, 1, 0⟩
  | .nul => ⟨callee, 0, 0⟩

def elemAt (v : J) : Idx → J
  | .i n => match v with
    | .arr xs => xs.getD n .null
    | .dnull => .dnull
    | _ => .null
  | .k s => v.field s
  | .none => .dnull

def isTrue : J → Bool
  | .atom s => s == "true"
  | _ => false

structure ArgVal where
  param : Param
  split : Bool
  val : J
deriving Inhabited

/-- the argument record of one invocation: every declared parameter, narrowed
to its declared type; split parameters take the element at `ix` -/
def mkArgs (st : StructTable) (nf : Nat) (avs : List ArgVal) (ix : Option Idx) : J :=
  .obj (avs.map fun a =>
    (a.param.name, narrow st nf a.param.ty
      (match a.split, ix with
       | true, some i => elemAt a.val i
       | _, _ => a.val)))

def argVals (st : StructTable) (env : Env) (ins : List Param) (c : Call) : List ArgVal :=
  ins.map fun p =>
    match c.binds.find? (fun b => b.param == p.name) with
    | none => ⟨p, false, .null⟩
    | some b => ⟨p, b.split, eval st env b.exp⟩

/-- the indices a mapped call iterates over -/
def indicesOf : J → List Idx
  | .arr xs => (List.range xs.length).map .i
  | .obj kvs => kvs.map fun kv => .k kv.1
  | _ => []

def Idx.keyText : Idx → String
  | .k s => s
  | .i n => toString n
  | .none => ""

def collect (m : Mode) (ixs : List Idx) (outs : List J) : J :=
  match m with
  | .map => .obj ((ixs.zip outs).map fun p => (p.1.keyText, p.2))
  | _ => .arr outs

def isColl : J → Bool
  | .arr _ => true
  | .obj _ => true
  | _ => false

/-- the values of all split bindings (and of a split `disabled`) -/
def splitVals (st : StructTable) (env : Env) (c : Call) : List J :=
  (c.binds.filter (·.split)).map (fun b => eval st env b.exp) ++
  (match c.disabled with
   | some (true, e) => [eval st env e]
   | _ => [])

/-- the indices a mapped call iterates over: those of the first split
collection.  A null split source is a collection without elements
(`ModeNullMapCall`: "evaluates to null, which could be either an array or a map
but either way has no elements"). -/
def callIndices (st : StructTable) (env : Env) (c : Call) : List Idx :=
  match splitVals st env c with
  | v :: _ => indicesOf v
  | [] => []

/-- all split collections of a mapped call agree in their index sets (what
`MergeMapCallSources` demands: "either all maps with the same set of keys, or
arrays of the same length"; for run-time-sized collections it can only be
checked at run time).  A null source counts as empty, so null next to a
non-empty collection disagrees.  Programs violating it are outside the domain
of `den`: the real run-time then either runs nothing (a statically null source
empties the call) or runs the known-length forks with null elements (a source
that is null only in some outer fork), depending on how the null arises. -/
def splitsAgree (st : StructTable) (env : Env) (c : Call) : Bool :=
  match splitVals st env c with
  | v :: rest => rest.all fun w => indicesOf w == indicesOf v
  | [] => true

abbrev Runner := String → List String → List (String × Idx) → J → J × List Inst

/-- denotation of one call statement inside a pipeline body: the type of its
output struct, its value, and the stage instances below it -/
def evalCall (st : StructTable) (nf : Nat) (insOf : String → List Param) (run : Runner)
    (path : List String) (forks : List (String × Idx)) (env : Env) (c : Call) :
    Ty × J × List Inst :=
  let mode := callMode st env c
  let ty := liftTy c.callee mode
  let wholeDisabled :=
    match c.disabled with
    | some (false, e) => isTrue (eval st env e)
    | _ => false
  if wholeDisabled then (ty, .dnull, [])
  else
    let avs := argVals st env (insOf c.callee) c
    if !c.mapped then
      let r := run c.callee (path ++ [c.id]) forks (mkArgs st nf avs none)
      (ty, r.1, r.2)
    else if !splitsAgree st env c then
      (ty, .dnull, [⟨⟨path ++ [c.id], forks⟩, .null, true, true⟩])
    else
      let ixs := callIndices st env c
      if ixs.isEmpty then
        -- nothing needs to run; the body is still denoted once with "no element"
        let r := run c.callee (path ++ [c.id]) (forks ++ [(c.id, .none)]) (mkArgs st nf avs (some .none))
        (ty, .dnull, r.2.map fun i => { i with optional := true })
      else
        let dis : J :=
          match c.disabled with
          | some (true, e) => eval st env e
          | _ => .null
        let rs := ixs.map fun ix =>
          if isTrue (elemAt dis ix) then ((.dnull : J), ([] : List Inst))
          else run c.callee (path ++ [c.id]) (forks ++ [(c.id, ix)]) (mkArgs st nf avs (some ix))
        (ty, collect mode ixs (rs.map (·.1)), rs.flatMap (·.2))

/-- evaluate the calls of a pipeline body in order -/
def evalCalls (st : StructTable) (nf : Nat) (insOf : String → List Param) (run : Runner)
    (path : List String) (forks : List (String × Idx)) :
    List Call → Env → List Inst → Env × List Inst
  | [], env, acc => (env, acc)
  | c :: cs, env, acc =>
    let r := evalCall st nf insOf run path forks env c
    evalCalls st nf insOf run path forks cs
      { env with calls := env.calls ++ [(c.id, r.1, r.2.1)] } (acc ++ r.2.2)

def Program.insOf (P : Program) (callee : String) : List Param :=
  match P.callables.lookup callee with
  | some c => c.ins
  | none => []

/-- run a callable on an argument record -/
def runCallable (P : Program) (O : Oracle) (nf : Nat) :
    Nat → String → List String → List (String × Idx) → J → J × List Inst
  | 0, _, _, _, _ => (.null, [])
  | fuel+1, callee, path, forks, args =>
    match P.callables.lookup callee with
    | none => (.null, [])
    | some (.stage _ _) =>
      let key : InstKey := ⟨path, forks⟩
      (narrow P.table nf ⟨callee, 0, 0⟩ ((O key).getD .null), [⟨key, args, false, false⟩])
    | some (.pipeline ins outs calls ret) =>
      let r := evalCalls P.table nf P.insOf (runCallable P O nf fuel) path forks calls
        ⟨ins, args, []⟩ []
      (.obj (outs.map fun p =>
          (p.name, narrow P.table nf p.ty
            (match ret.lookup p.name with
             | some e => eval P.table r.1 e
             | none => .null))),
       r.2)

def Program.fuel (P : Program) : Nat := P.callables.length + 2
def Program.nfuel (P : Program) : Nat := P.table.length + 2

/-- the top call's argument record: its (literal) bindings, narrowed -/
def Program.topArgs (P : Program) : J :=
  mkArgs P.table P.nfuel (argVals P.table ⟨[], .null, []⟩ (P.insOf P.top.callee) P.top) none

/-- THE SPECIFICATION: (top-level outputs, argument record of every stage instance) -/
def den (P : Program) (O : Oracle) : J × List Inst :=
  runCallable P O P.nfuel P.fuel P.top.callee [P.top.id] [] P.topArgs

/-! ## comparison of an expected value with an observed one -/

mutual
/-- `true` for null, and for collections that contain only such values -/
def J.nullish : J → Bool
  | .null => true
  | .dnull => true
  | .atom _ => false
  | .arr xs => J.nullishList xs
  | .obj kvs => J.nullishFields kvs
def J.nullishList : List J → Bool
  | [] => true
  | x :: xs => J.nullish x && J.nullishList xs
def J.nullishFields : List (String × J) → Bool
  | [] => true
  | (_, x) :: xs => J.nullish x && J.nullishFields xs
end

mutual
/-- expected (may contain `dnull`) vs observed; objects compared as key ↦ value maps -/
def J.matches : J → J → Bool
  | .dnull, o => o.nullish
  | .null, .null => true
  | .null, .dnull => true
  | .atom a, .atom b => a == b
  | .arr xs, .arr ys => J.matchesList xs ys
  | .obj kvs, .obj ows => kvs.length == ows.length && J.matchesFields kvs ows
  | _, _ => false
def J.matchesList : List J → List J → Bool
  | [], [] => true
  | x :: xs, y :: ys => J.matches x y && J.matchesList xs ys
  | _, _ => false
def J.matchesFields : List (String × J) → List (String × J) → Bool
  | [], _ => true
  | (k, x) :: xs, ows =>
    (match ows.lookup k with
     | some o => J.matches x o
     | none => false) && J.matchesFields xs ows
end

mutual
/-- forget the distinction between "no value because the producer was disabled / empty" and null:
what a run-time that writes JSON null for both delivers -/
def J.erase : J → J
  | .null => .null
  | .dnull => .null
  | .atom s => .atom s
  | .arr xs => .arr (J.eraseList xs)
  | .obj kvs => .obj (J.eraseFields kvs)
def J.eraseList : List J → List J
  | [] => []
  | x :: xs => J.erase x :: J.eraseList xs
def J.eraseFields : List (String × J) → List (String × J)
  | [] => []
  | (k, x) :: xs => (k, J.erase x) :: J.eraseFields xs
end

mutual
/-- `e ≈ o` ("o renders e"): `o` is `e` with every `dnull` replaced by null, an empty collection
or a collection of nulls (the freedom the semantics leaves an implementation); everything else,
including the order of object members, is equal -/
def J.approx : J → J → Bool
  | .dnull, o => o.nullish
  | .null, .null => true
  | .atom a, .atom b => a == b
  | .arr xs, .arr ys => J.approxList xs ys
  | .obj kvs, .obj ows => J.approxFields kvs ows
  | _, _ => false
def J.approxList : List J → List J → Bool
  | [], [] => true
  | x :: xs, y :: ys => J.approx x y && J.approxList xs ys
  | _, _ => false
def J.approxFields : List (String × J) → List (String × J) → Bool
  | [], [] => true
  | (k, x) :: xs, (k', y) :: ys => k == k' && J.approx x y && J.approxFields xs ys
  | _, _ => false
end

mutual
/-- no `dnull` inside: a JSON value -/
def J.clean : J → Bool
  | .dnull => false
  | .arr xs => J.cleanList xs
  | .obj kvs => J.cleanFields kvs
  | _ => true
def J.cleanList : List J → Bool
  | [] => true
  | x :: xs => J.clean x && J.cleanList xs
def J.cleanFields : List (String × J) → Bool
  | [] => true
  | (_, x) :: xs => J.clean x && J.cleanFields xs
end

mutual
/-- every literal of the expression is null or a scalar (what the parser produces; `dnull` is
not a literal of the language) -/
def Exp.clean : Exp → Bool
  | .lit .null => true
  | .lit (.atom _) => true
  | .lit _ => false
  | .arr xs => Exp.cleanList xs
  | .map kvs => Exp.cleanFields kvs
  | .struct kvs => Exp.cleanFields kvs
  | .self _ _ => true
  | .ref _ _ => true
def Exp.cleanList : List Exp → Bool
  | [] => true
  | e :: es => Exp.clean e && Exp.cleanList es
def Exp.cleanFields : List (String × Exp) → Bool
  | [] => true
  | (_, e) :: es => Exp.clean e && Exp.cleanFields es
end

mutual
/-- a reference-free JSON literal: what the compiler accepts where an untyped `map` is expected
(`BuiltinType.IsValidExpression`, case `*MapExp`: "literal cannot be assigned to untyped map:
contains reference") -/
def Exp.isJson : Exp → Bool
  | .lit _ => true
  | .arr xs => Exp.isJsonList xs
  | .map kvs => Exp.isJsonFields kvs
  | _ => false
def Exp.isJsonList : List Exp → Bool
  | [] => true
  | e :: es => Exp.isJson e && Exp.isJsonList es
def Exp.isJsonFields : List (String × Exp) → Bool
  | [] => true
  | (_, e) :: es => Exp.isJson e && Exp.isJsonFields es
end

/-! ## auxiliary notions used to state the meta-theorems (Props/C01.lean) -/

/-- the oracle induced by a history: the outputs recorded for an instance -/
def oracleOfHistory (h : List (InstKey × J)) : Oracle :=
  fun k => (h.find? (fun e => e.1 == k)).map (·.2)

/-- the unmapped call that instance `ix` of a mapped call stands for: every split
binding replaced by (the literal of) its `ix`-th element -/
def atIndex (st : StructTable) (env : Env) (c : Call) (ix : Idx) : Call :=
  { c with
    mapped := false
    binds := c.binds.map fun b =>
      if b.split then ⟨b.param, false, .lit (elemAt (eval st env b.exp) ix)⟩ else b }

end Martian.Dataflow
