/-
REGRESSION DOCUMENTATION — the lock protocol as it was BEFORE the fix "create the pipestance lock
file exclusively": `Lock()` was check-then-write (two transitions).  Kept so that the race that
fix removed stays stated (`Props.C15.lts_check_then_write_race`).  The current protocol is
`Martian.LockLTS` (EquivLockLTS.lean).

C15, lock protocol as a labelled transition system over an unbounded set of
actors (mrp processes), at the granularity of martian/core/pipestance.go:

  func (self *Pipestance) Lock() error {
      self.metadata.loadCache()
      if self.metadata.exists(Lock) { return &PipestanceLockedError{…} }   -- check p
      util.RegisterSignalHandler(self)                                       --   "
      self.metadata.WriteTime(Lock)   -- os.WriteFile, NOT O_EXCL            -- write p
      return nil
  }
  Unlock():       metadata.remove(Lock); UnregisterSignalHandler             -- unlock p
  HandleSignal(): metadata.remove(Lock)   (for every registered object,      -- signal p
                  when the process dies through a handled signal / DieIf)
  SIGKILL / crash: nothing runs, the file stays                              -- kill p
  "delete the _lock file in … and start Martian again" (operator)            -- rmLock

There is no heartbeat and no automatic stale-lock takeover in the code: a lock
left by a killed process blocks every attach until an operator removes it.
`Lock()` is check-then-write, so the check and the write are separate
transitions here; the atomic model `Martian.Equiv.lockStep` is the abstraction
in which they happen together.

Core Lean only.
-/
namespace Martian.LockLTSOld

structure St where
  /-- `_lock` exists -/
  lockFile : Bool
  /-- passed the check (handler registered), file not yet written -/
  checked : List Nat
  /-- wrote the file and are alive: the processes that believe they own the pipestance -/
  holders : List Nat
  /-- have this pipestance registered with util.RegisterSignalHandler -/
  registered : List Nat
  deriving DecidableEq, Repr

inductive Act
  | check (p : Nat)
  | write (p : Nat)
  | unlock (p : Nat)
  | signal (p : Nat)
  | kill (p : Nat)
  | rmLock
  deriving DecidableEq, Repr

def drop (p : Nat) (l : List Nat) : List Nat := l.filter (· != p)

/-- one transition; the Bool is `Lock()`'s verdict for `check` (false = PipestanceLockedError).
`regFirst` = the regenerated fact "RegisterSignalHandler is called before the check". -/
def step (regFirst : Bool) (s : St) : Act → St × Bool
  | .check p =>
      if s.lockFile then
        ({ s with registered := if regFirst then p :: s.registered else s.registered }, false)
      else ({ s with checked := p :: s.checked, registered := p :: s.registered }, true)
  | .write p =>
      ({ s with lockFile := true, checked := drop p s.checked, holders := p :: s.holders }, true)
  | .unlock p =>
      ({ s with lockFile := false, holders := drop p s.holders, registered := drop p s.registered }, true)
  | .signal p =>
      ({ lockFile := if s.registered.contains p then false else s.lockFile,
         checked := drop p s.checked, holders := drop p s.holders, registered := drop p s.registered }, true)
  | .kill p =>
      ({ s with checked := drop p s.checked, holders := drop p s.holders,
                registered := drop p s.registered }, true)
  | .rmLock => ({ s with lockFile := false }, true)

/-- what the code structure allows: `write` only after a passed `check`, `unlock`
only by an owner, a new `check` only by a process that is not already in `Lock()`
or owning; anybody may die at any time; the file may be deleted at any time -/
def enabled (s : St) : Act → Bool
  | .check p => !s.checked.contains p && !s.holders.contains p
  | .write p => s.checked.contains p
  | .unlock p => s.holders.contains p
  | .signal _ => true
  | .kill _ => true
  | .rmLock => true

/-- the two assumptions under which mutual exclusion holds:
* `Lock()` calls do not overlap (no process starts its check while another is
  between its check and its write) — the code has no O_EXCL / flock;
* the operator deletes `_lock` only when no process owns or is acquiring it. -/
def disciplined (s : St) : Act → Bool
  | .check _ => s.checked.isEmpty
  | .rmLock => s.holders.isEmpty && s.checked.isEmpty
  | _ => true

def run (regFirst : Bool) (ok : St → Act → Bool) : St → List Act → Option St
  | s, [] => some s
  | s, a :: r => if enabled s a && ok s a then run regFirst ok (step regFirst s a).1 r else none

def init : St := { lockFile := false, checked := [], holders := [], registered := [] }

def anything (_ : St) (_ : Act) : Bool := true

end Martian.LockLTSOld
