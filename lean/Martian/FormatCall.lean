/-
C09 model, part 3: the printer of a call statement without modifiers and
without a wildcard binding (martian/syntax/format_callable.go `CallStm.format`,
`BindStms.format`, `BindStm.format`; format_exp.go `SplitExp.format`) and the
reader of the same fragment (grammar.y: `call_stm_begin` without modifiers, the
first two alternatives of `call_stm`, `bind_stm_list`, `nonempty_bind_stm_list`,
`split_bind_stm_list(_partial)`, `bind_stm`, `split_bind_stm`,
`nonempty_collection_exp`), on the tokens of `Martian.FormatExp`.

* `fmtCall` = `CallStm.format(printer, "")` for a call without comments: with
  nothing else in the file this is the whole output of `FormatSrcBytes`.
  `map ` is printed iff `CallMode() != ModeSingleCall`, i.e. iff the grammar set
  `Mapping`, i.e. iff the call was written `map call`, which the grammar makes
  equivalent to: some binding is a split binding.
* `parseCallToks`: a `call` reads `id '=' exp ','` bindings only (`split` is an
  identifier there); a `map call` reads `id '=' exp ','` and
  `id '=' SPLIT (nonempty_array_exp | nonempty_map_exp | ref_exp) ','` bindings
  and needs at least one of the second kind.  After `= split` the LALR automaton
  shifts on `[`, `{`, an `id` token or `self` (the SPLIT keyword) and reduces
  `id: SPLIT` otherwise (`a = split,` and `a = split.x,` are references to a
  call named `split`).

Core Lean only.
-/
import Martian.FormatExp

namespace Martian.FormatCall
open Martian.Lexer (Bytes)
open Martian.FormatExp

structure Bind where
  id : Bytes
  split : Bool
  exp : Exp
  deriving Repr, Inhabited

/-- `id = decId` when there is no `as` -/
structure Call where
  decId : Bytes
  id : Bytes
  binds : List Bind
  deriving Repr, Inhabited

def sCall : Bytes := [0x63, 0x61, 0x6C, 0x6C]
def sMap : Bytes := [0x6D, 0x61, 0x70]
def sAs : Bytes := [0x61, 0x73]

def isMap (c : Call) : Bool := c.binds.any (·.split)

/-! ## printer -/

/-- `idWidth` of `BindStms.format`: the longest binding id shorter than 30 bytes -/
def idWidth : List Bind → Nat
  | [] => 0
  | b :: r => if b.id.length < 30 then max b.id.length (idWidth r) else idWidth r

/-- `BindStm.format` up to the value, and `split ` of `SplitExp.format` -/
def bindPre (w : Nat) (b : Bind) : Bytes :=
  indent ++ b.id ++ spaces (w - b.id.length) ++ [0x20, 0x3D, 0x20] ++
    (if b.split then sSplit ++ [0x20] else [])

def fmtBinds (w : Nat) : List Bind → Bytes
  | [] => []
  | b :: r => bindPre w b ++ fmt indent b.exp ++ [0x2C, 0x0A] ++ fmtBinds w r

/-- `CallStm.format(printer, "")` -/
def fmtCall (c : Call) : Bytes :=
  (if isMap c then sMap ++ [0x20] else []) ++ sCall ++ [0x20] ++ c.decId ++
    (if c.id = c.decId then [] else [0x20] ++ sAs ++ [0x20] ++ c.id) ++ [0x28] ++
    (if c.binds.isEmpty then [] else 0x0A :: fmtBinds (idWidth c.binds) c.binds) ++ [0x29, 0x0A]

/-! ## reader -/

/-- `nonempty_collection_exp | ref_exp` -/
def isSplitVal : Exp → Bool
  | .arr (_ :: _) => true
  | .map (_ :: _) => true
  | .ref .. => true
  | _ => false

/-- the tokens the automaton shifts on after `id '=' SPLIT` -/
def splitAhead : List Tok → Bool
  | .punct c :: _ => c == 0x5B || c == 0x7B
  | .id _ :: _ => true
  | .kSelf :: _ => true
  | _ => false

/-- in a `map call`: is the right-hand side introduced by the SPLIT keyword?
(the tokens after it) -/
def splitKw : List Tok → Option (List Tok)
  | .id s :: r => if s = sSplit && splitAhead r then some r else none
  | _ => none

/-- `bind_stm` / `split_bind_stm` (`m`: inside a `map call`) -/
def pBind (m : Bool) (fe : Nat) : List Tok → Option (Bind × List Tok)
  | .id x :: .punct 0x3D :: ts =>
    match (if m then splitKw ts else none) with
    | some r =>
      match pExp fe r with
      | some (e, .punct 0x2C :: r') => if isSplitVal e then some (⟨x, true, e⟩, r') else none
      | _ => none
    | none =>
      match pExp fe ts with
      | some (e, .punct 0x2C :: r') => some (⟨x, false, e⟩, r')
      | _ => none
  | _ => none

/-- the binding list, read up to the closing parenthesis -/
def pBinds (m : Bool) (fe : Nat) : Nat → List Tok → Option (List Bind × List Tok)
  | 0, _ => none
  | f + 1, ts =>
    match ts with
    | .punct 0x29 :: r => some ([], .punct 0x29 :: r)
    | _ =>
      match pBind m fe ts with
      | some (b, r) => (pBinds m fe f r).map fun (bs, r') => (b :: bs, r')
      | none => none

/-- `call_stm_begin` without modifiers, and `(` -/
def pHead : List Tok → Option (Bytes × Bytes × List Tok)
  | .reserved c :: .id d :: .punct 0x28 :: r => if c = sCall then some (d, d, r) else none
  | .reserved c :: .id d :: .reserved a :: .id i :: .punct 0x28 :: r =>
    if c = sCall && a = sAs then some (d, i, r) else none
  | _ => none

/-- an optional leading `map` -/
def pMapKw : List Tok → Bool × List Tok
  | .reserved w :: r => if w = sMap then (true, r) else (false, .reserved w :: r)
  | ts => (false, ts)

/-- `call_stm` (first two alternatives) on a token sequence -/
def parseCallToks (ts : List Tok) : Option Call :=
  match pHead (pMapKw ts).2 with
  | some (d, i, r) =>
    match pBinds (pMapKw ts).1 (2 * ts.length + 1) (ts.length + 1) r with
    | some (bs, [.punct 0x29]) =>
      if (pMapKw ts).1 == bs.any (·.split) then some ⟨d, i, bs⟩ else none
    | _ => none
  | none => none

def parseCall (src : Bytes) : Option Call := (lexAll src).bind parseCallToks

/-! ## what reading a printed call gives back; the calls the claim is made for -/

def normBind (b : Bind) : Bind := ⟨b.id, b.split, norm b.exp⟩

def normCall (c : Call) : Call := ⟨c.decId, c.id, c.binds.map normBind⟩

def wfBind (b : Bind) : Bool := isIdent b.id && wf b.exp && (!b.split || isSplitVal b.exp)

def wfCall (c : Call) : Bool := isIdent c.decId && isIdent c.id && c.binds.all wfBind

end Martian.FormatCall
