/-
C08 model: the regular expressions of martian/syntax/tokenizer.go.

* `Re`: the regex AST of the syntax subset the tokenizer uses (byte classes,
  negated classes, concatenation, alternation, greedy repetition `* + ? {n}
  {n,m} {n,}`, groups, the anchors `^` and `\b`);
* `Matches`: the denotational semantics (which byte strings a regex matches in
  a left/right context — the context is what the anchors look at);
* `m` / `pmatch`: an executable prefix matcher with Go's leftmost-FIRST
  (Perl-like) preference — backtracking with a continuation, first alternative
  first, greedy repetition, `none` when nothing matches;
* `parse`: a parser from the regex SYNTAX (the text in the Go source) to `Re`.

Bytes, not runes: the input of `regexp.Find` is a `[]byte`; Go decodes one
rune at a time (`utf8.DecodeRune`, an invalid byte is a one-byte U+FFFD).  All
classes of the subset are ASCII, so a positive class consumes one ASCII byte
and a negated class consumes one ASCII byte outside the class or one whole
non-ASCII rune (`runeLen`).  `\b` only looks at ASCII word characters.

Core Lean only; everything is structurally recursive (kernel-reducible).
-/
namespace Martian.Regex

abbrev Bytes := List UInt8

/-! ## `utf8.DecodeRune` -/

def isCont (b : UInt8) : Bool := 0x80 ≤ b && b ≤ 0xBF

/-- `utf8.DecodeRune`: (rune, size).  Invalid or short input gives
`(0xFFFD, 1)` (`(0xFFFD, 0)` for empty input); overlong forms, surrogates and
values above U+10FFFF are invalid (the `first`/`acceptRanges` tables). -/
def decodeRune : Bytes → Nat × Nat
  | [] => (0xFFFD, 0)
  | b0 :: r =>
    if b0 < 0x80 then (b0.toNat, 1)
    else if b0 < 0xC2 then (0xFFFD, 1)
    else if b0 < 0xE0 then
      match r with
      | b1 :: _ => if isCont b1 then ((b0.toNat - 0xC0) * 64 + (b1.toNat - 0x80), 2) else (0xFFFD, 1)
      | [] => (0xFFFD, 1)
    else if b0 < 0xF0 then
      match r with
      | b1 :: b2 :: _ =>
        let lo : UInt8 := if b0 == 0xE0 then 0xA0 else 0x80
        let hi : UInt8 := if b0 == 0xED then 0x9F else 0xBF
        if lo ≤ b1 && b1 ≤ hi && isCont b2 then
          ((b0.toNat - 0xE0) * 4096 + (b1.toNat - 0x80) * 64 + (b2.toNat - 0x80), 3)
        else (0xFFFD, 1)
      | _ => (0xFFFD, 1)
    else if b0 < 0xF5 then
      match r with
      | b1 :: b2 :: b3 :: _ =>
        let lo : UInt8 := if b0 == 0xF0 then 0x90 else 0x80
        let hi : UInt8 := if b0 == 0xF4 then 0x8F else 0xBF
        if lo ≤ b1 && b1 ≤ hi && isCont b2 && isCont b3 then
          ((b0.toNat - 0xF0) * 262144 + (b1.toNat - 0x80) * 4096 + (b2.toNat - 0x80) * 64
            + (b3.toNat - 0x80), 4)
        else (0xFFFD, 1)
      | _ => (0xFFFD, 1)
    else (0xFFFD, 1)

def runeLen (s : Bytes) : Nat := (decodeRune s).2

/-! ## AST -/

abbrev Ranges := List (UInt8 × UInt8)

def inR : Ranges → UInt8 → Bool
  | [], _ => false
  | (lo, hi) :: r, c => (lo ≤ c && c ≤ hi) || inR r c

inductive Re
  | eps
  | cls (rs : Ranges)        -- one ASCII byte in the ranges
  | ncls (rs : Ranges)       -- one rune that is not an ASCII byte in the ranges
  | cat (a b : Re)
  | alt (a b : Re)           -- `a|b`, `a` preferred
  | rep (a : Re) (min : Nat) (max : Option Nat)   -- greedy; `*` = 0 none, `+` = 1 none, `?` = 0 (some 1)
  | bot                      -- `^` (no multi-line flag: beginning of text)
  | wordb                    -- `\b`
  deriving Repr, DecidableEq, Inhabited

/-- Go `syntax.IsWordChar` -/
def isWord (b : UInt8) : Bool :=
  (0x30 ≤ b && b ≤ 0x39) || (0x41 ≤ b && b ≤ 0x5A) || (0x61 ≤ b && b ≤ 0x7A) || b == 0x5F

/-- is the byte before the position a word character (`pre` = the text before
the position, REVERSED) -/
def wordBefore : Bytes → Bool
  | [] => false
  | c :: _ => isWord c

def wordAfter : Bytes → Bool
  | [] => false
  | c :: _ => isWord c

/-! ## denotational semantics

`Matches r pre w post`: `w` matches `r` when the text before it is
`pre.reverse` and the text after it is `post`. -/

/-- exactly `k` consecutive matches -/
def IterN (P : Bytes → Bytes → Bytes → Prop) : Nat → Bytes → Bytes → Bytes → Prop
  | 0, _, w, _ => w = []
  | k + 1, pre, w, post =>
    ∃ w1 w2, w = w1 ++ w2 ∧ P pre w1 (w2 ++ post) ∧ IterN P k (w1.reverse ++ pre) w2 post

def Matches : Re → Bytes → Bytes → Bytes → Prop
  | .eps, _, w, _ => w = []
  | .cls rs, _, w, _ => ∃ c, w = [c] ∧ c < 0x80 ∧ inR rs c = true
  | .ncls rs, _, w, post =>
    ∃ c r, w ++ post = c :: r ∧
      ((c < 0x80 ∧ inR rs c = false ∧ w = [c]) ∨
       (¬ c < 0x80 ∧ w = (c :: r).take (runeLen (c :: r))))
  | .cat a b, pre, w, post =>
    ∃ w1 w2, w = w1 ++ w2 ∧ Matches a pre w1 (w2 ++ post) ∧ Matches b (w1.reverse ++ pre) w2 post
  | .alt a b, pre, w, post => Matches a pre w post ∨ Matches b pre w post
  | .rep a mn mx, pre, w, post =>
    ∃ k, mn ≤ k ∧ (∀ M, mx = some M → k ≤ M) ∧ IterN (Matches a) k pre w post
  | .bot, pre, w, _ => w = [] ∧ pre = []
  | .wordb, pre, w, post => w = [] ∧ wordBefore pre ≠ wordAfter post

/-! ## executable leftmost-first prefix matcher -/

/-- continuation: (text before, reversed) (rest) -/
abbrev K (α : Type) := Bytes → Bytes → Option α

def orElse {α : Type} : Option α → Option α → Option α
  | some x, _ => some x
  | none, y => y

/-- `n` mandatory iterations -/
def repMin {α : Type} (step : Bytes → Bytes → K α → Option α) : Nat → Bytes → Bytes → K α → Option α
  | 0, pre, s, k => k pre s
  | n + 1, pre, s, k => step pre s (fun pre' s' => repMin step n pre' s' k)

/-- up to `n` further iterations, as many as possible first (greedy) -/
def repMax {α : Type} (step : Bytes → Bytes → K α → Option α) : Nat → Bytes → Bytes → K α → Option α
  | 0, pre, s, k => k pre s
  | n + 1, pre, s, k => orElse (step pre s (fun pre' s' => repMax step n pre' s' k)) (k pre s)

/-- any number of further iterations, greedy; an iteration that consumes
nothing is not taken (it cannot lead to a different match).  `fuel` = length of
the rest suffices. -/
def repStar {α : Type} (step : Bytes → Bytes → K α → Option α) : Nat → Bytes → Bytes → K α → Option α
  | 0, pre, s, k => k pre s
  | f + 1, pre, s, k =>
    orElse (step pre s (fun pre' s' => if s'.length < s.length then repStar step f pre' s' k else none))
      (k pre s)

def m {α : Type} : Re → Bytes → Bytes → K α → Option α
  | .eps, pre, s, k => k pre s
  | .cls rs, pre, s, k =>
    match s with
    | c :: r => if c < 0x80 && inR rs c then k (c :: pre) r else none
    | [] => none
  | .ncls rs, pre, s, k =>
    match s with
    | c :: r =>
      if c < 0x80 then (if inR rs c then none else k (c :: pre) r)
      else k (((c :: r).take (runeLen (c :: r))).reverse ++ pre) ((c :: r).drop (runeLen (c :: r)))
    | [] => none
  | .cat a b, pre, s, k => m a pre s (fun pre' s' => m b pre' s' k)
  | .alt a b, pre, s, k => orElse (m a pre s k) (m b pre s k)
  | .rep a mn mx, pre, s, k =>
    match mx with
    | none => repMin (m a) mn pre s (fun pre' s' => repStar (m a) s'.length pre' s' k)
    | some M =>
      if M < mn then none
      else repMin (m a) mn pre s (fun pre' s' => repMax (m a) (M - mn) pre' s' k)
  | .bot, pre, s, k => if pre.isEmpty then k pre s else none
  | .wordb, pre, s, k => if wordBefore pre != wordAfter s then k pre s else none

/-- the prefix of `s` that `regexp.Find` returns for an anchored (`^…`) regex:
the leftmost-first match at position 0, `none` when there is none -/
def pmatch (r : Re) (s : Bytes) : Option Bytes :=
  m r [] s (fun pre _ => some pre.reverse)

/-! ## parser of the regex syntax subset

Input: the regex source as a list of character codes.  `none` = outside the
subset (or a syntax error).  Stacked repetition (`a**`) and non-greedy
operators are rejected, as Go's Perl-flavoured parser rejects the former and
the tokenizer does not use the latter. -/

def rangesOfName : List Nat → Option Ranges
  | [0x78, 0x64, 0x69, 0x67, 0x69, 0x74] => some [(0x30, 0x39), (0x41, 0x46), (0x61, 0x66)]   -- xdigit
  | [0x61, 0x6C, 0x70, 0x68, 0x61] => some [(0x41, 0x5A), (0x61, 0x7A)]                       -- alpha
  | [0x64, 0x69, 0x67, 0x69, 0x74] => some [(0x30, 0x39)]                                     -- digit
  | [0x61, 0x6C, 0x6E, 0x75, 0x6D] => some [(0x30, 0x39), (0x41, 0x5A), (0x61, 0x7A)]         -- alnum
  | [0x75, 0x70, 0x70, 0x65, 0x72] => some [(0x41, 0x5A)]                                     -- upper
  | [0x6C, 0x6F, 0x77, 0x65, 0x72] => some [(0x61, 0x7A)]                                     -- lower
  | [0x77, 0x6F, 0x72, 0x64] => some [(0x30, 0x39), (0x41, 0x5A), (0x61, 0x7A), (0x5F, 0x5F)] -- word
  | _ => none

def digitRanges : Ranges := [(0x30, 0x39)]
def wordRanges : Ranges := [(0x30, 0x39), (0x41, 0x5A), (0x61, 0x7A), (0x5F, 0x5F)]

def isPunctCode (c : Nat) : Bool :=
  (0x21 ≤ c && c ≤ 0x2F) || (0x3A ≤ c && c ≤ 0x40) || (0x5B ≤ c && c ≤ 0x60) || (0x7B ≤ c && c ≤ 0x7E)

def isMeta (c : Nat) : Bool :=
  c == 0x5C || c == 0x2E || c == 0x2B || c == 0x2A || c == 0x3F || c == 0x28 || c == 0x29 ||
  c == 0x7C || c == 0x5B || c == 0x5D || c == 0x7B || c == 0x7D || c == 0x5E || c == 0x24

def byteOf (c : Nat) : UInt8 := UInt8.ofNat c

/-- `[:name:]` after the `[:` — returns the ranges and the rest after `:]` -/
def parseNamed : Nat → List Nat → List Nat → Option (Ranges × List Nat)
  | 0, _, _ => none
  | _ + 1, _, [] => none
  | f + 1, acc, c :: r =>
    if c == 0x3A then
      match r with
      | 0x5D :: r2 => (rangesOfName acc.reverse).map fun rs => (rs, r2)
      | _ => none
    else parseNamed f (c :: acc) r

/-- the items of a bracket class after `[` / `[^`, up to the closing `]` -/
def parseClassItems : Nat → Ranges → List Nat → Option (Ranges × List Nat)
  | 0, _, _ => none
  | _ + 1, _, [] => none
  | f + 1, acc, c :: r =>
    if c == 0x5D then (if acc.isEmpty then none else some (acc.reverse, r))
    else if c == 0x5B then
      match r with
      | 0x3A :: r2 =>
        match parseNamed f [] r2 with
        | some (rs, r3) => parseClassItems f (rs.reverse ++ acc) r3
        | none => none
      | _ => none          -- a literal `[` inside a class must be escaped in the subset
    else
      -- one character (possibly escaped), possibly the start of a range
      let lit : Option (Option UInt8 × Ranges × List Nat) :=
        if c == 0x5C then
          match r with
          | 0x64 :: r2 => some (none, digitRanges, r2)
          | 0x77 :: r2 => some (none, wordRanges, r2)
          | e :: r2 => if isPunctCode e then some (some (byteOf e), [], r2) else none
          | [] => none
        else if c < 0x80 && c != 0x5E || (c == 0x5E && !acc.isEmpty) then some (some (byteOf c), [], r)
        else none
      match lit with
      | none => none
      | some (none, rs, r2) => parseClassItems f (rs.reverse ++ acc) r2
      | some (some lo, _, r2) =>
        match r2 with
        | 0x2D :: 0x5D :: _ => parseClassItems f ((lo, lo) :: acc) r2   -- trailing `-` is a literal
        | 0x2D :: h :: r3 =>
          if h == 0x5C then
            match r3 with
            | e :: r4 =>
              if isPunctCode e && lo ≤ byteOf e then parseClassItems f ((lo, byteOf e) :: acc) r4 else none
            | [] => none
          else if h < 0x80 && h != 0x5B && lo ≤ byteOf h then parseClassItems f ((lo, byteOf h) :: acc) r3
          else none
        | _ => parseClassItems f ((lo, lo) :: acc) r2

def parseNat : Nat → Nat → List Nat → Option (Nat × List Nat)
  | 0, _, _ => none
  | f + 1, acc, c :: r =>
    if 0x30 ≤ c && c ≤ 0x39 then
      match parseNat f (acc * 10 + (c - 0x30)) r with
      | some x => some x
      | none => some (acc * 10 + (c - 0x30), r)
    else none
  | _ + 1, _, [] => none

/-- postfix operator after an atom: `some (min, max, rest)`; `none` when the
next character is not a repetition operator -/
def parsePostfix (s : List Nat) : Option (Nat × Option Nat × List Nat) :=
  match s with
  | 0x2A :: r => some (0, none, r)
  | 0x2B :: r => some (1, none, r)
  | 0x3F :: r => some (0, some 1, r)
  | 0x7B :: r =>
    match parseNat (r.length + 1) 0 r with
    | some (n, 0x7D :: r2) => some (n, some n, r2)
    | some (n, 0x2C :: 0x7D :: r2) => some (n, none, r2)
    | some (n, 0x2C :: r2) =>
      match parseNat (r2.length + 1) 0 r2 with
      | some (k, 0x7D :: r3) => some (n, some k, r3)
      | _ => none
    | _ => none
  | _ => none

def isRepStart (s : List Nat) : Bool :=
  match s with
  | 0x2A :: _ => true
  | 0x2B :: _ => true
  | 0x3F :: _ => true
  | 0x7B :: _ => true
  | _ => false

def catList : List Re → Re
  | [] => .eps
  | [a] => a
  | a :: r => .cat a (catList r)

/-- apply an optional postfix operator to an atom; stacked / non-greedy
operators and repetition counts above 1000 or with max < min are rejected -/
def withPostfix (a : Re) (s : List Nat) : Option (Re × List Nat) :=
  if isRepStart s then
    match parsePostfix s with
    | some (mn, mx, r) =>
      if isRepStart r then none
      else if mn > 1000 then none
      else match mx with
        | some M => if M > 1000 || M < mn then none else some (.rep a mn mx, r)
        | none => some (.rep a mn mx, r)
    | none => none
  else some (a, s)

mutual
  /-- alternation: `cat ('|' cat)*` up to `)` or the end -/
  def parseAlt : Nat → List Nat → Option (Re × List Nat)
    | 0, _ => none
    | f + 1, s =>
      match parseCat f [] s with
      | none => none
      | some (a, 0x7C :: r) =>
        match parseAlt f r with
        | some (b, r2) => some (.alt a b, r2)
        | none => none
      | some (a, r) => some (a, r)

  /-- concatenation of postfixed atoms up to `|`, `)` or the end -/
  def parseCat : Nat → List Re → List Nat → Option (Re × List Nat)
    | 0, _, _ => none
    | _ + 1, acc, [] => some (catList acc.reverse, [])
    | f + 1, acc, c :: r =>
      if c == 0x7C || c == 0x29 then some (catList acc.reverse, c :: r)
      else
        let atom : Option (Re × List Nat) :=
          if c == 0x28 then
            -- group: `(?:` non-capturing, `(` capturing (same language)
            let body := match r with
              | 0x3F :: 0x3A :: r2 => some r2
              | 0x3F :: _ => none
              | _ => some r
            match body with
            | none => none
            | some b =>
              match parseAlt f b with
              | some (g, 0x29 :: r3) => some (g, r3)
              | _ => none
          else if c == 0x5B then
            match r with
            | 0x5E :: r2 => (parseClassItems (r2.length + 1) [] r2).map fun (rs, r3) => (.ncls rs, r3)
            | _ => (parseClassItems (r.length + 1) [] r).map fun (rs, r3) => (.cls rs, r3)
          else if c == 0x5E then some (.bot, r)
          else if c == 0x5C then
            match r with
            | 0x62 :: r2 => some (.wordb, r2)
            | 0x64 :: r2 => some (.cls digitRanges, r2)
            | 0x77 :: r2 => some (.cls wordRanges, r2)
            | e :: r2 => if isPunctCode e then some (.cls [(byteOf e, byteOf e)], r2) else none
            | [] => none
          else if isMeta c || c ≥ 0x80 then none
          else some (.cls [(byteOf c, byteOf c)], r)
        match atom with
        | none => none
        | some (a, r2) =>
          match withPostfix a r2 with
          | none => none
          | some (a2, r3) => parseCat f (a2 :: acc) r3
end

def parseCodes (s : List Nat) : Option Re :=
  match parseAlt (2 * s.length + 2) s with
  | some (r, []) => some r
  | _ => none

def parse (s : String) : Option Re := parseCodes (s.toList.map Char.toNat)

end Martian.Regex
