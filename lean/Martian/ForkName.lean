/-
C11 model: fork identities and journal routing.

  martian/core/fork.go   makeKeySafe (= net/url PathEscape), mapKeyFork.forkString,
                         ForkSourcePart.ForkIdString, ForkId.forkId, writeForkIndex,
                         writePaddedIndex
  martian/util/util.go   WidthForInt
  martian/core/stage.go  encodeJournalName, Fork.updateId (fqname), NewChunk (chnk%0*d)
  martian/core/metadata.go  Metadata.journalFile / UpdateJournal (file name rendering)
  martian/core/node.go   jobJournalRe + parseRunFilename (as a deterministic parser),
                         Node.getFork

Byte strings are `List UInt8` (Go strings are byte strings; every function
modelled here works bytewise).  Core Lean only (the driver links natively).
-/
namespace Martian.ForkName

abbrev Bytes := List UInt8

/-! ## Constants (ASCII) -/

def cDot : UInt8 := 0x2E      -- '.'
def cSlash : UInt8 := 0x2F    -- '/'
def cPct : UInt8 := 0x25      -- '%'
def cUnder : UInt8 := 0x5F    -- '_'
def cNL : UInt8 := 0x0A
def sFork : Bytes := [0x66, 0x6F, 0x72, 0x6B]              -- "fork"
def sFork0 : Bytes := [0x66, 0x6F, 0x72, 0x6B, 0x30]       -- "fork0"
def sForkU : Bytes := [0x66, 0x6F, 0x72, 0x6B, 0x5F]       -- "fork_"
def sDotFork : Bytes := [0x2E, 0x66, 0x6F, 0x72, 0x6B]     -- ".fork"
def sChnk : Bytes := [0x63, 0x68, 0x6E, 0x6B]              -- "chnk"
def sDotChnk : Bytes := [0x2E, 0x63, 0x68, 0x6E, 0x6B]     -- ".chnk"
def sDotU : Bytes := [0x2E, 0x75]                          -- ".u"

/-! ## net/url PathEscape / PathUnescape (mode encodePathSegment) -/

def isAlnum (c : UInt8) : Bool :=
  (0x61 ≤ c && c ≤ 0x7A) || (0x41 ≤ c && c ≤ 0x5A) || (0x30 ≤ c && c ≤ 0x39)

/-- `shouldEscape(c, encodePathSegment)` of Go's net/url: unreserved
characters and `$ & + : = @` stay, everything else (including `/ ; , ?`, `%`,
space, controls and every byte ≥ 0x80) is percent-encoded. -/
def shouldEscape (c : UInt8) : Bool :=
  !(isAlnum c || c == 0x2D || c == 0x5F || c == 0x2E || c == 0x7E ||
    c == 0x24 || c == 0x26 || c == 0x2B || c == 0x3A || c == 0x3D || c == 0x40)

/-- `"0123456789ABCDEF"[n]` -/
def upperHex (n : Nat) : UInt8 := if n < 10 then UInt8.ofNat (48 + n) else UInt8.ofNat (55 + n)

def pctEncode (c : UInt8) : Bytes := [cPct, upperHex (c.toNat / 16), upperHex (c.toNat % 16)]

def escByte (c : UInt8) : Bytes := if shouldEscape c then pctEncode c else [c]

/-- `url.PathEscape` = `makeKeySafe`. -/
def pathEscape : Bytes → Bytes
  | [] => []
  | c :: r => escByte c ++ pathEscape r

/-- Go's `unhex` after `ishex`. -/
def unhex (c : UInt8) : Option Nat :=
  if 0x30 ≤ c && c ≤ 0x39 then some (c.toNat - 0x30)
  else if 0x61 ≤ c && c ≤ 0x66 then some (c.toNat - 0x61 + 10)
  else if 0x41 ≤ c && c ≤ 0x46 then some (c.toNat - 0x41 + 10)
  else none

/-- `url.PathUnescape`: `%XX` decoded, a malformed escape is an error, every
other byte (including `+`) is kept. -/
def pathUnescape : Bytes → Option Bytes
  | [] => some []
  | c :: r =>
    if c == cPct then
      match r with
      | a :: b :: r' =>
        match unhex a, unhex b with
        | some x, some y => (pathUnescape r').map (UInt8.ofNat (x * 16 + y) :: ·)
        | _, _ => none
      | _ => none
    else (pathUnescape r).map (c :: ·)

/-! ## encodeJournalName (a `strings.NewReplacer` whose old strings are single bytes) -/

abbrev Pairs := List (UInt8 × Bytes)

def lookup (pairs : Pairs) (c : UInt8) : Option Bytes :=
  match pairs with
  | [] => none
  | (o, r) :: rest => if o == c then some r else lookup rest c

def encByte (pairs : Pairs) (c : UInt8) : Bytes :=
  match lookup pairs c with
  | some r => r
  | none => [c]

/-- `encodeJournalName.Replace`: first pair whose old byte matches wins. -/
def journalEnc (pairs : Pairs) : Bytes → Bytes
  | [] => []
  | c :: r => encByte pairs c ++ journalEnc pairs r

/-! ## Decimal rendering (strconv.Itoa on non-negative ints, WidthForInt, padding) -/

def digitChar (n : Nat) : UInt8 := UInt8.ofNat (48 + n % 10)

/-- digits of `n`, most significant first, appended in front of `acc`
(fuel = an upper bound on the number of digits). -/
def itoaAux : Nat → Nat → Bytes → Bytes
  | 0, _, acc => acc
  | fuel + 1, n, acc =>
    if n < 10 then digitChar n :: acc else itoaAux fuel (n / 10) (digitChar n :: acc)

/-- `strconv.Itoa n` for `n ≥ 0`. -/
def itoa (n : Nat) : Bytes := itoaAux (n + 1) n []

/-- `util.WidthForInt` for `0 ≤ n < 10^15` (beyond that Go goes through
float64 `math.Log10`). -/
def widthForInt (n : Nat) : Nat := (itoa n).length

def zeros : Nat → Bytes
  | 0 => []
  | k + 1 => 0x30 :: zeros k

/-- `fmt.Sprintf("%0*d", w, n)` / the padding loop of `writePaddedIndex`. -/
def padded (w n : Nat) : Bytes := zeros (w - (itoa n).length) ++ itoa n

/-! ## Fork id strings -/

/-- One `ForkSourcePart`, reduced to what `ForkIdString` looks at.
`static` = the split source has a statically known length (`KnownLength()`),
otherwise the length / key set comes from `ForkSourcePart.Range`. -/
inductive Part where
  | arr (idx len : Nat) (static : Bool)
  | key (k : Bytes) (keys : List Bytes) (static : Bool)
  | undet
  | empty
  deriving Repr, DecidableEq

/-- `writeForkIndex` -/
def forkIndexStr (dim idx : Nat) : Bytes :=
  if dim < 10 && idx == 0 then sFork0 else sFork ++ padded (widthForInt (dim - 1)) idx

/-- `ForkSourcePart.ForkIdString` (`none` = an error is returned). -/
def singleId : Part → Option Bytes
  | .arr idx len static =>
    if static && len ≤ idx then none
    else if idx == 0 then some sFork0 else some (sFork ++ itoa idx)
  | .key k keys static =>
    if static && !keys.contains k then none else some (sForkU ++ pathEscape k)
  | .undet => some sFork0
  | .empty => some sFork0

/-- Result of `ForkId.forkId`: `isDefault`, the builder contents, and whether
an error was returned. -/
structure IdRes where
  isDefault : Bool
  buf : Bytes
  ok : Bool
  deriving Repr, DecidableEq

/-- `ForkId.forkId(buf, start)` as a fold over the parts from `start` on.
`first` = this is the first part of the current invocation (`i == 0`),
`idx`/`dim` = `forkIndex`/`forkDim`.  Two switches select between the code as
it was found and as it is now (both regenerated from the source as facts):
`reenter`: what the recursive call made after flushing an array index in front
of a map part starts with — `false` = the part *after* the map part
(`start+i+1`), `true` = the map part itself (`start+i`);
`skipEmpty`: what happens at a part whose range is empty — `false` = stop and
return (`return forkIndex == 0, nil`), `true` = skip it like an unresolved
part (`continue`). -/
def forkIdGo (reenter skipEmpty : Bool) : Nat → List Part → Bool → Nat → Nat → Bytes → IdRes
  | 0, _, _, _, _, buf => ⟨true, buf, false⟩
  | _ + 1, [], _, idx, dim, buf =>
    if idx == 0 && buf.isEmpty then ⟨true, buf, true⟩
    else ⟨false, buf ++ forkIndexStr dim idx, true⟩
  | fuel + 1, .undet :: rest, _, idx, dim, buf => forkIdGo reenter skipEmpty fuel rest false idx dim buf
  | fuel + 1, .empty :: rest, _, idx, dim, buf =>
    if skipEmpty then forkIdGo reenter skipEmpty fuel rest false idx dim buf else ⟨idx == 0, buf, true⟩
  | fuel + 1, .arr i len static :: rest, first, idx, dim, buf =>
    if len == 0 then
      (if skipEmpty then forkIdGo reenter skipEmpty fuel rest false idx dim buf else ⟨idx == 0, buf, true⟩)
    else if len ≤ i then ⟨idx == 0, buf, false⟩
    else if !static && 1 < len && !first then
      forkIdGo reenter skipEmpty fuel rest false i len (buf ++ forkIndexStr dim idx ++ [cUnder])
    else forkIdGo reenter skipEmpty fuel rest false (idx + dim * i) (dim * len) buf
  | fuel + 1, .key k keys static :: rest, first, idx, dim, buf =>
    if keys.length == 0 then
      (if skipEmpty then forkIdGo reenter skipEmpty fuel rest false idx dim buf else ⟨idx == 0, buf, true⟩)
    else if !keys.contains k then ⟨idx == 0, buf, false⟩
    else if first then
      let buf := buf ++ sForkU ++ pathEscape k
      if rest.isEmpty then ⟨false, buf, true⟩
      else
        let r := forkIdGo reenter skipEmpty fuel rest true 0 1 (buf ++ [cSlash])
        if !r.ok then ⟨true, r.buf, false⟩
        else if r.isDefault then ⟨false, r.buf ++ sFork0, true⟩
        else ⟨false, r.buf, true⟩
    else
      let buf := buf ++ forkIndexStr dim idx ++ [cSlash]
      if reenter then forkIdGo reenter skipEmpty fuel (.key k keys static :: rest) true 0 1 buf
      else forkIdGo reenter skipEmpty fuel rest true 0 1 buf

/-- `ForkId.ForkIdString` (`none` = error, on which `Fork.updateId` panics). -/
def forkIdString (reenter skipEmpty : Bool) (parts : List Part) : Option Bytes :=
  match parts with
  | [] => some sFork0
  | [p] => singleId p
  | _ =>
    let r := forkIdGo reenter skipEmpty (2 * parts.length + 2) parts true 0 1 []
    if !r.ok then none else if r.isDefault then some sFork0 else some r.buf

/-! ## Names derived from a fork id -/

/-- `"chnk%0*d"` with the width `util.WidthForInt(len(chunkDefs))`. -/
def chunkName (nchunks i : Nat) : Bytes := sChnk ++ padded (widthForInt nchunks) i

/-- A journal file name, as `Metadata.UpdateJournal` renders it for a job of a
fork: `<fqid>.fork<forkPart>[.chnk<digits>][.u<uniq>].<file>` where `fqid` is
the node's fully-qualified id without the `ID.<pipestance>.` prefix,
`"fork" ++ forkPart` is the encoded fork id and `file` is the metadata file
name with its `split_` / `join_` prefix. -/
structure JName where
  fqid : Bytes
  forkPart : Bytes
  chunk : Option Bytes      -- the digits
  uniq : Option Bytes
  file : Bytes
  deriving Repr, DecidableEq

def JName.render (x : JName) : Bytes :=
  x.fqid ++ sDotFork ++ x.forkPart ++
    (match x.chunk with | some d => sDotChnk ++ d | none => []) ++
    (match x.uniq with | some u => sDotU ++ u | none => []) ++
    cDot :: x.file

/-! ## jobJournalRe as a deterministic parser

`(.*)\.fork([^.]+)(?:\.chnk(\d+))?(?:\.u([a-f0-9]{10}))?\.(.*)$`
on newline-free input (Go's `.` does not match `\n`; no journal name written
by martian contains one).  Leftmost-first semantics: the first group is greedy,
so the match uses the *rightmost* `.fork` after which the rest of the pattern
can match; `[^.]+` must run to the next dot; each optional group is taken when
it matches and the remainder still can. -/

def startsWith : Bytes → Bytes → Bool
  | [], _ => true
  | _ :: _, [] => false
  | p :: ps, c :: cs => p == c && startsWith ps cs

def isDigit (c : UInt8) : Bool := 0x30 ≤ c && c ≤ 0x39
def isLowerHex (c : UInt8) : Bool := isDigit c || (0x61 ≤ c && c ≤ 0x66)

/-- longest prefix satisfying `p`, and the rest -/
def spanB (p : UInt8 → Bool) : Bytes → Bytes × Bytes
  | [] => ([], [])
  | c :: r => if p c then let (a, b) := spanB p r; (c :: a, b) else ([], c :: r)

/-- `(?:\.chnk(\d+))?` in front of something that must start with a dot -/
def takeChunk (s : Bytes) : Option Bytes × Bytes :=
  if startsWith sDotChnk s then
    let (d, rest) := spanB isDigit (s.drop 5)
    if !d.isEmpty && startsWith [cDot] rest then (some d, rest) else (none, s)
  else (none, s)

/-- `(?:\.u([a-f0-9]{10}))?` in front of something that must start with a dot -/
def takeUniq (s : Bytes) : Option Bytes × Bytes :=
  if startsWith sDotU s then
    let h := (s.drop 2).take 10
    let rest := s.drop 12
    if h.length == 10 && h.all isLowerHex && startsWith [cDot] rest then (some h, rest) else (none, s)
  else (none, s)

structure Tail where
  forkPart : Bytes
  chunk : Option Bytes
  uniq : Option Bytes
  file : Bytes
  deriving Repr, DecidableEq

/-- the pattern after group 1, anchored at the head of `s` -/
def tailMatch (s : Bytes) : Option Tail :=
  if startsWith sDotFork s then
    let (fp, rest) := spanB (fun c => c != cDot) (s.drop 5)
    if fp.isEmpty || rest.isEmpty then none
    else
      let (ch, rest) := takeChunk rest
      let (u, rest) := takeUniq rest
      some ⟨fp, ch, u, rest.drop 1⟩
  else none

/-- rightmost position at which `tailMatch` succeeds -/
def findLast : Bytes → Option (Bytes × Tail)
  | [] => none
  | c :: r =>
    match findLast r with
    | some (pre, t) => some (c :: pre, t)
    | none =>
      match tailMatch (c :: r) with
      | some t => some ([], t)
      | none => none

def parseRun (s : Bytes) : Option JName :=
  match findLast s with
  | some (pre, t) => some ⟨pre, t.forkPart, t.chunk, t.uniq, t.file⟩
  | none => none

/-! ## strconv.Atoi as used by `getFork` and `parseRunFilename` -/

def digitsVal : Bytes → Nat → Option Nat
  | [], acc => some acc
  | c :: r, acc => if isDigit c then digitsVal r (acc * 10 + (c.toNat - 0x30)) else none

/-- `strconv.Atoi` without the range check: optional sign, at least one ASCII
digit.  (`getFork` only uses a result in `[0, len(forks))`, so the int64 range
error coincides with "not a valid index".) -/
def atoi (s : Bytes) : Option Int :=
  match s with
  | [] => none
  | c :: r =>
    if c == 0x2B then (if r.isEmpty then none else (digitsVal r 0).map Int.ofNat)
    else if c == 0x2D then (if r.isEmpty then none else (digitsVal r 0).map (fun n => - Int.ofNat n))
    else (digitsVal (c :: r) 0).map Int.ofNat

/-! ## Node.getFork

`names[i]` = what follows `<fqid>.fork` in `forks[i].fqname`
(`f.fqname[l:]` is compared when `len(f.fqname) > l`, i.e. when it is non-empty). -/

def nameMatches (n index : Bytes) : Bool := !n.isEmpty && n == index

def findName (names : List Bytes) (index : Bytes) : Option Nat :=
  match names with
  | [] => none
  | n :: rest =>
    if nameMatches n index then some 0 else (findName rest index).map (· + 1)

def numericIndex (names : List Bytes) (index : Bytes) : Option Nat :=
  match atoi index with
  | some (.ofNat i) => if i < names.length then some i else none
  | _ => none

/-- the code as found: `Atoi(index)` as a list position first, then the name search -/
def getForkOld (names : List Bytes) (index : Bytes) : Option Nat :=
  match numericIndex names index with
  | some i => some i
  | none => findName names index

/-- exact name only; the numeric position is merely tried first as a shortcut
and is used only when the fork at that position carries exactly that name -/
def getForkNew (names : List Bytes) (index : Bytes) : Option Nat :=
  match numericIndex names index with
  | some i => if nameMatches (names.getD i []) index then some i else findName names index
  | none => findName names index

/-! ## Node.find

`Node.find(name)` walks the node tree (children in Go map order) and returns
the first node whose fully-qualified id is `top.fqname + "." + name` or `name`
itself.  The model takes the nodes' fqids as a list in *any* order. -/

def nodeMatches (top fqid name : Bytes) : Bool := fqid == top ++ cDot :: name || fqid == name

def findNode (top : Bytes) (fqids : List Bytes) (name : Bytes) : Option Nat :=
  match fqids with
  | [] => none
  | f :: rest => if nodeMatches top f name then some 0 else (findNode top rest name).map (· + 1)

/-- `Metadata.cache`: a notification is recorded iff it carries the metadata
object's current uniquifier. -/
def cacheAccepts (own seen : Bytes) : Bool := own == seen

/-! ## Routing a journal file name (`Node.refreshState`)

`parseRunFilename`, then `find` from the pipestance's top node, then `getFork`
on the node found; an empty first group counts as a parse failure.  The result
names the node (list position), the fork (list position) and the job record
(chunk digits, uniquifier, metadata file). -/

structure NodeM where
  fqid : Bytes
  /-- what follows `<fqid>.fork` in each fork's fqname, in list order -/
  forks : List Bytes
  deriving Repr, DecidableEq

def route (top : Bytes) (nodes : List NodeM) (s : Bytes) :
    Option (Nat × Nat × Option Bytes × Option Bytes × Bytes) :=
  match parseRun s with
  | none => none
  | some x =>
    if x.fqid.isEmpty then none else
    match findNode top (nodes.map (·.fqid)) x.fqid with
    | none => none
    | some n =>
      match getForkNew ((nodes.getD n ⟨[], []⟩).forks) x.forkPart with
      | none => none
      | some f => some (n, f, x.chunk, x.uniq, x.file)

/-! ## Attempts of one job

`attempt` counts (re)starts; `draw k` is the uniquifier the k-th attempt is
given (`uniquify` after `uncheckedReset` cleared / advanced the old one);
`recorded` is the metadata cache: which attempt each recorded notification is
credited to.  A notification written by a process of attempt `k` carries
`draw k`; `Metadata.cache` accepts it iff it equals the current uniquifier. -/

structure JobState (U : Type) where
  attempt : Nat
  uniq : U
  recorded : List (Nat × Bytes)

inductive JobEv where
  | reset
  | notify (k : Nat) (file : Bytes)
  deriving DecidableEq

def jobStep {U : Type} [DecidableEq U] (draw : Nat → U) (s : JobState U) : JobEv → JobState U
  | .reset => ⟨s.attempt + 1, draw (s.attempt + 1), []⟩
  | .notify k file => if s.uniq = draw k then ⟨s.attempt, s.uniq, (s.attempt, file) :: s.recorded⟩ else s

def jobRun {U : Type} [DecidableEq U] (draw : Nat → U) : JobState U → List JobEv → JobState U
  | s, [] => s
  | s, e :: es => jobRun draw (jobStep draw s e) es

/-- the time part of the uniquifier that follows `old` when the clock reads
`now` (`nextUniquifier`, same process) -/
def nextTime (old now : Nat) : Nat := if now ≤ old then old + 1 else now

/-- the times of successive attempts of one job, given the clock readings -/
def attemptTime (now : Nat → Nat) : Nat → Nat
  | 0 => now 0
  | k + 1 => nextTime (attemptTime now k) (now (k + 1))

end Martian.ForkName
