/-
C19 — model of the RESOLVED CALL GRAPH with deep inlining (Go: `Ast.MakeCallGraph`,
martian/syntax/resolve*.go, resolved_binding.go, resolve_expression.go) and of
the parameter types as far as the resolution and the edits look at them
(`TypeInfo`: struct definitions with their member lists; the typed input and
output parameters of every callable; a callable's name doubles as a struct
type whose members are its outputs).

For every node (one per call, identified by the path of call ids from the
top-level call = the fqid) the graph holds the resolved inputs: references
are followed through the enclosing pipeline's own inputs and through the
outputs of sibling calls — for a sub-pipeline, through its return bindings,
recursively — until a literal or a STAGE output is reached
(`RExp.sref fqid-of-the-stage callable path`).  Every resolved binding is
narrowed to its declared type (`filterExp`, Go `Exp.filter`: a struct value
keeps exactly the members of the declared struct type).  Wildcard bindings
are expanded as the compiler does (`* = self`: the pipeline's inputs which
the callee also has; `* = REF`: the members of REF's struct type which the
callee has).

Fragment: map calls / `split` and `disabled` modifiers are outside (the Go
resolution wraps expressions into split/merge/disabled nodes there); `split`
is carried along opaquely.  Core Lean only.
-/
import Martian.Refactor

namespace Martian.Refactor

/-! ## types -/

/-- Go `TypeId`: base name, array dimension, map dimension (`mapDim > 0`: a typed
map whose values are arrays of dimension `mapDim - 1`). -/
structure Ty where
  base : String
  arrayDim : Nat
  mapDim : Nat
  deriving DecidableEq, Repr, Inhabited

abbrev Members := List (String × Ty)

structure TypeInfo where
  structs : List (String × Members)     -- struct name → members
  ins : List (String × Members)         -- callable name → typed inputs
  outs : List (String × Members)        -- callable name → typed outputs
  deriving DecidableEq, Repr, Inhabited

def TypeInfo.empty : TypeInfo := ⟨[], [], []⟩

/-- members of the struct type called `base`: a declared struct, else a
callable's outputs (Go `TypeLookup.Get` falls back to the callable table). -/
def membersOf (ti : TypeInfo) (base : String) : Option Members :=
  match ti.structs.lookup base with
  | some ms => some ms
  | none => ti.outs.lookup base

def insOf (ti : TypeInfo) (callable : String) : Members := (ti.ins.lookup callable).getD []
def outsOf (ti : TypeInfo) (callable : String) : Members := (ti.outs.lookup callable).getD []

/-- Go `fieldType`: the type reached from `ty` through a member path
(dimensions are carried pointwise by the Go code; only the base matters here). -/
def walkTy (ti : TypeInfo) : Ty → List String → Option Ty
  | ty, [] => some ty
  | ty, h :: t =>
    match membersOf ti ty.base with
    | none => none
    | some ms =>
      match ms.lookup h with
      | none => none
      | some mty => walkTy ti mty t

/-! ## resolved expressions -/

inductive RExp
  | lit (s : String)
  | sref (fq : List String) (callable : String) (path : List String)
  | split (e : RExp)
  | arr (elems : RExp)
  | map (isStruct : Bool) (elems : RExp)
  | nil
  | cons (key : String) (head tail : RExp)
  deriving DecidableEq, Repr, Inhabited

def rnull : RExp := .lit "6e756c6c"

abbrev Env := List (String × RExp)

def envGet (env : Env) (k : String) : RExp := (env.lookup k).getD rnull

def envEntries : Env → RExp
  | [] => .nil
  | (k, v) :: rest => .cons k v (envEntries rest)

mutual
  /-- Go `Exp.BindingPath(path)`: project a resolved expression. -/
  def bindingPath (path : List String) : RExp → RExp
    | .lit s => .lit s
    | .sref fq c p => .sref fq c (p ++ path)
    | .split e => .split e
    | .arr es => .arr (bindingPathElems path es)
    | .map false es => .map false (bindingPathElems path es)
    | .map true es =>
      match path with
      | [] => .map true es
      | h :: t => projectMember h t es
    | .nil => .nil
    | .cons k h t => .cons k h t
  def bindingPathElems (path : List String) : RExp → RExp
    | .cons k h t => .cons k (bindingPath path h) (bindingPathElems path t)
    | .lit s => .lit s
    | .sref fq c p => .sref fq c p
    | .split e => .split e
    | .arr es => .arr es
    | .map b es => .map b es
    | .nil => .nil
  def projectMember (h : String) (t : List String) : RExp → RExp
    | .cons k v rest => if k = h then bindingPath t v else projectMember h t rest
    | .lit _ => rnull
    | .sref _ _ _ => rnull
    | .split _ => rnull
    | .arr _ => rnull
    | .map _ _ => rnull
    | .nil => rnull
end

mutual
  /-- Go `Exp.filter(type)`: narrow struct values to the declared members. -/
  def filterExp (mo : String → Option Members) (ty : Ty) : RExp → RExp
    | .arr es =>
      match mo ty.base with
      | none => .arr es
      | some _ =>
        if ty.arrayDim = 0 then .arr es
        else .arr (filterElems mo { ty with arrayDim := ty.arrayDim - 1 } es)
    | .map st es =>
      match mo ty.base with
      | none => .map st es
      | some ms =>
        if ty.arrayDim = 0 ∧ ty.mapDim = 0 then .map true (filterMembers mo ms es)
        else if ty.arrayDim = 0 then .map false (filterElems mo ⟨ty.base, ty.mapDim - 1, 0⟩ es)
        else .map st es
    | .lit s => .lit s
    | .sref fq c p => .sref fq c p
    | .split e => .split e
    | .nil => .nil
    | .cons k h t => .cons k h t
  def filterElems (mo : String → Option Members) (ty : Ty) : RExp → RExp
    | .cons k h t => .cons k (filterExp mo ty h) (filterElems mo ty t)
    | .lit s => .lit s
    | .sref fq c p => .sref fq c p
    | .split e => .split e
    | .arr es => .arr es
    | .map b es => .map b es
    | .nil => .nil
  def filterMembers (mo : String → Option Members) (ms : Members) : RExp → RExp
    | .cons k h t =>
      match ms.lookup k with
      | some mty => .cons k (filterExp mo mty h) (filterMembers mo ms t)
      | none => filterMembers mo ms t
    | .lit s => .lit s
    | .sref fq c p => .sref fq c p
    | .split e => .split e
    | .arr es => .arr es
    | .map b es => .map b es
    | .nil => .nil
end

/-- the stage-output references of a resolved expression (Go `Exp.FindRefs`) -/
def rrefs : RExp → List RExp
  | .lit _ => []
  | .sref fq c p => [.sref fq c p]
  | .split e => rrefs e
  | .arr es => rrefs es
  | .map _ es => rrefs es
  | .nil => []
  | .cons _ h t => rrefs h ++ rrefs t

/-- replace every reference of a source expression by its resolution -/
def substRefs (f : Ref → RExp) : Exp → RExp
  | .lit s => .lit s
  | .ref r => f r
  | .split e => .split (substRefs f e)
  | .arr es => .arr (substRefs f es)
  | .map b es => .map b (substRefs f es)
  | .nil => .nil
  | .cons k h t => .cons k (substRefs f h) (substRefs f t)

/-- Go `RefExp.resolveRefs`: look the reference up among the enclosing
pipeline's resolved inputs / the siblings' resolved outputs, then project. -/
def lookupRef (self : Env) (outs : String → RExp) (r : Ref) : RExp :=
  bindingPath r.path (match r.kind with
    | .self => envGet self r.id
    | .call => outs r.id)

/-! ## wildcard expansion (compile_params.go `compileWildcard`) -/

def refTy (ti : TypeInfo) (pipe : Callable) (r : Ref) : Option Ty :=
  match r.kind with
  | .self =>
    match (insOf ti pipe.name).lookup r.id with
    | none => none
    | some ty => walkTy ti ty r.path
  | .call =>
    match pipe.calls.find? (·.id == r.id) with
    | none => none
    | some k =>
      match r.path with
      | [] => some ⟨k.decId, 0, 0⟩
      | h :: t =>
        match (outsOf ti k.decId).lookup h with
        | none => none
        | some ty => walkTy ti ty t

def expandWild (ti : TypeInfo) (pipe : Callable) (params : List String) (bs : List Bind) : List Bind :=
  match bs.find? (·.name == "*") with
  | none => bs
  | some w =>
    let explicit := bs.filter (·.name != "*")
    match w.exp with
    | .ref r =>
      if r.kind = RefKind.self ∧ r.id = "" then
        explicit ++ (pipe.ins.filter (fun m => params.contains m)).map
          (fun m => ⟨m, .ref ⟨RefKind.self, m, []⟩⟩)
      else
        match refTy ti pipe r with
        | none => explicit
        | some ty =>
          match membersOf ti ty.base with
          | none => explicit
          | some ms =>
            explicit ++ (ms.filter (fun m => params.contains m.1)).map
              (fun m => ⟨m.1, .ref { r with path := r.path ++ [m.1] }⟩)
    | _ => explicit

/-! ## resolution -/

/-- Go `BindStms.resolve`: every binding resolved and narrowed to the declared
type of the parameter it binds. -/
def resolveBinds (ti : TypeInfo) (tys : Members) (f : Ref → RExp) (bs : List Bind) : Env :=
  bs.map fun b =>
    (b.name, match tys.lookup b.name with
             | some ty => filterExp (membersOf ti) ty (substRefs f b.exp)
             | none => substRefs f b.exp)

def outNames (c : Callable) : List String := c.outs.map (·.1)

/-- resolved inputs of call `k` (callee `d`) of pipeline `pipe`, given the
pipeline's own resolved inputs and its calls' resolved outputs -/
def callIns (ti : TypeInfo) (pipe : Callable) (self : Env) (sib : String → RExp) (d : Callable) (k : Call) : Env :=
  resolveBinds ti (insOf ti d.name) (lookupRef self sib) (expandWild ti pipe d.ins k.binds)

/-- resolved outputs of pipeline `d`: the struct of its resolved return bindings -/
def pipeOuts (ti : TypeInfo) (d : Callable) (ins : Env) (sib : String → RExp) : RExp :=
  .map true (envEntries (resolveBinds ti (outsOf ti d.name) (lookupRef ins sib)
    (expandWild ti d (outNames d) d.ret)))

def pipeRetained (d : Callable) (ins : Env) (sib : String → RExp) : List RExp :=
  d.retain.flatMap (fun r => rrefs (lookupRef ins sib r))

/-- the resolved outputs of call `id` of pipeline `pipe`, whose own resolved
inputs are `self` and whose node has the fqid `pre`: a stage is a reference to
itself; a sub-pipeline is the struct of its resolved return bindings (its own
calls are resolved on demand; every hop costs one unit of fuel). -/
def callOutputs (ti : TypeInfo) (p : Program) : Nat → Callable → Env → List String → String → RExp
  | 0, _, _, _, _ => rnull
  | fuel + 1, pipe, self, pre, id =>
    match pipe.calls.find? (·.id == id) with
    | none => rnull
    | some k =>
      match p.find? k.decId with
      | none => rnull
      | some d =>
        if !d.isPipe then (if d.outs.isEmpty then rnull else .sref (pre ++ [id]) d.name [])
        else if d.ret.isEmpty then rnull
        else
          let ins := callIns ti pipe self (callOutputs ti p fuel pipe self pre) d k
          pipeOuts ti d ins (callOutputs ti p fuel d ins (pre ++ [id]))

structure Node where
  fqid : List String
  callable : String
  isPipe : Bool
  inputs : Env
  outputs : RExp
  retained : List RExp          -- pipeline: the stage outputs its retains resolve to
  deriving DecidableEq, Repr, Inhabited

/-- the nodes of call `k` of `pipe` and of everything below it, in call order -/
def nodesOf (ti : TypeInfo) (p : Program) (big : Nat) : Nat → Callable → Env → List String → Call → List Node
  | 0, _, _, _, _ => []
  | fuel + 1, pipe, self, pre, k =>
    match p.find? k.decId with
    | none => []
    | some d =>
      let ins := callIns ti pipe self (callOutputs ti p big pipe self pre) d k
      let fq := pre ++ [k.id]
      { fqid := fq, callable := d.name, isPipe := d.isPipe, inputs := ins,
        outputs := callOutputs ti p (big + 1) pipe self pre k.id,
        retained := if d.isPipe then pipeRetained d ins (callOutputs ti p big d ins fq) else [] }
      :: (if d.isPipe then d.calls.flatMap (nodesOf ti p big fuel d ins fq) else [])

/-- the nodes of the calls that `keep` retains (`keep pipeline callId`), resolved in
the FULL program: what the graph of the remaining calls must look like after
some calls were deleted -/
def nodesOfKeep (keep : Callable → String → Bool) (ti : TypeInfo) (p : Program) (big : Nat) :
    Nat → Callable → Env → List String → Call → List Node
  | 0, _, _, _, _ => []
  | fuel + 1, pipe, self, pre, k =>
    match p.find? k.decId with
    | none => []
    | some d =>
      let ins := callIns ti pipe self (callOutputs ti p big pipe self pre) d k
      let fq := pre ++ [k.id]
      { fqid := fq, callable := d.name, isPipe := d.isPipe, inputs := ins,
        outputs := callOutputs ti p (big + 1) pipe self pre k.id,
        retained := if d.isPipe then pipeRetained d ins (callOutputs ti p big d ins fq) else [] }
      :: (if d.isPipe then (d.calls.filter (fun k' => keep d k'.id)).flatMap
            (nodesOfKeep keep ti p big fuel d ins fq) else [])

def graphFuel (p : Program) : Nat :=
  (p.callables.map fun c => c.calls.length + 1).sum + 2

/-- the context of the top-level call: a pipeline without inputs whose only call
is the top-level call -/
def topPipe (t : Call) : Callable :=
  { isPipe := true, name := "", keep := false, ins := [], outs := [], sretain := [],
    calls := [t], ret := [], retain := [] }

/-- **the resolved call graph** of the program's top-level call -/
def deepGraph (ti : TypeInfo) (p : Program) : List Node :=
  match p.top with
  | none => []
  | some t => nodesOf ti p (graphFuel p) (graphFuel p) (topPipe t) [] [] t

/-- the resolved call graph restricted to the calls that `keep` retains -/
def deepGraphKeep (keep : Callable → String → Bool) (ti : TypeInfo) (p : Program) : List Node :=
  match p.top with
  | none => []
  | some t => nodesOfKeep keep ti p (graphFuel p) (graphFuel p) (topPipe t) [] [] t

/-! ## the edits on the type table -/

def renKeyM (old new : String) : Members → Members
  | [] => []
  | (k, v) :: rest => if k = old then (new, v) :: rest else (k, v) :: renKeyM old new rest

def onKey {α : Type} (key : String) (f : α → α) : List (String × α) → List (String × α)
  | [] => []
  | (k, v) :: rest => if k = key then (k, f v) :: rest else (k, v) :: onKey key f rest

def renTop {α : Type} (old new : String) : List (String × α) → List (String × α)
  | [] => []
  | (k, v) :: rest => if k = old then (new, v) :: rest else (k, v) :: renTop old new rest

/-- rename a callable in the type table: its signature moves to the new name;
USES of the name as a type are not rewritten (the Go edit does not: KF2). -/
def TypeInfo.renameCallable (x y : String) (ti : TypeInfo) : TypeInfo :=
  { ti with ins := renTop x y ti.ins, outs := renTop x y ti.outs }

def TypeInfo.renameInput (x old new : String) (ti : TypeInfo) : TypeInfo :=
  { ti with ins := onKey x (renKeyM old new) ti.ins }

def TypeInfo.renameOutput (x old new : String) (ti : TypeInfo) : TypeInfo :=
  { ti with outs := onKey x (renKeyM old new) ti.outs }

def dropKeyM (k : String) : Members → Members
  | [] => []
  | (k', v) :: rest => if k' = k then rest else (k', v) :: dropKeyM k rest

def TypeInfo.removeInput (x q : String) (ti : TypeInfo) : TypeInfo :=
  { ti with ins := onKey x (dropKeyM q) ti.ins }

def TypeInfo.removeOutput (x o : String) (ti : TypeInfo) : TypeInfo :=
  { ti with outs := onKey x (dropKeyM o) ti.outs }

end Martian.Refactor

namespace Martian.Refactor

/-! ## specification vocabulary for the call-graph theorems (Props/C19.lean) -/

def renKeyEnv (old new : String) : Env → Env
  | [] => []
  | (k, v) :: rest => if k = old then (new, v) :: rest else (k, v) :: renKeyEnv old new rest

/-- the node of a call of `x` after input `a` of `x` was renamed to `b` -/
def renNodeIn (x a b : String) (n : Node) : Node :=
  if n.callable = x then { n with inputs := renKeyEnv a b n.inputs } else n

def noStar (bs : List Bind) : Bool := bs.all (·.name != "*")

def selfRefTo (b : String) (r : Ref) : Bool := r.kind == RefKind.self && r.id == b

/-- per-callable side conditions of `rename_input_graph`: no wildcard bindings
(KF1), distinct call ids, stages have no body; the new name `b` is fresh: the
body of `x` does not refer to `self.b`, no call of `x` binds `b`; a call of `x`
binds every parameter once; `x` does not call itself. -/
def pipeOKIn (x b : String) (c : Callable) : Bool :=
  (c.isPipe || c.calls.isEmpty)
  && decide (callIds c).Nodup
  && c.calls.all (fun k => noStar k.binds)
  && noStar c.ret
  && (c.name != x ||
       (c.calls.all (fun k => k.decId != x
          && k.binds.all (fun bd => (refs bd.exp).all (fun r => !selfRefTo b r)))
        && c.ret.all (fun bd => (refs bd.exp).all (fun r => !selfRefTo b r))
        && c.retain.all (fun r => !selfRefTo b r)))
  && c.calls.all (fun k => k.decId != x
        || (!(k.binds.map (·.name)).contains b && decide (k.binds.map (·.name)).Nodup))

/-- **freshness / well-formedness hypothesis of `rename_input_graph`** (decidable) -/
def RenInOK (x a b : String) (ti : TypeInfo) (p : Program) : Bool :=
  x != "" && b != "*" && a != b
  && (p.find? x).isSome
  && p.callables.all (pipeOKIn x b)
  && (match p.top with | some t => pipeOKIn x b (topPipe t) | none => true)
  && !((insOf ti x).map (·.1)).contains b

end Martian.Refactor

namespace Martian.Refactor

/-- apply `g` to (callable, path) of every stage-output reference -/
def mapSref (g : String → List String → String × List String) : RExp → RExp
  | .lit s => .lit s
  | .sref fq c path => .sref fq (g c path).1 (g c path).2
  | .split e => .split (mapSref g e)
  | .arr es => .arr (mapSref g es)
  | .map st es => .map st (mapSref g es)
  | .nil => .nil
  | .cons k h t => .cons k (mapSref g h) (mapSref g t)

def mapVals (f : RExp → RExp) (env : Env) : Env := env.map fun kv => (kv.1, f kv.2)

/-- callable name `x` becomes `y` -/
def renName (x y n : String) : String := if n = x then y else n

def renCallR (x y : String) : RExp → RExp := mapSref (fun c path => (renName x y c, path))

/-- the node after callable `x` was renamed to `y`: the callable's name, and the
callable named in every reference to a stage output -/
def renNodeCallable (x y : String) (n : Node) : Node :=
  { fqid := n.fqid, callable := renName x y n.callable, isPipe := n.isPipe,
    inputs := mapVals (renCallR x y) n.inputs, outputs := renCallR x y n.outputs,
    retained := n.retained.map (renCallR x y) }

/-- no declared type mentions `x` (a callable's name may be used as a struct
type: known finding KF2 when that callable is renamed) -/
def typesAvoid (x : String) (ti : TypeInfo) : Bool :=
  let ok (ms : Members) : Bool := ms.all (fun m => m.2.base != x)
  !(ti.structs.map (·.1)).contains x
  && ti.structs.all (fun s => ok s.2) && ti.ins.all (fun s => ok s.2) && ti.outs.all (fun s => ok s.2)

def pipeOKCall (x : String) (c : Callable) : Bool :=
  (c.isPipe || c.calls.isEmpty)
  && decide (callIds c).Nodup
  && c.calls.all (fun k => noStar k.binds)
  && noStar c.ret
  && (c.name != x || c.calls.all (fun k => k.decId != x))

/-- **hypothesis of `rename_callable_graph`** on the id-erased program (decidable):
`y` is fresh (no callable, no call of a callable `y`, no signature, not a type),
`x` is not used as a type (KF2), no wildcard bindings (KF1), distinct call ids. -/
def RenCallOK (x y : String) (ti : TypeInfo) (p : Program) : Bool :=
  x != "" && y != "" && x != y
  && (p.find? x).isSome
  && !(p.callables.any (·.name == y))
  && p.callables.all (fun c => c.calls.all (fun k => k.decId != y))
  && p.callables.all (pipeOKCall x)
  && (match p.top with | some t => t.decId != y && pipeOKCall x (topPipe t) | none => true)
  && typesAvoid x ti && typesAvoid y ti
  && !(ti.ins.map (·.1)).contains y && !(ti.outs.map (·.1)).contains y

end Martian.Refactor

namespace Martian.Refactor

/-! ### renameOutput -/

def renOutG (x a b : String) (c : String) (path : List String) : String × List String :=
  match path with
  | h :: t => if c = x ∧ h = a then (c, b :: t) else (c, h :: t)
  | [] => (c, [])

/-- references to output `a` of a stage of callable `x` now name `b` -/
def renOutR (x a b : String) : RExp → RExp := mapSref (renOutG x a b)

/-- rename the first entry with key `a` of an entry list -/
def renKeyR (a b : String) : RExp → RExp
  | .cons k h t => if k = a then .cons b h t else .cons k h (renKeyR a b t)
  | .lit s => .lit s
  | .sref fq c p => .sref fq c p
  | .split e => .split e
  | .arr es => .arr es
  | .map st es => .map st es
  | .nil => .nil

def renTopKey (a b : String) : RExp → RExp
  | .map true es => .map true (renKeyR a b es)
  | e => e

/-- the node after output `a` of callable `x` was renamed to `b`: references to
that output of a stage of `x` are renamed everywhere; a node of pipeline `x`
lists its resolved output under the new key -/
def renNodeOut (x a b : String) (n : Node) : Node :=
  { fqid := n.fqid, callable := n.callable, isPipe := n.isPipe,
    inputs := mapVals (renOutR x a b) n.inputs,
    outputs := if n.callable = x ∧ n.isPipe = true then renTopKey a b (renOutR x a b n.outputs)
               else renOutR x a b n.outputs,
    retained := n.retained.map (renOutR x a b) }

def callRefTo (ids : List String) (r : Ref) : Bool := r.kind == RefKind.call && ids.contains r.id

/-- all references of a pipeline that the graph resolution follows -/
def graphRefs (c : Callable) : List Ref :=
  c.calls.flatMap (fun k => k.binds.flatMap (fun bd => refs bd.exp))
  ++ c.ret.flatMap (fun bd => refs bd.exp) ++ c.retain

def pipeOKOut (x b : String) (p : Program) (c : Callable) : Bool :=
  (c.isPipe || c.calls.isEmpty)
  && decide (callIds c).Nodup
  && c.calls.all (fun k => noStar k.binds)
  && noStar c.ret
  && c.calls.all (fun k => (p.find? k.decId).isSome)
  && (graphRefs c).all (fun r => r.kind != RefKind.call || (callIds c).contains r.id)
  && (c.name != x ||
       (c.calls.all (fun k => k.decId != x) && !(c.ret.map (·.name)).contains b
        && decide (c.ret.map (·.name)).Nodup))
  && (graphRefs c).all (fun r => !callRefTo (callIdsOf x c) r
        || (match r.path with | h :: _ => h != b | [] => false))

/-- **hypothesis of `rename_output_graph`** (decidable): `b` is fresh (not an
output of `x`, referenced on no call of `x`); no call of `x` is used as a whole
(`= CALL`) and `x` is not used as a type (known finding KF2); no wildcard
bindings (KF1); distinct call ids; references name existing calls. -/
def RenOutOK (x a b : String) (ti : TypeInfo) (p : Program) : Bool :=
  x != "" && b != "*" && a != b
  && (p.find? x).isSome
  && p.callables.all (pipeOKOut x b p)
  && (match p.top with
      | some t => pipeOKOut x b p (topPipe t)
          && t.binds.all (fun bd => (refs bd.exp).isEmpty) && t.mods.all (fun bd => (refs bd.exp).isEmpty)
      | none => true)
  && typesAvoid x ti
  && !((outsOf ti x).map (·.1)).contains b

/-- no stage of `x` occurs as a whole value -/
def cleanR (x : String) : RExp → Bool
  | .lit _ => true
  | .sref _ c path => c != x || !path.isEmpty
  | .split e => cleanR x e
  | .arr es => cleanR x es
  | .map _ es => cleanR x es
  | .nil => true
  | .cons _ h t => cleanR x h && cleanR x t

end Martian.Refactor

namespace Martian.Refactor

/-! ### removeInput -/

def dropKeyEnv (q : String) : Env → Env
  | [] => []
  | (k, v) :: rest => if k = q then rest else (k, v) :: dropKeyEnv q rest

/-- the node of a call of `x` after input `q` of `x` was removed -/
def remNodeIn (x q : String) (n : Node) : Node :=
  if n.callable = x then { n with inputs := dropKeyEnv q n.inputs } else n

def pipeOKRem (x q : String) (c : Callable) : Bool :=
  (c.isPipe || c.calls.isEmpty)
  && decide (callIds c).Nodup
  && c.calls.all (fun k => noStar k.binds)
  && noStar c.ret
  && (c.name != x || (graphRefs c).all (fun r => !selfRefTo q r))
  && c.calls.all (fun k => k.decId != x || decide (k.binds.map (·.name)).Nodup)

/-- **hypothesis of `remove_input_graph`** (decidable): nothing inside `x` refers
to `self.q` (what the Go analysis establishes before it removes a pipeline
input); no wildcard bindings (KF1); distinct call ids and binding names. -/
def RemInOK (x q : String) (p : Program) : Bool :=
  x != ""
  && p.callables.all (pipeOKRem x q)
  && (match p.top with | some t => pipeOKRem x q (topPipe t) | none => true)

/-- the same along a sequence of removals (the closure computed by
`removeInput` / the cascade of the remove-unused loop) -/
def RemInsOK : List (String × String) → Program → Bool
  | [], _ => true
  | (x, q) :: rest, p => RemInOK x q p && RemInsOK rest (removeInputOne x q p)

def TypeInfo.removeInputs (pairs : List (String × String)) (ti : TypeInfo) : TypeInfo :=
  pairs.foldl (fun ti xq => ti.removeInput xq.1 xq.2) ti

end Martian.Refactor

namespace Martian.Refactor

/-! ### explicit unfolding budgets, deleting calls, removing outputs -/

def deepGraphAt (big fuel : Nat) (ti : TypeInfo) (p : Program) : List Node :=
  match p.top with
  | none => []
  | some t => nodesOf ti p big fuel (topPipe t) [] [] t

def deepGraphKeepAt (keep : Callable → String → Bool) (big fuel : Nat) (ti : TypeInfo) (p : Program) : List Node :=
  match p.top with
  | none => []
  | some t => nodesOfKeep keep ti p big fuel (topPipe t) [] [] t

/-- the calls that `applyCallRemovals rem` leaves in `pipe` -/
def keepOf (rem : List CallRemoval) (pipe : Callable) (id : String) : Bool :=
  match rem.find? (fun r => r.pipe == pipe.name) with
  | some r => !(pipe.isPipe && r.ids.contains id)
  | none => true

def pipeOKDel (rem : List CallRemoval) (c : Callable) : Bool :=
  (c.isPipe || c.calls.isEmpty)
  && decide (callIds c).Nodup
  && c.calls.all (fun k => noStar k.binds)
  && noStar c.ret
  && (graphRefs c).all (fun r => r.kind != RefKind.call || keepOf rem c r.id)

/-- **hypothesis of `remove_calls_graph`** (decidable): the deleted calls are
referenced by nothing that remains in their pipeline (what `unusedCalls`
establishes: `remove_unused_preserves_partial`); no wildcard bindings (KF1);
distinct call ids. -/
def CallRemOK (rem : List CallRemoval) (p : Program) : Bool :=
  rem.all (fun r => r.pipe != "")
  && p.callables.all (pipeOKDel rem)
  && (match p.top with | some t => pipeOKDel rem (topPipe t) | none => true)

end Martian.Refactor

namespace Martian.Refactor

/-! ### removing an output that nothing refers to -/

/-- the parameter itself (pipeline: with its return binding; stage: with its
retain entry): the first action of `removeOutputPlain` -/
def outStep (x o : String) (p : Program) : Program :=
  match p.find? x with
  | none => p
  | some xc => applyOutAction p (if xc.isPipe then OutAction.pipeOut x o else OutAction.stageOut x o)

def dropKeyR (o : String) : RExp → RExp
  | .cons k h t => if k = o then t else .cons k h (dropKeyR o t)
  | .lit s => .lit s
  | .sref fq c p => .sref fq c p
  | .split e => .split e
  | .arr es => .arr es
  | .map st es => .map st es
  | .nil => .nil

def dropTopKey (o : String) : RExp → RExp
  | .map true es => .map true (dropKeyR o es)
  | e => e

/-- the node of a call of pipeline `x` after its output `o` was removed -/
def remNodeOut (x o : String) (n : Node) : Node :=
  if n.callable = x ∧ n.isPipe = true then { n with outputs := dropTopKey o n.outputs } else n

def pipeOKRo (x o : String) (p : Program) (c : Callable) : Bool :=
  (c.isPipe || c.calls.isEmpty)
  && decide (callIds c).Nodup
  && c.calls.all (fun k => noStar k.binds)
  && noStar c.ret
  && c.calls.all (fun k => (p.find? k.decId).isSome)
  && (graphRefs c).all (fun r => r.kind != RefKind.call || (callIds c).contains r.id)
  && (c.name != x || decide (c.ret.map (·.name)).Nodup)
  && (graphRefs c).all (fun r => !callRefTo (callIdsOf x c) r
        || (match r.path with | h :: _ => h != o | [] => false))

/-- `pipeOKRo` without its last conjunct: the part that does not speak about references
to output `o` -/
def pipeOKRoS (x : String) (p : Program) (c : Callable) : Bool :=
  (c.isPipe || c.calls.isEmpty)
  && decide (callIds c).Nodup
  && c.calls.all (fun k => noStar k.binds)
  && noStar c.ret
  && c.calls.all (fun k => (p.find? k.decId).isSome)
  && (graphRefs c).all (fun r => r.kind != RefKind.call || (callIds c).contains r.id)
  && (c.name != x || decide (c.ret.map (·.name)).Nodup)

/-- the last conjunct of `pipeOKRo`: every reference of `c` to a call of `x` projects an
output other than `o` -/
def refCondRo (x o : String) (c : Callable) : Bool :=
  (graphRefs c).all (fun r => !callRefTo (callIdsOf x c) r
        || (match r.path with | h :: _ => h != o | [] => false))

/-- **hypothesis of `remove_output_graph`** (decidable): output `o` of `x` is
projected from no call of `x` and no call of `x` is bound as a whole; `x` is not
used as a type (KF2); `o` is not the callable's last output; no wildcard
bindings (KF1); call ids distinct; references name existing calls. -/
def RemOutOK (x o : String) (ti : TypeInfo) (p : Program) : Bool :=
  x != ""
  && (match p.find? x with
      | some xc => p.callables.all (fun c => c.name != x ||
              (c.isPipe == xc.isPipe && c.outs == xc.outs && c.ret == xc.ret))
          && (removeFirstOut o xc.outs).isEmpty == xc.outs.isEmpty
          && (removeFirstBind o xc.ret).isEmpty == xc.ret.isEmpty
      | none => false)
  && p.callables.all (pipeOKRo x o p)
  && (match p.top with | some t => pipeOKRo x o p (topPipe t) | none => true)
  && typesAvoid x ti

/-- `RemOutOK` without the condition on the references of the program's callables to
`x.o` (which `unusedOutputs` establishes): the structural part — `x` exists with one
declaration, `o` is neither its last output nor its last return binding, `x` is not
used as a type, no wildcards, distinct call ids, existing callees — and the condition
on the bindings of the top-level call. -/
def RemOutStructOK (x o : String) (ti : TypeInfo) (p : Program) : Bool :=
  x != ""
  && (match p.find? x with
      | some xc => p.callables.all (fun c => c.name != x ||
              (c.isPipe == xc.isPipe && c.outs == xc.outs && c.ret == xc.ret))
          && (removeFirstOut o xc.outs).isEmpty == xc.outs.isEmpty
          && (removeFirstBind o xc.ret).isEmpty == xc.ret.isEmpty
      | none => false)
  && p.callables.all (pipeOKRoS x p)
  && (match p.top with | some t => pipeOKRo x o p (topPipe t) | none => true)
  && typesAvoid x ti

/-- a list of output removals applied one after the other -/
def outSteps (pairs : List (String × String)) (p : Program) : Program :=
  pairs.foldl (fun p xo => outStep xo.1 xo.2 p) p

def TypeInfo.removeOutputs (pairs : List (String × String)) (ti : TypeInfo) : TypeInfo :=
  pairs.foldl (fun ti xo => ti.removeOutput xo.1 xo.2) ti

/-- the structural side condition of a whole list of output removals (decidable; it
does not mention references to the removed outputs): `RemOutStructOK` of each removal
in the program the earlier removals produce -/
def TableStructOK : List (String × String) → TypeInfo → Program → Bool
  | [], _, _ => true
  | xo :: rest, ti, p =>
    RemOutStructOK xo.1 xo.2 ti p && TableStructOK rest (ti.removeOutput xo.1 xo.2) (outStep xo.1 xo.2 p)

/-- the table of `unusedOutputs` as a list of (pipeline, output) pairs -/
def tablePairs (T : List (String × List String)) : List (String × String) :=
  T.flatMap (fun e => e.2.map (fun o => (e.1, o)))

/-- shape of the table (decidable): distinct keys, every key a pipeline of the program
whose return bindings have distinct names -/
def TableShapeOK (T : List (String × List String)) (p : Program) : Bool :=
  decide (T.map (·.1)).Nodup
  && T.all (fun e => match p.find? e.1 with
      | some c => c.isPipe && decide (c.ret.map (·.name)).Nodup
      | none => false)

/-- the seeds of the input cascade of the outputs pass -/
def outPassSeeds (p : Program) (T : List (String × List String)) : List (String × String) :=
  T.flatMap fun e =>
    match p.find? e.1 with
    | some pipe => (unboundInputs p pipe e.2 []).map (fun i => (pipe.name, i))
    | none => []

def outPassIns (p : Program) (T : List (String × List String)) : List (String × String) :=
  removeInputClosure p (closureFuel p * ((outPassSeeds p T).length + 1)) (outPassSeeds p T) []

/-- the names of the top pipelines the `unusedOutputs` walk starts from -/
def topNames (p : Program) (tops : List String) : List String :=
  (p.callables.filter (fun c => c.isPipe && tops.contains c.name)).map (·.name)

/-- the pipelines called by the pipeline named `n` -/
def pipeKids (p : Program) (n : String) : List String :=
  match p.find? n with
  | some pipe => pipe.calls.filterMap (fun k =>
      match p.find? k.decId with
      | some d => if d.isPipe then some d.name else none
      | none => none)
  | none => []

def reachList (p : Program) : Nat → List String → List String
  | 0, acc => acc
  | n + 1, acc => reachList p n ((acc.flatMap (pipeKids p)).foldl (fun a m => if a.contains m then a else a ++ [m]) acc)

/-- decidable: every pipeline of the program is reachable from the top pipelines through
calls of pipelines -/
def allReachB (p : Program) (tops : List String) : Bool :=
  p.callables.all (fun c => !c.isPipe || (reachList p p.callables.length (topNames p tops)).contains c.name)

end Martian.Refactor

namespace Martian.Refactor

/-! ### the cascade of input removals: side conditions that do not mention the removed parameters -/

def structOKc (c : Callable) : Bool :=
  (c.isPipe || c.calls.isEmpty)
  && decide (callIds c).Nodup
  && c.calls.all (fun k => noStar k.binds && decide (k.binds.map (·.name)).Nodup)
  && noStar c.ret

/-- well-formedness of a program as the compiler guarantees it (decidable): callable
names distinct and non-empty, stages without body, distinct call ids, distinct
binding names, no wildcard bindings (KF1) -/
def StructOK (p : Program) : Bool :=
  decide (p.callables.map (·.name)).Nodup
  && p.callables.all (fun c => c.name != "" && structOKc c)
  && (match p.top with | some t => structOKc (topPipe t) | none => true)

/-- nothing inside callable `x` refers to `self.q` -/
def seedOK (x q : String) (p : Program) : Bool :=
  x != "" && p.callables.all (fun c => c.name != x || (graphRefs c).all (fun r => !selfRefTo q r))

end Martian.Refactor

namespace Martian.Refactor

/-! ### the same resolution with EXPLICIT fuel exhaustion

`callOutputsO` / `nodesOfO` return `none` exactly when a branch that is really
followed runs out of fuel (the fuelled functions above return null / no nodes
there).  `Props.C19.graph_fuel_stable`: when this run succeeds at some budget,
the fuelled run gives the same graph at that and every larger budget. -/

def substRefsO (f : Ref → Option RExp) : Exp → Option RExp
  | .lit s => some (.lit s)
  | .ref r => f r
  | .split e => (substRefsO f e).map .split
  | .arr es => (substRefsO f es).map .arr
  | .map b es => (substRefsO f es).map (.map b)
  | .nil => some .nil
  | .cons k h t =>
    match substRefsO f h, substRefsO f t with
    | some h', some t' => some (.cons k h' t')
    | _, _ => none

def lookupRefO (self : Env) (outs : String → Option RExp) (r : Ref) : Option RExp :=
  (match r.kind with
   | .self => some (envGet self r.id)
   | .call => outs r.id).map (bindingPath r.path)

def resolveBindsO (ti : TypeInfo) (tys : Members) (f : Ref → Option RExp) : List Bind → Option Env
  | [] => some []
  | b :: bs =>
    match substRefsO f b.exp, resolveBindsO ti tys f bs with
    | some v, some rest =>
      some ((b.name, match tys.lookup b.name with
                     | some ty => filterExp (membersOf ti) ty v
                     | none => v) :: rest)
    | _, _ => none

def callOutputsO (ti : TypeInfo) (p : Program) : Nat → Callable → Env → List String → String → Option RExp
  | 0, _, _, _, _ => none
  | fuel + 1, pipe, self, pre, id =>
    match pipe.calls.find? (·.id == id) with
    | none => some rnull
    | some k =>
      match p.find? k.decId with
      | none => some rnull
      | some d =>
        if !d.isPipe then some (if d.outs.isEmpty then rnull else .sref (pre ++ [id]) d.name [])
        else if d.ret.isEmpty then some rnull
        else
          match resolveBindsO ti (insOf ti d.name) (lookupRefO self (callOutputsO ti p fuel pipe self pre))
                  (expandWild ti pipe d.ins k.binds) with
          | none => none
          | some ins =>
            (resolveBindsO ti (outsOf ti d.name) (lookupRefO ins (callOutputsO ti p fuel d ins (pre ++ [id])))
              (expandWild ti d (outNames d) d.ret)).map (fun env => .map true (envEntries env))

def allSome {α : Type} : List (Option (List α)) → Option (List α)
  | [] => some []
  | none :: _ => none
  | some l :: rest => (allSome rest).map (l ++ ·)

def retainedO (d : Callable) (ins : Env) (sib : String → Option RExp) : List Ref → Option (List RExp)
  | [] => some []
  | r :: rs =>
    match lookupRefO ins sib r, retainedO d ins sib rs with
    | some v, some rest => some (rrefs v ++ rest)
    | _, _ => none

def nodesOfO (ti : TypeInfo) (p : Program) (big : Nat) : Nat → Callable → Env → List String → Call → Option (List Node)
  | 0, _, _, _, _ => none
  | fuel + 1, pipe, self, pre, k =>
    match p.find? k.decId with
    | none => some []
    | some d =>
      match resolveBindsO ti (insOf ti d.name) (lookupRefO self (callOutputsO ti p big pipe self pre))
              (expandWild ti pipe d.ins k.binds),
            callOutputsO ti p (big + 1) pipe self pre k.id with
      | some ins, some out =>
        let fq := pre ++ [k.id]
        match (if d.isPipe then retainedO d ins (callOutputsO ti p big d ins fq) d.retain else some []),
              (if d.isPipe then allSome (d.calls.map (nodesOfO ti p big fuel d ins fq)) else some []) with
        | some ret, some kids =>
          some ({ fqid := fq, callable := d.name, isPipe := d.isPipe, inputs := ins, outputs := out,
                  retained := ret } :: kids)
        | _, _ => none
      | _, _ => none

def deepGraphO (big fuel : Nat) (ti : TypeInfo) (p : Program) : Option (List Node) :=
  match p.top with
  | none => some []
  | some t => nodesOfO ti p big fuel (topPipe t) [] [] t

/-! ## the remove-unused-calls loop as an iteration of the calls pass (Proofs/RefactorLoop.lean) -/

/-- one calls pass on (type table, program): delete exactly the calls of `unusedCallPlan`
and the cascade of inputs it computes -/
def callsPass (s : TypeInfo × Program) : TypeInfo × Program :=
  (s.1.removeInputs (unusedCallPlan s.2).2,
   removeInputs (unusedCallPlan s.2).2 (applyCallRemovals (unusedCallPlan s.2).1 s.2))

def callsIter : Nat → TypeInfo × Program → TypeInfo × Program
  | 0, s => s
  | m + 1, s => callsIter m (callsPass s)

/-- `keepOf` reads the callable's name and kind only -/
def keepN (rem : List CallRemoval) (n : String) (b : Bool) (i : String) : Bool :=
  match rem.find? (fun r => r.pipe == n) with
  | some r => !(b && r.ids.contains i)
  | none => true

/-- the calls that survive `m` passes: kept by every pass (each pass's removal list
is computed on the program that pass sees) -/
def loopKeep : Nat → TypeInfo × Program → String → Bool → String → Bool
  | 0, _ => fun _ _ _ => true
  | m + 1, s => fun n b i => keepN (unusedCallPlan s.2).1 n b i && loopKeep m (callsPass s) n b i

/-- the input parameters removed by the cascades of `m` passes, in order -/
def loopPairs : Nat → TypeInfo × Program → List (String × String)
  | 0, _ => []
  | m + 1, s => (unusedCallPlan s.2).2 ++ loopPairs m (callsPass s)

/-- the number of passes the remove-unused-calls loop makes with fuel `fuel` -/
def loopCount : Nat → TypeInfo × Program → Nat
  | 0, _ => 0
  | fuel + 1, s => if (unusedCallPlan s.2).1.isEmpty then 0 else 1 + loopCount fuel (callsPass s)

end Martian.Refactor
