/-
C12 model, cluster mode: reconciliation of mrp's view of its submitted jobs
with the scheduler's queue ("queue query").

Go code mirrored (martian/core):
* `Pipestance.queryQueue` (pipestance.go): rate limit `QUEUE_CHECK_LIMIT`, one
  query in flight at a time (`queueCheckActive`), the queried set = job ids of
  the metadatas whose cached state is Queued/Running and which have a non-empty
  `_jobid`; nothing is asked (and `lastQueueCheck` is not touched) when that set
  is empty; the answer is processed in a goroutine: every queried id which the
  answer does not name gets `Metadata.failNotRunning(id)`, then
  `lastQueueCheck = now`.
* `RemoteJobManager.checkQueue` (jobmanager_remote.go): the ids go to the
  configured command's stdin; a command failure returns the queried ids
  unchanged (= everything is still known); otherwise stdout split at "\n"
  (exact, untrimmed lines).
* `Metadata.failNotRunning` (metadata.go): polls the metadata directory, and if
  the job still looks Queued/Running and is not marked yet: `notRunningSince = now`.
  Nothing ever clears the mark except a reset of the metadata and `endRefresh`.
* `Node.refreshState` → `Metadata.endRefresh(now - grace)` (node.go,
  metadata.go): after the journal has been applied: a mark older than the grace
  period is cleared and, when the state is still Queued/Running, `_errors` is
  written (the job is failed: "not been queued or running since …").

Time is a natural number (any unit); `grace` = `queue_query_grace_secs` (3600 s
when configured as 0), `limit` = `QUEUE_CHECK_LIMIT`.  Core Lean only.
-/
namespace Martian.SemaphoreQueue

/-- `Metadata.getState()` reduced to what the reconciliation looks at;
`notQueued` = Failed because `endRefresh` wrote `_errors`. -/
inductive JSt
  | queued | running | done | failed | notQueued
deriving Repr, DecidableEq

/-- `st == Queued || st == Running` -/
def JSt.alive : JSt → Bool
  | .queued => true
  | .running => true
  | _ => false

/-- One job's metadata. `st`: the state computed from mrp's file cache;
`disk`: what the job itself has written so far (mrp learns it from the journal
in `refreshState` or from `poll()`); `hasId`: `_jobid` exists and is not empty;
`since`: `notRunningSince` (`none` = zero time). -/
structure Job where
  jobid : String
  hasId : Bool
  st : JSt
  disk : JSt
  since : Option Nat
deriving Repr, DecidableEq

/-- `grace`, `QUEUE_CHECK_LIMIT`, `lastQueueCheck` (`none` = zero time),
`queueCheckActive` with the ids being asked about, the metadatas. -/
structure Q where
  grace : Nat
  limit : Nat
  last : Option Nat
  active : Option (List String)
  jobs : List Job
deriving Repr, DecidableEq

inductive Ev
  /-- `Pipestance.queryQueue` is called at time `t` (from `CheckHeartbeats`) -/
  | issue (t : Nat)
  /-- the query goroutine finishes at time `t`; `none` = the command failed,
  `some lines` = its stdout split at newlines -/
  | answer (t : Nat) (out : Option (List String))
  /-- `Node.refreshState` at time `t` -/
  | refresh (t : Nat)
  /-- the job with this id writes `_log` / `_complete` / `_errors` -/
  | progress (jobid : String) (st : JSt)
deriving Repr, DecidableEq

/-- mrp looks at the job's files (journal update or `poll()`): the cached state
follows the files; a state mrp already considers final stays. -/
def Job.sync (j : Job) : Job := if j.st.alive then { j with st := j.disk } else j

/-- `Metadata.failNotRunning(jobid)` at time `t`. -/
def failNotRunning (t : Nat) (j : Job) : Job :=
  if !j.hasId then j
  else if !j.st.alive then j
  else
    let j1 := { j with st := j.disk }   -- self.poll()
    if !j1.st.alive then j1
    else if j1.since.isSome then j1
    else { j1 with since := some t }

/-- `Metadata.endRefresh(t - grace)`: `notRunningSince.Before(t - grace)`. -/
def endRefresh (grace t : Nat) (j : Job) : Job :=
  match j.since with
  | none => j
  | some s0 =>
    if s0 + grace < t then
      if j.st.alive then { j with since := none, st := .notQueued } else { j with since := none }
    else j

/-- the ids `queryQueue` asks about -/
def queryIds (jobs : List Job) : List String :=
  (jobs.filter fun j => j.st.alive && j.hasId && j.jobid != "").map (·.jobid)

/-- `time.Since(lastQueueCheck) < QUEUE_CHECK_LIMIT` -/
def rateLimited (s : Q) (t : Nat) : Bool :=
  match s.last with
  | none => false
  | some l => decide (t < l + s.limit)

/-- what the event does to one job -/
def stepJob (s : Q) : Ev → Job → Job
  | .issue _, j => j
  | .answer t out, j =>
    match s.active with
    | none => j
    | some ids =>
      let known := out.getD ids
      if ids.contains j.jobid && !known.contains j.jobid then failNotRunning t j else j
  | .refresh t, j => endRefresh s.grace t j.sync
  | .progress id d, j =>
    if j.jobid == id && j.disk.alive && d != .notQueued then { j with disk := d } else j

def stepActive (s : Q) : Ev → Option (List String)
  | .issue t =>
    if s.active.isSome || rateLimited s t then s.active
    else if (queryIds s.jobs).isEmpty then none else some (queryIds s.jobs)
  | .answer _ _ => none
  | _ => s.active

def stepLast (s : Q) : Ev → Option Nat
  | .answer t _ => if s.active.isSome then some t else s.last
  | _ => s.last

def step (s : Q) (ev : Ev) : Q :=
  { s with jobs := s.jobs.map (stepJob s ev), active := stepActive s ev, last := stepLast s ev }

def run : Q → List Ev → Q
  | s, [] => s
  | s, ev :: evs => run (step s ev) evs

/-- one job followed through a run -/
def jobRun : Q → List Ev → Job → Job
  | _, [], j => j
  | s, ev :: evs, j => jobRun (step s ev) evs (stepJob s ev j)

/-- per-event trace for the driver: the state after each event -/
def trace : Q → List Ev → List Q
  | _, [] => []
  | s, ev :: evs => step s ev :: trace (step s ev) evs

/-- the event leaves the job lost: it is not a file written by the job, and
not a successful answer naming it -/
def Ev.lostFor (id : String) : Ev → Prop
  | .progress i _ => i ≠ id
  | .answer _ (some out) => id ∉ out
  | _ => True

/-- the event is not a successful answer that omits the job -/
def Ev.reports (id : String) : Ev → Prop
  | .answer _ (some out) => id ∈ out
  | _ => True

def Ev.notAnswer : Ev → Prop
  | .answer _ _ => False
  | _ => True

/-- if the event is an answer it arrives at or before `t` -/
def Ev.answerBy (t : Nat) : Ev → Prop
  | .answer t' _ => t' ≤ t
  | _ => True

/-- the job is lost from the scheduler's and its own point of view during `evs`:
it never writes anything and no successful answer names it -/
def Lost (id : String) (evs : List Ev) : Prop := ∀ ev ∈ evs, ev.lostFor id

/-- every successful answer in `evs` names the job -/
def Reported (id : String) (evs : List Ev) : Prop := ∀ ev ∈ evs, ev.reports id

def noAnswer (evs : List Ev) : Prop := ∀ ev ∈ evs, ev.notAnswer

/-- all answers of `evs` arrive at or before `t` -/
def answersBy (t : Nat) (evs : List Ev) : Prop := ∀ ev ∈ evs, ev.answerBy t

/-- a job the query will ask about and which has not finished -/
def Job.inFlight (j : Job) : Prop :=
  j.st.alive = true ∧ j.disk.alive = true ∧ j.hasId = true ∧ j.jobid ≠ ""

/-- `checkQueue`'s parsing of the command's stdout -/
def parseAnswer (out : String) : List String := out.splitOn "\n"

/-- `queue_query_grace_secs` → grace period (jobmanager.go: 0 means one hour) -/
def graceOfConfig (secs dflt : Nat) : Nat := if secs = 0 then dflt else secs

end Martian.SemaphoreQueue
