/-
Where `IsValidExpression` is stricter than run-time validation (C07, the
rejection direction).  `overStrict Γ t e` follows the type-directed descent of
`validExp` and says whether it meets one of the enumerated classes in which the
compiler rejects an expression whatever JSON value it denotes:

  (R) a reference the compiler rejects (`refOk = false`: does not resolve, wrong
      `(ArrayDim, MapDim)` shape, not assignable) – the value of a reference is
      not known at compile time;
  (S) a struct-SYNTAX literal `{a: …}` bound to a typed map or to the untyped `map`;
  (U) a literal bound to the untyped `map` that contains a reference;
  (X) a literal bound to a struct type with more members than the struct
      declares, one of them undeclared.

Core Lean only, structurally recursive on the type.
-/
import Martian.Typing

namespace Martian.Typing
open Martian.Json Martian.Types

mutual
  def overStrict (Γ : Env) : Ty → Exp → Bool
    | .base b, e =>
      match e with
      | .self id p => !refOk Γ (.base b) (.self id p)
      | .call id p => !refOk Γ (.base b) (.call id p)
      | .map isStruct kvs => b == .map && (isStruct || kvs.hasRef)
      | _ => false
    | .user n, e =>
      match e with
      | .self id p => !refOk Γ (.user n) (.self id p)
      | .call id p => !refOk Γ (.user n) (.call id p)
      | _ => false
    | .arr t, e =>
      match e with
      | .self id p => !refOk Γ (.arr t) (.self id p)
      | .call id p => !refOk Γ (.arr t) (.call id p)
      | .arr xs => xs.toList.any (fun x => overStrict Γ t x)
      | _ => false
    | .tmap t, e =>
      match e with
      | .self id p => !refOk Γ (.tmap t) (.self id p)
      | .call id p => !refOk Γ (.tmap t) (.call id p)
      | .map true _ => true
      | .map false kvs => kvs.toList.any (fun kv => overStrict Γ t kv.2)
      | _ => false
    | .struct n fs, e =>
      match e with
      | .self id p => !refOk Γ (.struct n fs) (.self id p)
      | .call id p => !refOk Γ (.struct n fs) (.call id p)
      | .map _ kvs =>
        (decide (kvs.toList.length > fs.toList.length) &&
            kvs.toList.any (fun kv => (fs.get kv.1).isNone)) ||
          overStrictFields Γ fs kvs
      | _ => false
  def overStrictFields (Γ : Env) : Fields → KVs → Bool
    | .nil, _ => false
    | .cons k t r, kvs =>
      (match kvs.get k with
        | none => false
        | some e => overStrict Γ t e) || overStrictFields Γ r kvs
end

end Martian.Typing
