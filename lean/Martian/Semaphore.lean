/-
C12 model: martian/core/resource_semaphore.go (`ResourceSemaphore`),
martian/core/maxjobs_semaphore.go (`MaxJobsSemaphore`) and the request
normalisation / nested acquisition of martian/core/jobmanager_local.go
(`GetSystemReqs`, `Enqueue`), from the point after float → integer conversion.

Core Lean only (no Mathlib) so that the driver links natively.  `Int` stands
for Go's `int64`/`int`; overflow is out of scope (amounts are < 2^62).
-/
namespace Martian.Semaphore

/-! ## ResourceSemaphore -/

/-- A blocked `Acquire`: (ghost id of the caller, amount). -/
abbrev Waiter := Nat × Int

/-- `maxSize`, `curSize`, `reserved`, `waiters` (head = oldest) of the Go struct. -/
structure Sem where
  max : Int
  cur : Int
  reserved : Int
  waiters : List Waiter
deriving Repr, DecidableEq

/-- The exported mutating API. `acquire` carries a ghost caller id. -/
inductive SemOp
  | acquire (id : Nat) (n : Int)
  | release (n : Int)
  | updActual (n : Int)
  | updSize (n : Int)
  | updFreeUsed (free used : Int)
deriving Repr, DecidableEq

/-- What callers observe. `grant` = an `Acquire` returned nil (immediately or
because `runJobs` closed its channel), `reject` = `Acquire` returned the
"Tried to acquire …" error, `panic` = `Release` panicked ("bad release"),
`ret` = return value of `UpdateActual` / `UpdateFreeUsed`. -/
inductive Ev
  | grant (id : Nat) (n : Int)
  | reject (id : Nat) (n : Int)
  | panic
  | ret (v : Int)
deriving Repr, DecidableEq

/-- `NewResourceSemaphore(size, _)`. -/
def Sem.init (size : Int) : Sem := ⟨size, size, 0, []⟩

/-- `curSize - reserved` (`Available()`). -/
def Sem.avail (s : Sem) : Int := s.cur - s.reserved

/-- The loop of `runJobs`: grant from the head while the head fits
`cur - reserved`; stop at the first waiter that does not fit.
Returns (new reserved, remaining waiters, granted waiters in grant order). -/
def runJobs (cur : Int) : Int → List Waiter → Int × List Waiter × List Waiter
  | res, [] => (res, [], [])
  | res, w :: ws =>
    if cur - res < w.2 then (res, w :: ws, [])
    else
      let r := runJobs cur (res + w.2) ws
      (r.1, r.2.1, w :: r.2.2)

def grantEv (w : Waiter) : Ev := .grant w.1 w.2

/-- `self.runJobs()` on the whole struct. -/
def Sem.wake (s : Sem) : Sem × List Ev :=
  let r := runJobs s.cur s.reserved s.waiters
  ({ s with reserved := r.1, waiters := r.2.1 }, r.2.2.map grantEv)

/-- `oldSize := curSize; curSize = c; if oldSize < curSize { runJobs() }`. -/
def Sem.setCur (s : Sem) (c : Int) : Sem × List Ev :=
  let s' := { s with cur := c }
  if s.cur < c then s'.wake else (s', [])

/-- New `curSize` chosen by `UpdateFreeUsed(free, used)`. -/
def freeUsedCur (s : Sem) (free used : Int) : Int :=
  let actual := free + used
  if used ≤ s.reserved then
    (if actual > s.max then s.max else actual)
  else
    let adjust := used - s.reserved
    (if actual > s.max - adjust then s.max - adjust else actual - adjust)

/-- One call of the exported API, exactly as the Go code does it. -/
def step (s : Sem) : SemOp → Sem × List Ev
  | .acquire id n =>
    if n ≤ s.cur - s.reserved ∧ s.waiters.isEmpty = true then
      ({ s with reserved := s.reserved + n }, [.grant id n])
    else if s.max < n then (s, [.reject id n])
    else ({ s with waiters := s.waiters ++ [(id, n)] }, [])
  | .release n =>
    let s' := { s with reserved := s.reserved - n }
    if s'.reserved < 0 then (s', [.panic]) else s'.wake
  | .updActual n =>
    let actual := n + s.reserved
    let r := s.setCur (if actual > s.max then s.max else actual)
    (r.1, r.2 ++ [.ret (actual - s.max)])
  | .updSize n => s.setCur n
  | .updFreeUsed free used =>
    let r := s.setCur (freeUsedCur s free used)
    (r.1, r.2 ++ [.ret (free + used - s.max)])

/-- The current size an availability update asks the semaphore to apply
(`none` for the other calls): what `UpdateSize`/`UpdateActual`/`UpdateFreeUsed`
compute from their arguments before `oldSize < curSize` is looked at. -/
def observedSize (s : Sem) : SemOp → Option Int
  | .updSize n => some n
  | .updActual n => some (if n + s.reserved > s.max then s.max else n + s.reserved)
  | .updFreeUsed free used => some (freeUsedCur s free used)
  | _ => none

/-- Run an op sequence, collecting every event in order. -/
def run : Sem → List SemOp → Sem × List Ev
  | s, [] => (s, [])
  | s, op :: ops =>
    let r := step s op
    let r' := run r.1 ops
    (r'.1, r.2 ++ r'.2)

/-- Per-step trace (state after each op with the events of that op); used by the driver. -/
def trace : Sem → List SemOp → List (Sem × List Ev)
  | _, [] => []
  | s, op :: ops =>
    let r := step s op
    r :: trace r.1 ops

/-- granted waiters among events, in order -/
def grantsOf : List Ev → List Waiter
  | [] => []
  | .grant id n :: es => (id, n) :: grantsOf es
  | _ :: es => grantsOf es

def hasPanic : List Ev → Bool
  | [] => false
  | .panic :: _ => true
  | _ :: es => hasPanic es

/-- the request an op adds to the FIFO order (acquires that are not rejected) -/
def acceptedOf (s : Sem) : SemOp → List Waiter
  | .acquire id n =>
    if n ≤ s.cur - s.reserved ∧ s.waiters.isEmpty = true then [(id, n)]
    else if s.max < n then [] else [(id, n)]
  | _ => []

/-- requests accepted (not rejected) along a run, in request order -/
def acceptedRun : Sem → List SemOp → List Waiter
  | _, [] => []
  | s, op :: ops => acceptedOf s op ++ acceptedRun (step s op).1 ops

def sumAmt : List Waiter → Int
  | [] => 0
  | w :: ws => w.2 + sumAmt ws

/-! ### Client protocol (ghost `held` list): a caller releases exactly what it was granted -/

inductive COp
  | acquire (id : Nat) (n : Int)
  | release (id : Nat)
  | updActual (n : Int)
  | updSize (n : Int)
  | updFreeUsed (free used : Int)
deriving Repr, DecidableEq

structure G where
  sem : Sem
  held : List Waiter
deriving Repr, DecidableEq

def G.init (size : Int) : G := ⟨Sem.init size, []⟩

def findHeld (id : Nat) : List Waiter → Option Waiter
  | [] => none
  | w :: ws => if w.1 = id then some w else findHeld id ws

def eraseHeld (id : Nat) : List Waiter → List Waiter
  | [] => []
  | w :: ws => if w.1 = id then ws else w :: eraseHeld id ws

/-- The API call a client op turns into, with the holders left after the
client gave its reservation back (`none`: releasing something not held is a no-op
at this level; the raw `Release` of an arbitrary amount is `SemOp.release`). -/
def toSemOp (g : G) : COp → Option (SemOp × List Waiter)
  | .acquire id n => some (.acquire id n, g.held)
  | .release id =>
    match findHeld id g.held with
    | none => none
    | some w => some (.release w.2, eraseHeld id g.held)
  | .updActual n => some (.updActual n, g.held)
  | .updSize n => some (.updSize n, g.held)
  | .updFreeUsed f u => some (.updFreeUsed f u, g.held)

def gstep (g : G) (op : COp) : G × List Ev :=
  match toSemOp g op with
  | none => (g, [])
  | some (o, h) =>
    let r := step g.sem o
    (⟨r.1, h ++ grantsOf r.2⟩, r.2)

def grun : G → List COp → G × List Ev
  | g, [] => (g, [])
  | g, op :: ops =>
    let r := gstep g op
    let r' := grun r.1 ops
    (r'.1, r.2 ++ r'.2)

/-- amounts requested by a client op sequence are non-negative -/
def COp.nonneg : COp → Prop
  | .acquire _ n => 0 ≤ n
  | _ => True

/-- One "drain round" on (semaphore, current holders): availability is restored
to the maximum (`UpdateSize(max)`), then every current holder releases what it
holds.  The new holders are the waiters granted during the round. -/
def relOp (w : Waiter) : SemOp := .release w.2

def round (p : Sem × List Waiter) : Sem × List Waiter :=
  let r := run p.1 (.updSize p.1.max :: p.2.map relOp)
  (r.1, grantsOf r.2)

def drain : Nat → Sem × List Waiter → Sem × List Waiter
  | 0, p => p
  | k + 1, p => drain k (round p)

/-! ### Who calls `UpdateSize`: `setupSemaphores` on the process semaphore only -/

def COp.isUpdSize : COp → Bool
  | .updSize _ => true
  | _ => false

/-- `int64(x)` of a `uint64` rlimit value (`rlimMax`, `rlimCur`); `RLIM_INFINITY` becomes -1 -/
def toInt64 (v : Nat) : Int := if v < 2 ^ 63 then (v : Int) else (v : Int) - 2 ^ 64

def startingThreadCount : Int := 45

/-- The calls `setupSemaphores` makes on the process semaphore it creates with
size `rlimMax`: `Acquire(startingThreadCount)`, then `UpdateSize(rlimCur)` when
the user's process count cannot be read, else `UpdateFreeUsed(rlimCur - userProcs,
startingThreadCount)`.  `none`: the guard fails and there is no process semaphore. -/
def procsSetup (rcur rmax : Nat) (userProcs : Option Int) : Option (Int × List COp) :=
  if startingThreadCount < toInt64 rmax ∧ startingThreadCount < toInt64 rcur then
    some (toInt64 rmax,
      [.acquire 0 startingThreadCount,
       match userProcs with
       | none => .updSize (toInt64 rcur)
       | some u => .updFreeUsed (toInt64 rcur - u) startingThreadCount])
  else none

/-! ## MaxJobsSemaphore -/

/-- What `metadata.getState()` returns, reduced to what the semaphore looks at. -/
inductive MdState
  | waiting   -- (Waiting, false): nothing cached yet
  | queued
  | running
  | other     -- complete / failed / disabled …
deriving Repr, DecidableEq

/-- The closure `canceled` of `MaxJobsSemaphore.Acquire`:
`st, ok := getState(); ok && st != Queued && st != Waiting && !(nonblocking && st == Running)`.
A job that is neither queued nor waiting was cancelled between being enqueued and
now — except that the non-blocking call is the re-attach after a restart
(`RemoteJobManager.reattach`), where a job already Running on the cluster still
occupies its slot. -/
def MdState.cancelled (st : MdState) (nonblocking : Bool) : Bool :=
  match st with
  | .waiting => false
  | .queued => false
  | .running => !nonblocking
  | .other => true

/-- The test as it was BEFORE the repair of the re-attach defect (audit C12-H7):
`ok && st != Queued && st != Waiting`, also for the non-blocking re-attach. -/
def MdState.cancelledOld : MdState → Bool
  | .waiting => false
  | .queued => false
  | _ => true

/-- `st != Running && st != Queued` (with ok) as used by `FindDone` -/
def MdState.done : MdState → Bool
  | .other => true
  | _ => false

structure MJ where
  limit : Int
  running : List Nat     -- keys of the Go map (a set: no duplicates)
deriving Repr, DecidableEq

def MJ.init (limit : Int) : MJ := ⟨limit, []⟩

/-- One pass through `Acquire` (from entry, or after being woken from
`cond.Wait()`): `some b` = returns b, `none` = goes (back) to `cond.Wait()`. -/
def MJ.attempt (s : MJ) (id : Nat) (st : MdState) (nonblocking : Bool) : MJ × Option Bool :=
  if st.cancelled nonblocking then (s, some false)
  else if s.limit ≤ (s.running.length : Int) then
    if s.limit ≤ 0 then (s, some false)
    else if s.running.contains id then (s, some true)
    else if nonblocking then (s, some false)
    else (s, none)
  else
    (if s.running.contains id then s else { s with running := s.running ++ [id] }, some true)

/-- `Acquire` before the repair (`cancelledOld`); kept for the negative witness
`Props.C12.reattach_dropped_running_jobs_before_fix`. -/
def MJ.attemptOld (s : MJ) (id : Nat) (st : MdState) (nonblocking : Bool) : MJ × Option Bool :=
  if st.cancelledOld then (s, some false)
  else if s.limit ≤ (s.running.length : Int) then
    if s.limit ≤ 0 then (s, some false)
    else if s.running.contains id then (s, some true)
    else if nonblocking then (s, some false)
    else (s, none)
  else
    (if s.running.contains id then s else { s with running := s.running ++ [id] }, some true)

/-- a sequence of (old) Acquire passes `(id, state, nonblocking)` -/
def MJ.runOld : MJ → List (Nat × MdState × Bool) → MJ
  | s, [] => s
  | s, (id, st, nb) :: ops => MJ.runOld (s.attemptOld id st nb).1 ops

inductive MJOp
  | attempt (id : Nat) (st : MdState) (nonblocking : Bool)
  | release (id : Nat)
  | findDone (finished : List Nat)   -- ids whose state is done at that moment
  | clear
deriving Repr, DecidableEq

def MJ.step (s : MJ) : MJOp → MJ × Option Bool
  | .attempt id st nb => s.attempt id st nb
  | .release id => ({ s with running := s.running.erase id }, none)
  | .findDone fin => ({ s with running := s.running.filter fun r => !fin.contains r }, none)
  | .clear => ({ s with limit := 0 }, none)

def MJ.run : MJ → List MJOp → MJ
  | s, [] => s
  | s, op :: ops => MJ.run (s.step op).1 ops

def MJ.trace : MJ → List MJOp → List (MJ × Option Bool)
  | _, [] => []
  | s, op :: ops => let r := s.step op; r :: MJ.trace r.1 ops

/-! ## Local job manager: request normalisation and nested acquisition -/

/-- `LocalJobManager` fields + `JobManagerSettings` that `GetSystemReqs` reads.
`maxVmemMB ≤ 0` means there is no vmem semaphore. -/
structure LocalCfg where
  maxCores : Int
  maxMemGB : Int
  maxVmemMB : Int
  threadsPerJob : Int
  memGBPerJob : Int
  extraVmemGB : Int
deriving Repr, DecidableEq

/-- A request after float → integer conversion: centi-cores
(`floor/ceil(Threads*100)`), MB (`floor/ceil(MemGB*1024)`), MB of vmem. -/
structure Req where
  centi : Int
  memMb : Int
  vmemMb : Int
deriving Repr, DecidableEq

def normCenti (c : LocalCfg) (centi : Int) : Int :=
  let c1 := if centi = 0 then c.threadsPerJob * 100
            else if centi < 0 then c.maxCores * 100 else centi
  if c1 > c.maxCores * 100 then c.maxCores * 100 else c1

/-- negative ("adaptive") request against the semaphore's current size -/
def adaptive (avail req : Int) : Int :=
  if avail < 1 ∨ avail < -req then -req else avail

/-- memory request before the cap: default for 0, adaptive for negative -/
def reqMem0 (c : LocalCfg) (memCur m : Int) : Int :=
  if m = 0 then c.memGBPerJob * 1024
  else if m < 0 then adaptive memCur m else m

/-- `if x > cap { x = cap }` -/
def capTo (cap x : Int) : Int := if x > cap then cap else x

/-- vmem default: `if vmemMb == 0 { vmemMb = memMb + ExtraVmemGB*1024 }` (uncapped memMb) -/
def reqV0 (c : LocalCfg) (mem0 v : Int) : Int :=
  if v = 0 then mem0 + c.extraVmemGB * 1024 else v

/-- adaptive vmem, only when there is a vmem semaphore -/
def reqV1 (c : LocalCfg) (vmemCur v0 : Int) : Int :=
  if v0 < 0 then (if c.maxVmemMB > 0 then adaptive vmemCur v0 else v0) else v0

/-- `if self.maxVmemMB > 0 && vmemMb > self.maxVmemMB { vmemMb = self.maxVmemMB }` -/
def reqV2 (c : LocalCfg) (v1 : Int) : Int :=
  if c.maxVmemMB > 0 ∧ v1 > c.maxVmemMB then c.maxVmemMB else v1

/-- `if vmemMb > 0 && vmemMb < memMb { vmemMb = memMb }` -/
def reqV3 (mem v2 : Int) : Int :=
  if v2 > 0 ∧ v2 < mem then mem else v2

/-- `GetSystemReqs` on integers. `memCur`/`vmemCur` = `CurrentSize()` of the
memory / vmem semaphores at the time of the call. -/
def normalize (c : LocalCfg) (memCur vmemCur : Int) (r : Req) : Req :=
  let mem0 := reqMem0 c memCur r.memMb
  let mem := capTo (c.maxMemGB * 1024) mem0
  ⟨normCenti c r.centi, mem,
   reqV3 mem (reqV2 c (reqV1 c vmemCur (reqV0 c mem0 r.vmemMb)))⟩

/-- a configuration with positive limits and defaults -/
def Sane (c : LocalCfg) : Prop :=
  1 ≤ c.maxCores ∧ 1 ≤ c.maxMemGB ∧ 1 ≤ c.threadsPerJob ∧ 1 ≤ c.memGBPerJob ∧ 0 ≤ c.extraVmemGB

/-- Amounts `Enqueue` passes to `Acquire`, in acquisition order
cores → mem → vmem → procs, from the normalised request: `ceil(Threads*100)`,
`ceil(MemGB*1024)`, `int64(VMemGB)*1024` (truncation to whole GB) and
`procsPerJob + (centiCores+99)/100`. -/
def procsPerJob : Int := 15

/-- The sizes `setupSemaphores` gives the semaphores that exist, in acquisition
order: cores, memory, vmem only with `maxVmemMB > 0` (`--localvmem` / `ulimit -v`),
processes only when the rlimit could be read and exceeds `startingThreadCount`
— then with the size that is left for jobs, `rlimMax - startingThreadCount`,
because `setupSemaphores` acquires `startingThreadCount` for mrp itself and never
releases it (`Props.C12.standing_reservation_is_a_smaller_semaphore`). -/
def localSizes (c : LocalCfg) (procsLeft : Option Int) : List Int :=
  [c.maxCores * 100, c.maxMemGB * 1024] ++ (if 0 < c.maxVmemMB then [c.maxVmemMB] else []) ++
    procsLeft.toList

/-- the amounts `Enqueue` acquires on the semaphores that exist -/
def localAmounts (c : LocalCfg) (hasProcs : Bool) (a : Int × Int × Int × Int) : List Int :=
  [a.1, a.2.1] ++ (if 0 < c.maxVmemMB then [a.2.2.1] else []) ++ (if hasProcs then [a.2.2.2] else [])

/-- decidable form of `Sane` for the driver -/
def saneB (c : LocalCfg) : Bool :=
  decide (1 ≤ c.maxCores) && decide (1 ≤ c.maxMemGB) && decide (1 ≤ c.threadsPerJob) &&
    decide (1 ≤ c.memGBPerJob) && decide (0 ≤ c.extraVmemGB)

def acquireAmounts (r : Req) : Int × Int × Int × Int :=
  (r.centi, r.memMb, Int.tdiv r.vmemMb 1024 * 1024, procsPerJob + Int.tdiv (r.centi + 99) 100)

end Martian.Semaphore
