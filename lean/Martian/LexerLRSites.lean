import Martian.LexerLRGen

/-!
C08: the CONVERSION CALL SITES of the grammar actions, regenerated.
`Gen.mmProdRhs` = the productions of grammar.y (left- and right-hand sides, in
goyacc's numbering), `Gen.mmConvSites` = every call of parseInt / parseFloat /
tryParseFloat32 / unquote on a `$i` value in the actions of grammar.go.  From
them: which grammar symbol each converter is applied to (`siteSymbol`, looking
through chain productions `help: LITSTRING` whose value is the token's), and
the terminal each converter is total on (`wants`).
-/
namespace Martian.LexerLR

def prodRhs (n : Nat) : List String := ((Gen.mmProdRhs[n]?).map (·.2)).getD []
def prodLhs (n : Nat) : String := ((Gen.mmProdRhs[n]?).map (·.1)).getD ""

/-- the productions with a semantic action -/
def hasAction (n : Nat) : Bool := Gen.mmProdBody.any fun p => p.1 == n

/-- indices of the productions of a nonterminal -/
def prodsOf (A : String) : List Nat :=
  (List.range Gen.mmProdRhs.length).filter fun n => prodLhs n == A

/-- the distinct pairs (left-hand side name, nonterminal number `mmR1[n]`) over all productions -/
def lhsPairs : List (String × Option Int) :=
  (List.range Gen.mmProdRhs.length).foldl
    (fun acc n => let p := (prodLhs n, genTables.r1.get? n); if acc.contains p then acc else p :: acc) []

/-- look through chain productions without action (`$$ = $1`): a nonterminal
whose ONLY production is `A: X` with the default action carries X's value -/
def resolveSym : Nat → String → String
  | 0, s => s
  | f + 1, s =>
    match prodsOf s with
    | [n] => if !hasAction n then (match prodRhs n with | [x] => resolveSym f x | _ => s) else s
    | _ => s

/-- the grammar symbol whose value a conversion site converts -/
def siteSymbol (site : Nat × String × Nat) : String :=
  resolveSym 8 (((prodRhs site.1)[site.2.2 - 1]?).getD "?")

/-- the token kind a converter is total on (Props.C08.tokenizer_converter_contract) -/
def wants (fn : String) : String :=
  if fn == "parseInt" then "NUM_INT"
  else if fn == "parseFloat" || fn == "tryParseFloat32" then "NUM_FLOAT"
  else if fn == "unquote" then "LITSTRING"
  else "?"

/-- the conversion sites the action model (Martian/LexerActions.lean `Site`) was
written for: (left-hand side of the production, converter, symbol converted) -/
def expectedSites : List (String × String × String) :=
  [("includes", "unquote", "LITSTRING"), ("includes", "unquote", "LITSTRING"),          -- Site.incl (2 forms)
   ("resource_list", "unquote", "LITSTRING"),                                            -- Site.special
   ("float_32", "parseInt", "NUM_INT"), ("float_32", "tryParseFloat32", "NUM_FLOAT"),    -- Site.float32 / threads / memGb / vmemGb
   ("in_param", "unquote", "LITSTRING"),                                                 -- Site.help
   ("out_param", "unquote", "LITSTRING"),
   ("out_param", "unquote", "LITSTRING"), ("out_param", "unquote", "LITSTRING"),         -- help + Site.outName
   ("struct_field", "unquote", "LITSTRING"),
   ("struct_field", "unquote", "LITSTRING"), ("struct_field", "unquote", "LITSTRING"),
   ("src_stm", "unquote", "LITSTRING"),                                                  -- Site.src
   ("kvpair_list_partial", "unquote", "LITSTRING"), ("kvpair_list_partial", "unquote", "LITSTRING"),  -- Site.mapKey
   ("val_exp", "parseFloat", "NUM_FLOAT"), ("val_exp", "parseInt", "NUM_INT"), ("val_exp", "unquote", "LITSTRING")]  -- Site.valExp

end Martian.LexerLR
