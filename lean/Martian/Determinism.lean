/-
C10 model: the emitters of martian/syntax and martian/core that walk a Go map.
A Go map is an association list with distinct keys handed over in ARBITRARY
order (the order the runtime happens to iterate in); every emitter below takes
the list as given and is written the way the Go code is: collect the keys (and
order-insensitive aggregates), sort, then emit in sorted order.

* `mapFormat`    — `MapExp.format` (format_exp.go): `maxKeyLen` accumulated while
                   collecting keys, `sort.Strings(keys)`, one line per key;
* `jsonObject`   — `MapExp.encodeJSON`, `marshallerMap.encodeJSON`,
                   `ResolvedBindingMap.encodeJSON` (format_exp_json.go,
                   resolved_binding.go) and `LazyArgumentMap.encodeJSON`,
                   `MarshalerMap.encodeJSON` (core/argument_map.go);
* `forkKeyParts` — `makeForkIdParts` / `expandForkFromObj` (core/fork.go): fork
                   parts of a map call in sorted key order;
* `foldSorted`   — `unifyMapSources` + `sortedSplitList` (resolve_stage.go),
                   `findMergeForkNode` (merge_exp.go): collect from a map / set,
                   sort, then fold left (first element wins / errors accumulate).

Core Lean only.
-/
import Martian.SortKeys

namespace Martian.Determinism
open Martian.SortKeys

abbrev Bytes := List Nat

/-- an already rendered map entry value -/
structure Rendered where
  /-- the key as it is written (quoted for maps, bare for structs) -/
  keyText : Bytes
  /-- `singleLineFormat(val)` -/
  single : Bool
  /-- `val.format(w, vindent)` -/
  text : Bytes
  deriving DecidableEq, Repr

/-- the `maxKeyLen` accumulation inside the key-collecting loop of `MapExp.format` -/
def maxKeyLen (isStruct : Bool) (l : List (Key × Rendered)) : Nat :=
  l.foldl (fun m p => max m (if isStruct && p.2.single then p.1.length else 0)) 0

def spaces : Nat → Bytes
  | 0 => []
  | n + 1 => 32 :: spaces n

/-- `MapExp.format` for a non-nil map value -/
def mapFormat (isStruct : Bool) (prefix_ vindent : Bytes) (l : List (Key × Rendered)) : Bytes :=
  if l.isEmpty then [123, 125] else
  let w := maxKeyLen isStruct l
  [123, 10] ++
  ((sortK l).flatMap fun p =>
    vindent ++ p.2.keyText ++ [58, 32] ++
    (if isStruct && p.2.single then spaces (w - p.1.length) else []) ++
    p.2.text ++ [44, 10]) ++
  prefix_ ++ [125]

def intercalateB (sep : Bytes) : List Bytes → Bytes
  | [] => []
  | [x] => x
  | x :: y :: r => x ++ sep ++ intercalateB sep (y :: r)

/-- the `encodeJSON` of the map types: `{` sorted `"key":value` joined by `,` `}`;
each entry carries its JSON-quoted key and its encoded value -/
def jsonObject (l : List (Key × Bytes × Bytes)) : Bytes :=
  [123] ++ intercalateB [44] ((sortK l).map fun p => p.2.1 ++ [58] ++ p.2.2) ++ [125]

/-- fork parts of a statically keyed map call -/
def forkKeyParts (keys : List Key) : List Key := sortKeys keys

/-- collect, sort, fold (`unifyMapSources`, `findMergeForkNode`) -/
def foldSorted {V β : Type} (f : β → Key × V → β) (init : β) (l : List (Key × V)) : β :=
  (sortK l).foldl f init

end Martian.Determinism
