/-
C01 — a DECIDABLE check of the hypotheses of the refinement theorem
(`Props.C01.resolver_refines_den_plain_partial`): the program is plain (no map
call, no `disabled`), every binding expression is assignable to its parameter
(`hasTyB`, the part of the compiler's type check the refinement relies on), the
struct table is well formed and acyclic.  Sound for the propositional versions
(Proofs/ResolverStaticCheck.lean); run by the driver on every generated program
to tell whether the program is inside the proved fragment.
-/
import Martian.Dataflow
import Martian.ResolverStatic

namespace Martian.ResolverStatic
open Martian.Dataflow

/-- assignability (`Proofs.ResolverStatic.Sub`), with fuel for the struct nesting -/
def subB (st : StructTable) : Nat → Ty → Ty → Bool
  | 0, t, t' => t == t'
  | n+1, t, t' =>
    t == t' ||
    (t.mapDim == t'.mapDim && t.arrDim == t'.arrDim &&
      (st.lookup t.base).isNone && (st.lookup t'.base).isNone) ||
    (t.mapDim == t'.mapDim && t.arrDim == t'.arrDim &&
      match st.lookup t.base, st.lookup t'.base with
      | some _, some ps' =>
        ps'.all fun p' =>
          match fieldTy st t.base p'.name with
          | some ft => subB st n ft p'.ty
          | none => false
      | _, _ => false)

def fieldOkB (st : StructTable) (t : Ty) (f : String) : Bool :=
  match fieldTy st t.base f with
  | some ft => t.mapDim == 0 || ft.mapDim == 0
  | none => false

def pathOkB (st : StructTable) : Ty → List String → Bool
  | _, [] => true
  | t, f :: r => fieldOkB st t f && pathOkB st (projTy1 st t f) r

def scalarB (st : StructTable) (t : Ty) : Bool :=
  t.arrDim == 0 && t.mapDim == 0 && (st.lookup t.base).isNone

def litOkB (st : StructTable) (t : Ty) : J → Bool
  | .null => true
  | .atom _ => scalarB st t
  | _ => false

mutual
def hasTyB (st : StructTable) (n : Nat) (sT cT : String → Ty) : Ty → Exp → Bool
  | t, .lit j => litOkB st t j
  | t, .arr xs => t.arrDim != 0 && hasTyListB st n sT cT { t with arrDim := t.arrDim - 1 } xs
  | t, .map kvs => t.arrDim == 0 && t.mapDim != 0 && hasTyFieldsB st n sT cT ⟨t.base, 0, t.mapDim - 1⟩ kvs
  | t, .struct kvs => t.arrDim == 0 && t.mapDim == 0 &&
      match st.lookup t.base with
      | some ps => hasTyMembersB st n sT cT ps kvs && ps.all fun p => (kvs.lookup p.name).isSome
      | none => false
  | t, .self p path => pathOkB st (sT p) path && subB st n (pathTy st (sT p) path) t
  | t, .ref c path => pathOkB st (cT c) path && subB st n (pathTy st (cT c) path) t
def hasTyListB (st : StructTable) (n : Nat) (sT cT : String → Ty) : Ty → List Exp → Bool
  | _, [] => true
  | t, e :: es => hasTyB st n sT cT t e && hasTyListB st n sT cT t es
def hasTyFieldsB (st : StructTable) (n : Nat) (sT cT : String → Ty) : Ty → List (String × Exp) → Bool
  | _, [] => true
  | t, (_, e) :: es => hasTyB st n sT cT t e && hasTyFieldsB st n sT cT t es
def hasTyMembersB (st : StructTable) (n : Nat) (sT cT : String → Ty) :
    List Param → List (String × Exp) → Bool
  | _, [] => true
  | ps, (k, e) :: es =>
    (!(ps.find? fun p => p.name == k).isSome || hasTyB st n sT cT (memberTy ps k) e) &&
    hasTyMembersB st n sT cT ps es
end

def selfTyOfB (pins : List Param) (p : String) : Ty :=
  ((pins.find? (fun q => q.name == p)).map (·.ty)).getD badTy

def callTyOfB (L : List (String × Ty)) (c : String) : Ty := (L.lookup c).getD badTy

def callOkB (st : StructTable) (n : Nat) (insOf : String → List Param) (sT cT : String → Ty) (c : Call) : Bool :=
  !c.mapped && c.disabled.isNone &&
  (insOf c.callee).all fun p =>
    match c.binds.find? (fun b => b.param == p.name) with
    | some b => hasTyB st n sT cT p.ty b.exp
    | none => true

def callsOkB (st : StructTable) (n : Nat) (insOf : String → List Param) (sT : String → Ty) :
    List (String × Ty) → List Call → Bool
  | _, [] => true
  | L, c :: cs =>
    callOkB st n insOf sT (callTyOfB L) c && callsOkB st n insOf sT (L ++ [(c.id, ⟨c.callee, 0, 0⟩)]) cs

def pipelineOkB (st : StructTable) (n : Nat) (insOf : String → List Param) (pins outs : List Param)
    (calls : List Call) (ret : List (String × Exp)) : Bool :=
  callsOkB st n insOf (selfTyOfB pins) [] calls &&
  outs.all fun p =>
    match ret.lookup p.name with
    | some e => hasTyB st n (selfTyOfB pins) (callTyOfB (calls.map fun c => (c.id, ⟨c.callee, 0, 0⟩))) p.ty e
    | none => true

def structsOkB (st : StructTable) : Bool :=
  st.all fun e => decide ((e.2.map (·.name)).Nodup)

def wellTypedB (P : Program) : Bool :=
  structsOkB P.table &&
  (P.callables.all fun e => P.table.lookup e.1 == some e.2.outs) &&
  (P.callables.all fun e =>
    match e.2 with
    | .stage _ _ => true
    | .pipeline pins outs calls ret => pipelineOkB P.table P.table.length P.insOf pins outs calls ret) &&
  callOkB P.table P.table.length P.insOf (selfTyOfB []) (callTyOfB []) P.top

/-- nesting depth of a struct (0 for non-structs), with fuel -/
def structDepth (st : StructTable) : Nat → String → Nat
  | 0, _ => 0
  | n+1, name =>
    match st.lookup name with
    | none => 0
    | some ps => 1 + (ps.map fun p => structDepth st n p.ty.base).foldl max 0

/-- the struct table is acyclic and `Program.nfuel` is enough fuel for `narrow` -/
def acyclicB (st : StructTable) : Bool :=
  st.all fun e =>
    structDepth st st.length e.1 < st.length &&
    e.2.all fun p => (st.lookup p.ty.base).isNone || structDepth st st.length p.ty.base < structDepth st st.length e.1

end Martian.ResolverStatic

namespace Martian.ResolverStatic
open Martian.Dataflow

/-! ## programs with map calls of stages over array literals -/

def isStageB (P : Program) (callee : String) : Bool :=
  match P.callables.lookup callee with
  | some (.stage _ _) => true
  | _ => false

def arrLen : Exp → Option Nat
  | .arr es => some es.length
  | _ => none

def mappedOkB (st : StructTable) (n : Nat) (P : Program) (sT cT : String → Ty) (c : Call) : Bool :=
  c.mapped && c.disabled.isNone && isStageB P c.callee &&
  (match c.binds.find? (·.split) with
   | some b0 =>
     match arrLen b0.exp with
     | some k => 0 < k && c.binds.all fun b => !b.split || arrLen b.exp == some k
     | none => false
   | none => false) &&
  ((P.insOf c.callee).any fun p =>
    match c.binds.find? (fun b => b.param == p.name) with
    | some b => b.split
    | none => false) &&
  (P.insOf c.callee).all fun p =>
    match c.binds.find? (fun b => b.param == p.name) with
    | some b => hasTyB st n sT cT (if b.split then { p.ty with arrDim := p.ty.arrDim + 1 } else p.ty) b.exp
    | none => true

def callOkMB (st : StructTable) (n : Nat) (P : Program) (sT cT : String → Ty) (c : Call) : Bool :=
  (callOkB st n P.insOf sT cT c && c.binds.all fun b => !b.split) || mappedOkB st n P sT cT c

def callTyMB (c : Call) : Ty := if c.mapped then ⟨c.callee, 0, 1⟩ else ⟨c.callee, 0, 0⟩

def callsOkMB (st : StructTable) (n : Nat) (P : Program) (sT : String → Ty) :
    List (String × Ty) → List Call → Bool
  | _, [] => true
  | L, c :: cs => callOkMB st n P sT (callTyOfB L) c && callsOkMB st n P sT (L ++ [(c.id, callTyMB c)]) cs

def pipelineOkMB (st : StructTable) (n : Nat) (P : Program) (pins outs : List Param)
    (calls : List Call) (ret : List (String × Exp)) : Bool :=
  callsOkMB st n P (selfTyOfB pins) [] calls &&
  outs.all fun p =>
    match ret.lookup p.name with
    | some e => hasTyB st n (selfTyOfB pins) (callTyOfB (calls.map fun c => (c.id, callTyMB c))) p.ty e
    | none => true

/-- decidable hypotheses of `resolver_refines_den_staticmap_checked` -/
def wellTypedMB (P : Program) : Bool :=
  structsOkB P.table &&
  (P.callables.all fun e => P.table.lookup e.1 == some e.2.outs) &&
  (P.callables.all fun e =>
    match e.2 with
    | .stage _ _ => true
    | .pipeline pins outs calls ret => pipelineOkMB P.table P.table.length P pins outs calls ret) &&
  callOkB P.table P.table.length P.insOf (selfTyOfB []) (callTyOfB []) P.top &&
  P.top.binds.all fun b => !b.split

end Martian.ResolverStatic

namespace Martian.ResolverStatic
open Martian.Dataflow

/-! ## programs with map calls of stages (array / typed-map mode; sizes checked by `staticProgramOk`) -/

def mappedOkGB (st : StructTable) (n : Nat) (P : Program) (sT cT : String → Ty) (c : Call) (isMap : Bool) : Bool :=
  c.mapped && c.disabled.isNone && isStageB P c.callee &&
  (c.binds.any fun b => b.split) &&
  decide ((c.binds.map (·.param)).Nodup) &&
  (c.binds.all fun b => !b.split || (P.insOf c.callee).any fun p => p.name == b.param) &&
  (!isMap || (P.insOf c.callee).all fun p =>
    match c.binds.find? (fun b => b.param == p.name) with
    | some b => !b.split || p.ty.mapDim == 0
    | none => true) &&
  (P.insOf c.callee).all fun p =>
    match c.binds.find? (fun b => b.param == p.name) with
    | some b => hasTyB st n sT cT (if b.split then liftSplitTy isMap p.ty else p.ty) b.exp
    | none => true

/-- the type later bindings see `CALL` at, if the call is well typed -/
def callOkGB (st : StructTable) (n : Nat) (P : Program) (sT cT : String → Ty) (c : Call) : Option Ty :=
  if callOkB st n P.insOf sT cT c && c.binds.all (fun b => !b.split) then some ⟨c.callee, 0, 0⟩
  else if mappedOkGB st n P sT cT c false then some ⟨c.callee, 0, 1⟩
  else if mappedOkGB st n P sT cT c true then some ⟨c.callee, 1, 0⟩
  else none

def callsOkGB (st : StructTable) (n : Nat) (P : Program) (sT : String → Ty) :
    List (String × Ty) → List Call → Option (List (String × Ty))
  | L, [] => some L
  | L, c :: cs =>
    match callOkGB st n P sT (callTyOfB L) c with
    | some ty => callsOkGB st n P sT (L ++ [(c.id, ty)]) cs
    | none => none

def pipelineOkGB (st : StructTable) (n : Nat) (P : Program) (pins outs : List Param)
    (calls : List Call) (ret : List (String × Exp)) : Bool :=
  match callsOkGB st n P (selfTyOfB pins) [] calls with
  | some L =>
    outs.all fun p =>
      match ret.lookup p.name with
      | some e => hasTyB st n (selfTyOfB pins) (callTyOfB L) p.ty e
      | none => true
  | none => false

/-- decidable hypotheses of `resolver_refines_den_mapstatic_checked` (with `staticProgramOk`, `acyclicB`) -/
def wellTypedGB (P : Program) : Bool :=
  structsOkB P.table &&
  (P.callables.all fun e => P.table.lookup e.1 == some e.2.outs) &&
  (P.callables.all fun e =>
    match e.2 with
    | .stage _ _ => true
    | .pipeline pins outs calls ret => pipelineOkGB P.table P.table.length P pins outs calls ret) &&
  callOkB P.table P.table.length P.insOf (selfTyOfB []) (callTyOfB []) P.top &&
  P.top.binds.all fun b => !b.split

end Martian.ResolverStatic

namespace Martian.ResolverStatic
open Martian.Dataflow

/-! ## programs with array-mode map calls of stages AND pipelines, nested (sizes: `treeOkList`) -/

def mappedOkTB (st : StructTable) (n : Nat) (P : Program) (sT cT : String → Ty) (c : Call) : Bool :=
  c.mapped && c.disabled.isNone &&
  (c.binds.any fun b => b.split) &&
  decide ((c.binds.map (·.param)).Nodup) &&
  (c.binds.all fun b => !b.split || (P.insOf c.callee).any fun p => p.name == b.param) &&
  (P.insOf c.callee).all fun p =>
    match c.binds.find? (fun b => b.param == p.name) with
    | some b => hasTyB st n sT cT (if b.split then liftSplitTy false p.ty else p.ty) b.exp
    | none => true

def callOkTB (st : StructTable) (n : Nat) (P : Program) (sT cT : String → Ty) (c : Call) : Bool :=
  (callOkB st n P.insOf sT cT c && c.binds.all fun b => !b.split) || mappedOkTB st n P sT cT c

def callsOkTB (st : StructTable) (n : Nat) (P : Program) (sT : String → Ty) :
    List (String × Ty) → List Call → Bool
  | _, [] => true
  | L, c :: cs => callOkTB st n P sT (callTyOfB L) c && callsOkTB st n P sT (L ++ [(c.id, callTyMB c)]) cs

def pipelineOkTB (st : StructTable) (n : Nat) (P : Program) (pins outs : List Param)
    (calls : List Call) (ret : List (String × Exp)) : Bool :=
  callsOkTB st n P (selfTyOfB pins) [] calls &&
  outs.all fun p =>
    match ret.lookup p.name with
    | some e => hasTyB st n (selfTyOfB pins) (callTyOfB (calls.map fun c => (c.id, callTyMB c))) p.ty e
    | none => true

/-- decidable typing hypothesis of `resolver_refines_den_mappedpipes_checked` -/
def wellTypedTB (P : Program) : Bool :=
  structsOkB P.table &&
  (P.callables.all fun e => P.table.lookup e.1 == some e.2.outs) &&
  (P.callables.all fun e =>
    match e.2 with
    | .stage _ _ => true
    | .pipeline pins outs calls ret => pipelineOkTB P.table P.table.length P pins outs calls ret) &&
  callOkB P.table P.table.length P.insOf (selfTyOfB []) (callTyOfB []) P.top &&
  P.top.binds.all fun b => !b.split

end Martian.ResolverStatic

namespace Martian.ResolverStatic
open Martian.Dataflow

/-! ## … and plain calls with a run-time `disabled` control (refinement modulo `J.erase`) -/

def callCleanB (c : Call) : Bool :=
  (c.binds.all fun b => Exp.clean b.exp) &&
  match c.disabled with
  | some d => Exp.clean d.2
  | none => true

def disabledOkEB (st : StructTable) (n : Nat) (P : Program) (sT cT : String → Ty) (c : Call) : Bool :=
  !c.mapped &&
  (match c.disabled with
   | some (false, e) => hasTyB st n sT cT ⟨"bool", 0, 0⟩ e
   | _ => false) &&
  (c.binds.all fun b => !b.split) &&
  (P.insOf c.callee).all fun p =>
    match c.binds.find? (fun b => b.param == p.name) with
    | some b => hasTyB st n sT cT p.ty b.exp
    | none => true

def callOkEB (st : StructTable) (n : Nat) (P : Program) (sT cT : String → Ty) (c : Call) : Bool :=
  callCleanB c && (callOkTB st n P sT cT c || disabledOkEB st n P sT cT c)

def callsOkEB (st : StructTable) (n : Nat) (P : Program) (sT : String → Ty) :
    List (String × Ty) → List Call → Bool
  | _, [] => true
  | L, c :: cs => callOkEB st n P sT (callTyOfB L) c && callsOkEB st n P sT (L ++ [(c.id, callTyMB c)]) cs

def pipelineOkEB (st : StructTable) (n : Nat) (P : Program) (pins outs : List Param)
    (calls : List Call) (ret : List (String × Exp)) : Bool :=
  callsOkEB st n P (selfTyOfB pins) [] calls &&
  outs.all fun p =>
    match ret.lookup p.name with
    | some e => Exp.clean e &&
      hasTyB st n (selfTyOfB pins) (callTyOfB (calls.map fun c => (c.id, callTyMB c))) p.ty e
    | none => true

/-- decidable typing hypothesis of `resolver_refines_den_disabled_checked` -/
def wellTypedEB (P : Program) : Bool :=
  structsOkB P.table &&
  (P.callables.all fun e => P.table.lookup e.1 == some e.2.outs) &&
  (P.callables.all fun e =>
    match e.2 with
    | .stage _ _ => true
    | .pipeline pins outs calls ret => pipelineOkEB P.table P.table.length P pins outs calls ret) &&
  callOkB P.table P.table.length P.insOf (selfTyOfB []) (callTyOfB []) P.top &&
  (P.top.binds.all fun b => !b.split) &&
  P.top.binds.all fun b => Exp.clean b.exp

end Martian.ResolverStatic

namespace Martian.ResolverStatic
open Martian.Dataflow

/-- nesting depth of a callable in the call graph (0 for stages / unknown names), with fuel -/
def callDepth (P : Program) : Nat → String → Nat
  | 0, _ => 0
  | n+1, name =>
    match P.callables.lookup name with
    | some (.pipeline _ _ calls _) => 1 + (calls.map fun c => callDepth P n c.callee).foldl max 0
    | _ => 0

/-- the call graph is acyclic and `Program.fuel` exceeds its depth (decidable) -/
def callGraphAcyclicB (P : Program) : Bool :=
  (P.callables.all fun e =>
    match e.2 with
    | .stage _ _ => true
    | .pipeline _ _ calls _ =>
      calls.all fun c => (P.callables.lookup c.callee).isNone ||
        callDepth P P.callables.length c.callee < callDepth P P.callables.length e.1) &&
  callDepth P P.callables.length P.top.callee < P.fuel

end Martian.ResolverStatic

