/-
The MRO type algebra and its JSON side: validation, filtering, assignability,
file kinds (C17; reused by C07, C13, C16).

Models, type class by type class, the Go code in martian/syntax:
  builtin_types.go   (`BuiltinType`:   IsValidJson / FilterJson / IsAssignableFrom / IsFile / CanFilter)
  user_file_type.go  (`UserType`)
  collection_types.go(`ArrayType`, `TypedMapType`)
  struct_type.go     (`StructType`), compile_types.go (struct file kind)
  compile_params.go  (`IsLegalUnixFilename`)

Core Lean only (no Mathlib).  Every function is total, executable and
*structurally* recursive on the (destination) type, so `decide` evaluates it.

Representation of types
* `Ty.arr t` is ONE array dimension.  Go's `ArrayType{Elem, Dim}` (Elem not an
  array) is `arr^[Dim] Elem`; the Go code itself peels one dimension at a time
  (`lookup.Get(id with ArrayDim-1)`, `ArrayType{Elem, Dim-1}`), so nothing is
  lost.  `arrN n t` builds the n-dimensional array and `dims` recovers the
  `(ArrayDim, MapDim)` pair of Go's `TypeId`.
* `Ty.tmap t` is `map<t>`; MRO has no `map<map<…>>` (the theorems do not need
  that restriction).
* `Ty.struct name fields`: struct types are declared before use and cannot
  contain themselves, so a struct type is a finite tree.  `Fields` is a
  separate (mutual) inductive so that recursion over types stays structural.
  The compiler rejects duplicate field names; `Ty.WF` states that.
-/
import Martian.Json

namespace Martian.Types
open Martian.Json

/-- builtin types (`builtinTypes` in builtin_types.go) -/
inductive Base where
  | string | int | float | bool | path | file | map
  deriving DecidableEq, Repr, Inhabited

def Base.all : List Base := [.string, .int, .float, .bool, .path, .file, .map]

/-- the MRO keyword (`BuiltinType.Id`) -/
def Base.name : Base → Bytes
  | .string => [0x73, 0x74, 0x72, 0x69, 0x6E, 0x67]
  | .int => [0x69, 0x6E, 0x74]
  | .float => [0x66, 0x6C, 0x6F, 0x61, 0x74]
  | .bool => [0x62, 0x6F, 0x6F, 0x6C]
  | .path => [0x70, 0x61, 0x74, 0x68]
  | .file => [0x66, 0x69, 0x6C, 0x65]
  | .map => [0x6D, 0x61, 0x70]

mutual
  inductive Ty where
    | base (b : Base)
    /-- user-defined file type `filetype name;` -/
    | user (name : Bytes)
    /-- one array dimension -/
    | arr (elem : Ty)
    /-- `map<elem>` -/
    | tmap (elem : Ty)
    | struct (name : Bytes) (fields : Fields)
  inductive Fields where
    | nil
    | cons (id : Bytes) (t : Ty) (rest : Fields)
end

instance : Inhabited Ty := ⟨.base .string⟩

namespace Fields

def toList : Fields → List (Bytes × Ty)
  | .nil => []
  | .cons k t r => (k, t) :: toList r

def ofList : List (Bytes × Ty) → Fields
  | [] => .nil
  | (k, t) :: r => .cons k t (ofList r)

def names (fs : Fields) : List Bytes := fs.toList.map Prod.fst

/-- type of the member called `k` (first declaration; names are unique in
well-formed types) – `StructType.getMember` -/
def get (k : Bytes) : Fields → Option Ty
  | .nil => none
  | .cons k' t r => if k' = k then some t else get k r

end Fields

/-- n-dimensional array of `t` -/
def arrN : Nat → Ty → Ty
  | 0, t => t
  | n + 1, t => .arr (arrN n t)

/-- not an array type (what the `Elem` of a Go `ArrayType` always is) -/
def notArr : Ty → Bool
  | .arr _ => false
  | _ => true

/-! ## Well-formedness (what the compiler guarantees) -/

mutual
  /-- field names of every struct type inside are pairwise distinct -/
  def Ty.wf : Ty → Bool
    | .base _ => true
    | .user _ => true
    | .arr t => t.wf
    | .tmap t => t.wf
    | .struct _ fs => fs.wf
  def Fields.wf : Fields → Bool
    | .nil => true
    | .cons k t r => (!(r.toList.map Prod.fst).contains k) && t.wf && r.wf
end

/-! ## File kinds (`Type.IsFile`) -/

inductive FileKind where
  | notFile | mayContainPaths | file | directory
  deriving DecidableEq, Repr, Inhabited

/-- numeric value of Go's `FileKind` constants -/
def FileKind.rank : FileKind → Nat
  | .notFile => 0 | .mayContainPaths => 1 | .file => 2 | .directory => 3

/-- accumulation rule of `StructMember.compile`: the struct's kind after
seeing a member of kind `m` -/
def FileKind.structStep (acc m : FileKind) : FileKind :=
  match m with
  | .notFile => acc
  | .mayContainPaths => if acc = .notFile then .mayContainPaths else acc
  | .file | .directory =>
    if acc = .notFile ∨ acc = .mayContainPaths then .directory else acc

mutual
  def fileKind : Ty → FileKind
    | .base .path | .base .file => .file
    | .base .string | .base .map => .mayContainPaths
    | .base _ => .notFile
    | .user _ => .file
    | .arr t => match fileKind t with
      | .file => .directory
      | k => k
    | .tmap t => match fileKind t with
      | .notFile => .notFile
      | .directory | .file => .directory
      | .mayContainPaths => .mayContainPaths
    | .struct _ fs => fieldsKind .notFile fs
  def fieldsKind (acc : FileKind) : Fields → FileKind
    | .nil => acc
    | .cons _ t r => fieldsKind (acc.structStep (fileKind t)) r
end

/-- keys of values of this typed-map type must be legal file names
(`isDir := s.IsFile() == KindIsDirectory` in `TypedMapType.IsValidJson`) -/
def isDirMap (elem : Ty) : Bool :=
  match fileKind elem with
  | .file | .directory => true
  | _ => false

/-- `IsLegalUnixFilename` (compile_params.go).  `/` and NUL are single bytes
in UTF-8 and never part of a multi-byte sequence, so the byte-wise test equals
Go's rune-wise one. -/
def legalName (k : Bytes) : Bool :=
  decide (k.length ≤ 255) && !k.isEmpty && k != [0x2E] && k != [0x2E, 0x2E] &&
    !k.contains 0x2F && !k.contains 0x00

/-! ## Validation (`IsValidJson`) -/

/-- outcome of validation: `error` = returned error (hard), `alarm` = no error
but something was written to the alarms builder, `ok` = clean -/
inductive Verdict where
  | ok | alarm | error
  deriving DecidableEq, Repr, Inhabited

/-- errors and alarms of parts accumulate; an error dominates an alarm -/
def Verdict.max : Verdict → Verdict → Verdict
  | .error, _ | _, .error => .error
  | .alarm, _ | _, .alarm => .alarm
  | .ok, .ok => .ok

def worst (vs : List Verdict) : Verdict := vs.foldr Verdict.max .ok

def checkBase : Base → J → Verdict
  | _, .null => .ok
  | .string, .str _ | .path, .str _ | .file, .str _ => .ok
  | .int, .num (.int v) => if Num.inInt64 v then .ok else .error
  | .float, .num _ => .ok
  | .bool, .bool _ => .ok
  | .map, .obj _ => .ok
  | _, _ => .error

mutual
  /-- `Type.IsValidJson`, three-valued -/
  def check : Ty → J → Verdict
    | .base b, v => checkBase b v
    | .user _, v =>
      match v with
      | .null | .str _ => .ok
      | _ => .alarm            -- "for backwards compatibility we need to accept everything here"
    | .arr t, v =>
      match v with
      | .null => .ok
      | .arr xs => worst (xs.map (fun x => check t x))
      | _ => .error
    | .tmap t, v =>
      match v with
      | .null => .ok
      | .obj kvs =>
        -- every member of the list (the real code sees the members of the decoded Go
        -- map, i.e. of `dedupLast kvs`: equal when no key is duplicated, see Props/C17 §8)
        worst (kvs.map (fun kv =>
          (check t kv.2).max (if isDirMap t && !legalName kv.1 then .error else .ok)))
      | _ => .error
    | .struct _ fs, v =>
      match v with
      | .null => .ok
      | .obj kvs => checkFields fs kvs
      | _ => .error
  /-- every declared member must be present and valid; undeclared members are
  ignored silently -/
  def checkFields : Fields → List (Bytes × J) → Verdict
    | .nil, _ => .ok
    | .cons k t r, kvs =>
      (match getKey k kvs with
        | none => Verdict.error
        | some v => check t v).max (checkFields r kvs)
end

/-- clean validation: no error and no alarm -/
def valid (t : Ty) (v : J) : Bool := check t v == .ok

/-! ## Filtering (`FilterJson`) -/

/-- `ok`: `err == nil`; `soft`: `err != nil`, `fatal == false`; `fatal` -/
inductive FErr where
  | ok | soft | fatal
  deriving DecidableEq, Repr, Inhabited

def FErr.max : FErr → FErr → FErr
  | .fatal, _ | _, .fatal => .fatal
  | .soft, _ | _, .soft => .soft
  | .ok, .ok => .ok

def worstF (vs : List FErr) : FErr := vs.foldr FErr.max .ok

/-- `Type.CanFilter` -/
def canFilter : Ty → Bool
  | .base .int => true
  | .base _ => false
  | .user _ => false
  | .arr t => canFilter t
  | .tmap t => canFilter t
  | .struct _ _ => true

def filterBase : Base → J → J × FErr
  | _, .null => (.null, .ok)
  | .string, .str s => (.str s, .ok)
  | .path, .str s => (.str s, .ok)
  | .file, .str s => (.str s, .ok)
  | .float, .num n => (.num n, .ok)
  | .bool, .bool b => (.bool b, .ok)
  | .map, .obj kvs => (.obj kvs, .ok)
  | .int, .num (.int v) => (.num (.int v), if Num.inInt64 v then .ok else .fatal)
  | .int, .num (.flt m e) =>
    -- int64 parse failed; float parse; rewritten when the value is an integer that fits
    match (Num.flt m e).intValue? with
    | some i => if Num.inInt64 i then (.num (.int i), .soft) else (.num (.flt m e), .fatal)
    | none => (.num (.flt m e), .fatal)
  | _, v => (v, .fatal)

mutual
  /-- `Type.FilterJson`: the (tree of the) returned message and the error class -/
  def filter : Ty → J → J × FErr
    | .base b, v => filterBase b v
    | .user _, v =>
      match v with
      | .null | .str _ => (v, .ok)
      | _ => (v, .soft)          -- "don't treat any errors as fatal"
    | .arr t, v =>
      if !canFilter t then (v, .ok) else
      match v with
      | .null => (v, .ok)
      | .arr xs =>
        (.arr (xs.map (fun x => (filter t x).1)), worstF (xs.map (fun x => (filter t x).2)))
      | _ => (v, .fatal)
    | .tmap t, v =>
      if !canFilter t then (v, .ok) else
      match v with
      | .null => (v, .ok)
      | .obj kvs =>
        (.obj (kvs.map (fun kv => (kv.1, (filter t kv.2).1))),
         worstF (kvs.map (fun kv => (filter t kv.2).2)))
      | _ => (v, .fatal)
    | .struct _ fs, v =>
      match v with
      | .null => (v, .ok)
      | .obj kvs => (.obj (filterFields fs kvs).1, (filterFields fs kvs).2)
      | _ => (v, .fatal)
  /-- declared members in declaration order; a missing member is written as
  `null` (fatal); a member whose type cannot filter is copied unchecked -/
  def filterFields : Fields → List (Bytes × J) → List (Bytes × J) × FErr
    | .nil, _ => ([], .ok)
    | .cons k t r, kvs =>
      let rest := filterFields r kvs
      match getKey k kvs with
      | none => ((k, .null) :: rest.1, .fatal)
      | some v =>
        if canFilter t then ((k, (filter t v).1) :: rest.1, (filter t v).2.max rest.2)
        else ((k, v) :: rest.1, rest.2)
end

/-! ## Assignability (`IsAssignableFrom`) -/

/-- Go's `TypeId` shape `(ArrayDim, MapDim)` -/
def dims : Ty → Nat × Nat
  | .arr t => ((dims t).1 + 1, (dims t).2)
  | .tmap t => (0, (dims t).1 + 1)
  | _ => (0, 0)

def assignableBase (d s : Base) : Bool :=
  d == s || (s == .string && (d == .file || d == .path)) || (s == .int && d == .float)

mutual
  /-- `dst.IsAssignableFrom(src) == nil` -/
  def assignable : (dst src : Ty) → Bool
    | .base d, src =>
      match src with
      | .base s => assignableBase d s
      | .user _ => d == .file || d == .string
      | .struct _ _ => d == .map
      | .tmap _ => d == .map
      | .arr _ => false
    | .user n, src =>
      match src with
      | .base s => s == .file || s == .string
      | .user m => n == m
      | _ => false
    | .arr d, src =>
      match src with
      | .arr s => assignable d s
      | _ => false
    | .tmap d, src =>
      match src with
      | .tmap s => assignable d s
      | .struct _ fs => fs.toList.all (fun kt => assignable d kt.2)
      | _ => false
    | .struct _ fs, src =>
      match src with
      | .struct _ fs' => assignableFields fs fs'
      | _ => false
  /-- every member of the destination exists in the source with the same
  `(ArrayDim, MapDim)` shape and an assignable type -/
  def assignableFields : Fields → Fields → Bool
    | .nil, _ => true
    | .cons k t r, fs' =>
      (match fs'.get k with
        | none => false
        | some t' => decide (dims t = dims t') && assignable t t') && assignableFields r fs'
end

/-! ## Specification predicates used by the C17 theorems -/

/-- "The values of the declared shape": an independent, declarative
description of what validation is supposed to accept cleanly. -/
inductive Shape : Ty → J → Prop where
  | null (t : Ty) : Shape t .null
  | string (s : Bytes) : Shape (.base .string) (.str s)
  | path (s : Bytes) : Shape (.base .path) (.str s)
  | file (s : Bytes) : Shape (.base .file) (.str s)
  | int (v : Int) : Num.inInt64 v = true → Shape (.base .int) (.num (.int v))
  | float (n : Num) : Shape (.base .float) (.num n)
  | bool (b : Bool) : Shape (.base .bool) (.bool b)
  | map (kvs : List (Bytes × J)) : Shape (.base .map) (.obj kvs)
  | user (n s : Bytes) : Shape (.user n) (.str s)
  | arr (t : Ty) (xs : List J) : (∀ x, x ∈ xs → Shape t x) → Shape (.arr t) (.arr xs)
  | tmap (t : Ty) (kvs : List (Bytes × J)) :
      (∀ kv, kv ∈ kvs → Shape t kv.2) →
      (isDirMap t = true → ∀ kv, kv ∈ kvs → legalName kv.1 = true) →
      Shape (.tmap t) (.obj kvs)
  | struct (n : Bytes) (fs : Fields) (kvs : List (Bytes × J)) :
      (∀ k t, (k, t) ∈ fs.toList → (getKey k kvs).isSome = true) →
      (∀ k t v, (k, t) ∈ fs.toList → getKey k kvs = some v → Shape t v) →
      Shape (.struct n fs) (.obj kvs)

mutual
  /-- `Drops r v`: `r` is `v` except that object members may have been
  dropped (and reordered) and integral float literals fitting `int64` may
  have been rewritten as the integer literal of the same value. -/
  inductive Drops : J → J → Prop where
    | refl (v : J) : Drops v v
    | int (m e i : Int) : (Num.flt m e).intValue? = some i → Num.inInt64 i = true →
        Drops (.num (.int i)) (.num (.flt m e))
    | arr {xs' xs : List J} : DropsL xs' xs → Drops (.arr xs') (.arr xs)
    | obj {kvs' kvs : List (Bytes × J)} : DropsO kvs' kvs → Drops (.obj kvs') (.obj kvs)
  /-- element-wise, same length -/
  inductive DropsL : List J → List J → Prop where
    | nil : DropsL [] []
    | cons {x' x : J} {xs' xs : List J} : Drops x' x → DropsL xs' xs → DropsL (x' :: xs') (x :: xs)
  /-- every member of the result stems from a member of the input with the same key -/
  inductive DropsO : List (Bytes × J) → List (Bytes × J) → Prop where
    | nil (kvs : List (Bytes × J)) : DropsO [] kvs
    | cons {k : Bytes} {v' v : J} {rest kvs : List (Bytes × J)} :
        (k, v) ∈ kvs → Drops v' v → DropsO rest kvs → DropsO ((k, v') :: rest) kvs
end

mutual
  /-- The (dst, src) pairs on which assignability promises more than
  validation keeps (DESIGN §6 F9, F10), excluded from
  `filter_valid_of_assignable_partial`:
  * `map<d> ← map<s>` where `map<d>` is directory-like (keys must be legal
    file names) but `map<s>` is not (F9);
  * `map<d> ← struct` (undeclared extra members of the struct value are
    tolerated by struct validation but become members of the map) (F10). -/
  def noHole : (dst src : Ty) → Bool
    | .base _, _ => true
    | .user _, _ => true
    | .arr d, src =>
      match src with
      | .arr s => noHole d s
      | _ => true
    | .tmap d, src =>
      match src with
      | .tmap s => (!isDirMap d || isDirMap s) && noHole d s
      | .struct _ _ => false
      | _ => true
    | .struct _ fs, src =>
      match src with
      | .struct _ fs' => noHoleFields fs fs'
      | _ => true
  def noHoleFields : Fields → Fields → Bool
    | .nil, _ => true
    | .cons k t r, fs' =>
      (match fs'.get k with
        | none => true
        | some t' => noHole t t') && noHoleFields r fs'
end

mutual
  /-- `dst ← src` is a pure narrowing: nowhere along the assignment does an
  untyped `map` or a typed map take the place of a struct / typed map (those
  destinations filter LESS than the source type did, so filtering at the
  source type first is observable).  Hypothesis of `filter_narrow_chain`. -/
  def pureNarrow : (dst src : Ty) → Bool
    | .base d, src =>
      match src with
      | .struct _ _ => d != .map
      | .tmap _ => d != .map
      | _ => true
    | .user _, _ => true
    | .arr d, src =>
      match src with
      | .arr s => pureNarrow d s
      | _ => true
    | .tmap d, src =>
      match src with
      | .tmap s => pureNarrow d s
      | .struct _ _ => false
      | _ => true
    | .struct _ fs, src =>
      match src with
      | .struct _ fs' => pureNarrowFields fs fs'
      | _ => true
  def pureNarrowFields : Fields → Fields → Bool
    | .nil, _ => true
    | .cons k t r, fs' =>
      (match fs'.get k with
        | none => true
        | some t' => pureNarrow t t') && pureNarrowFields r fs'
end

/-- the two assignments that change the `(ArrayDim, MapDim)` shape of a
`TypeId`: untyped `map` from a typed map, and a typed map from a struct
(below equally many array dimensions).  Everywhere else assignable types have
equal `dims` (`dims_eq_of_assignable`). -/
def mapCoercion : (dst src : Ty) → Bool
  | .arr d, .arr s => mapCoercion d s
  | .base .map, .tmap _ => true
  | .tmap _, .struct _ _ => true
  | _, _ => false

/-! ## what filtering EXACTLY does to a value (audit C17-M1)

`Drops` above is type-agnostic: an upper bound ("every member of the result stems from a member of
the input").  `DropsT R t r v` is the typed, exact description of a non-fatal result `r` of filtering
`v` to `t`: nothing changes where the type cannot filter; at `int` an `int64` literal stays and any
other numeral may only be rewritten to the integer `R` relates it to; arrays keep their length and
typed maps keep their keys (in order), members filtered pointwise; a struct becomes EXACTLY its
declared members in declaration order, each present in the input (last wins) and filtered at the
member's type (or copied, where that type cannot filter) – undeclared members are what is dropped,
nothing else. -/
mutual
inductive DropsT (R : Num → Int → Prop) : Ty → J → J → Prop where
  | keep (t : Ty) (v : J) : canFilter t = false → DropsT R t v v
  | null (t : Ty) : DropsT R t .null .null
  | intLit (v : Int) : Num.inInt64 v = true → DropsT R (.base .int) (.num (.int v)) (.num (.int v))
  | intRewrite (n : Num) (i : Int) : R n i → DropsT R (.base .int) (.num (.int i)) (.num n)
  | arr (t : Ty) (xs ys : List J) : canFilter t = true → DropsTL R t ys xs → DropsT R (.arr t) (.arr ys) (.arr xs)
  | tmap (t : Ty) (kvs out : List (Bytes × J)) : canFilter t = true → DropsTM R t out kvs →
      DropsT R (.tmap t) (.obj out) (.obj kvs)
  | struct (n : Bytes) (fs : Fields) (kvs out : List (Bytes × J)) : DropsTF R fs kvs out →
      DropsT R (.struct n fs) (.obj out) (.obj kvs)
/-- pointwise, same length -/
inductive DropsTL (R : Num → Int → Prop) : Ty → List J → List J → Prop where
  | nil (t : Ty) : DropsTL R t [] []
  | cons {t : Ty} {y x : J} {ys xs : List J} : DropsT R t y x → DropsTL R t ys xs → DropsTL R t (y :: ys) (x :: xs)
/-- pointwise, same keys in the same order -/
inductive DropsTM (R : Num → Int → Prop) : Ty → List (Bytes × J) → List (Bytes × J) → Prop where
  | nil (t : Ty) : DropsTM R t [] []
  | cons {t : Ty} {k : Bytes} {y x : J} {ys xs : List (Bytes × J)} : DropsT R t y x → DropsTM R t ys xs →
      DropsTM R t ((k, y) :: ys) ((k, x) :: xs)
/-- the declared members, in declaration order, each looked up (last wins) in the input -/
inductive DropsTF (R : Num → Int → Prop) : Fields → List (Bytes × J) → List (Bytes × J) → Prop where
  | nil (kvs : List (Bytes × J)) : DropsTF R .nil kvs []
  | filtered {k : Bytes} {t : Ty} {r : Fields} {kvs out : List (Bytes × J)} {v y : J} :
      getKey k kvs = some v → canFilter t = true → DropsT R t y v → DropsTF R r kvs out →
      DropsTF R (.cons k t r) kvs ((k, y) :: out)
  | copied {k : Bytes} {t : Ty} {r : Fields} {kvs out : List (Bytes × J)} {v : J} :
      getKey k kvs = some v → canFilter t = false → DropsTF R r kvs out →
      DropsTF R (.cons k t r) kvs ((k, v) :: out)
end

/-- the exact-decimal model's int rewrite: the literal's value is that integer, within `int64` -/
def exactRewrite (n : Num) (i : Int) : Prop := n.intValue? = some i ∧ Num.inInt64 i = true

end Martian.Types

/-! # The same type system over numerals as Go reads them (float64 rounding)

`Martian.Types.check` / `filter` above decide "integral float" and "is a float"
on the exact decimal value of a literal.  The real code goes through
`strconv.ParseFloat`: `FilterJson` for `int` tests the ROUNDED float64 and
writes THAT integer, an integer-syntax literal outside `int64` takes the same
detour, and a literal beyond the largest finite float64 is no float at all.
`Martian.TypesR` is the same model with exactly these three base cases replaced
(`Num.goInt?`, `Num.finite64` of Martian/Json.lean); everything structural
(arrays, typed maps, structs, assignability, `noHole`) is shared.  The two models
agree on every value whose numerals are exactly representable
(`Num.exact64`). -/
namespace Martian.TypesR
open Martian.Json Martian.Types

def checkBase : Base → J → Verdict
  | _, .null => .ok
  | .string, .str _ | .path, .str _ | .file, .str _ => .ok
  | .int, .num (.int v) => if Num.inInt64 v then .ok else .error
  | .float, .num n => if n.finite64 then .ok else .error
  | .bool, .bool _ => .ok
  | .map, .obj _ => .ok
  | _, _ => .error

mutual
  /-- `Type.IsValidJson`, three-valued -/
  def check : Ty → J → Verdict
    | .base b, v => checkBase b v
    | .user _, v =>
      match v with
      | .null | .str _ => .ok
      | _ => .alarm
    | .arr t, v =>
      match v with
      | .null => .ok
      | .arr xs => worst (xs.map (fun x => check t x))
      | _ => .error
    | .tmap t, v =>
      match v with
      | .null => .ok
      | .obj kvs =>
        worst (kvs.map (fun kv =>
          (check t kv.2).max (if isDirMap t && !legalName kv.1 then .error else .ok)))
      | _ => .error
    | .struct _ fs, v =>
      match v with
      | .null => .ok
      | .obj kvs => checkFields fs kvs
      | _ => .error
  def checkFields : Fields → List (Bytes × J) → Verdict
    | .nil, _ => .ok
    | .cons k t r, kvs =>
      (match getKey k kvs with
        | none => Verdict.error
        | some v => check t v).max (checkFields r kvs)
end

def valid (t : Ty) (v : J) : Bool := check t v == .ok

def filterBase : Base → J → J × FErr
  | _, .null => (.null, .ok)
  | .string, .str s => (.str s, .ok)
  | .path, .str s => (.str s, .ok)
  | .file, .str s => (.str s, .ok)
  | .float, .num n => (.num n, if n.finite64 then .ok else .fatal)
  | .bool, .bool b => (.bool b, .ok)
  | .map, .obj kvs => (.obj kvs, .ok)
  | .int, .num n =>
    -- `int64` parse (integer syntax, in range), else the float64 detour
    match n with
    | .int v =>
      if Num.inInt64 v then (.num (.int v), .ok)
      else match (Num.int v).goInt? with
        | some i => (.num (.int i), .soft)
        | none => (.num (.int v), .fatal)
    | .flt m e =>
      match (Num.flt m e).goInt? with
      | some i => (.num (.int i), .soft)
      | none => (.num (.flt m e), .fatal)
  | _, v => (v, .fatal)

mutual
  /-- `Type.FilterJson` -/
  def filter : Ty → J → J × FErr
    | .base b, v => filterBase b v
    | .user _, v =>
      match v with
      | .null | .str _ => (v, .ok)
      | _ => (v, .soft)
    | .arr t, v =>
      if !canFilter t then (v, .ok) else
      match v with
      | .null => (v, .ok)
      | .arr xs =>
        (.arr (xs.map (fun x => (filter t x).1)), worstF (xs.map (fun x => (filter t x).2)))
      | _ => (v, .fatal)
    | .tmap t, v =>
      if !canFilter t then (v, .ok) else
      match v with
      | .null => (v, .ok)
      | .obj kvs =>
        (.obj (kvs.map (fun kv => (kv.1, (filter t kv.2).1))),
         worstF (kvs.map (fun kv => (filter t kv.2).2)))
      | _ => (v, .fatal)
    | .struct _ fs, v =>
      match v with
      | .null => (v, .ok)
      | .obj kvs => (.obj (filterFields fs kvs).1, (filterFields fs kvs).2)
      | _ => (v, .fatal)
  def filterFields : Fields → List (Bytes × J) → List (Bytes × J) × FErr
    | .nil, _ => ([], .ok)
    | .cons k t r, kvs =>
      let rest := filterFields r kvs
      match getKey k kvs with
      | none => ((k, .null) :: rest.1, .fatal)
      | some v =>
        if canFilter t then ((k, (filter t v).1) :: rest.1, (filter t v).2.max rest.2)
        else ((k, v) :: rest.1, rest.2)
end

/-- "The values of the declared shape" – as `Martian.Types.Shape`, a float must
be finite in binary64. -/
inductive Shape : Ty → J → Prop where
  | null (t : Ty) : Shape t .null
  | string (s : Bytes) : Shape (.base .string) (.str s)
  | path (s : Bytes) : Shape (.base .path) (.str s)
  | file (s : Bytes) : Shape (.base .file) (.str s)
  | int (v : Int) : Num.inInt64 v = true → Shape (.base .int) (.num (.int v))
  | float (n : Num) : n.finite64 = true → Shape (.base .float) (.num n)
  | bool (b : Bool) : Shape (.base .bool) (.bool b)
  | map (kvs : List (Bytes × J)) : Shape (.base .map) (.obj kvs)
  | user (n s : Bytes) : Shape (.user n) (.str s)
  | arr (t : Ty) (xs : List J) : (∀ x, x ∈ xs → Shape t x) → Shape (.arr t) (.arr xs)
  | tmap (t : Ty) (kvs : List (Bytes × J)) :
      (∀ kv, kv ∈ kvs → Shape t kv.2) →
      (isDirMap t = true → ∀ kv, kv ∈ kvs → legalName kv.1 = true) →
      Shape (.tmap t) (.obj kvs)
  | struct (n : Bytes) (fs : Fields) (kvs : List (Bytes × J)) :
      (∀ k t, (k, t) ∈ fs.toList → (getKey k kvs).isSome = true) →
      (∀ k t v, (k, t) ∈ fs.toList → getKey k kvs = some v → Shape t v) →
      Shape (.struct n fs) (.obj kvs)

mutual
  /-- `Drops r v`: `r` is `v` except that object members may have been dropped
  (and reordered) and a numeral that is no `int64` literal may have been
  rewritten as the integer its float64 rounding is (`Num.goInt?`). -/
  inductive Drops : J → J → Prop where
    | refl (v : J) : Drops v v
    | int (n : Num) (i : Int) : n.goInt? = some i → Drops (.num (.int i)) (.num n)
    | arr {xs' xs : List J} : DropsL xs' xs → Drops (.arr xs') (.arr xs)
    | obj {kvs' kvs : List (Bytes × J)} : DropsO kvs' kvs → Drops (.obj kvs') (.obj kvs)
  inductive DropsL : List J → List J → Prop where
    | nil : DropsL [] []
    | cons {x' x : J} {xs' xs : List J} : Drops x' x → DropsL xs' xs → DropsL (x' :: xs') (x :: xs)
  inductive DropsO : List (Bytes × J) → List (Bytes × J) → Prop where
    | nil (kvs : List (Bytes × J)) : DropsO [] kvs
    | cons {k : Bytes} {v' v : J} {rest kvs : List (Bytes × J)} :
        (k, v) ∈ kvs → Drops v' v → DropsO rest kvs → DropsO ((k, v') :: rest) kvs
end

end Martian.TypesR

