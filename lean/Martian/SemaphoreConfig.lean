/-
C12 model: how `NewLocalJobManager` arrives at the three limits
(martian/core/jobmanager_local.go: `setMaxCores`, `setMaxMem`) from the user's
flags (`--localcores`, `--localmem`, `--localvmem`; 0 = not given) and what it
observes of the machine.  Pure functions; the observations are inputs:

* `numCPU` (`runtime.NumCPU()`), `total` / `actualFree` (`MemInfo`, bytes),
  `cgMem` / `cgUse` (`util.GetCgroupMemoryLimit`, bytes, 0 = no cgroup limit),
  `vmemLimit` = `CheckMaxVmem(…)` (bytes; the address-space rlimit, 0 = unlimited),
  `highVmem` = `self.highMem.Vmem` (bytes; mrp's own address space as recorded so
  far — `NewLocalJobManager` calls `setMaxMem` BEFORE `setupSemaphores` records
  it, so it is 0 there);
* the job settings `threadsPerJob`, `memGBPerJob` of jobmanagers/config.json.

The one float expression, `int(float64(Total) * MAXMEM_FRACTION / 1073741824)`
with the fraction 0.9 (0.96 under a cgroup limit with less free than the
machine), is modelled on integers as `total * 90 / 100 / 2^30` (`* 96`): exact
except within a rounding error of a whole GB boundary.  Core Lean only.
-/
import Martian.Semaphore

namespace Martian.SemaphoreConfig
open Martian.Semaphore

structure Flags where
  cores : Int        -- --localcores
  memGB : Int        -- --localmem
  vmemGB : Int       -- --localvmem
  cluster : Bool     -- a cluster job mode is in use (local stages only)
deriving Repr, DecidableEq

structure Machine where
  numCPU : Int
  total : Int
  actualFree : Int
  cgMem : Int
  cgUse : Int
  vmemLimit : Int
  highVmem : Int
  threadsPerJob : Int
  memGBPerJob : Int
deriving Repr, DecidableEq

def GB : Int := 1024 * 1024 * 1024
def MB : Int := 1024 * 1024

/-- `setMaxCores` -/
def setMaxCoresModel (f : Flags) (m : Machine) : Int :=
  if f.cores > 0 then f.cores
  else if f.cluster then m.threadsPerJob
  else m.numCPU

/-- the cgroup adjustment of `sysMem` in the no-`--localmem` branch:
(total, actualFree, fraction in percent) -/
def cgAdjust (m : Machine) : Int × Int × Int :=
  if m.cgMem > 0 ∧ m.cgMem < m.total then
    if m.cgUse < m.cgMem ∧ m.cgMem - m.cgUse < m.actualFree then (m.cgMem, m.cgMem - m.cgUse, 96)
    else (m.cgMem, m.actualFree, 90)
  else (m.total, m.actualFree, 90)

/-- `self.maxMemGB` after `setMaxMem` -/
def maxMemGBModel (f : Flags) (m : Machine) : Int :=
  if f.memGB > 0 then f.memGB
  else
    let a := cgAdjust m
    if f.cluster then
      let g := (a.2.1 + (MB - 1)) / GB
      let g := if m.memGBPerJob < g then m.memGBPerJob else g
      if g < 1 then 1 else g
    else
      let g := a.1 * a.2.2 / 100 / GB
      if g < 1 then 1 else g

/-- `self.maxVmemMB` after `setMaxMem` -/
def maxVmemMBModel (f : Flags) (m : Machine) : Int :=
  let v0 := m.vmemLimit / MB
  let v1 := if v0 = 0 ∨ f.vmemGB * 1024 < v0 then f.vmemGB * 1024 else v0
  let self := m.highVmem / MB
  if self + 1024 < v1 then v1 - self else v1

/-- the configuration `NewLocalJobManager` produces (`extraVmemGB` from the settings) -/
def setMaxModel (f : Flags) (m : Machine) (extraVmemGB : Int) : LocalCfg :=
  ⟨setMaxCoresModel f m, maxMemGBModel f m, maxVmemMBModel f m, m.threadsPerJob, m.memGBPerJob, extraVmemGB⟩

end Martian.SemaphoreConfig
