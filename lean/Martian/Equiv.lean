/-
C15 model: martian/syntax/equivalence.go (`Ast.EquivalentCall`,
`CallStm.EquivalentTo`, `BindStms.Equals`, `Modifiers.EquivalentTo`,
`InParams.Equals`, `OutParams.Equals`, `Pipeline.EquivalentTo`,
`Stage.EquivalentTo`, `Exp.equal`) on *compiled* ASTs, the specification `sem`
(the AST with everything cosmetic erased and every name resolved), and the
pipestance lock of martian/core/pipestance.go (`Lock`/`Unlock`/`HandleSignal`).

What a compiled AST is here (enforced by `wf`, checked by the driver on every
AST the harness sends):
* Go maps (`Table`, `MapExp.Value`) are association lists with distinct keys,
  handed over in arbitrary order; `Table[k]` is `lookupL`;
* no nil receivers (the parser always allocates `Modifiers`, compile rejects
  unknown callables), no wildcard `*` bindings, no `RefExp.Forks`/`MergeExp`/
  `DisabledExp` (these exist only after call-graph resolution);
* float literals: `whole v` = an integral float with |v| < 2^49 (so Go's
  `float64(int)` conversion and its 1e-15 relative tolerance are exact), any
  other float is identified by its IEEE bits.  DEVIATION (documented, monitored
  by the harness): Go accepts two floats within relative 1e-15; the model
  compares bits.

Core Lean only.
-/
import Martian.SortKeys

namespace Martian.Equiv
open Martian.SortKeys

/-! ## expressions -/

inductive FloatLit
  | whole (v : Int)
  | bits (b : Nat)
  deriving DecidableEq, Repr

inductive Atom
  | null
  | str (s : Key)
  | bool (b : Bool)
  | int (v : Int)
  | float (f : FloatLit)
  /-- `RefExp`: kind 0 = `self`, 1 = call; `OutputId` is the dotted path. -/
  | ref (kind : Nat) (id : Key) (outputId : Key)
  deriving DecidableEq, Repr

/-- Value expressions.  Arrays and map/struct literals are cons-spines inside
the same type (`acons x rest`, `mcons k v rest`) so that recursion and
induction stay structural. `[a, b]` is `acons a (acons b anil)`. -/
inductive Exp
  | atom (a : Atom)
  | split (e : Exp)
  | anil
  | acons (x rest : Exp)
  | mnil
  | mcons (k : Key) (v rest : Exp)
  deriving DecidableEq, Repr

/-- `StringExp/BoolExp/IntExp/FloatExp/NullExp/RefExp.equal`. -/
def Atom.equal : Atom → Atom → Bool
  | .null, .null => true
  | .str a, .str b => a == b
  | .bool a, .bool b => a == b
  | .int a, .int b => a == b
  | .int a, .float (.whole b) => a == b          -- other.Value == float64(exp.Value)
  | .float (.whole a), .int b => a == b          -- float64(other.Value) == exp.Value
  | .float a, .float b => a == b                 -- (Go: relative tolerance 1e-15, see header)
  | .ref k i o, .ref k' i' o' => k == k' && i == i' && o == o'
  | _, _ => false

def isArr : Exp → Bool
  | .anil => true
  | .acons _ _ => true
  | _ => false

def isMap : Exp → Bool
  | .mnil => true
  | .mcons _ _ _ => true
  | _ => false

/-- the entries of a map spine, as the association list standing for the Go map -/
def kvs : Exp → List (Key × Exp)
  | .mcons k v r => (k, v) :: kvs r
  | _ => []

def mlen : Exp → Nat
  | .mcons _ _ r => mlen r + 1
  | _ => 0

/-- `other.Value[k]` -/
def mlookup (k : Key) : Exp → Option Exp
  | .mcons k' v r => if k == k' then some v else mlookup k r
  | _ => none

mutual
/-- `Exp.equal` (nil error = true). -/
def Exp.equal : Exp → Exp → Bool
  | .atom a, .atom b => a.equal b
  | .split e, .split e' => e.equal e'                 -- SplitExp.equal: values only
  | .anil, .anil => true                              -- ArrayExp.equal: same length, pointwise
  | .acons x r, .acons y s => x.equal y && r.equal s
  | .mnil, o => isMap o && mlen o == 0                -- MapExp.equal: other is a MapExp, same size,
  | .mcons k v r, o =>                                --   every key of mine present and equal
      isMap o && (mlen r + 1 == mlen o) &&
      (mlookup k o).any (fun v' => v.equal v') && allIn r o
  | _, _ => false
/-- the `for k, v := range exp.Value` loop of `MapExp.equal` -/
def allIn : Exp → Exp → Bool
  | .mcons k v r, o =>
      (mlookup k o).any (fun v' => v.equal v') && allIn r o
  | _, _ => true
end

/-- well-formed: spines are terminated properly, map keys are distinct -/
def Exp.wf : Exp → Bool
  | .atom _ => true
  | .split e => e.wf
  | .anil => true
  | .acons x r => x.wf && r.wf && isArr r
  | .mnil => true
  | .mcons k v r => v.wf && r.wf && isMap r && !((kvs r).any (fun q => q.1 == k))

/-! ### meaning of expressions -/

inductive SemAtom
  | null
  | str (s : Key)
  | bool (b : Bool)
  /-- a number with an integral value (written as int or as float) -/
  | num (v : Int)
  | fnum (bits : Nat)
  | ref (kind : Nat) (id : Key) (outputId : Key)
  deriving DecidableEq, Repr

inductive SemExp
  | atom (a : SemAtom)
  | split (e : SemExp)
  | arr (xs : List SemExp)
  /-- map/struct literal: entries sorted by key -/
  | map (kvs : List (Key × SemExp))

def Atom.sem : Atom → SemAtom
  | .null => .null
  | .str s => .str s
  | .bool b => .bool b
  | .int v => .num v
  | .float (.whole v) => .num v
  | .float (.bits b) => .fnum b
  | .ref k i o => .ref k i o

mutual
def Exp.sem : Exp → SemExp
  | .atom a => .atom a.sem
  | .split e => .split e.sem
  | .anil => .arr []
  | .acons x r => .arr (x.sem :: semArr r)
  | .mnil => .map []
  | .mcons k v r => .map (sortK ((k, v.sem) :: semMap r))
def semArr : Exp → List SemExp
  | .acons x r => x.sem :: semArr r
  | _ => []
def semMap : Exp → List (Key × SemExp)
  | .mcons k v r => (k, v.sem) :: semMap r
  | _ => []
end

/-! ## parameters -/

/-- `InParam`/`OutParam` without its id: `Tname` (base name, ArrayDim, MapDim),
`IsFile()` (0 not-file, 1 may-contain-paths, 2 file, 3 directory), `OutName`. -/
structure Param where
  tname : Key
  arrayDim : Nat
  mapDim : Nat
  fileKind : Nat
  outName : Key
  deriving DecidableEq, Repr

/-- loop body of `InParams.Equals` -/
def inParamEq (x y : Param) : Bool :=
  x.arrayDim == y.arrayDim && x.fileKind == y.fileKind &&
  (x.fileKind == 2 || (x.tname == y.tname && x.arrayDim == y.arrayDim && x.mapDim == y.mapDim))

/-- loop body of `OutParams.Equals(other, checkOutNames)` -/
def outParamEq (chk : Bool) (x y : Param) : Bool :=
  inParamEq x y &&
  !((x.fileKind == 2 || x.fileKind == 3) && chk && x.outName != y.outName)

structure SemParam where
  arrayDim : Nat
  fileKind : Nat
  /-- base type name and map-ness; erased for scalar file types -/
  ty : Option (Key × Nat)
  /-- explicit output file name; only for pipeline outputs of file/directory kind -/
  outName : Option Key
  deriving DecidableEq, Repr

def semIn (p : Param) : SemParam :=
  { arrayDim := p.arrayDim, fileKind := p.fileKind,
    ty := if p.fileKind == 2 then none else some (p.tname, p.mapDim), outName := none }

def semOut (chk : Bool) (p : Param) : SemParam :=
  { semIn p with outName := if (p.fileKind == 2 || p.fileKind == 3) && chk then some p.outName else none }

/-! ## calls and callables -/

/-- `Modifiers`: `hasTable` = `Bindings != nil && Bindings.Table != nil` (a
non-empty `using (...)` list); `disabled` = `Bindings.Table["disabled"].Exp`. -/
structure Mods where
  isLocal : Bool
  preflight : Bool
  volatile : Bool
  hasTable : Bool
  disabled : Option Exp
  deriving Repr

/-- `Modifiers.EquivalentTo` for two non-nil receivers.  `selfCompare` is the
regenerated fact "the second lookup reads `mods.Bindings.Table[disabled]`
instead of `other.…`" (defect F11). -/
def Mods.equiv (selfCompare : Bool) (m o : Mods) : Bool :=
  if m.isLocal != o.isLocal || m.preflight != o.preflight then false
  else match m.disabled with
    | some b =>
      if !o.hasTable then false
      else match (if selfCompare then m.disabled else o.disabled) with
        | none => false
        | some ob => b.equal ob
    | none => o.disabled.isNone

def Mods.wf (m : Mods) : Bool :=
  match m.disabled with
  | some e => m.hasTable && e.wf
  | none => true

structure Call where
  id : Key
  decId : Key
  binds : List (Key × Exp)
  mods : Mods
  deriving Repr

inductive Callable
  | stage (split : Bool) (ins outs : List (Key × Param))
  | pipeline (ins outs : List (Key × Param)) (calls : List Call) (ret : List (Key × Exp))
  deriving Repr

/-- `Callables.Table` -/
abbrev Tab := List (Key × Callable)

/-- the id of a wildcard binding `* = X`.  On the compiled AST `BindStms.List` is
[explicit bindings…, the `*` entry, one synthetic binding per expanded
parameter…]; `Table` holds everything but the `*` entry. -/
def star : Key := [42]

def nonstar (l : List (Key × Exp)) : List (Key × Exp) := l.filter (fun p => p.1 != star)

/-- `BindStms.Equals`: same `len(List)`; every entry of mine except the `*`
entry itself is found in the other's `Table` and `BindStm.Equals` it. -/
def bindsEq (a b : List (Key × Exp)) : Bool :=
  a.length == b.length &&
  a.all (fun p => p.1 == star || (lookupL p.1 b).any (fun v' => p.2.equal v'))

def bindsWf (l : List (Key × Exp)) : Bool := nodupKeys (nonstar l) && l.all (fun p => p.2.wf)

def Call.wf (c : Call) : Bool := bindsWf c.binds && c.mods.wf

def keyed (cs : List Call) : List (Key × Call) := cs.map fun c => (c.id, c)

def Callable.insLen : Callable → Nat
  | .stage _ i _ => i.length
  | .pipeline i _ _ _ => i.length

/-- compile binds every input parameter of the callee exactly once (explicitly
or through the wildcard expansion) -/
def Call.completeIn (T : Tab) (c : Call) : Bool :=
  match lookupL c.decId T with
  | some x => (nonstar c.binds).length == x.insLen
  | none => (nonstar c.binds).length == c.binds.length

def Callable.wfIn (T : Tab) : Callable → Bool
  | .stage _ i o => nodupKeys i && nodupKeys o
  | .pipeline i o cs r => nodupKeys i && nodupKeys o && nodupKeys (keyed cs) &&
      cs.all Call.wf && bindsWf r &&
      (nonstar r).length == o.length &&          -- every output is returned exactly once
      cs.all (Call.completeIn T)

def Tab.wf (t : Tab) : Bool := t.all (fun p => p.2.wfIn t)

/-- `Stage.EquivalentTo` / `Pipeline.EquivalentTo`; `rec` is `CallStm.EquivalentTo`
on the sub-calls. -/
def equivCallable (rec : Call → Call → Bool) : Callable → Callable → Bool
  | .stage s i o, .stage s' i' o' =>
      s == s' && matchAll inParamEq i i' && matchAll (outParamEq false) o o'
  | .pipeline i o cs r, .pipeline i' o' cs' r' =>
      matchAll inParamEq i i' && matchAll (outParamEq true) o o' &&
      bindsEq r r' &&                             -- Ret.Bindings.Equals
      matchAll rec (keyed cs) (keyed cs')         -- len(Calls) equal; oCalls[call.Id] equivalent
  | _, _ => false

/-- `CallStm.EquivalentTo`; the recursion through the callable tables is bounded
by `fuel` (compile rejects recursive pipelines; at fuel 0 nothing is compared). -/
def equivCall (selfCompare : Bool) : Nat → Tab → Tab → Call → Call → Bool
  | 0, _, _, _, _ => true
  | n + 1, T, U, c, d =>
      c.id == d.id && bindsEq c.binds d.binds && c.mods.equiv selfCompare d.mods &&
      (match lookupL c.decId T, lookupL d.decId U with
       | none, none => true
       | some x, some y => equivCallable (equivCall selfCompare n T U) x y
       | _, _ => false)

/-! ### meaning of a call: the unfolded tree, cosmetic parts erased -/

inductive Sem
  | cut
  | missing
  | stage (split : Bool) (ins outs : List (Key × SemParam))
  | pipeline (ins outs : List (Key × SemParam)) (ret : List (Key × SemExp) × Nat) (calls : List (Key × Sem))
  | call (id : Key) (binds : List (Key × SemExp) × Nat) (isLocal preflight : Bool)
      (disabled : Option SemExp) (callee : Sem)

/-- meaning of a binding list: the bound values by parameter (explicit and
wildcard-expanded alike), and how many `*` entries the list carries (the code
compares `len(List)`, so "written with a wildcard" is part of what it compares) -/
def semBinds (l : List (Key × Exp)) : List (Key × SemExp) × Nat :=
  (sortK ((nonstar l).map fun p => (p.1, p.2.sem)), l.length - (nonstar l).length)

def semCallable (rec : Call → Sem) : Callable → Sem
  | .stage s i o =>
      .stage s (sortK (i.map fun p => (p.1, semIn p.2))) (sortK (o.map fun p => (p.1, semOut false p.2)))
  | .pipeline i o cs r =>
      .pipeline (sortK (i.map fun p => (p.1, semIn p.2))) (sortK (o.map fun p => (p.1, semOut true p.2)))
        (semBinds r) (sortK ((keyed cs).map fun p => (p.1, rec p.2)))

/-- What would run: call name, bindings, local/preflight, the disabling
condition, and the meaning of the callee (looked up by `DecId`; its own name,
source location, comments, include file, `volatile`, `retain`, resources, `src`
and chunk parameters do not appear). -/
def semCall : Nat → Tab → Call → Sem
  | 0, _, _ => .cut
  | n + 1, T, c =>
      .call c.id (semBinds c.binds) c.mods.isLocal c.mods.preflight (c.mods.disabled.map Exp.sem)
        (match lookupL c.decId T with
         | none => .missing
         | some x => semCallable (semCall n T) x)

structure Prog where
  tab : Tab
  call : Call
  deriving Repr

def Prog.wf (p : Prog) : Bool := p.tab.wf && p.call.wf && p.call.completeIn p.tab

def Prog.fuel (a b : Prog) : Nat := a.tab.length + b.tab.length + 1

/-- `Ast.EquivalentCall` -/
def equivalentCall (selfCompare : Bool) (a b : Prog) : Bool :=
  equivCall selfCompare (Prog.fuel a b) a.tab b.tab a.call b.call

/-! ## the pipestance lock -/

/-- `lockFile`: `_lock` exists in the pipestance directory; `holders`: the mrp
processes (ids) whose `Lock()` succeeded and that have neither unlocked nor
died; `registered`: the processes that have this pipestance registered with
`util.RegisterSignalHandler` (its `HandleSignal` = `unlock()` runs when the
process dies through a handled signal or `util.DieIf`/`Suicide`). -/
structure LockState where
  lockFile : Bool
  holders : List Nat
  registered : List Nat
  deriving DecidableEq, Repr

inductive LockOp
  | lock (p : Nat)      -- Pipestance.Lock by process p (an attach for writing)
  | unlock (p : Nat)    -- Pipestance.Unlock by process p
  | signal (p : Nat)    -- process p dies through the signal-handler path (SIGINT/SIGTERM, DieIf, Suicide)
  deriving DecidableEq, Repr

/-- returns the new state and whether the operation succeeded (`Lock` = nil error).
`regFirst` is the regenerated fact "`RegisterSignalHandler` is called before the
`_lock`-exists check in `Pipestance.Lock`" (then a refused attacher stays registered). -/
def lockStep (regFirst : Bool) (s : LockState) : LockOp → LockState × Bool
  | .lock p =>
      if s.lockFile then                                              -- PipestanceLockedError
        ({ s with registered := if regFirst then p :: s.registered else s.registered }, false)
      else ({ lockFile := true, holders := p :: s.holders, registered := p :: s.registered }, true)
  | .unlock p =>                                                      -- unlock(); UnregisterSignalHandler
      ({ lockFile := false, holders := s.holders.filter (· != p),
         registered := s.registered.filter (· != p) }, true)
  | .signal p =>                                                      -- every registered HandleSignal: unlock()
      ({ lockFile := if s.registered.contains p then false else s.lockFile,
         holders := s.holders.filter (· != p), registered := s.registered.filter (· != p) }, true)

/-- what processes may do: attach when they do not hold the pipestance, unlock
only what they hold; ANY process (also one whose attach was refused) may die -/
def disciplined (s : LockState) : LockOp → Bool
  | .lock p => !s.holders.contains p
  | .unlock p => s.holders.contains p
  | .signal _ => true

def lockRun (regFirst : Bool) : LockState → List LockOp → Option LockState
  | s, [] => some s
  | s, op :: r => if disciplined s op then lockRun regFirst (lockStep regFirst s op).1 r else none

def lockInit : LockState := { lockFile := false, holders := [], registered := [] }

end Martian.Equiv
