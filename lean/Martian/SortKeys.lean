/-
Shared by C10 and C15: keys (identifier / map-key byte strings as `List Nat`),
their lexicographic order (= Go's `<` on strings = `sort.Strings` order, byte
by byte), sorting of association lists by key, and the lookup-based "every
entry of mine is matched in the other table" comparison that
`martian/syntax/equivalence.go` uses for bindings, parameters, calls and map
literals.

Core Lean only (no Mathlib) so the driver links natively.
-/
namespace Martian.SortKeys

/-- A Go string, as its bytes. -/
abbrev Key := List Nat

/-- Lexicographic `≤` (Go: `a <= b` on strings). -/
def keyLe : Key → Key → Bool
  | [], _ => true
  | _ :: _, [] => false
  | a :: as, b :: bs => a < b || (a == b && keyLe as bs)

/-- `sort.Strings` / `sort.Slice(.., keys[i] < keys[j])` on the keys of an
association list (a Go map handed over in *arbitrary* order). -/
def sortK {V : Type} (l : List (Key × V)) : List (Key × V) :=
  l.mergeSort (fun p q => keyLe p.1 q.1)

/-- `sort.Strings` on bare keys. -/
def sortKeys (l : List Key) : List Key := l.mergeSort keyLe

/-- Go map lookup `m[k]` on the association-list model (first hit). -/
def lookupL {V : Type} (k : Key) : List (Key × V) → Option V
  | [] => none
  | (k', v) :: r => if k == k' then some v else lookupL k r

/-- The comparison shape used throughout `equivalence.go`:
`len(other) == len(mine)` and every entry of mine is found in the other's
table and is pairwise equivalent. -/
def matchAll {V : Type} (eqv : V → V → Bool) (a b : List (Key × V)) : Bool :=
  a.length == b.length &&
  a.all (fun p => (lookupL p.1 b).any (eqv p.2))

/-- keys are pairwise distinct (what a Go map guarantees) -/
def nodupKeys {V : Type} (l : List (Key × V)) : Bool :=
  match l with
  | [] => true
  | (k, _) :: r => !(r.any (fun q => q.1 == k)) && nodupKeys r

end Martian.SortKeys
