/-
C08 model: the lexer → converter contract of martian/syntax.

* the three regexp token rules of tokenizer.go (`tokIntRule`, `tokFloatRule`,
  `tokStringRule`) as executable recognisers over bytes.  Each recogniser
  returns the *matched token* (a prefix of the input) exactly as Go's
  leftmost-first `regexp.Find` does for the regex source strings recorded
  below (`intRuleSrc`, …); `Gen.tokIntRegex` … are re-read from the source on
  every run and must equal these strings (Props/C08.lean).
* the converters of parsenum.go / string_intern.go as `Option`-valued
  functions: `none` = the Go function panics.
* the numeric branch of `keywordToken` (which decides NUM_FLOAT / NUM_INT /
  INVALID), the `src_stm` grammar action and the `Lex` skip loop.

Core Lean only.
-/
namespace Martian.Lexer

abbrev Bytes := List UInt8

/-! ## character classes (Go regexp, ASCII only: `\d`, `\w`, `\b`, `[[:xdigit:]]`) -/

def isDigit (b : UInt8) : Bool := 0x30 ≤ b && b ≤ 0x39
def isOct (b : UInt8) : Bool := 0x30 ≤ b && b ≤ 0x37
def isHex (b : UInt8) : Bool :=
  isDigit b || (0x41 ≤ b && b ≤ 0x46) || (0x61 ≤ b && b ≤ 0x66)
def isWord (b : UInt8) : Bool :=
  isDigit b || (0x41 ≤ b && b ≤ 0x5A) || (0x61 ≤ b && b ≤ 0x7A) || b == 0x5F

/-- `\b` directly after a word character: end of input or a non-word byte
(non-ASCII and invalid bytes are not word characters for Go's regexp). -/
def boundary : Bytes → Bool
  | [] => true
  | c :: _ => !isWord c

/-- maximal run of digits, and the rest -/
def spanDigits : Bytes → Bytes × Bytes
  | [] => ([], [])
  | c :: r => if isDigit c then let (d, t) := spanDigits r; (c :: d, t) else ([], c :: r)

/-- optional leading `-` -/
def optMinus : Bytes → Bytes × Bytes
  | c :: r => if c == 0x2D then ([c], r) else ([], c :: r)
  | [] => ([], [])

/-! ## tokIntRule -/

def intRuleSrc : String := "^-?0*\\d{1,19}\\b"

/-- `^-?0*\d{1,19}\b`: the digit run must be maximal and end at a word
boundary (`\b`), and after dropping leading zeros (`0*`) at most 19 digits may
remain (an all-zero run matches with `\d{1,19}` taking the last zero). -/
def matchInt (b : Bytes) : Option Bytes :=
  let (sg, r) := optMinus b
  let (ds, rest) := spanDigits r
  if ds ≠ [] && (ds.dropWhile (· == 0x30)).length ≤ 19 && boundary rest then some (sg ++ ds)
  else none

/-! ## tokFloatRule

`colon = true` is the rule as shipped (`(:?` – a capture group starting with
an optional colon); `colon = false` is the intended `(?:`. -/

def floatRuleSrcColon : String := "^-?\\d+(:?(?:\\.\\d+)?[eE][+-]?|\\.)\\d+\\b"
def floatRuleSrc : String := "^-?\\d+(?:(?:\\.\\d+)?[eE][+-]?|\\.)\\d+\\b"

def optSign : Bytes → Bytes × Bytes
  | c :: r => if c == 0x2B || c == 0x2D then ([c], r) else ([], c :: r)
  | [] => ([], [])

/-- `[eE][+-]?\d+\b` -/
def expPart : Bytes → Option Bytes
  | c :: t =>
    if c == 0x65 || c == 0x45 then
      let (sg, t1) := optSign t
      let (d3, t2) := spanDigits t1
      if d3 ≠ [] && boundary t2 then some (c :: (sg ++ d3)) else none
    else none
  | [] => none

/-- first alternative after the integer part: `(?:\.\d+)?[eE][+-]?\d+\b` -/
def fracExp : Bytes → Option Bytes
  | 0x2E :: t =>
    let (d2, t2) := spanDigits t
    if d2 ≠ [] then (expPart t2).map fun e => 0x2E :: (d2 ++ e) else none
  | t => expPart t

/-- second alternative: `\.\d+\b` -/
def fracOnly : Bytes → Option Bytes
  | 0x2E :: t =>
    let (d2, t2) := spanDigits t
    if d2 ≠ [] && boundary t2 then some (0x2E :: d2) else none
  | _ => none

def matchFloat (colon : Bool) (b : Bytes) : Option Bytes :=
  let (sg, r) := optMinus b
  let (d1, r1) := spanDigits r
  if d1 = [] then none else
  let alt1 : Option Bytes :=
    match colon, r1 with
    | true, 0x3A :: t => (fracExp t).map (0x3A :: ·)
    | _, _ => fracExp r1
  match alt1 with
  | some t => some (sg ++ d1 ++ t)
  | none => (fracOnly r1).map fun t => sg ++ d1 ++ t

/-! ## tokStringRule -/

def stringRuleSrc : String :=
  "^\"(?:[^\\\\\"]|\\\\(?:[abfnrtv\\\\\"/]|[0-7]{3}|x[[:xdigit:]]{2}|u[[:xdigit:]]{4}|U[[:xdigit:]]{8}))*\""

/-- What the rule demands after `\c`: the number of further bytes and whether
they are hex (`true`) or octal (`false`) digits; `none` = not an escape. -/
def ruleEsc (c : UInt8) : Option (Nat × Bool) :=
  if c == 0x61 || c == 0x62 || c == 0x66 || c == 0x6E || c == 0x72 || c == 0x74 || c == 0x76
      || c == 0x5C || c == 0x22 || c == 0x2F then some (0, true)
  else if isOct c then some (2, false)
  else if c == 0x78 then some (2, true)
  else if c == 0x75 then some (4, true)
  else if c == 0x55 then some (8, true)
  else none

def digitsOK (hex : Bool) (ds : Bytes) : Bool := ds.all (if hex then isHex else isOct)

/-- Scan a string body (input just after the opening quote).  Returns the
body up to, not including, the closing quote.  `fuel` ≥ length suffices. -/
def scanBody : Nat → Bytes → Option Bytes
  | 0, _ => none
  | _ + 1, [] => none
  | f + 1, c :: r =>
    if c == 0x22 then some []
    else if c == 0x5C then
      match r with
      | [] => none
      | c2 :: r2 =>
        match ruleEsc c2 with
        | none => none
        | some (k, hex) =>
          if (r2.take k).length == k && digitsOK hex (r2.take k) then
            (scanBody f (r2.drop k)).map fun body => c :: c2 :: (r2.take k ++ body)
          else none
    else (scanBody f r).map (c :: ·)

def matchString (b : Bytes) : Option Bytes :=
  match b with
  | 0x22 :: r => (scanBody (r.length + 1) r).map fun body => 0x22 :: (body ++ [0x22])
  | _ => none

/-! ## parsenum.go `parseInt`

`none` = panic.  `n` is a Go `uint64`: `10*n + d` wraps modulo 2^64. -/

def cutoff : Nat := 2 ^ 63

def parseIntLoop (neg : Bool) : Nat → Bytes → Option Nat
  | n, [] => some n
  | n, c :: r =>
    if c < 0x30 || c > 0x39 then none else
    let n1 := (10 * n + (c.toNat - 48)) % 2 ^ 64
    if n1 < n || n1 > cutoff || (!neg && n1 == cutoff) then none
    else parseIntLoop neg n1 r

def parseInt (s : Bytes) : Option Int :=
  match s with
  | [] => none
  | c :: r =>
    let nd : Bool × Bytes :=
      if c == 0x2B then (false, r) else if c == 0x2D then (true, r) else (false, c :: r)
    if nd.2 = [] then none else
    match parseIntLoop nd.1 0 nd.2 with
    | none => none
    | some n => some (if nd.1 then -(n : Int) else (n : Int))

/-- the mathematical value of a digit string continuing from `n` -/
def decValFrom (n : Nat) (ds : Bytes) : Nat := ds.foldl (fun a c => 10 * a + (c.toNat - 48)) n

/-! ## `strconv.ParseFloat` abstracted to syntax + documented range condition

A decimal literal denotes `mant · 10^exp10`.  `ParseFloat(s, bits)` fails with
a syntax error when `s` is not a literal and with `ErrRange` when the value is
more than half an ulp above the largest finite float (both make the
converters panic).  Underflow is not an error. -/

structure FloatLit where
  neg : Bool
  mant : Nat
  exp10 : Int
  deriving Repr, DecidableEq

/-- Go's decimal float syntax (`readFloat`, base 10, no underscores, no
`inf`/`nan`, which cannot occur in the alphabet the harness uses). -/
def goFloatSyntax (s : Bytes) : Option FloatLit :=
  let (sg, r) := optSign s
  let neg := sg == [0x2D]
  let (d1, r1) := spanDigits r
  let (d2, r2) : Bytes × Bytes :=
    match r1 with
    | 0x2E :: t => spanDigits t
    | _ => ([], r1)
  if d1 = [] && d2 = [] then none else
  let mant := decValFrom 0 (d1 ++ d2)
  match r2 with
  | [] => some ⟨neg, mant, -(d2.length : Int)⟩
  | c :: t =>
    if c == 0x65 || c == 0x45 then
      let (esg, t1) := optSign t
      let (d3, t2) := spanDigits t1
      if d3 = [] || t2 ≠ [] then none else
      let e : Int := decValFrom 0 d3
      some ⟨neg, mant, (if esg == [0x2D] then -e else e) - (d2.length : Int)⟩
    else none

/-- smallest magnitude that rounds to infinity: `2^emax − 2^(emax − p − 1)`
(binary64: emax = 1024, p = 53; binary32: emax = 128, p = 24) -/
def overflowThreshold (bits32 : Bool) : Nat :=
  if bits32 then 2 ^ 128 - 2 ^ 103 else 2 ^ 1024 - 2 ^ 970

/-- number of decimal digits of `n` (0 for 0) -/
def numDigits (n : Nat) : Nat := if n = 0 then 0 else (Nat.toDigits 10 n).length

/-- `mant · 10^exp10 ≥ threshold`, with shortcuts so that absurd exponents are
never exponentiated. -/
def overflows (bits32 : Bool) (l : FloatLit) : Bool :=
  if l.mant = 0 then false else
  let T := overflowThreshold bits32
  if l.exp10 ≥ 0 then
    if l.exp10 > 400 then true else decide (l.mant * 10 ^ l.exp10.toNat ≥ T)
  else
    let k := (-l.exp10).toNat
    -- mant < 10^numDigits mant ; if numDigits ≤ k the value is < 1
    if numDigits l.mant ≤ k then false else decide (l.mant ≥ T * 10 ^ k)

/-- `parseFloat` (bits32 = false) / `parseFloat32` (bits32 = true): `none` = panic -/
def parseFloat (bits32 : Bool) (s : Bytes) : Option FloatLit :=
  match goFloatSyntax s with
  | none => none
  | some l => if overflows bits32 l then none else some l

/-! ## string_intern.go `unquoteBytes`  (`none` = panic) -/

def hexVal (c : UInt8) : Option Nat :=
  if isDigit c then some (c.toNat - 48)
  else if 0x61 ≤ c && c ≤ 0x66 then some (c.toNat - 87)
  else if 0x41 ≤ c && c ≤ 0x46 then some (c.toNat - 55)
  else none

/-- `parseHexByte` (panics via `unhex` on a non-hex character) -/
def hexByte (c0 c1 : UInt8) : Option Nat :=
  match hexVal c0, hexVal c1 with
  | some a, some b => some (a * 16 + b)
  | _, _ => none

def runeError : Bytes := [0xEF, 0xBF, 0xBD]

/-- `utf8.EncodeRune` for a non-negative code point (surrogates and values
above U+10FFFF – which includes every `int32`-negative sum – give U+FFFD) -/
def encodeRune (r : Nat) : Bytes :=
  if r < 0x80 then [UInt8.ofNat r]
  else if r < 0x800 then [UInt8.ofNat (0xC0 + r / 64), UInt8.ofNat (0x80 + r % 64)]
  else if r > 0x10FFFF || (0xD800 ≤ r && r ≤ 0xDFFF) then runeError
  else if r < 0x10000 then
    [UInt8.ofNat (0xE0 + r / 4096), UInt8.ofNat (0x80 + r / 64 % 64), UInt8.ofNat (0x80 + r % 64)]
  else
    [UInt8.ofNat (0xF0 + r / 262144), UInt8.ofNat (0x80 + r / 4096 % 64),
     UInt8.ofNat (0x80 + r / 64 % 64), UInt8.ofNat (0x80 + r % 64)]

/-- After a `\uXXXX` escape with value `r`: if `r` is a UTF-16 surrogate and
the input continues with another complete `\uYYYY` (at least 6 bytes, starting
`\u`), the two are decoded as one code point when they form a high/low pair
(`utf16.DecodeRune`) and both escapes are consumed; otherwise `r` alone is
encoded (a lone surrogate becomes U+FFFD) and the following escape is left for
the next iteration.  `none` = panic in `unhex`. -/
def surrPair (r : Nat) (rest : Bytes) : Option (Bytes × Bytes) :=
  if 0xD800 ≤ r && r < 0xE000 then
    match rest with
    | c :: d :: g0 :: g1 :: g2 :: g3 :: rest2 =>
      if c == 0x5C && d == 0x75 then
        match hexByte g2 g3, hexByte g0 g1 with
        | some lo2, some hi2 =>
          let r2 := lo2 + hi2 * 256
          if r < 0xDC00 && 0xDC00 ≤ r2 && r2 < 0xE000 then
            some (encodeRune (0x10000 + (r - 0xD800) * 1024 + (r2 - 0xDC00)), rest2)
          else some (encodeRune r, rest)
        | _, _ => none
      else some (encodeRune r, rest)
    | _ => some (encodeRune r, rest)
  else some (encodeRune r, rest)

/-- The `switch c2` of `unquoteBytes`, applied to the input after `\c2`.
Returns the bytes appended and the remaining input; `none` = panic (index out
of range, or `unhex` on a non-hex character). -/
def goEscape (c2 : UInt8) (v : Bytes) : Option (Bytes × Bytes) :=
  if c2 == 0x61 then some ([0x07], v)
  else if c2 == 0x62 then some ([0x08], v)
  else if c2 == 0x66 then some ([0x0C], v)
  else if c2 == 0x6E then some ([0x0A], v)
  else if c2 == 0x72 then some ([0x0D], v)
  else if c2 == 0x74 then some ([0x09], v)
  else if c2 == 0x76 then some ([0x0B], v)
  else if c2 == 0x78 then
    match v with
    | h0 :: h1 :: rest => (hexByte h0 h1).map fun x => ([UInt8.ofNat x], rest)
    | _ => none
  else if c2 == 0x75 then
    match v with
    | h0 :: h1 :: h2 :: h3 :: rest =>
      -- Go evaluates parseHexByte(value[2], value[3]) first, then (value[0], value[1])
      match hexByte h2 h3, hexByte h0 h1 with
      | some lo, some hi => surrPair (lo + hi * 256) rest
      | _, _ => none
    | _ => some (runeError, [])
  else if c2 == 0x55 then
    match v with
    | h0 :: h1 :: h2 :: h3 :: h4 :: h5 :: h6 :: h7 :: rest =>
      match hexByte h6 h7, hexByte h4 h5, hexByte h2 h3, hexByte h0 h1 with
      | some a, some b, some c, some d =>
        some (encodeRune (a + b * 256 + c * 65536 + d * 16777216), rest)
      | _, _, _, _ => none
    | _ => some (runeError, [])
  else if isOct c2 then
    match v with
    | o0 :: o1 :: rest =>
      if !isOct o1 || !isOct o0 then some (runeError, [])
      else some ([UInt8.ofNat (((c2.toNat - 48) * 64 + (o0.toNat - 48) * 8 + (o1.toNat - 48)) % 256)], rest)
    | _ => none
  else some ([c2], v)

/-- the main loop of `unquoteBytes` over the text between the quotes.  (The
code copies a multi-byte rune in one step; every byte of such a rune is
≥ 0x80, so copying byte by byte is the same function.  The allocation-free
fast path for bodies without `\` and `"` returns the body, as the loop does.) -/
def unqLoop : Nat → Bytes → Option Bytes
  | 0, _ => none
  | _ + 1, [] => some []
  | f + 1, c :: r =>
    if c != 0x5C then (unqLoop f r).map (c :: ·)
    else match r with
      | [] => none
      | c2 :: r2 =>
        match goEscape c2 r2 with
        | none => none
        | some (out, rest) => (unqLoop f rest).map (out ++ ·)

def unquoteBytes (v : Bytes) : Option Bytes :=
  match v with
  | 0x22 :: r =>
    match r.reverse with
    | 0x22 :: br => unqLoop (br.length + 1) br.reverse
    | _ => none
  | _ => none

/-! ## the numeric branch of `keywordToken` and `nextToken`'s contract -/

inductive NumTok
  | float (tok : Bytes)
  | int (tok : Bytes)
  | invalid (tok : Bytes)   -- INVALID carrying the offending text (located error)
  | nomatch
  deriving Repr, DecidableEq

/-- Numeric branch as shipped before the repairs: whatever a rule matches is
handed to the converter. -/
def numTokUnchecked (colon : Bool) (b : Bytes) : NumTok :=
  match matchFloat colon b with
  | some t => .float t
  | none =>
    match matchInt b with
    | some t => .int t
    | none => .nomatch

/-- Numeric branch with the range checks of the repaired tokenizer: a token
that the converter would not accept is returned as INVALID. -/
def numTok (colon : Bool) (b : Bytes) : NumTok :=
  match matchFloat colon b with
  | some t => if (parseFloat false t).isSome then .float t else .invalid t
  | none =>
    match matchInt b with
    | some t => if (parseInt t).isSome then .int t else .invalid t
    | none => .nomatch

/-! ## grammar action `src_stm`:  `Fields(TrimSpace(unquote s))`, then `[0]` -/

def isSpaceAscii (b : UInt8) : Bool :=
  b == 0x09 || b == 0x0A || b == 0x0B || b == 0x0C || b == 0x0D || b == 0x20

/-- `strings.Fields` restricted to ASCII white space (non-ASCII Unicode spaces
are exercised by correspondence only) -/
def fieldsAux : Bytes → Bytes → List Bytes
  | [], cur => if cur = [] then [] else [cur.reverse]
  | c :: r, cur =>
    if isSpaceAscii c then (if cur = [] then fieldsAux r [] else cur.reverse :: fieldsAux r [])
    else fieldsAux r (c :: cur)

def fields (s : Bytes) : List Bytes := fieldsAux s []

inductive Action (α : Type)
  | ok (a : α)
  | error        -- located error returned to the caller
  | panic        -- Go run-time panic (index out of range)
  deriving Repr, DecidableEq

/-- as shipped: `stagecodeParts[0]` without a length check -/
def srcActionUnchecked (cmd : Bytes) : Action (Bytes × List Bytes) :=
  match fields cmd with
  | [] => .panic
  | p :: args => .ok (p, args)

/-- repaired: an empty command is a located error -/
def srcAction (cmd : Bytes) : Action (Bytes × List Bytes) :=
  match fields cmd with
  | [] => .error
  | p :: args => .ok (p, args)

/-! ## `nextToken` / `Lex` progress

`nextToken` tries `keywordToken`, then `tokIdRule`, and reports INVALID with
no text otherwise.  The model is generic in the two rule functions. -/

structure Rules where
  keyword : Bytes → Bytes × Nat   -- (matched text, token id)
  ident : Bytes → Bytes × Nat

def INVALID : Nat := 0

def nextToken (R : Rules) (head : Bytes) : Nat × Bytes :=
  let (v, id) := R.keyword head
  if v.length > 0 then (id, v) else
  let (v, id) := R.ident head
  if v.length > 0 then (id, v) else (INVALID, [])

/-- `Lex`: skip SKIP/COMMENT tokens, return the first other token and the
position after it.  `fuel` bounds the iterations. -/
def lex (R : Rules) (isSkip : Nat → Bool) : Nat → Bytes → Option (Nat × Bytes × Bytes)
  | 0, _ => none
  | _ + 1, [] => some (0, [], [])           -- EOF
  | f + 1, c :: r =>
    let (id, v) := nextToken R (c :: r)
    if isSkip id then lex R isSkip f ((c :: r).drop v.length)
    else some (id, v, (c :: r).drop v.length)

end Martian.Lexer
