/-
C19 — model of martian/syntax/refactoring (the edits behind `mro edit`).

Core AST of a set of MRO files flattened into one program: callables are stages
or pipelines with input/output parameter names; pipelines have calls (call id,
callable name, bindings, modifier bindings), return bindings and retains;
expressions are literals, `self.in.path` / `CALL.out.path` references, arrays,
maps/structs and splits.  Types, resources, comments (except the "keep" flag)
are not modelled.  The edits are modelled as the *net effect* of
`refactoring.Refactor` on the compiled AST followed by `Edit.Apply` on the
unchecked (uncompiled) AST, which is what `mro edit` writes back: bindings that
only exist after wildcard expansion are never rewritten (exactly like the Go
code), but they are taken into account where the Go analyses see them.
Core Lean only.
-/
namespace Martian.Refactor

inductive RefKind | self | call
  deriving DecidableEq, Repr, Inhabited

/-- `self.id.path…` or `CALLID.path…` (Go: RefExp{Kind, Id, OutputId}); the
dotted OutputId is kept as a list of components. -/
structure Ref where
  kind : RefKind
  id : String
  path : List String
  deriving DecidableEq, Repr, Inhabited

/-- Expressions.  Sequences (array elements, map entries) are spelled with
`nil`/`cons` so that the type is a plain (non-nested) inductive. -/
inductive Exp
  | lit (s : String)
  | ref (r : Ref)
  | split (e : Exp)
  | arr (elems : Exp)
  | map (isStruct : Bool) (elems : Exp)
  | nil
  | cons (key : String) (head tail : Exp)
  deriving DecidableEq, Repr, Inhabited

structure Bind where
  name : String
  exp : Exp
  deriving DecidableEq, Repr, Inhabited

structure Call where
  id : String
  decId : String
  flags : String          -- letters: m = map call, p = preflight, k = keep comment
  binds : List Bind
  mods : List Bind
  deriving DecidableEq, Repr, Inhabited

structure Callable where
  isPipe : Bool
  name : String
  keep : Bool
  ins : List String
  outs : List (String × Bool)   -- (name, has keep comment)
  sretain : List String         -- stage: retained output names
  calls : List Call
  ret : List Bind
  retain : List Ref             -- pipeline retains
  deriving DecidableEq, Repr, Inhabited

structure Program where
  callables : List Callable
  top : Option Call
  deriving DecidableEq, Repr, Inhabited

/-! ## expressions -/

def mapRefs (f : Ref → Ref) : Exp → Exp
  | .lit s => .lit s
  | .ref r => .ref (f r)
  | .split e => .split (mapRefs f e)
  | .arr es => .arr (mapRefs f es)
  | .map b es => .map b (mapRefs f es)
  | .nil => .nil
  | .cons k h t => .cons k (mapRefs f h) (mapRefs f t)

def refs : Exp → List Ref
  | .lit _ => []
  | .ref r => [r]
  | .split e => refs e
  | .arr es => refs es
  | .map _ es => refs es
  | .nil => []
  | .cons _ h t => refs h ++ refs t

def Bind.mapRefs (f : Ref → Ref) (b : Bind) : Bind := { b with exp := Martian.Refactor.mapRefs f b.exp }

/-- rename the identifier of a reference (Go `updateRef` with callId = ""). -/
def renRefId (k : RefKind) (old new : String) (r : Ref) : Ref :=
  if r.kind = k ∧ r.id = old then { r with id := new } else r

/-- rename the first path component of references to call `cid`
(Go `updateRef` with callId ≠ ""). -/
def renRefOut (cid old new : String) (r : Ref) : Ref :=
  if r.kind = RefKind.call ∧ r.id = cid then
    match r.path with
    | h :: t => if h = old then { r with path := new :: t } else r
    | [] => r
  else r

/-! ## lookups -/

def Program.find? (p : Program) (name : String) : Option Callable :=
  p.callables.find? (·.name == name)

def callIds (c : Callable) : List String := c.calls.map (·.id)

def hasFlag (c : Call) (ch : Char) : Bool := c.flags.toList.contains ch

/-- rename the first element equal to `old` -/
def renameFirst (old new : String) : List String → List String
  | [] => []
  | x :: xs => if x = old then new :: xs else x :: renameFirst old new xs

def renameFirstOut (old new : String) : List (String × Bool) → List (String × Bool)
  | [] => []
  | x :: xs => if x.1 = old then (new, x.2) :: xs else x :: renameFirstOut old new xs

def renameFirstBind (old new : String) : List Bind → List Bind
  | [] => []
  | b :: bs => if b.name = old then { b with name := new } :: bs else b :: renameFirstBind old new bs

def removeFirstBind (name : String) : List Bind → List Bind
  | [] => []
  | b :: bs => if b.name = name then bs else b :: removeFirstBind name bs

def removeFirstStr (name : String) : List String → List String
  | [] => []
  | b :: bs => if b = name then bs else b :: removeFirstStr name bs

def removeFirstOut (name : String) : List (String × Bool) → List (String × Bool)
  | [] => []
  | b :: bs => if b.1 = name then bs else b :: removeFirstOut name bs

/-! ## rename a callable (rename_callable.go) -/

/-- What happens to one call of pipeline `c` when callable `x` becomes `n`:
an unaliased call takes the new name unless a call with that id already exists
in the pipeline; otherwise only its callable name changes (explicit alias). -/
def renameCallOf (x n : String) (ids : List String) (c : Call) : Call :=
  if c.decId = x then
    if c.id ≠ c.decId ∨ n ∈ ids then { c with decId := n }
    else { c with id := n, decId := n }
  else c

/-- does pipeline `c` contain an unaliased call of `x` that takes the new name? -/
def takesNewName (x n : String) (c : Callable) : Bool :=
  c.calls.any (fun k => k.decId == x && k.id == x) && !(callIds c).contains n

def Call.mapRefs (f : Ref → Ref) (c : Call) : Call :=
  { c with binds := c.binds.map (Bind.mapRefs f), mods := c.mods.map (Bind.mapRefs f) }

def renameCallableIn (x n : String) (c : Callable) : Callable :=
  if c.name = x then { c with name := n }
  else if c.isPipe then
    let ids := callIds c
    let calls := c.calls.map (renameCallOf x n ids)
    if takesNewName x n c then
      let f := renRefId RefKind.call x n
      { c with calls := calls.map (Call.mapRefs f),
               ret := c.ret.map (Bind.mapRefs f),
               retain := c.retain.map f }
    else { c with calls := calls }
  else c

def renameTop (x n : String) (t : Call) : Call :=
  if t.decId = x then
    { t with id := if t.id = t.decId then n else t.id, decId := n }
  else t

def renameCallable (x n : String) (p : Program) : Program :=
  if x = n then p else
  match p.find? x with
  | none => p
  | some _ =>
    { callables := p.callables.map (renameCallableIn x n), top := p.top.map (renameTop x n) }

/-! ## rename an input parameter (rename_input_param.go) -/

def renameCallParam (x old new : String) (c : Call) : Call :=
  if c.decId = x then { c with binds := renameFirstBind old new c.binds } else c

def renameInputIn (x old new : String) (c : Callable) : Callable :=
  if c.name = x then
    if c.isPipe then
      let f := renRefId RefKind.self old new
      { c with ins := renameFirst old new c.ins,
               calls := c.calls.map (Call.mapRefs f),
               ret := c.ret.map (Bind.mapRefs f),
               retain := c.retain.map f }
    else { c with ins := renameFirst old new c.ins }
  else if c.isPipe then { c with calls := c.calls.map (renameCallParam x old new) }
  else c

def renameInput (x old new : String) (p : Program) : Program :=
  match p.find? x with
  | none => p
  | some _ =>
    { callables := p.callables.map (renameInputIn x old new),
      top := p.top.map (renameCallParam x old new) }

/-! ## rename an output parameter (rename_output_param.go) -/

/-- all call ids of pipeline `c` whose callable is `x` -/
def callIdsOf (x : String) (c : Callable) : List String :=
  (c.calls.filter (·.decId == x)).map (·.id)

def renOutAll (cids : List String) (old new : String) (r : Ref) : Ref :=
  cids.foldl (fun r cid => renRefOut cid old new r) r

def renameBindAll (old new : String) (bs : List Bind) : List Bind :=
  bs.map fun b => if b.name = old then { b with name := new } else b

def renameOutputIn (x old new : String) (c : Callable) : Callable :=
  if c.name = x then
    if c.isPipe then
      { c with outs := renameFirstOut old new c.outs, ret := renameBindAll old new c.ret }
    else
      { c with outs := renameFirstOut old new c.outs, sretain := renameFirst old new c.sretain }
  else if c.isPipe then
    let f := renOutAll (callIdsOf x c) old new
    { c with calls := c.calls.map (Call.mapRefs f),
             ret := c.ret.map (Bind.mapRefs f),
             retain := c.retain.map f }
  else c

def renameOutput (x old new : String) (p : Program) : Program :=
  match p.find? x with
  | none => p
  | some _ => { p with callables := p.callables.map (renameOutputIn x old new) }

/-! ## wildcard expansion as the analyses see it -/

/-- bindings of a call as the *compiled* AST lists them: the explicit ones, the
wildcard itself and, for `* = self`, one `m = self.m` per pipeline input `m`
that the callee also has.  (Struct wildcards `* = REF` add bindings whose
references have the same id as the wildcard's own reference, which is all the
analyses below look at.) -/
def isLiteralColl : Exp → Bool
  | .arr _ => true
  | .map _ _ => true
  | _ => false

/-- In a compiled map call every `split` binding also references the call's
primary split source when that is a plain reference (Go `SplitExp.FindRefs`
adds `Source.Master`): the first split over a literal collection if there is
one, else the first split; a split over the output of another map call of the
same pipeline shares that call's primary source. -/
def masterRefIn (pipe : Callable) : Nat → Call → Option Ref
  | 0, _ => none
  | fuel + 1, c =>
    if !hasFlag c 'm' then none else
    let splits := c.binds.filterMap (fun b => match b.exp with | .split v => some v | _ => none)
    match splits.find? isLiteralColl with
    | some _ => none
    | none =>
      match splits with
      | .ref r :: _ =>
        if r.kind = RefKind.call then
          match pipe.calls.find? (·.id == r.id) with
          | some k =>
            match masterRefIn pipe fuel k with
            | some r' => some r'
            | none => some r
          | none => some r
        else some r
      | _ => none

def withMaster (m : Option Ref) (bs : List Bind) : List Bind :=
  match m with
  | none => bs
  | some r => bs.flatMap fun b =>
      match b.exp with
      | .split _ => [b, ⟨b.name, .ref r⟩]
      | _ => [b]

def compiledBinds (p : Program) (pipe : Callable) (c : Call) : List Bind :=
  withMaster (masterRefIn pipe (pipe.calls.length + 1) c) <|
  match c.binds.find? (·.name == "*") with
  | some w =>
    match w.exp with
    | .ref ⟨RefKind.self, "", []⟩ =>
      let calleeIns := match p.find? c.decId with | some d => d.ins | none => []
      c.binds ++ (pipe.ins.filter (fun m => calleeIns.contains m)).map
        (fun m => ⟨m, .ref ⟨RefKind.self, m, []⟩⟩)
    | _ => c.binds
  | none => c.binds

def refIds (k : RefKind) (e : Exp) : List String :=
  ((refs e).filter (·.kind == k)).map (·.id)

def bindsRefIds (k : RefKind) (bs : List Bind) : List String :=
  bs.flatMap (fun b => refIds k b.exp)

/-! ## remove an input parameter (remove_input_param.go) -/

/-- inputs of `pipe` that nothing references any more once the bindings named
`q` of the calls to `x` are gone (one removed parameter at a time, as in Go). -/
def leftoverInputs (p : Program) (x q : String) (pipe : Callable) : List String :=
  let used :=
    bindsRefIds RefKind.self pipe.ret
    ++ ((pipe.retain.filter (·.kind == RefKind.self)).map (·.id))
    ++ pipe.calls.flatMap (fun c =>
         (bindsRefIds RefKind.self
            ((compiledBinds p pipe c).filter (fun b => !(c.decId == x && b.name == q))))
         ++ bindsRefIds RefKind.self c.mods)
  pipe.ins.filter (fun i => !used.contains i)

/-- closure of parameters to remove: worklist with a visited set (the Go code
recurses; a pair that is already scheduled is not scheduled again). -/
def removeInputClosure (p : Program) : Nat → List (String × String) → List (String × String) → List (String × String)
  | 0, _, done => done
  | _, [], done => done
  | fuel + 1, (x, q) :: work, done =>
    if done.contains (x, q) then removeInputClosure p fuel work done
    else
      let more := (p.callables.filter (·.isPipe)).flatMap
        (fun pipe => (leftoverInputs p x q pipe).map (fun i => (pipe.name, i)))
      removeInputClosure p fuel (more ++ work) (done ++ [(x, q)])

def closureFuel (p : Program) : Nat :=
  (p.callables.foldl (fun n c => n + c.ins.length + 1) 1) * 2 + 2

def removeInputOne (x q : String) (p : Program) : Program :=
  let dropBind (c : Call) : Call :=
    if c.decId = x then { c with binds := removeFirstBind q c.binds } else c
  { callables := p.callables.map fun c =>
      let c := if c.name = x then { c with ins := removeFirstStr q c.ins } else c
      if c.isPipe then { c with calls := c.calls.map dropBind } else c,
    top := p.top.map dropBind }

def removeInputs (pairs : List (String × String)) (p : Program) : Program :=
  pairs.foldl (fun p xq => removeInputOne xq.1 xq.2 p) p

def removeInput (x q : String) (p : Program) : Program :=
  match p.find? x with
  | none => p
  | some _ => removeInputs (removeInputClosure p (closureFuel p) [(x, q)] []) p

/-! ## remove unused calls (remove_calls.go) -/

def hasSideEffects (p : Program) : Nat → Callable → Bool
  | 0, _ => true
  | fuel + 1, c =>
    if !c.isPipe then !c.sretain.isEmpty
    else
      !c.retain.isEmpty ||
      c.calls.any (fun k =>
        hasFlag k 'p' ||
        match p.find? k.decId with
        | some d => d.isPipe && hasSideEffects p fuel d
        | none => false)

def unusedCalls (p : Program) (pipe : Callable) : List String :=
  let cands := pipe.calls.filter fun c =>
    !hasFlag c 'p' && !hasFlag c 'k' &&
    match p.find? c.decId with
    | some d => !d.outs.isEmpty && !d.keep && !hasSideEffects p (p.callables.length + 1) d
    | none => false
  let used :=
    bindsRefIds RefKind.call pipe.ret
    ++ ((pipe.retain.filter (·.kind == RefKind.call)).map (·.id))
    ++ pipe.calls.flatMap (fun c =>
         bindsRefIds RefKind.call (compiledBinds p pipe c) ++ bindsRefIds RefKind.call c.mods)
  (cands.filter (fun c => !used.contains c.id)).map (·.id)

/-- inputs of `pipe` no longer referenced once `removedOuts` return bindings
and `removedCalls` calls are gone (Go `removeUnboundPipelineInputs`). -/
def unboundInputs (p : Program) (pipe : Callable) (removedOuts removedCalls : List String) : List String :=
  let used :=
    bindsRefIds RefKind.self (pipe.ret.filter (fun b => !removedOuts.contains b.name))
    ++ ((pipe.retain.filter (·.kind == RefKind.self)).map (·.id))
    ++ (pipe.calls.filter (fun c => !removedCalls.contains c.id)).flatMap (fun c =>
         bindsRefIds RefKind.self (compiledBinds p pipe c) ++ bindsRefIds RefKind.self c.mods)
  pipe.ins.filter (fun i => !used.contains i)

/-- remove the first call with the given id -/
def removeCallById (id : String) : List Call → List Call
  | [] => []
  | c :: cs => if c.id = id then cs else c :: removeCallById id cs

structure CallRemoval where
  pipe : String
  ids : List String
  deriving Repr, DecidableEq

/-- one pass of `RemoveAllUnusedCalls`: all decisions are taken on the same
program, then applied. -/
def unusedCallPlan (p : Program) : List CallRemoval × List (String × String) :=
  let pipes := p.callables.filter (·.isPipe)
  let rem := (pipes.map fun pipe => (⟨pipe.name, unusedCalls p pipe⟩ : CallRemoval)).filter (fun r => !r.ids.isEmpty)
  let seeds := pipes.flatMap fun pipe =>
    let ids := unusedCalls p pipe
    if ids.isEmpty then [] else (unboundInputs p pipe [] ids).map (fun i => (pipe.name, i))
  (rem, removeInputClosure p (closureFuel p * (seeds.length + 1)) seeds [])

def applyCallRemovals (rem : List CallRemoval) (p : Program) : Program :=
  let drop (c : Callable) : Callable :=
    match rem.find? (fun r => r.pipe == c.name) with
    | some r => if c.isPipe then { c with calls := r.ids.foldl (fun cs id => removeCallById id cs) c.calls } else c
    | none => c
  { p with callables := p.callables.map drop }

def removeUnusedCallsPass (p : Program) : Program × Bool :=
  let (rem, ins) := unusedCallPlan p
  if rem.isEmpty then (p, false)
  else (removeInputs ins (applyCallRemovals rem p), true)

/-! ## remove unused pipeline outputs (remove_unused_outputs.go) -/

def outSet (c : Callable) : List String := (c.outs.filter (fun o => !o.2)).map (·.1)

/-- Go `populateChildPipelineOuts`: a pipeline reachable from a top call enters
the table iff it has at least one output and calls at least one pipeline.
Reachability follows the per-pipeline callable tables built at compile time,
which the edits of earlier loop iterations do not update: `p0` is the program
as compiled, `p` the current one. -/
def populate (p0 p : Program) : Nat → String → List (String × List String) → List (String × List String)
  | 0, _, acc => acc
  | fuel + 1, name, acc =>
    match p0.find? name, p.find? name with
    | some pipe0, some pipe =>
      let kids := pipe0.calls.filterMap (fun k => match p0.find? k.decId with
        | some d => if d.isPipe then some d.name else none
        | none => none)
      kids.foldl (fun acc d =>
        let acc := if !pipe.outs.isEmpty && !(acc.any (·.1 == name)) then acc ++ [(name, outSet pipe)] else acc
        populate p0 p fuel d acc) acc
    | _, _ => acc

def pipeCallRefs (p : Program) (pipe : Callable) : List Ref :=
  let callRefs (bs : List Bind) := bs.flatMap (fun b => (refs b.exp).filter (·.kind == RefKind.call))
  (pipe.retain.filter (·.kind == RefKind.call))
  ++ callRefs pipe.ret
  ++ pipe.calls.flatMap (fun c => callRefs (compiledBinds p pipe c) ++ callRefs c.mods)

def useRef (p : Program) (pipe : Callable) (acc : List String × List (String × List String)) (r : Ref) :
    List String × List (String × List String) :=
  match pipe.calls.find? (·.id == r.id) with
  | none => acc
  | some k =>
    match p.find? k.decId with
    | none => acc
    | some d =>
      let used := if d.isPipe && !acc.1.contains d.name then acc.1 ++ [d.name] else acc.1
      let outs :=
        match r.path with
        | [] => acc.2.filter (·.1 != d.name)
        | h :: _ => (acc.2.map (fun e => if e.1 == d.name then (e.1, e.2.filter (· != h)) else e)).filter
                      (fun e => !(e.1 == d.name && e.2.isEmpty))
      (used, outs)

def usedOutsLoop (p : Program) : Nat → List String → List (String × List String) → List (String × List String)
  | 0, _, outs => outs
  | fuel + 1, used, outs =>
    if used.isEmpty || outs.isEmpty then outs
    else
      let (next, outs) := used.foldl (fun acc name =>
        match p.find? name with
        | some pipe =>
          -- every called pipeline is visited, whether or not its outputs are referenced
          let called := pipe.calls.foldl (fun a k =>
            match p.find? k.decId with
            | some d => if d.isPipe && !a.contains d.name then a ++ [d.name] else a
            | none => a) acc.1
          (pipeCallRefs p pipe).foldl (useRef p pipe) (called, acc.2)
        | none => acc) (([] : List String), outs)
      usedOutsLoop p fuel next outs

def unusedOutputs (p0 p : Program) (tops : List String) : List (String × List String) :=
  let topPipes := p.callables.filter (fun c => c.isPipe && tops.contains c.name)
  let table := topPipes.foldl (fun acc t => populate p0 p (p.callables.length + 1) t.name acc) []
  let table := table.filter (fun e => !tops.contains e.1)
  usedOutsLoop p (p.callables.length + 2) (topPipes.map (·.name)) table

/-- one level of the frontier walk of `usedOutsLoop`: the visit of one pipeline -/
def visitPipe (p : Program) (acc : List String × List (String × List String)) (name : String) :
    List String × List (String × List String) :=
  match p.find? name with
  | some pipe =>
    let called := pipe.calls.foldl (fun a k =>
      match p.find? k.decId with
      | some d => if d.isPipe && !a.contains d.name then a ++ [d.name] else a
      | none => a) acc.1
    (pipeCallRefs p pipe).foldl (useRef p pipe) (called, acc.2)
  | none => acc

/-- `usedOutsLoop` with explicit exhaustion: `none` when the fuel runs out while there
are still pipelines to visit and entries in the table -/
def usedOutsLoopO (p : Program) : Nat → List String → List (String × List String) → Option (List (String × List String))
  | 0, used, outs => if used.isEmpty || outs.isEmpty then some outs else none
  | fuel + 1, used, outs =>
    if used.isEmpty || outs.isEmpty then some outs
    else usedOutsLoopO p fuel (used.foldl (visitPipe p) (([] : List String), outs)).1
           (used.foldl (visitPipe p) (([] : List String), outs)).2

def unusedOutputsO (p0 p : Program) (tops : List String) : Option (List (String × List String)) :=
  let topPipes := p.callables.filter (fun c => c.isPipe && tops.contains c.name)
  let table := topPipes.foldl (fun acc t => populate p0 p (p.callables.length + 1) t.name acc) []
  let table := table.filter (fun e => !tops.contains e.1)
  usedOutsLoopO p (p.callables.length + 2) (topPipes.map (·.name)) table

def removeOutsOf (outs : List String) (c : Callable) : Callable :=
  outs.foldl (fun c o => { c with outs := removeFirstOut o c.outs, ret := removeFirstBind o c.ret }) c

def removeUnusedOutputsPass (p0 : Program) (tops : List String) (p : Program) : Program × Bool :=
  let unused := unusedOutputs p0 p tops
  if unused.isEmpty then (p, false)
  else
    let seeds := unused.flatMap fun e =>
      match p.find? e.1 with
      | some pipe => (unboundInputs p pipe e.2 []).map (fun i => (pipe.name, i))
      | none => []
    let ins := removeInputClosure p (closureFuel p * (seeds.length + 1)) seeds []
    let dropOuts (c : Callable) : Callable :=
      match unused.find? (fun e => e.1 == c.name) with
      | some e => if c.isPipe then removeOutsOf e.2 c else c
      | none => c
    -- Go: `changes` is set when the edits were applied at >= 1 place; a table
    -- entry whose output set is empty (all outputs carry a keep comment)
    -- produces no edit.
    (removeInputs ins { p with callables := p.callables.map dropOuts },
     unused.any (fun e => !e.2.isEmpty) || !ins.isEmpty)

/-! ## the removal loop of `Refactor` -/

def removeStep (p0 : Program) (calls : Bool) (tops : List String) (p : Program) : Program × Bool :=
  let (p1, ch1) := if calls then removeUnusedCallsPass p else (p, false)
  let (p2, ch2) := if tops.isEmpty then (p1, false) else removeUnusedOutputsPass p0 tops p1
  (p2, ch1 || ch2)

def removeLoop (p0 : Program) (calls : Bool) (tops : List String) : Nat → Program → Program
  | 0, p => p
  | fuel + 1, p =>
    let (p', ch) := removeStep p0 calls tops p
    if ch then removeLoop p0 calls tops fuel p' else p'

/-- number of calls + outputs + inputs: strictly decreases in every changing
iteration of the loop. -/
def measure (p : Program) : Nat :=
  (p.callables.map fun c => c.calls.length + c.outs.length + c.ins.length).sum

def removeUnused (calls : Bool) (tops : List String) (p : Program) : Program :=
  removeLoop p calls tops (measure p + 1) p

/-! ## remove an output parameter (remove_output_param.go) -/

/-- the literal `null` as the driver spells literals (hex of the formatted text) -/
def nullExp : Exp := .lit "6e756c6c"

/-- Go `isCallRefTo`: a reference to output `o` (possibly projected) of a call
of callable `x` in `pipe`.  A whole-call reference (`= CALL`) does not match. -/
def isCallRefTo (pipe : Callable) (x o : String) (r : Ref) : Bool :=
  r.kind == RefKind.call
  && pipe.calls.any (fun k => k.id == r.id && k.decId == x)
  && (match r.path with | h :: _ => h == o | [] => false)

/-- Go `shouldRemoveExpCallRef`: the expression is such a reference, a split of
one, or a one-element array / typed map holding one. -/
def shouldRemove (isRef : Ref → Bool) : Exp → Bool
  | .ref r => isRef r
  | .split v => shouldRemove isRef v
  | .arr (.cons _ h .nil) => shouldRemove isRef h
  | .map false (.cons _ h .nil) => shouldRemove isRef h
  | _ => false

mutual
  /-- Go `removeRefFromExp`: matching references become `null`; inside arrays and
  typed maps the element is dropped, inside struct literals it becomes `null`. -/
  def removeRefExp (isRef : Ref → Bool) : Exp → Exp
    | .lit s => .lit s
    | .ref r => if isRef r then nullExp else .ref r
    | .split v => if shouldRemove isRef v then nullExp else .split (removeRefExp isRef v)
    | .arr es => if shouldRemove isRef (.arr es) then nullExp else .arr (removeRefElems isRef false es)
    | .map st es => if shouldRemove isRef (.map st es) then nullExp else .map st (removeRefElems isRef st es)
    | .nil => .nil
    | .cons k h t => .cons k (removeRefExp isRef h) (removeRefElems isRef false t)
  def removeRefElems (isRef : Ref → Bool) (isStruct : Bool) : Exp → Exp
    | .cons k h t =>
      if shouldRemove isRef h then
        (if isStruct then .cons k nullExp (removeRefElems isRef isStruct t) else removeRefElems isRef isStruct t)
      else .cons k (removeRefExp isRef h) (removeRefElems isRef isStruct t)
    | .lit s => .lit s
    | .ref r => .ref r
    | .split v => .split v
    | .arr es => .arr es
    | .map st es => .map st es
    | .nil => .nil
end

inductive OutAction
  | stageOut (x o : String)
  | pipeOut (x o : String)
  | inputs (pairs : List (String × String))
  | retain (pipe : String) (r : Ref)
  | modifier (pipe call : String) (r : Ref)
  deriving Repr, DecidableEq

/-- bindings up to (excluding) the wildcard: the Go loops `break` at `*`. -/
def mapUntilStar (f : Bind → Bind) : List Bind → List Bind
  | [] => []
  | b :: bs => if b.name = "*" then b :: bs else f b :: mapUntilStar f bs

def setCallable (p : Program) (i : Nat) (c : Callable) : Program :=
  { p with callables := p.callables.set i c }

/-- Go `removeOutputParam`.  The state is the program with the rewritten binding
expressions (the Go code writes them into the compiled AST at once, so the rest
of the analysis sees them) plus the list of removals to perform.  A return
binding that only forwards the removed output makes the enclosing pipeline's
output disappear too (recursion; `fuel` bounds it). -/
def removeOutputWalk : Nat → String → String → Program × List OutAction → Program × List OutAction
  | 0, _, _, st => st
  | fuel + 1, x, o, (p, acts) =>
    match p.find? x with
    | none => (p, acts)
    | some xc =>
      let acts :=
        if xc.isPipe then
          acts ++ [OutAction.pipeOut x o,
                   OutAction.inputs (removeInputClosure p (closureFuel p)
                     ((unboundInputs p xc [o] []).map (fun i => (x, i))) [])]
        else acts ++ [OutAction.stageOut x o]
      -- visit every pipeline, by position, always reading the current state
      (List.range p.callables.length).foldl (fun (st : Program × List OutAction) i =>
        match st.1.callables[i]? with
        | none => st
        | some pipe =>
          if !pipe.isPipe then st else
          let isRef := isCallRefTo pipe x o
          let acts := st.2 ++ (pipe.retain.filter isRef).map (OutAction.retain pipe.name)
          let acts := acts ++ pipe.calls.flatMap (fun k =>
            (k.mods.filterMap (fun b => match b.exp with
              | .ref r => if isRef r then some (OutAction.modifier pipe.name k.id r) else none
              | _ => none)))
          let calls := pipe.calls.map (fun k =>
            { k with binds := mapUntilStar (fun b => { b with exp := removeRefExp isRef b.exp }) k.binds })
          let p1 := setCallable st.1 i { pipe with calls := calls }
          -- return bindings, one at a time (a recursive removal may rewrite later ones)
          (List.range pipe.ret.length).foldl (fun (st : Program × List OutAction) j =>
            match st.1.callables[i]? with
            | none => st
            | some cur =>
              match cur.ret[j]? with
              | none => st
              | some b =>
                if (cur.ret.take j).any (·.name == "*") || b.name == "*" then st
                else if shouldRemove isRef b.exp then removeOutputWalk fuel cur.name b.name st
                else
                  (setCallable st.1 i { cur with ret := cur.ret.set j { b with exp := removeRefExp isRef b.exp } }, st.2))
            (p1, acts))
        (p, acts)

def removeFirstRef (r : Ref) : List Ref → List Ref
  | [] => []
  | x :: xs => if x = r then xs else x :: removeFirstRef r xs

def removeFirstModRef (r : Ref) : List Bind → List Bind
  | [] => []
  | b :: bs => if b.exp = .ref r then bs else b :: removeFirstModRef r bs

def onFirstCall (id : String) (f : Call → Call) : List Call → List Call
  | [] => []
  | c :: cs => if c.id = id then f c :: cs else c :: onFirstCall id f cs

def applyOutAction (p : Program) : OutAction → Program
  | .stageOut x o => { p with callables := p.callables.map fun c =>
      if c.name = x && !c.isPipe then { c with outs := removeFirstOut o c.outs, sretain := removeFirstStr o c.sretain } else c }
  | .pipeOut x o => { p with callables := p.callables.map fun c =>
      if c.name = x && c.isPipe then removeOutsOf [o] c else c }
  | .inputs pairs => removeInputs pairs p
  | .retain pipe r => { p with callables := p.callables.map fun c =>
      if c.name = pipe && c.isPipe then { c with retain := removeFirstRef r c.retain } else c }
  | .modifier pipe call r => { p with callables := p.callables.map fun c =>
      if c.name = pipe && c.isPipe then
        { c with calls := onFirstCall call (fun k => { k with mods := removeFirstModRef r k.mods }) c.calls }
      else c }

def outFuel (p : Program) : Nat :=
  p.callables.foldl (fun n c => n + c.outs.length + 1) 1

def removeOutput (x o : String) (p : Program) : Program :=
  match p.find? x with
  | none => p
  | some _ =>
    let (p', acts) := removeOutputWalk (outFuel p) x o (p, [])
    acts.foldl applyOutAction p'

/-! ## specification vocabulary (used by Props/C19.lean) -/

/-- no binding, modifier, return or retain of any pipeline refers to output `o`
of a call of `x` (whole-call references `= CALL` do not count: the Go code
does not look at them either). -/
def outputUnreferenced (x o : String) (p : Program) : Bool :=
  p.callables.all fun pipe =>
    !pipe.isPipe ||
    (let ok (e : Exp) : Bool := (refs e).all (fun r => !isCallRefTo pipe x o r)
     pipe.calls.all (fun k => k.binds.all (fun b => ok b.exp) && k.mods.all (fun b => ok b.exp))
     && pipe.ret.all (fun b => ok b.exp)
     && pipe.retain.all (fun r => !isCallRefTo pipe x o r))

/-- what removing an unreferenced output amounts to: the parameter itself (for a
stage also its retain entry; for a pipeline also its return binding and the
inputs that this leaves unbound, with their bindings in callers). -/
def removeOutputPlain (x o : String) (p : Program) : Program :=
  match p.find? x with
  | none => p
  | some xc =>
    if xc.isPipe then
      applyOutAction (applyOutAction p (OutAction.pipeOut x o))
        (OutAction.inputs (removeInputClosure p (closureFuel p) ((unboundInputs p xc [o] []).map (fun i => (x, i))) []))
    else applyOutAction p (OutAction.stageOut x o)


/-- all call references occurring in a pipeline (bindings, modifiers, returns, retains) -/
def callRefIdsOf (c : Callable) : List String :=
  bindsRefIds RefKind.call c.ret
  ++ ((c.retain.filter (·.kind == RefKind.call)).map (·.id))
  ++ c.calls.flatMap (fun k => bindsRefIds RefKind.call k.binds ++ bindsRefIds RefKind.call k.mods)

/-- decidable well-formedness: callable names are distinct; in every pipeline
the call ids are distinct and every call reference names a call of that
pipeline; stages have no body. -/
def wfCallable (c : Callable) : Bool :=
  if c.isPipe then
    decide (callIds c).Nodup && (callRefIdsOf c).all (fun i => (callIds c).contains i)
  else c.calls.isEmpty && c.ret.isEmpty && c.retain.isEmpty

def WF (p : Program) : Bool :=
  decide (p.callables.map (·.name)).Nodup && p.callables.all wfCallable

/-- `y` can be used as a new name for callable `x` such that the renaming is
reversible: it is not `x`, not the name of a callable, no call invokes a
callable named `y`, and no call *of `x`* already uses `y` as its alias (such a
call becomes `call y as y`, which is indistinguishable from an unaliased call). -/
def FreshFor (x y : String) (p : Program) : Bool :=
  x != y
  && !(p.callables.any (·.name == y))
  && p.callables.all (fun c => c.calls.all (fun k => k.decId != y && !(k.decId == x && k.id == y)))
  && (match p.top with | some t => t.decId != y && !(t.decId == x && t.id == y) | none => true)

/-- position of a call id -/
def idxOf (id : String) : List String → Option Nat
  | [] => none
  | x :: xs => if x = id then some 0 else (idxOf id xs).map (· + 1)

def posName (n : Nat) : String := "#" ++ toString n

/-- replace a call reference by the position of the call it names -/
def eraseRef (ids : List String) (r : Ref) : Ref :=
  if r.kind = RefKind.call then
    match idxOf r.id ids with
    | some k => { r with id := posName k }
    | none => r
  else r

def eraseCallIdsAux (ids : List String) : Nat → List Call → List Call
  | _, [] => []
  | n, c :: cs => Call.mapRefs (eraseRef ids) { c with id := posName n } :: eraseCallIdsAux ids (n + 1) cs

/-- the pipeline with its call ids erased: the k-th call is called `#k` and
every call reference points to a position.  Two pipelines that differ only in
the choice of call ids (aliases) have the same image. -/
def eraseCallIds (c : Callable) : Callable :=
  let ids := callIds c
  { c with calls := eraseCallIdsAux ids 0 c.calls,
           ret := c.ret.map (Bind.mapRefs (eraseRef ids)),
           retain := c.retain.map (eraseRef ids) }

/-- the program modulo the choice of call ids: what each call invokes with
which bindings, and which call/output every reference resolves to. -/
def eraseIds (p : Program) : Program :=
  { callables := p.callables.map eraseCallIds,
    top := p.top.map (fun t => { t with id := "#top" }) }

/-- rename a callable and nothing else: its definition and the callable name
of every call of it (call ids and references untouched). -/
def renameDec (x y : String) (p : Program) : Program :=
  let ren (k : Call) : Call := if k.decId = x then { k with decId := y } else k
  { callables := p.callables.map (fun c =>
      if c.name = x then { c with name := y } else { c with calls := c.calls.map ren }),
    top := p.top.map ren }

end Martian.Refactor
