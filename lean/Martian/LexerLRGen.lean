import Martian.LexerLRCheck
import Martian.Tokenizer
import Gen.Facts

/-!
C08: the parser driver model bound to the tables and the certificate that are
re-read / re-computed from martian/syntax/grammar.go on every run, and to the
tokenizer model: `parseSource` = scanner loop + `mmParse`.
-/
namespace Martian.LexerLR

def genTables : Tables :=
  ⟨Gen.mmExca, Gen.mmAct, Gen.mmPact, Gen.mmPgo, Gen.mmR1, Gen.mmR2, Gen.mmChk, Gen.mmDef,
   Gen.mmTok1, Gen.mmTok2, Gen.mmTok3, Gen.mmLast, Gen.mmPrivate, Gen.mmFlag, Gen.mmErrCode, Gen.mmEofCode,
   Gen.mmNToknames, Gen.mmNErrorMessages, Gen.mmFailProds⟩

def maxNat : List Nat → Nat
  | [] => 0
  | x :: r => Nat.max x (maxNat r)

/-- the certificate computed by the extractor (untrusted; `check` decides) -/
def genCert : Cert := ⟨Gen.mmPred, Gen.mmRank, maxNat (Gen.mmRank.map maxNat)⟩

/-- what `Lex` returns for a source, call by call: the ids of the tokens of the
tokenizer model (an INVALID token is handed to the parser like any other) -/
def tokenIds (src : List UInt8) : List Int :=
  (Martian.Tokenizer.lexAll src).map fun t => (t.id : Int)

/-- scanner + parser driver on a source text: the outcome and the events in
the order they happen -/
def parseSource (fail : Nat → Bool) (src : List UInt8) : Outcome × List Event :=
  let r := runFuel genTables fail (fuelFor genCert (tokenIds src)) (init (tokenIds src)) [.push 0]
  (r.1, r.2.reverse)

/-- the position the scanner has when `Lex` reports the end of the input: after
the trailing white space / comments, or still at the start of the last token -/
def endLoc (src : List UInt8) : Nat × Nat :=
  match (Martian.Tokenizer.lexAllRaw src).1.getLast? with
  | none => (1, 1)
  | some t =>
    if Martian.Tokenizer.isTrivia Martian.Tokenizer.genTables t.id then
      Martian.Tokenizer.skipLoc t.text t.line t.col
    else (t.line, t.col)

/-- the source position of the lookahead token with index `i` -/
def posOf (src : List UInt8) (i : Nat) : Nat × Nat :=
  match (Martian.Tokenizer.lexAll src)[i]? with
  | some t => (t.line, t.col)
  | none => endLoc src

end Martian.LexerLR
