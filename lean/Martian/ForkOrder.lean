/-
Fork-id ENUMERATION (which forks a node has and in which order they are listed):
martian/core/fork.go `ForkIdSet.MakeForkIds` (cartesian product of the fork roots, first root
fastest), `makeForkIdParts` (static array: indices; static map: SORTED keys; anything else: one
undetermined part), `ForkIdSet.expandStaticForks` / `ForkId.expandStaticForks` /
`expandStaticForkPart` (an undetermined part whose source becomes statically known once the
other parts of the fork are fixed — nested, possibly RAGGED, map calls) and the run-time
expansion `Node.expandForks` / `Fork.expand` / `expandForkFromObj`, which has the same shape:

  the list is processed front to back while it grows; for the fork at hand the parts are
  scanned in order; an undetermined part with 0 elements becomes `empty` (and nothing exists
  below an empty dimension), with 1 element it takes that element in place, with n ≥ 2
  elements it takes the FIRST (smallest index / smallest key) in place and n-1 copies of the
  fork with the other elements — later undetermined parts still undetermined — are APPENDED to
  the end of the list, in element order; then the same fork is scanned again.

Processing a growing list front to back is breadth first: `bfs` below lists generation 0
(the product, every fork completed with first elements), then the forks created by
generation 0 in creation order, and so on.

A root is `static` when `makeForkIdParts` knows its source: a literal array / map, or a
split of a value whose elements ONE level below a literal all have the same length / key set
(then it is a plain factor of the product); a source two levels below a literal is never
static, uniform or not.  (`split []` / `split {}` do not parse: an empty static root does not
occur in compiled programs.)

Core Lean only.  Keys are `Martian.SortKeys.Key` (bytes as naturals) so that the C10 sorting
lemmas apply.  The fork-id NAME model of C11 (`Martian/ForkName.lean`) has richer parts
(`arr idx len static`, `key k keys static`); `Part.toName` maps a part of this model to it.
-/
import Martian.SortKeys

namespace Martian.ForkOrder
open Martian.SortKeys

inductive Part
  | idx (n : Nat)
  | key (k : Key)
  | undet
  | empty
  deriving DecidableEq, Repr

abbrev Fork := List Part

/-- what is known about the elements of a fork source -/
inductive Elems
  | unknown               -- not (yet) known: the part stays undetermined
  | arr (n : Nat)         -- an array of n elements
  | keys (ks : List Key)  -- a map with these keys, in ARBITRARY (Go map) order
  deriving Repr

/-- the parts a source offers, in the order the code lists them: indices ascending, keys SORTED -/
def Elems.parts : Elems → Option (List Part)
  | .unknown => none
  | .arr n => some ((List.range n).map Part.idx)
  | .keys ks => some ((sortKeys ks).map Part.key)

/-- a fork root: statically known (`makeForkIdParts` lists its parts) or not -/
inductive Root
  | static (e : Elems)
  | dyn
  deriving Repr

/-- `makeForkIdParts` -/
def Root.initParts : Root → List Part
  | .static e => (e.parts).getD [Part.undet]
  | .dyn => [Part.undet]

/-- `MakeForkIds`: cartesian product, FIRST root fastest (`stride`) -/
def product : List (List Part) → List Fork
  | [] => [[]]
  | l :: rest => (product rest).flatMap fun tail => l.map fun p => p :: tail

/-- the source of the undetermined part at position `j` of a fork whose earlier parts are `pre`
(`getForkSrc` binds the determined parts and resolves the split) -/
abbrev Inner := Nat → List Part → Elems

/-- All the scans of ONE fork (`for ; len(newForks) > 0; newForks = fork.expandStaticForks(…)`,
resp. `fork.expand`): the fork as it is left in place, and the forks appended for it, in
creation order.  `j` = position, `pre` = the parts before it (as left in place), the third
argument the parts from `j` on. -/
def sat (inner : Inner) : Nat → List Part → List Part → List Part × List Fork
  | _, _, [] => ([], [])
  | j, pre, p :: rest =>
    if p != Part.undet then
      let r := sat inner (j + 1) (pre ++ [p]) rest
      (p :: r.1, r.2)
    else if pre.contains Part.empty then
      -- nothing exists below an empty dimension
      let r := sat inner (j + 1) (pre ++ [Part.empty]) rest
      (Part.empty :: r.1, r.2)
    else
      match (inner j pre).parts with
      | none =>
        let r := sat inner (j + 1) (pre ++ [Part.undet]) rest
        (Part.undet :: r.1, r.2)
      | some [] =>
        let r := sat inner (j + 1) (pre ++ [Part.empty]) rest
        (Part.empty :: r.1, r.2)
      | some (x :: xs) =>
        let r := sat inner (j + 1) (pre ++ [x]) rest
        (x :: r.1, xs.map (fun y => pre ++ y :: rest) ++ r.2)

def satFork (inner : Inner) (f : Fork) : Fork := (sat inner 0 [] f).1
def kids (inner : Inner) (f : Fork) : List Fork := (sat inner 0 [] f).2

/-- the growing list processed front to back = generations; `n` bounds the number of
generations (a fork created at part `j` can only create forks at later parts) -/
def bfs (inner : Inner) : Nat → List Fork → List Fork
  | 0, g => g.map (satFork inner)
  | n + 1, g => g.map (satFork inner) ++ bfs inner n (g.flatMap (kids inner))

/-- `MakeForkIds` including `expandStaticForks` -/
def forkOrder (roots : List Root) (inner : Inner) : List Fork :=
  bfs inner roots.length (product (roots.map Root.initParts))

/-- The scans of one fork at RUN TIME (`Fork.expand` / `expandForkFromObj`).  Same shape, one
difference: a part that turns out EMPTY disables the fork (`writeDisable`), and
`Fork.expandForkPart` returns at once for a disabled fork — the scan stops there, later
undetermined parts stay undetermined (the static phase marks them `empty` instead). -/
def satRt (inner : Inner) : Nat → List Part → List Part → List Part × List Fork
  | _, _, [] => ([], [])
  | j, pre, p :: rest =>
    if p != Part.undet then
      let r := satRt inner (j + 1) (pre ++ [p]) rest
      (p :: r.1, r.2)
    else if pre.contains Part.empty then
      (p :: rest, [])
    else
      match (inner j pre).parts with
      | none =>
        let r := satRt inner (j + 1) (pre ++ [Part.undet]) rest
        (Part.undet :: r.1, r.2)
      | some [] => (Part.empty :: rest, [])
      | some (x :: xs) =>
        let r := satRt inner (j + 1) (pre ++ [x]) rest
        (x :: r.1, xs.map (fun y => pre ++ y :: rest) ++ r.2)

def bfsRt (inner : Inner) : Nat → List Fork → List Fork
  | 0, g => g.map fun f => (satRt inner 0 [] f).1
  | n + 1, g =>
    (g.map fun f => (satRt inner 0 [] f).1) ++ bfsRt inner n (g.flatMap fun f => (satRt inner 0 [] f).2)

/-- `Node.expandForks` once every upstream value is there: the same processing of the list the
static phase left, with the sources the run-time values give -/
def expandRuntime (n : Nat) (rt : Inner) (forks : List Fork) : List Fork := bfsRt rt n forks

/-- number of undetermined parts -/
def undetCount (f : Fork) : Nat := (f.filter (· == Part.undet)).length

end Martian.ForkOrder
