/-
What a binding expression can DELIVER: an over-approximating evaluation of
resolved binding expressions (Martian/VdrBuild.lean) to values
(Martian/VdrVal.lean).  The environment gives, for every referenced output of
every node, the values its forks produced; a reference delivers any of them
(the keep-alive is registered on every fork of the producer), a split delivers
any element of what its source delivers, a merge collects — in an array or a
map — values its body delivers (one per fork of the merged call), a disabled
binding delivers null or what its value delivers.  Literals are not files of
a stage: they deliver values naming nothing.  Core Lean only.
-/
import Martian.VdrVal

namespace Martian.Vdr

/-- the values the forks of a node produced for an output (already projected) -/
abbrev Env := Node → Arg → List Val

/-- `x` is an element of the collection `c` (array or object) -/
inductive ElemOf : Val → Val → Prop
  | here {k x r} : ElemOf x (.vcons k x r)
  | there {k y r x} : ElemOf x r → ElemOf x (.vcons k y r)

/-- `Delivers env all e v`: with `all = false`, `v` is a value expression `e`
can deliver; with `all = true`, `v` is an element list every element of which
`e` can deliver (the forks of a merge). -/
inductive Delivers (env : Env) : Bool → BExp → Val → Prop
  | const {v} : v.names = [] → Delivers env false .const v
  | ref {n o v} : v ∈ env n o → Delivers env false (.ref n o) v
  | nil : Delivers env false .nil .vnil
  | cons {k e r v vr} : pathLike k = false → Delivers env false e v → Delivers env false r vr →
      Delivers env false (.cons k e r) (.vcons k v vr)
  | arr {es vs} : Delivers env false es vs → Delivers env false (.arr es) (.arr vs)
  | map {es vs} : Delivers env false es vs → Delivers env false (.map es) (.obj vs)
  | splitArr {m e vs x} : Delivers env false e (.arr vs) → ElemOf x vs → Delivers env false (.split m e) x
  | splitObj {m e vs x} : Delivers env false e (.obj vs) → ElemOf x vs → Delivers env false (.split m e) x
  | splitNull {m e} : Delivers env false (.split m e) .null
  | mergeArr {e vs} : Delivers env true e vs → Delivers env false (.merge e) (.arr vs)
  | mergeObj {e vs} : Delivers env true e vs → Delivers env false (.merge e) (.obj vs)
  | disabledOff {v d x} : Delivers env false v x → Delivers env false (.disabled v d) x
  | disabledOn {v d} : Delivers env false (.disabled v d) .null
  | allNil {e} : Delivers env true e .vnil
  | allCons {e k x r} : pathLike k = false → Delivers env false e x → Delivers env true e r →
      Delivers env true e (.vcons k x r)

/-- the file names the referenced outputs' recorded values contain: what any
delivered value's names must be among (executable; the driver evaluates it
against the `_args` of real jobs) -/
def reach (env : Env) (e : BExp) : List String :=
  e.valueRefs.flatMap fun r => (env r.1 r.2).flatMap Val.names

end Martian.Vdr
