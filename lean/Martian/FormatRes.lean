/-
C09 model, part 4: the trailing clauses of a stage declaration
(martian/syntax/format_callable.go `SrcParam.format`, `Resources.format`,
`formatGB`, `RetainParams.format`) and the readers of the same fragment
(grammar.y `src_stm`, `src_lang`, `resources`, `resource_list`, `float_32`,
`stage_retain`, `stage_retain_list`; parsenum.go `roundUpTo`), on the tokens
of `Martian.FormatExp`.

* `fmtGB mb` = `formatGB(buf, gb)` for the stored value `gb = mb/1024` (the
  parser stores `roundUpTo(x, 1024)`, an exact multiple of 1/1024;
  `int64(gb*1024)` recovers `mb`; float32 holds every such value exactly for
  `|mb| < 2^24`, and every float32 ≥ 2^14 is a multiple of 1/1024 anyway).
  The function follows the Go code line by line: `0`; the sign; the whole part
  through `strconv.AppendInt`; the digit-minimising loop over `decFrac`,
  `scale`, `digits` (`gbMin`); the writing loop with its trailing-zero
  trimming (`gbWrite`).  `fmtGBgo` is the same with the `int64` conversion of
  amd64 (`|x| ≥ 2^63` ↦ `MinInt64`): finding F25.
* `readGBTok`: `roundUpTo(float_32, 1024) · 1024` computed EXACTLY on the
  decimal value of the token text (`mant · 10^exp10 · 1024` rounded away from
  zero).  No float32 rounding is modelled there, except that a NUM_FLOAT at or
  below 2^-150 reads as 0 (float32 underflow) and one above the float32 range
  is rejected (`tryParseFloat32`).  `readGB32Tok` is the same WITH the rounding
  of the literal to the nearest float32 that the real parser performs first;
  the harness ties it to the real parser on every literal and every printed
  value it samples.  The two agree on the texts `formatGB` prints for
  |gb| < 256 (exhaustive replay of the real arithmetic over 0..2^24 MB: the
  first value that fails is 262188 MB); from 256 GB on they do not: finding
  F29 (`Props.C09.formatGB_float32_witness`).
* `threads` keeps the token text (the model never computes with the value;
  the harness canonicalises through `roundUpTo(·, 100)` and `%g`).
* `fmtRes`: `Resources.format` without comments, from `) using (` to the last
  `,\n`; the fixed order mem_gb, special, threads, vmem_gb, volatile and the
  padding which depends on which entries are present.  `pResources` reads
  `USING '(' resource_list ')'` with the entries in any order and repeated
  (the last value wins).
* `fmtRetain` / `pRetain`, `fmtSrc` / `pSrc` likewise.  `strings.Fields` is
  modelled with the Unicode white space of `unicode.IsSpace` (`fieldsU`).

Core Lean only.
-/
import Martian.FormatExp

namespace Martian.FormatRes
open Martian.Lexer (Bytes isDigit numTok NumTok parseInt parseFloat FloatLit unquoteBytes
  isSpaceAscii)
open Martian.Format (quoteString)
open Martian.FormatExp

/-! ## keywords -/

def sUsing : Bytes := [0x75, 0x73, 0x69, 0x6E, 0x67]
def sRetain : Bytes := [0x72, 0x65, 0x74, 0x61, 0x69, 0x6E]
def sMemGb : Bytes := [0x6D, 0x65, 0x6D, 0x5F, 0x67, 0x62]
def sMemgb : Bytes := [0x6D, 0x65, 0x6D, 0x67, 0x62]
def sVmemGb : Bytes := [0x76, 0x6D, 0x65, 0x6D, 0x5F, 0x67, 0x62]
def sVmemgb : Bytes := [0x76, 0x6D, 0x65, 0x6D, 0x67, 0x62]
def sThreads : Bytes := [0x74, 0x68, 0x72, 0x65, 0x61, 0x64, 0x73]
def sSpecial : Bytes := [0x73, 0x70, 0x65, 0x63, 0x69, 0x61, 0x6C]
def sVolatile : Bytes := [0x76, 0x6F, 0x6C, 0x61, 0x74, 0x69, 0x6C, 0x65]
def sStrict : Bytes := [0x73, 0x74, 0x72, 0x69, 0x63, 0x74]
def sSrc : Bytes := [0x73, 0x72, 0x63]
def sPy : Bytes := [0x70, 0x79]
def sExec : Bytes := [0x65, 0x78, 0x65, 0x63]
def sComp : Bytes := [0x63, 0x6F, 0x6D, 0x70]

/-! ## formatGB -/

/-- `for digits > 0 && ((decFrac-decFrac%10)*1024+scale-1)/scale == mb
{ scale /= 10; decFrac /= 10; digits-- }`  (at most 4 rounds: fuel 5) -/
def gbMin (mb : Nat) : Nat → Nat → Nat → Nat → Nat × Nat
  | 0, decFrac, _, digits => (decFrac, digits)
  | f + 1, decFrac, scale, digits =>
    if digits > 0 && ((decFrac - decFrac % 10) * 1024 + scale - 1) / scale == mb then
      gbMin mb f (decFrac / 10) (scale / 10) (digits - 1)
    else (decFrac, digits)

/-- `for i := digits - 1; i >= 0; i-- { v := byte(decFrac % 10);
if v == 0 && i+1 == digits { digits = i }; b[i] = v + '0'; decFrac = decFrac / 10 }`:
the first argument is `i + 1`; returns `digits` and `b[0 : digits₀]` -/
def gbWrite : Nat → Nat → Nat → Bytes → Nat × Bytes
  | 0, _, digits, buf => (digits, buf)
  | i + 1, decFrac, digits, buf =>
    gbWrite i (decFrac / 10) (if decFrac % 10 == 0 && i + 1 == digits then i else digits)
      (UInt8.ofNat (48 + decFrac % 10) :: buf)

/-- what `formatGB` prints after the whole part, for `mb % 1024 = m` -/
def fracPart (m : Nat) : Bytes :=
  if m = 0 then [] else
  let md := gbMin m 5 (m * 10000 / 1024) 10000 4
  if md.2 = 0 then [] else
  let w := gbWrite md.2 md.1 md.2 []
  0x2E :: w.2.take w.1

/-- `formatGB` from `mb := int64(gb * 1024)` on (`gb > 0` there; a negative
`mb` comes out of the conversion only as `MinInt64`, whose remainder is 0) -/
def gbBody (mb : Int) : Bytes := fmtInt (mb.tdiv 1024) ++ fracPart (mb.tmod 1024).toNat

/-- `formatGB(buf, mb/1024)` -/
def fmtGB (mb : Int) : Bytes :=
  if mb = 0 then [0x30] else (if mb < 0 then [0x2D] else []) ++ gbBody (mb.natAbs : Int)

/-- `formatGB(buf, gb)` with `x = gb * 1024` an arbitrarily large integer:
`int64(·)` of a float beyond the range is `MinInt64` on amd64 -/
def fmtGBgo (x : Int) : Bytes :=
  if x = 0 then [0x30] else
  (if x < 0 then [0x2D] else []) ++
    gbBody (if x.natAbs ≥ 2 ^ 63 then -(2 ^ 63 : Int) else (x.natAbs : Int))

/-! ## float_32, roundUpTo -/

def ceilDiv (a b : Nat) : Nat := (a + b - 1) / b

/-- `roundUpTo(v, 1024) * 1024` for the exact decimal value `v` of a literal:
`|v| · 1024` rounded up, with the sign of `v` -/
def litMB (l : FloatLit) : Int :=
  let n : Nat :=
    if l.exp10 ≥ 0 then l.mant * 10 ^ l.exp10.toNat * 1024
    else ceilDiv (l.mant * 1024) (10 ^ (-l.exp10).toNat)
  if l.neg then -(n : Int) else (n : Int)

/-- a NUM_FLOAT as `mem_gb`/`vmem_gb`: out of the float32 range = error; at or
below 2^-150 (half the smallest subnormal) the float32 is 0.  (A literal with
more than `length + 50` digits after the point is below that without
exponentiating.) -/
def readGBFloat (raw : Bytes) : Option Int :=
  match parseFloat true raw with
  | none => none
  | some l =>
    let k := (-l.exp10).toNat
    if decide (l.exp10 < 0) &&
        (decide (k > raw.length + 50) || decide (l.mant * 2 ^ 150 ≤ 10 ^ k)) then some 0
    else some (litMB l)

/-- `roundUpTo(float_32, 1024)` in MB -/
def readGBTok : Tok → Option Int
  | .int raw => (parseInt raw).map (· * 1024)
  | .float raw => readGBFloat raw
  | _ => none

/-- the same on a text which must be exactly one numeric token -/
def readGB (t : Bytes) : Option Int :=
  match numTok false t with
  | .int raw => if raw = t then readGBTok (.int raw) else none
  | .float raw => if raw = t then readGBTok (.float raw) else none
  | _ => none

/-! ### the same with the float32 rounding of the literal (`tryParseFloat32`, `float32(int64)`)

Not used by the readers below (the round-trip theorems are about the exact
reading); it is what the real parser computes for EVERY literal, tied by the
harness, and it exhibits finding F29: from 256 GB on `formatGB`'s text does not
survive the rounding to the nearest float32 that precedes `roundUpTo`. -/

/-- the float32 nearest to the positive rational `n/d` (ties to even, gradual
underflow; no overflow check) as `m · 2^e` with `m ≤ 2^24`, `e ≥ -149` -/
def f32Round (n d : Nat) : Nat × Int :=
  if n = 0 then (0, 0) else
  let e0 : Int := (n.log2 : Int) - (d.log2 : Int) - 23
  let q (e : Int) : Nat := if e ≥ 0 then n / (d * 2 ^ e.toNat) else n * 2 ^ (-e).toNat / d
  let e1 : Int := if q e0 < 2 ^ 23 then e0 - 1 else if q e0 ≥ 2 ^ 24 then e0 + 1 else e0
  let e : Int := if e1 < -149 then -149 else e1
  let N : Nat := if e ≥ 0 then n else n * 2 ^ (-e).toNat
  let D : Nat := if e ≥ 0 then d * 2 ^ e.toNat else d
  let m := N / D
  let rem := N % D
  (if 2 * rem > D || (2 * rem == D && m % 2 == 1) then m + 1 else m, e)

/-- `roundUpTo(m · 2^e, 1024) · 1024` (exact in float64; the result fits float32) -/
def f32MB (me : Nat × Int) : Nat :=
  if me.2 + 10 ≥ 0 then me.1 * 2 ^ (me.2 + 10).toNat else ceilDiv me.1 (2 ^ (-(me.2 + 10)).toNat)

/-- `roundUpTo(float_32, 1024)` in MB, with the float32 rounding of the literal -/
def readGB32Tok : Tok → Option Int
  | .int raw => (parseInt raw).map fun i =>
      if i < 0 then -(f32MB (f32Round i.natAbs 1) : Int) else (f32MB (f32Round i.natAbs 1) : Int)
  | .float raw =>
    match parseFloat true raw with
    | none => none
    | some l =>
      let k := (-l.exp10).toNat
      if decide (l.exp10 < 0) && decide (k > raw.length + 50) then some 0 else
      let v : Nat := f32MB (if l.exp10 ≥ 0 then f32Round (l.mant * 10 ^ l.exp10.toNat) 1
        else f32Round l.mant (10 ^ k))
      some (if l.neg then -(v : Int) else (v : Int))
  | _ => none

def readGB32 (t : Bytes) : Option Int :=
  match numTok false t with
  | .int raw => if raw = t then readGB32Tok (.int raw) else none
  | .float raw => if raw = t then readGB32Tok (.float raw) else none
  | _ => none

/-- `float_32` for `threads`: the token text (the model does not compute with it) -/
def readF32 : Tok → Option Bytes
  | .int raw => if (parseInt raw).isSome then some raw else none
  | .float raw => if (parseFloat true raw).isSome then some raw else none
  | _ => none

/-! ## Resources -/

/-- `Resources`: a field is `some` iff its `…Node` is set.  `mem`, `vmem` in MB;
`threads`: the `%g` text of the float32; `volatile`: `StrictVolatile` -/
structure Res where
  mem : Option Int := none
  special : Option Bytes := none
  threads : Option Bytes := none
  vmem : Option Int := none
  volatile : Option Bool := none
  deriving Repr, DecidableEq, Inhabited

def memPad (r : Res) : Bytes :=
  if r.volatile.isSome then [0x20, 0x20]
  else if r.vmem.isSome || r.special.isSome || r.threads.isSome then [0x20]
  else []

def threadPad (r : Res) : Bytes := if r.volatile.isSome then [0x20] else []

def sEq : Bytes := [0x20, 0x3D, 0x20]
def sEnd : Bytes := [0x2C, 0x0A]

/-- `) using (` newline -/
def sUsingOpen : Bytes := [0x29, 0x20] ++ sUsing ++ [0x20, 0x28, 0x0A]

/-- `) retain (` newline -/
def sRetainOpen : Bytes := [0x29, 0x20] ++ sRetain ++ [0x20, 0x28, 0x0A]

def memLine (pad : Bytes) : Option Int → Bytes
  | some mb => indent ++ sMemGb ++ pad ++ sEq ++ fmtGB mb ++ sEnd
  | none => []

def specialLine (pad : Bytes) : Option Bytes → Bytes
  | some s => indent ++ sSpecial ++ pad ++ sEq ++ quoteString s ++ sEnd
  | none => []

def threadsLine (pad : Bytes) : Option Bytes → Bytes
  | some t => indent ++ sThreads ++ pad ++ sEq ++ t ++ sEnd
  | none => []

def vmemLine (pad : Bytes) : Option Int → Bytes
  | some mb => indent ++ sVmemGb ++ pad ++ sEq ++ fmtGB mb ++ sEnd
  | none => []

def volatileLine : Option Bool → Bytes
  | some b => indent ++ sVolatile ++ sEq ++ (if b then sStrict else sFalse) ++ sEnd
  | none => []

/-- the entries of `Resources.format` -/
def fmtResBody (r : Res) : Bytes :=
  memLine (memPad r) r.mem ++ specialLine (threadPad r) r.special ++
    threadsLine (threadPad r) r.threads ++ vmemLine (threadPad r) r.vmem ++ volatileLine r.volatile

/-- `Resources.format` (no comments): from `) using (` to the last `,` newline;
for a `Resources` without any node (`using ()`) just the opening line -/
def fmtRes (r : Res) : Bytes := sUsingOpen ++ fmtResBody r

/-- `resource_list` up to and including the closing parenthesis -/
def pResList : List Tok → Res → Option (Res × List Tok)
  | .punct 0x29 :: r, acc => some (acc, r)
  | .id k :: .punct 0x3D :: v :: .punct 0x2C :: r, acc =>
    if k = sThreads then
      match readF32 v with
      | some t => pResList r { acc with threads := some t }
      | none => none
    else if k = sMemGb ∨ k = sMemgb then
      match readGBTok v with
      | some mb => pResList r { acc with mem := some mb }
      | none => none
    else if k = sVmemGb ∨ k = sVmemgb then
      match readGBTok v with
      | some mb => pResList r { acc with vmem := some mb }
      | none => none
    else if k = sSpecial then
      match v with
      | .str raw =>
        match unquoteBytes raw with
        | some s => pResList r { acc with special := some s }
        | none => none
      | _ => none
    else if k = sVolatile then
      match v with
      | .id w => if w = sStrict then pResList r { acc with volatile := some true } else none
      | .kFalse => pResList r { acc with volatile := some false }
      | _ => none
    else none
  | _, _ => none

/-- `resources`: empty, or `USING '(' resource_list ')'` -/
def pResources : List Tok → Option (Option Res × List Tok)
  | .id w :: ts =>
    if w = sUsing then
      match ts with
      | .punct 0x28 :: r => (pResList r {}).map fun x => (some x.1, x.2)
      | _ => none
    else some (none, .id w :: ts)
  | ts => some (none, ts)

/-- what the parser can produce and the printer is claimed for: a string that
is valid UTF-8; a `threads` text that is a NUM_FLOAT in the float32 range or a
canonical NUM_INT; values of `int64` size -/
def wfThreads (t : Bytes) : Bool :=
  (isFloatTok t && (parseFloat true t).isSome) || isCanonInt t

/-- **The exact domain of the resource round trip**: `formatGB`'s text for `mb` MB, read the way the
REAL parser reads it (`readGB32`: nearest float32 of the literal, then `roundUpTo(·, 1024)`), is `mb`
again — and `mb` is within `formatGB`'s `int64` range (F25).  Decidable, evaluated by the driver.
True for every `|mb| < 2^18` (below 256 GB: `gbRoundTrips_below_256GB`, all values by kernel
evaluation) and for every whole number of GB up to 64 TB (`gbRoundTrips_whole_GB`: `formatGB` prints
an integer, which float32 holds exactly); false for about 0.8 % of the values just above 256 GB
(finding F29, e.g. 262188 MB) and more and more often as the float32 spacing grows. -/
def gbRoundTrips (mb : Int) : Bool :=
  decide (mb.natAbs < 2 ^ 63) && (readGB32 (fmtGB mb) == some mb)

/-- `mem_gb` / `vmem_gb` values for which the round-trip theorems are claimed: exactly those on which
the real reader inverts `formatGB` (`gbRoundTrips`; third audit A10: formerly the range `|mb| < 2^18`,
which excluded every value from 256 GB on although F29 affects few of them). -/
def wfMB : Option Int → Bool
  | some mb => gbRoundTrips mb
  | none => true

def wfRes (r : Res) : Bool :=
  wfMB r.mem && wfMB r.vmem &&
    (match r.special with | some s => Martian.ShellQuote.validUtf8 s | none => true) &&
    (match r.threads with | some t => wfThreads t | none => true)

/-! ## retain -/

def retainLines : List Bytes → Bytes
  | [] => []
  | x :: r => indent ++ x ++ sEnd ++ retainLines r

/-- `RetainParams.format` (no comments): from `) retain (` to the last `,` newline -/
def fmtRetain (ids : List Bytes) : Bytes := sRetainOpen ++ retainLines ids

/-- `stage_retain_list` up to and including the closing parenthesis -/
def pRetainList : List Tok → Option (List Bytes × List Tok)
  | .punct 0x29 :: r => some ([], r)
  | .id x :: .punct 0x2C :: r => (pRetainList r).map fun y => (x :: y.1, y.2)
  | _ => none

/-- `stage_retain`: empty, or `RETAIN '(' stage_retain_list ')'` -/
def pRetain : List Tok → Option (Option (List Bytes) × List Tok)
  | .id w :: ts =>
    if w = sRetain then
      match ts with
      | .punct 0x28 :: r => (pRetainList r).map fun x => (some x.1, x.2)
      | _ => none
    else some (none, .id w :: ts)
  | ts => some (none, ts)

/-! ## the src line -/

inductive Lang
  | py | exec | comp
  deriving Repr, DecidableEq, Inhabited

def Lang.text : Lang → Bytes
  | .py => sPy
  | .exec => sExec
  | .comp => sComp

/-- `strings.Join(parts, " ")` -/
def joinSp : List Bytes → Bytes
  | [] => []
  | [x] => x
  | x :: y :: r => x ++ 0x20 :: joinSp (y :: r)

/-- `SrcParam.format(printer, modeWidth, typeWidth)` (no comments) -/
def fmtSrc (mw tw : Nat) (lang : Lang) (path : Bytes) (args : List Bytes) : Bytes :=
  indent ++ sSrc ++ [0x20] ++ spaces (mw - 3) ++ lang.text ++ spaces (tw - lang.text.length) ++
    [0x20] ++ quoteString (joinSp (path :: args)) ++ sEnd

/-- length of the white-space rune of `unicode.IsSpace` encoded at the head of
the text, beyond ASCII: U+0085, U+00A0, U+1680, U+2000–U+200A, U+2028, U+2029,
U+202F, U+205F, U+3000; 0 = none.  (Each starts with a lead byte, which Go's
decoder never takes for part of the previous rune, so this is what
`utf8.DecodeRune` sees on any byte string.) -/
def uSp2 (c x : UInt8) : Bool := c == 0xC2 && (x == 0x85 || x == 0xA0)

def uSp3 (c x y : UInt8) : Bool :=
  (c == 0xE1 && x == 0x9A && y == 0x80) ||
  (c == 0xE2 && x == 0x80 && ((0x80 ≤ y && y ≤ 0x8A) || y == 0xA8 || y == 0xA9 || y == 0xAF)) ||
  (c == 0xE2 && x == 0x81 && y == 0x9F) ||
  (c == 0xE3 && x == 0x80 && y == 0x80)

def uSpaceLen : Bytes → Nat
  | c :: x :: y :: _ => if uSp2 c x then 2 else if uSp3 c x y then 3 else 0
  | [c, x] => if uSp2 c x then 2 else 0
  | _ => 0

/-- does the text contain a non-ASCII white-space rune? -/
def hasUSpace : Bytes → Bool
  | [] => false
  | c :: r => uSpaceLen (c :: r) != 0 || hasUSpace r

def flush (cur : Bytes) (rest : List Bytes) : List Bytes :=
  if cur = [] then rest else cur.reverse :: rest

/-- `strings.Fields`: split around runs of `unicode.IsSpace` runes.  `skip`:
bytes of a multi-byte white-space rune still to be dropped -/
def fieldsUAux : Bytes → Nat → Bytes → List Bytes
  | [], _, cur => flush cur []
  | _ :: r, skip + 1, cur => fieldsUAux r skip cur
  | c :: r, 0, cur =>
    if isSpaceAscii c then flush cur (fieldsUAux r 0 [])
    else if uSpaceLen (c :: r) != 0 then flush cur (fieldsUAux r (uSpaceLen (c :: r) - 1) [])
    else fieldsUAux r 0 (c :: cur)

def fieldsU (s : Bytes) : List Bytes := fieldsUAux s 0 []

/-- the action of `src_stm` on the string literal: `strings.Fields` of the
unquoted text (`TrimSpace` first makes no difference to `Fields`); an empty
command is an error -/
def readCmd (raw : Bytes) : Option (Bytes × List Bytes) :=
  match unquoteBytes raw with
  | some s =>
    match fieldsU s with
    | p :: a => some (p, a)
    | [] => none
  | none => none

/-- `src_lang`: PY | EXEC | COMPILED -/
def readLang : Tok → Option Lang
  | .reserved w => if w = sPy then some .py else none
  | .id w => if w = sExec then some .exec else if w = sComp then some .comp else none
  | _ => none

def langTok : Lang → Tok
  | .py => .reserved sPy
  | .exec => .id sExec
  | .comp => .id sComp

/-- `src_stm`: `SRC src_lang LITSTRING ','` -/
def pSrc : List Tok → Option ((Lang × Bytes × List Bytes) × List Tok)
  | .reserved w :: l :: .str raw :: .punct 0x2C :: r =>
    if w = sSrc then
      match readLang l, readCmd raw with
      | some lang, some (p, a) => some ((lang, p, a), r)
      | _, _ => none
    else none
  | _ => none

/-- a field of the command: not empty, no white space (ASCII or not) -/
def wfField (f : Bytes) : Bool := f != [] && f.all (fun c => !isSpaceAscii c) && !hasUSpace f

/-- what `src_stm` can produce: fields without white space; the command is valid UTF-8 -/
def wfSrc (path : Bytes) (args : List Bytes) : Bool :=
  wfField path && args.all wfField && Martian.ShellQuote.validUtf8 (joinSp (path :: args))

/-! ## the clauses together: everything after the `src` line of a stage without `split` -/

/-- `Stage.format` from the `Resources`/`Retain` clauses to the end (a stage
that is not split): the clauses that are present, then `)` newline -/
def fmtTail (res : Option Res) (ret : Option (List Bytes)) : Bytes :=
  (match res with | some r => fmtRes r | none => []) ++
    (match ret with | some ids => fmtRetain ids | none => []) ++ [0x29, 0x0A]

/-- `')' resources stage_retain` (the `split_param_list` between them empty) -/
def pTail : List Tok → Option ((Option Res × Option (List Bytes)) × List Tok)
  | .punct 0x29 :: ts =>
    match pResources ts with
    | some (res, ts1) =>
      match pRetain ts1 with
      | some (ret, ts2) => some ((res, ret), ts2)
      | none => none
    | none => none
  | _ => none

def sStage : Bytes := [0x73, 0x74, 0x61, 0x67, 0x65]

/-- a stage without parameters and without `split`: the smallest declaration
that carries all three clauses -/
structure Stage0 where
  id : Bytes
  lang : Lang
  path : Bytes
  args : List Bytes
  res : Option Res
  retain : Option (List Bytes)
  deriving Repr, DecidableEq, Inhabited

/-- `Stage.format` for it (`modeWidth = max 0 (len "src")`, `typeWidth = 0`) -/
def fmtStage0 (s : Stage0) : Bytes :=
  sStage ++ [0x20] ++ s.id ++ [0x28, 0x0A] ++ fmtSrc 3 0 s.lang s.path s.args ++ fmtTail s.res s.retain

/-- `STAGE id '(' src_stm ')' resources stage_retain` and the end of the input -/
def pStage0 : List Tok → Option Stage0
  | .reserved w :: .id name :: .punct 0x28 :: ts =>
    if w = sStage then
      match pSrc ts with
      | some ((lang, path, args), ts1) =>
        match pTail ts1 with
        | some ((res, ret), []) => some ⟨name, lang, path, args, res, ret⟩
        | _ => none
      | none => none
    else none
  | _ => none

def parseStage0 (src : Bytes) : Option Stage0 := (lexAll src).bind pStage0

def wfRetain (ids : List Bytes) : Bool := ids.all isIdent

def wfStage0 (s : Stage0) : Bool :=
  isIdent s.id && wfSrc s.path s.args &&
    (match s.res with | some r => wfRes r | none => true) &&
    (match s.retain with | some ids => wfRetain ids | none => true)

end Martian.FormatRes
