/-
C08 model: the WHOLE tokenizer of martian/syntax — `nextToken`
(tokenizer.go) and the scanner loop `mmLexInfo.Lex` (lexer.go) as the generated
parser drives it.

* `bytesPrefixString`, `leadingSpace`, `tokCommentRule` are modelled from the
  Go text (byte / rune level, `utf8.DecodeRune` = `Martian.Regex.decodeRune`);
* the regexp rules are the recognisers of `Martian.Lexer` (strings, numbers —
  `numTok false` is the numeric clause of `keywordToken`) and, for
  identifiers, the generic matcher `Martian.Regex.pmatch` on the parsed
  regenerated `Gen.tokIdRegex`;
* `keywordToken` is INTERPRETED from the regenerated tables `Gen.tokSwitch`
  (the `switch r` on the first byte, clause by clause) and `Gen.tokIds` (the
  token constants of grammar.go).  All functions take the tables as a parameter
  (`Tables`), so the theorems of `Proofs/Tokenizer.lean` hold for ANY table;
* `lexRawFuel` is the loop of `Lex` flattened with the loop around it (the
  parser calls `Lex` until it returns 0 or the token INVALID): it lists EVERY
  token, the SKIP and COMMENT ones included, with the location `Lex` has when
  it sees the token; `lexAll` (the tokens the parser receives), `lexComments`
  (the comment blocks `Lex` collects) and `lexPos` (the final scan position)
  are projections of it.

Core Lean only.
-/
import Martian.Regex
import Martian.Lexer
import Gen.Facts

namespace Martian.Tokenizer
open Martian.Regex (Bytes Re decodeRune isWord)

abbrev SwitchTable := List (List Nat × String × List (String × String))
abbrev IdTable := List (String × Nat)

/-- the tables the tokenizer is interpreted from: the first-byte switch of
`keywordToken`, the token constants, and the parsed identifier regex (`none` =
outside the regex subset: no identifier ever matches) -/
structure Tables where
  sw : SwitchTable
  ids : IdTable
  idRe : Option Re

def genTables : Tables := ⟨Gen.tokSwitch, Gen.tokIds, Martian.Regex.parse Gen.tokIdRegex⟩

def lookupId (ids : IdTable) (name : String) : Nat :=
  match ids.lookup name with
  | some n => n
  | none => 0

def skipId (T : Tables) : Nat := lookupId T.ids "SKIP"
def commentId (T : Tables) : Nat := lookupId T.ids "COMMENT"
def invalidId (T : Tables) : Nat := lookupId T.ids "INVALID"

/-- the bytes of a keyword (`byte(r)` for every rune `r` of the Go string; the
extractor admits ASCII keywords only, for which this is the string itself) -/
def strBytes (s : String) : Bytes := s.toList.map fun c => UInt8.ofNat c.toNat

/-! ## `bytesPrefixString` -/

/-- does `b` start with `kw` -/
def startsWith : Bytes → Bytes → Bool
  | [], _ => true
  | _ :: _, [] => false
  | k :: ks, c :: cs => k == c && startsWith ks cs

def nextIsWord : Bytes → Bool
  | [] => false
  | c :: _ => isWord c

/-- `bytesPrefixString(b, kw)`: `b[:len(kw)]` when `b` starts with `kw` and the
byte after it (if any) is not an ASCII word character; otherwise nil. -/
def bytesPrefixString (b kw : Bytes) : Bytes :=
  -- (`len(b) < len(kw)` → nil: `startsWith` fails then)
  if nextIsWord (b.drop kw.length) then []
  else if startsWith kw b then b.take kw.length else []

/-! ## `leadingSpace` -/

def isAsciiSpace (c : UInt8) : Bool :=
  c == 0x09 || c == 0x0A || c == 0x0B || c == 0x0C || c == 0x0D || c == 0x20

/-- `unicode.IsSpace` on a rune ≥ 0x80 -/
def isUniSpace (r : Nat) : Bool :=
  r == 0x85 || r == 0xA0 || r == 0x1680 || (0x2000 ≤ r && r ≤ 0x200A) || r == 0x2028 || r == 0x2029 ||
  r == 0x202F || r == 0x205F || r == 0x3000

/-- number of leading white-space bytes.  A non-ASCII byte starts a rune
(`utf8.DecodeRune`); the scan stops at a rune that is `utf8.RuneError` — an
invalid byte, but also a VALID encoding of U+FFFD — or not a space.
`fuel` = the length suffices (every step consumes at least one byte). -/
def spaceLen : Nat → Bytes → Nat
  | 0, _ => 0
  | _ + 1, [] => 0
  | f + 1, c :: r =>
    if c < 0x80 then (if isAsciiSpace c then 1 + spaceLen f r else 0)
    else
      let d := decodeRune (c :: r)
      if d.1 == 0xFFFD || !isUniSpace d.1 then 0
      else d.2 + spaceLen f ((c :: r).drop d.2)

def leadingSpace (b : Bytes) : Bytes := b.take (spaceLen b.length b)

/-! ## `tokCommentRule` -/

/-- number of bytes of a comment after the `#`: runes up to and including the
first `\n`; stops BEFORE a rune that decodes to `utf8.RuneError`. -/
def commentBody : Nat → Bytes → Nat
  | 0, _ => 0
  | _ + 1, [] => 0
  | f + 1, c :: r =>
    let d := decodeRune (c :: r)
    if d.1 == 0xFFFD then 0
    else if d.1 == 0x0A then d.2
    else d.2 + commentBody f ((c :: r).drop d.2)

def commentRule (T : Tables) (b : Bytes) : Bytes × Nat :=
  match b with
  | [] => ([], 0)
  | c :: r =>
    if c != 0x23 then ([], invalidId T)
    else (b.take (1 + commentBody r.length r), commentId T)

/-! ## the regexp rules -/

def stringRule (T : Tables) (b : Bytes) : Bytes × Nat :=
  match Martian.Lexer.matchString b with
  | some t => (t, lookupId T.ids "LITSTRING")
  | none => ([], lookupId T.ids "LITSTRING")

/-- the numeric clause: float rule first (INVALID with the text when
`tryParseFloat` rejects it), then the int rule (INVALID with the text when
`tryParseInt` rejects it) -/
def numberRule (T : Tables) (b : Bytes) : Bytes × Nat :=
  match Martian.Lexer.numTok false b with
  | .float t => (t, lookupId T.ids "NUM_FLOAT")
  | .int t => (t, lookupId T.ids "NUM_INT")
  | .invalid t => (t, invalidId T)
  | .nomatch => ([], lookupId T.ids "NUM_INT")

def idRule (T : Tables) (b : Bytes) : Bytes × Nat :=
  match T.idRe with
  | none => ([], lookupId T.ids "ID")
  | some re =>
    match Martian.Regex.pmatch re b with
    | some t => (t, lookupId T.ids "ID")
    | none => ([], lookupId T.ids "ID")

/-! ## `keywordToken`, interpreted from the switch table -/

def findClause : SwitchTable → Nat → Option (String × List (String × String))
  | [], _ => none
  | (bs, kind, kws) :: rest, c => if bs.contains c then some (kind, kws) else findClause rest c

/-- a keyword clause: the first keyword, in source order, that
`bytesPrefixString` matches (an empty result = no keyword matched; the token id
is then irrelevant to `nextToken`) -/
def keywordMatch (T : Tables) (b : Bytes) : List (String × String) → Bytes × Nat
  | [] => ([], 0)
  | (kw, tok) :: rest =>
    let v := bytesPrefixString b (strBytes kw)
    if v.length > 0 then (v, lookupId T.ids tok) else keywordMatch T b rest

def clauseResult (T : Tables) (kind : String) (kws : List (String × String)) (c : UInt8) (b : Bytes) : Bytes × Nat :=
  if kind == "punct" then (b.take 1, c.toNat)
  else if kind == "string" then stringRule T b
  else if kind == "comment" then commentRule T b
  else if kind == "space" then (leadingSpace b, skipId T)
  else if kind == "number" then numberRule T b
  else if kind == "ident" then idRule T b
  else if kind == "keywords" then keywordMatch T b kws
  else ([], 0)

def keywordTokenT (T : Tables) (b : Bytes) : Bytes × Nat :=
  match b with
  | [] => ([], 0)
  | c :: _ =>
    match findClause T.sw c.toNat with
    | some (kind, kws) => clauseResult T kind kws c b
    | none =>
      -- `if r > utf8.RuneSelf { return leadingSpace(b) }` (strictly greater: 0x80 itself is not tried)
      if c > 0x80 then (leadingSpace b, skipId T) else ([], 0)

/-! ## `nextToken` -/

def nextTokenT (T : Tables) (head : Bytes) : Nat × Bytes :=
  let kt := keywordTokenT T head
  if kt.1.length > 0 then (kt.2, kt.1)
  else
    let it := idRule T head
    if it.1.length > 0 then (it.2, it.1) else (invalidId T, [])

def keywordToken : Bytes → Bytes × Nat := keywordTokenT genTables
def nextToken : Bytes → Nat × Bytes := nextTokenT genTables

/-! ## `mmLexInfo.Lex` and the loop around it -/

structure Tok where
  id : Nat
  text : Bytes
  line : Nat
  col : Nat
  deriving Repr, DecidableEq

/-- the location fields of `mmLexInfo`: `loc.Line`, `loc.Col`, `incCol`,
`token` (the previous token) -/
structure Loc where
  line : Nat
  col : Nat
  incCol : Bool
  tok : Bytes
  deriving Repr, DecidableEq

def startLoc : Loc := ⟨1, 1, false, []⟩

/-- `SourceLoc.advance` (over a SKIP token, and over the previous token when
`incCol`): `'\n'` → `Line++; Col = 0`, then `Col++` -/
def skipLoc : Bytes → Nat → Nat → Nat × Nat
  | [], line, col => (line, col)
  | b :: r, line, col => if b == 0x0A then skipLoc r (line + 1) 1 else skipLoc r line (col + 1)

/-- one iteration of the loop of `Lex` after `nextToken`: the token with the
location `Lex` has when it looks at it (the location is first advanced over
the previous token if `incCol` — newlines inside it, i.e. inside a string
literal, count), and the location fields afterwards. -/
def stepLoc (T : Tables) (l : Loc) (id : Nat) (text : Bytes) : Tok × Loc :=
  let p : Nat × Nat := if l.incCol then skipLoc l.tok l.line l.col else (l.line, l.col)
  if id == skipId T then
    (⟨id, text, p.1, p.2⟩, ⟨(skipLoc text p.1 p.2).1, (skipLoc text p.1 p.2).2, false, l.tok⟩)
  else if id == commentId T then
    (⟨id, text, p.1, p.2⟩, ⟨(skipLoc text p.1 p.2).1, (skipLoc text p.1 p.2).2, false, l.tok⟩)
  else (⟨id, text, p.1, p.2⟩, ⟨p.1, p.2, true, text⟩)

/-- does the loop around `Lex` stop after this token: `Lex` RETURNED it (it is
neither SKIP nor COMMENT) and it is INVALID -/
def stops (T : Tables) (id : Nat) : Bool :=
  id != skipId T && id != commentId T && id == invalidId T

/-- every token of the source in order (SKIP and COMMENT ones included), and
the unconsumed rest.  The loop ends at the end of the input or after an INVALID
token.  `fuel` = length + 1 suffices (`Proofs.Tokenizer.lexRawFuel_fuel`). -/
def lexRawFuel (T : Tables) : Nat → Bytes → Loc → List Tok × Bytes
  | 0, src, _ => ([], src)
  | _ + 1, [], _ => ([], [])
  | f + 1, c :: r, l =>
    let nt := nextTokenT T (c :: r)
    let tl := stepLoc T l nt.1 nt.2
    let rest := (c :: r).drop nt.2.length
    if stops T nt.1 then ([tl.1], rest)
    else
      let res := lexRawFuel T f rest tl.2
      (tl.1 :: res.1, res.2)

def lexAllRawT (T : Tables) (src : Bytes) : List Tok × Bytes := lexRawFuel T (src.length + 1) src startLoc

def isTrivia (T : Tables) (id : Nat) : Bool := id == skipId T || id == commentId T

/-- the tokens `Lex` returns to the parser, the last one being INVALID when the
scan stopped early (= the tokens of the hook `VerifLexAll`) -/
def lexAllT (T : Tables) (src : Bytes) : List Tok :=
  (lexAllRawT T src).1.filter fun t => !isTrivia T t.id

/-- `bytes.TrimSpace` on a comment: nothing to trim on the left (the text
starts with `#`); on the right the trailing white-space runes go.  (A comment
token consists of validly encoded runes only, so decoding forwards finds the
runes `TrimSpace` finds decoding backwards.) -/
def trimRight : Nat → Bytes → Bytes
  | 0, _ => []
  | _ + 1, [] => []
  | f + 1, c :: r =>
    let d := decodeRune (c :: r)
    let rest := trimRight f ((c :: r).drop d.2)
    if rest.isEmpty && (if c < 0x80 then isAsciiSpace c else isUniSpace d.1) then []
    else (c :: r).take d.2 ++ rest

/-- the comment blocks `Lex` collects: location BEFORE `Line++`, trimmed text -/
def lexCommentsT (T : Tables) (src : Bytes) : List (Nat × Nat × Bytes) :=
  ((lexAllRawT T src).1.filter fun t => t.id != skipId T && t.id == commentId T).map
    fun t => (t.line, t.col, trimRight t.text.length t.text)

/-- the final scan position `pos` -/
def lexPosT (T : Tables) (src : Bytes) : Nat := src.length - (lexAllRawT T src).2.length

def lexAllRaw : Bytes → List Tok × Bytes := lexAllRawT genTables
def lexAll : Bytes → List Tok := lexAllT genTables
def lexComments : Bytes → List (Nat × Nat × Bytes) := lexCommentsT genTables
def lexPos : Bytes → Nat := lexPosT genTables

/-- number of newline bytes -/
def countNL : Bytes → Nat
  | [] => 0
  | b :: r => (if b == 0x0A then 1 else 0) + countNL r

end Martian.Tokenizer
