/-
Compile-time typing of whole call statements and pipelines (C07, second part),
on top of Martian/Typing.lean.

Models, function by function, the Go code in martian/syntax:
  compile_params.go    `BindStms.compileWildcard`        → `wildMembers`, `expandWild`
                       `BindStms.compileGeneric/compile` → `checkCallW`
                       `BindStms.compileReturns`         → `checkReturn`
  compile_stages.go    `Modifiers.compile`               → `modErrs`, `modsOk`
                       `RetainParams.compile`            → `stageRetainOk`
  compile_pipelines.go `PipelineRetains.compile`         → `pipeRetainOk`
                       `Pipeline.compile` (the loop over the topologically
                       sorted calls) + `compilePipelineArgs` (return, retain)
                                                         → `checkCalls`, `checkPipeline`

Core Lean only; every function is structurally recursive.

A wildcard binding (`* = self`, `* = REF`) is always the LAST entry of a
binding list (grammar), so a binding list is `binds : List (Bytes × Bind)`
plus `wild : Option Wild`.

The calls of a pipeline are given in dependency order (the compiler sorts them
topologically before checking; a call can only refer to calls it depends on, a
cycle is rejected by `topoSort`), so the environment of call k consists of the
calls before it.
-/
import Martian.Typing

namespace Martian.Typing
open Martian.Json Martian.Types

/-! ## Wildcard bindings (`compileWildcard`) -/

/-- `* = self` or `* = REF` (`REF` a reference expression `self.x.p` / `ID.p`) -/
inductive Wild where
  | self
  | ref (e : Exp)

/-- `tid.ArrayDim = 0; tid.MapDim = 0`: the type under all array / typed map wrappers -/
def stripDims : Ty → Ty
  | .arr t => stripDims t
  | .tmap t => stripDims t
  | .base b => .base b
  | .user n => .user n
  | .struct n fs => .struct n fs

/-- `r.OutputId = r.OutputId + "." + m.Id` -/
def refAppend : Exp → Bytes → Exp
  | .self id p, m => .self id (p ++ [m])
  | .call id p, m => .call id (p ++ [m])
  | e, _ => e

/-- the candidate bindings `m = REF.m` of a wildcard, one per pipeline input
(`* = self`) or per member of the struct type under the reference's type
(`none`: the reference does not resolve, or what it refers to is not a struct:
"wildcard binding must be a reference to a struct") -/
def wildMembers (Γ : Env) : Wild → Option (List (Bytes × Exp))
  | .self => some (Γ.self.map fun m => (m.1, Exp.self m.1 []))
  | .ref e =>
    match refType Γ e with
    | none => none
    | some t =>
      match stripDims t with
      | .struct _ fs => some (fs.toList.map fun m => (m.1, refAppend e m.1))
      | _ => none

/-- the bindings a wildcard stands for: the candidates whose name is a declared
parameter of the callee (`params.GetParam(m.Id)`), in declaration order -/
def expandWild (Γ : Env) (params : List (Bytes × Ty)) (w : Wild) : Option (List (Bytes × Bind)) :=
  match wildMembers Γ w with
  | none => none
  | some ms =>
    some ((ms.filter fun m => (params.lookup m.1).isSome).map fun m => (m.1, Bind.plain m.2))

/-- the full binding list of a call: the written bindings followed by the
expansion of the wildcard -/
def allBinds (Γ : Env) (params : List (Bytes × Ty)) (binds : List (Bytes × Bind)) :
    Option Wild → Option (List (Bytes × Bind))
  | none => some binds
  | some w =>
    match expandWild Γ params w with
    | none => none
    | some ex => some (binds ++ ex)

/-- `BindStms.compile` with a wildcard: the expanded bindings go through the
same table (`addBinding`), so a parameter bound explicitly AND by the wildcard
is a `DuplicateBinding`, and a parameter neither bound explicitly nor a member
is an `ArgumentNotSuppliedError` -/
def checkCallW (Γ : Env) (params : List (Bytes × Ty)) (binds : List (Bytes × Bind))
    (w : Option Wild) : Option (Option SplitShape) :=
  match allBinds Γ params binds w with
  | none => none
  | some bs => checkCall Γ params bs

def validCallW (Γ : Env) (params : List (Bytes × Ty)) (binds : List (Bytes × Bind))
    (w : Option Wild) : Bool :=
  (checkCallW Γ params binds w).isSome

/-! ### error classes of a binding list (what the compiler reports) -/

inductive BindErr where
  /-- the wildcard's reference does not resolve / is not a struct -/
  | wildcard
  /-- `DuplicateBinding` -/
  | dup
  /-- `ArgumentError`: not a parameter of the callee -/
  | unknown
  /-- `ArgumentNotSuppliedError` -/
  | missing
  /-- `TypeMismatchError` -/
  | type
  /-- inconsistent split sources -/
  | mapping
  deriving DecidableEq, Repr

/-- the error classes of `checkCall` (`[]` = accepted) -/
def callErrs (Γ : Env) (params : List (Bytes × Ty)) (bs : List (Bytes × Bind)) : List BindErr :=
  let e1 := if bs.any (fun ib => (params.lookup ib.1).isNone) then [BindErr.unknown] else []
  let e2 := if bs.any (fun ib =>
      match params.lookup ib.1 with
      | some t => !validBind Γ t ib.2
      | none => false) then [BindErr.type] else []
  let e3 := if (bs.map Prod.fst).eraseDups.length != bs.length then [BindErr.dup] else []
  let e4 := if params.any (fun p => (bs.lookup p.1).isNone) then [BindErr.missing] else []
  let es := e1 ++ e2 ++ e3 ++ e4
  if es.isEmpty then
    (match mergeAll none (bs.filterMap (fun ib => bindShape Γ ib.2)) with
      | some _ => []
      | none => [BindErr.mapping])
  else es

/-- the error classes of a binding list with a wildcard; a wildcard that cannot
be expanded is reported next to the errors of the written bindings -/
def callErrsW (Γ : Env) (params : List (Bytes × Ty)) (binds : List (Bytes × Bind))
    (w : Option Wild) : List BindErr :=
  match allBinds Γ params binds w with
  | none => BindErr.wildcard :: callErrs Γ params binds
  | some bs => callErrs Γ params bs

/-! ## Modifiers (`Modifiers.compile`) -/

/-- one entry of `using (…)`: `local = b`, `preflight = b`, `volatile = b`
(the grammar only allows boolean literals) or `disabled = REF` (only a
reference) -/
inductive ModItem where
  | loc (b : Bool)
  | pre (b : Bool)
  | vol (b : Bool)
  | dis (e : Exp)

/-- 0 local, 1 preflight, 2 volatile, 3 disabled -/
def ModItem.tag : ModItem → Nat
  | .loc _ => 0 | .pre _ => 1 | .vol _ => 2 | .dis _ => 3

/-- `call local preflight volatile ID(…) using (…)` -/
structure Mods where
  kwLocal : Bool
  kwPreflight : Bool
  kwVolatile : Bool
  usings : List ModItem

inductive ModErr where
  /-- `DuplicateBinding` in the `using` list -/
  | dup
  /-- `TypeMismatchError`: `disabled` is not a reference to a `bool` -/
  | type
  /-- `ConflictingModifiers` -/
  | conflict
  /-- `UnsupportedTagError`: local / preflight / volatile on a pipeline -/
  | unsupported
  /-- `PreflightBindingError` -/
  | preBinding
  /-- `PreflightOutputError` -/
  | preOutput
  deriving DecidableEq, Repr

def usingVal (tag : Nat) : List ModItem → Option Bool
  | [] => none
  | .loc b :: r => if tag = 0 then some b else usingVal tag r
  | .pre b :: r => if tag = 1 then some b else usingVal tag r
  | .vol b :: r => if tag = 2 then some b else usingVal tag r
  | .dis _ :: r => usingVal tag r

def usingDisabled : List ModItem → Option Exp
  | [] => none
  | .dis e :: _ => some e
  | _ :: r => usingDisabled r

/-- the value of a keyword modifier after `using` has been folded in
(`mods.Local = binding.Exp.(*BoolExp).Value`) -/
def effective (kw : Bool) (u : Option Bool) : Bool :=
  match u with
  | some b => b
  | none => kw

/-- `binding.Exp.getKind() == KindCall`: the binding IS a reference to a call
(a reference inside an array / map literal or under `split` has another kind) -/
def isCallRef : Exp → Bool
  | .call _ _ => true
  | _ => false

def bindIsCallRef : Bind → Bool
  | .plain e => isCallRef e
  | .split _ => false           -- `KindSplit`

def wildIsCallRef : Option Wild → Bool
  | some (.ref e) => isCallRef e
  | _ => false

/-- what the callee looks like to `Modifiers.compile` -/
structure Callee where
  name : Bytes
  isStage : Bool
  params : List (Bytes × Ty)
  outs : Fields

/-- all errors `Modifiers.compile` reports (`[]` = accepted).  Errors of the
`using` bindings themselves (`mods.Bindings.compile`) end the check at once. -/
def modErrs (Γ : Env) (callee : Callee) (binds : List (Bytes × Bind)) (w : Option Wild)
    (m : Mods) : List ModErr :=
  let tags := m.usings.map ModItem.tag
  if tags.eraseDups.length != tags.length then [.dup] else
  if (match usingDisabled m.usings with
      | some e => !validBind Γ (.base .bool) (.plain e)
      | none => false) then [.type] else
  let eLocal := effective m.kwLocal (usingVal 0 m.usings)
  let ePre := effective m.kwPreflight (usingVal 1 m.usings)
  let eVol := effective m.kwVolatile (usingVal 2 m.usings)
  (if m.kwVolatile && (usingVal 2 m.usings).isSome then [ModErr.conflict] else []) ++
  (if m.kwLocal && (usingVal 0 m.usings).isSome then [ModErr.conflict] else []) ++
  (if m.kwPreflight && (usingVal 1 m.usings).isSome then [ModErr.conflict] else []) ++
  (if !callee.isStage && (eLocal || ePre || eVol) then [ModErr.unsupported] else []) ++
  (if ePre && (binds.any (fun ib => bindIsCallRef ib.2) || wildIsCallRef w ||
        (match usingDisabled m.usings with | some e => isCallRef e | none => false))
    then [ModErr.preBinding] else []) ++
  (if ePre && !callee.outs.toList.isEmpty then [ModErr.preOutput] else [])

def modsOk (Γ : Env) (callee : Callee) (binds : List (Bytes × Bind)) (w : Option Wild)
    (m : Mods) : Bool :=
  (modErrs Γ callee binds w m).isEmpty

def noMods : Mods := { kwLocal := false, kwPreflight := false, kwVolatile := false, usings := [] }

/-! ## Retain lists -/

/-- `IsFile() != KindIsNotFile` -/
def retainable (t : Ty) : Bool := fileKind t != .notFile

/-- `RetainParams.compile`: every name is an out parameter of the stage whose
type is not `KindIsNotFile` (a name may be repeated) -/
def stageRetainOk (outs : Fields) (ids : List Bytes) : Bool :=
  ids.all fun id =>
    match outs.get id with
    | some t => retainable t
    | none => false

/-- `PipelineRetains.compile`: every reference resolves, to a type that is not
`KindIsNotFile` -/
def pipeRetainOk (Γ : Env) (refs : List Exp) : Bool :=
  refs.all fun e =>
    match refType Γ e with
    | some t => retainable t
    | none => false

/-! ## Call statements and pipelines -/

structure CallStm where
  id : Bytes
  callee : Callee
  binds : List (Bytes × Bind)
  wild : Option Wild
  mods : Mods

/-- `CallMode()` of the merged mapping source -/
def modeOf : Option SplitShape → Mode
  | none => .single
  | some (.arr _) => .arr
  | some (.map _) => .map

/-- how later calls see this call -/
def CallStm.sig (c : CallStm) (sh : Option SplitShape) : CallSig :=
  { name := c.callee.name, mode := modeOf sh, src := sh, outs := c.callee.outs }

/-- `Modifiers.compile`, `Bindings.compile`, `checkMappings` of one call -/
def checkStm (Γ : Env) (c : CallStm) : Option (Option SplitShape) :=
  if modsOk Γ c.callee c.binds c.wild c.mods then checkCallW Γ c.callee.params c.binds c.wild
  else none

/-- the calls of a pipeline, in dependency order; result: the environment the
return bindings and the retain list are checked in -/
def checkCalls (Γ : Env) : List CallStm → Option Env
  | [] => some Γ
  | c :: r =>
    if (Γ.calls.lookup c.id).isSome then none      -- `DuplicateCallError`
    else
      match checkStm Γ c with
      | none => none
      | some sh => checkCalls { Γ with calls := Γ.calls ++ [(c.id, c.sig sh)] } r

structure Pipeline where
  name : Bytes
  ins : List (Bytes × Ty)
  outs : Fields
  calls : List CallStm
  ret : List (Bytes × Bind)
  retWild : Option Wild
  retain : List Exp

/-- `compileReturns`: the return bindings are checked against the pipeline's
OUT parameters exactly as call bindings are against in parameters -/
def checkReturn (Γ : Env) (outs : Fields) (ret : List (Bytes × Bind)) (w : Option Wild) : Bool :=
  validCallW Γ outs.toList ret w

inductive PipeErr where
  | call | ret | retain
  deriving DecidableEq, Repr

/-- `Pipeline.compile` + the pipeline's part of `compilePipelineArgs`
(the `UnusedInputError` check is not part of the model) -/
def checkPipeline (p : Pipeline) : Except PipeErr Env :=
  match checkCalls { self := p.ins, calls := [] } p.calls with
  | none => .error .call
  | some Γ =>
    if !checkReturn Γ p.outs p.ret p.retWild then .error .ret
    else if !pipeRetainOk Γ p.retain then .error .retain
    else .ok Γ

def validPipeline (p : Pipeline) : Bool :=
  match checkPipeline p with
  | .ok _ => true
  | .error _ => false

/-- the pipeline as a callee of an enclosing pipeline -/
def Pipeline.callee (p : Pipeline) : Callee :=
  { name := p.name, isStage := false, params := p.ins, outs := p.outs }

/-! ## What the return bindings deliver -/

/-- value of a plain binding (after the `x = CALL` → `x = CALL.default` rewrite
when the binding is only valid that way) -/
def bindExp (Γ : Env) (t : Ty) : Exp → Exp
  | .call id [] => if validExp Γ t (.call id []) then .call id [] else .call id [defaultName]
  | e => e

/-- the struct of outputs a pipeline call delivers: every declared output with
the filtered value of its return binding (`none`: some binding is missing, is
a split, or does not evaluate) -/
def retValue (Γ : Env) (ρ : Store) (bs : List (Bytes × Bind)) : Fields → Option (List (Bytes × J))
  | .nil => some []
  | .cons k t r =>
    match bs.lookup k with
    | some (.plain e) =>
      match eval Γ ρ (bindExp Γ t e), retValue Γ ρ bs r with
      | some v, some vs => some ((k, (filter t v).1) :: vs)
      | _, _ => none
    | _ => none

/-- the binding does not pass through one of the two assignability holes of C17 -/
def bindHoleFree (Γ : Env) (t : Ty) : Bind → Bool
  | .plain e => holeFree Γ t (bindExp Γ t e)
  | .split (.arr xs) => xs.toList.all (fun x => holeFree Γ t x)
  | .split (.map _ kvs) => kvs.toList.all (fun kv => holeFree Γ t kv.2)
  | .split e =>
    match refType Γ e with
    | some s => (match peel s with | some s' => noHole t s' | none => true)
    | none => true

def Bind.wf : Bind → Bool
  | .plain e => e.wf
  | .split e => e.wf

/-- what a binding hands to the callee: the value (plain) or the elements the
forks receive (split) -/
def delivered (Γ : Env) (ρ : Store) (t : Ty) : Bind → Option (List J)
  | .plain e => (eval Γ ρ (bindExp Γ t e)).map fun v => [v]
  | .split e =>
    match eval Γ ρ e with
    | some v => elems v
    | none => none

end Martian.Typing

namespace Martian.Typing
open Martian.Json Martian.Types

/-! ## `UnusedInputError` (`compilePipelineArgs`, `getBoundParamIds`) -/

mutual
  /-- the pipeline inputs an expression refers to, at any depth of a literal -/
  def Exp.selfIds : Exp → List Bytes
    | .self id _ => [id]
    | .arr xs => xs.selfIds
    | .map _ kvs => kvs.selfIds
    | _ => []
  def Exps.selfIds : Exps → List Bytes
    | .nil => []
    | .cons e r => e.selfIds ++ r.selfIds
  def KVs.selfIds : KVs → List Bytes
    | .nil => []
    | .cons _ e r => e.selfIds ++ r.selfIds
end

def Bind.selfIds : Bind → List Bytes
  | .plain e => e.selfIds
  | .split e => e.selfIds

/-- modifier bindings: `boundParamIds[refexp.Id]` for a binding that IS a
reference – whatever the kind of the reference -/
def modIds : List ModItem → List Bytes
  | [] => []
  | .dis (.self id _) :: r => id :: modIds r
  | .dis (.call id _) :: r => id :: modIds r
  | _ :: r => modIds r

/-- the `*` entry itself stays in `bindings.List`: `* = self.x…` refers to
`x` (whether or not a member matches), `* = self` to no input -/
def wildIds : Option Wild → List Bytes
  | some (.ref e) => e.selfIds
  | _ => []

/-- the inputs the binding list of a CALL uses: the written bindings, the `*`
entry and the expansion of the wildcard (`bindings.List` after
`compileWildcard`).  Only `* = self` and `* = self.x…` expand to references to
inputs, so the environment of the pipeline's inputs alone decides. -/
def usedByBinds (ins : List (Bytes × Ty)) (params : List (Bytes × Ty)) (binds : List (Bytes × Bind))
    (w : Option Wild) : List Bytes :=
  let bs := match allBinds { self := ins, calls := [] } params binds w with
    | some bs => bs
    | none => binds
  (bs.flatMap fun ib => ib.2.selfIds) ++ wildIds w

/-- the RETURN bindings are looked at before `compileReturns` has expanded their
wildcard: the written bindings and the `*` entry only (`* = self` in a return
statement does not make the inputs used) -/
def usedByReturn (binds : List (Bytes × Bind)) (w : Option Wild) : List Bytes :=
  (binds.flatMap fun ib => ib.2.selfIds) ++ wildIds w

def usedInputs (p : Pipeline) : List Bytes :=
  (p.calls.flatMap fun c => usedByBinds p.ins c.callee.params c.binds c.wild ++ modIds c.mods.usings) ++
    usedByReturn p.ret p.retWild

/-- the inputs no call and no return binding uses (`UnusedInputError`; the
retain list does not count) -/
def unusedInputs (p : Pipeline) : List Bytes :=
  (p.ins.map Prod.fst).filter fun i => !(usedInputs p).contains i

inductive PipeErrU where
  | call | unused | ret | retain
  deriving DecidableEq, Repr

/-- `checkPipeline` with the `UnusedInputError` check at its place: after the
calls, before the return bindings -/
def checkPipelineU (p : Pipeline) : Except PipeErrU Env :=
  match checkCalls { self := p.ins, calls := [] } p.calls with
  | none => .error .call
  | some Γ =>
    if !(unusedInputs p).isEmpty then .error .unused
    else if !checkReturn Γ p.outs p.ret p.retWild then .error .ret
    else if !pipeRetainOk Γ p.retain then .error .retain
    else .ok Γ

def validPipelineU (p : Pipeline) : Bool :=
  match checkPipelineU p with
  | .ok _ => true
  | .error _ => false

/-! ## The top-level `call` statement (`compileCall`) -/

def emptyEnv : Env := { self := [], calls := [] }

/-- `call ID(…)` at the top of a file: there is no enclosing pipeline, so no
reference resolves (`ReferenceError`) and a wildcard is an error; it cannot be
`disabled` or `preflight` – but `compileCall` only looks when the call has a
`using (…)` list, so `call preflight STAGE(…)` of a stage without outputs is
accepted; it may be a `map call` over literals. -/
def checkTop (c : CallStm) : Option (Option SplitShape) :=
  if c.wild.isNone && modsOk emptyEnv c.callee c.binds none c.mods &&
      (c.mods.usings.isEmpty ||
        ((usingDisabled c.mods.usings).isNone &&
          !effective c.mods.kwPreflight (usingVal 1 c.mods.usings)))
  then checkCall emptyEnv c.callee.params c.binds
  else none

def validTop (c : CallStm) : Bool := (checkTop c).isSome

end Martian.Typing
