/-
C01 — implementation-kernel model, part 2: the expressions that exist AFTER static
resolution (martian/syntax resolved_binding.go, split_expression.go, merge_exp.go):
references are resolved against a fork assignment, `split` selects the element of
the current fork of a mapped call, `merge` collects a value over all forks of a
mapped call.  `bpR` mirrors `*Exp.BindingPath` (one field) on these nodes.
-/
import Martian.Dataflow
import Martian.Resolver

namespace Martian.ResolverForks
open Martian.Dataflow Martian.Resolver

/-- mapped call id ↦ index of the current fork (innermost binding first) -/
abbrev ForkAssign := List (String × Idx)

inductive RExp where
  | lit (j : J)
  | arr (xs : List RExp)
  | map (kvs : List (String × RExp))
  | struct (kvs : List (String × RExp))
  /-- `NODE.path`, the fork of NODE being selected by the fork assignment -/
  | ref (node : String) (ty : Ty) (path : List String)
  /-- `split` over mapped call `call` (array or typed-map mode) -/
  | split (call : String) (isMap : Bool) (e : RExp)
  /-- `merge` over mapped call `call` -/
  | merge (call : String) (isMap : Bool) (e : RExp)
  /-- `DisabledExp`: null when `d` evaluates to true, else the value of `v` -/
  | disabled (d : RExp) (v : RExp)
  /-- `e` read in fork `ix` of mapped call `call`: what a known index in `RefExp.Forks`
  (`arrayIndex` / `mapKeyIndex`) says about the references below it.  A `merge` over a
  call of statically known size is unrolled by the compiler into the array / typed map
  of these (`MergeExp.BindingPath`). -/
  | fork (call : String) (ix : Idx) (e : RExp)
deriving Inhabited

/-- run-time state: outputs of every node per fork assignment, and the index set
of every mapped call (which may depend on the enclosing forks) -/
structure Store where
  outs : String → ForkAssign → J
  idx : String → ForkAssign → List Idx

/-- bind the fork index of mapped call `c` (replacing an earlier binding) -/
def fset (f : ForkAssign) (c : String) (ix : Idx) : ForkAssign :=
  (c, ix) :: f.filter fun e => e.1 != c

def elemArr (v : J) : Idx → J
  | .i n => elemAt v (.i n)
  | _ => .dnull

def elemMap (v : J) : Idx → J
  | .k s => elemAt v (.k s)
  | _ => .dnull

mutual
def evalR (st : StructTable) (ρ : Store) : ForkAssign → RExp → J
  | _, .lit j => j
  | f, .arr xs => .arr (evalRList st ρ f xs)
  | f, .map kvs => .obj (evalRFields st ρ f kvs)
  | f, .struct kvs => .obj (evalRFields st ρ f kvs)
  | f, .ref node ty path => projPath st ty path (ρ.outs node f)
  | f, .split c false e => elemArr (evalR st ρ f e) ((f.lookup c).getD .none)
  | f, .split c true e => elemMap (evalR st ρ f e) ((f.lookup c).getD .none)
  | f, .merge c false e => .arr ((ρ.idx c f).map fun ix => evalR st ρ (fset f c ix) e)
  | f, .merge c true e => .obj ((ρ.idx c f).map fun ix => (ix.keyText, evalR st ρ (fset f c ix) e))
  | f, .disabled d v => if isTrue (evalR st ρ f d) then .null else evalR st ρ f v
  | f, .fork c ix e => evalR st ρ (fset f c ix) e
def evalRList (st : StructTable) (ρ : Store) : ForkAssign → List RExp → List J
  | _, [] => []
  | f, e :: es => evalR st ρ f e :: evalRList st ρ f es
def evalRFields (st : StructTable) (ρ : Store) : ForkAssign → List (String × RExp) → List (String × J)
  | _, [] => []
  | f, (k, e) :: es => (k, evalR st ρ f e) :: evalRFields st ρ f es
end

/-- `(*DisabledExp).makeDisabledExp(disable, inner)` (disabled_exp.go), the cases
whose result is decided by the two arguments alone: a null value stays null, a
constant control is decided now, any other control (a reference, or the element
a `split` selects from a run-time collection) wraps the value.  Not modelled:
the distribution of a control that is a `split` over a LITERAL collection into a
`split` of per-element wrappers (and its `allSame` shortcut), and the
look-through of `split (merge …)` controls; the pointer-equality shortcuts of
the Go code (reuse `s`, do not nest two wrappers on the same control) change the
tree, not its value (`disabled_idem`). -/
def mkDisabled : RExp → RExp → RExp
  | _, .lit .null => .lit .null
  | .lit (.atom s), inner => if s == "true" then .lit .null else inner
  | d, inner => .disabled d inner

mutual
/-- `Exp.HasSplit` -/
def hasSplitR : RExp → Bool
  | .lit _ => false
  | .arr xs => hasSplitRList xs
  | .map kvs => hasSplitRFields kvs
  | .struct kvs => hasSplitRFields kvs
  | .ref _ _ _ => false
  | .split _ _ _ => true
  | .merge _ _ e => hasSplitR e
  | .disabled d v => hasSplitR d || hasSplitR v
  | .fork _ _ e => hasSplitR e
def hasSplitRList : List RExp → Bool
  | [] => false
  | e :: es => hasSplitR e || hasSplitRList es
def hasSplitRFields : List (String × RExp) → Bool
  | [] => false
  | (_, e) :: es => hasSplitR e || hasSplitRFields es
end

mutual
/-- no `split` over call `c` anywhere inside -/
def noSplitOf (c : String) : RExp → Bool
  | .lit _ => true
  | .arr xs => noSplitOfList c xs
  | .map kvs => noSplitOfFields c kvs
  | .struct kvs => noSplitOfFields c kvs
  | .ref _ _ _ => true
  | .split c' _ e => c' != c && noSplitOf c e
  | .merge _ _ e => noSplitOf c e
  | .disabled d v => noSplitOf c d && noSplitOf c v
  | .fork _ _ e => noSplitOf c e
def noSplitOfList (c : String) : List RExp → Bool
  | [] => true
  | e :: es => noSplitOf c e && noSplitOfList c es
def noSplitOfFields (c : String) : List (String × RExp) → Bool
  | [] => true
  | (_, e) :: es => noSplitOf c e && noSplitOfFields c es
end

mutual
/-- no `merge` over call `c` anywhere inside -/
def noMergeOf (c : String) : RExp → Bool
  | .lit _ => true
  | .arr xs => noMergeOfList c xs
  | .map kvs => noMergeOfFields c kvs
  | .struct kvs => noMergeOfFields c kvs
  | .ref _ _ _ => true
  | .split _ _ e => noMergeOf c e
  | .merge c' _ e => c' != c && noMergeOf c e
  | .disabled d v => noMergeOf c d && noMergeOf c v
  | .fork _ _ e => noMergeOf c e
def noMergeOfList (c : String) : List RExp → Bool
  | [] => true
  | e :: es => noMergeOf c e && noMergeOfList c es
def noMergeOfFields (c : String) : List (String × RExp) → Bool
  | [] => true
  | (_, e) :: es => noMergeOf c e && noMergeOfFields c es
end

/-- the result of `MergeExp.BindingPath` for a merge over call `c` whose (projected) value is
`v`: "merging the elements of a collection which was split over the very same call gives back
the collection (for example a mapped pipeline returning its split input)" — when the
collection itself does not fork over the call.  `forksOverCall(sp.Value, call)` is modelled by
`hasSplitR`: the collection is resolved in the scope of the CALLING pipeline, so a reference in
it can fork over the call only if another call iterates in lockstep with it (not modelled). -/
def mkMerge (c : String) (m : Bool) : RExp → RExp
  | .split c' m' v => if c' == c && !hasSplitR v then v else .merge c m (.split c' m' v)
  | e => .merge c m e

mutual
/-- `BindingPath(f)` on resolved expressions: through `split` and `merge` the
projection is pushed inside (`SplitExp.BindingPath`, `MergeExp.BindingPath`) -/
def bpR (fld : String) : RExp → RExp
  | .lit _ => .lit .null
  | .arr xs => .arr (bpRList fld xs)
  | .map kvs => .map (bpRFields fld kvs)
  | .struct kvs => (kvs.lookup fld).getD (.lit .null)
  | .ref node ty path => .ref node ty (path ++ [fld])
  | .split c m e => .split c m (bpR fld e)
  | .merge c m e => mkMerge c m (bpR fld e)
  | .disabled d v => mkDisabled d (bpR fld v)
  | .fork c ix e => .fork c ix (bpR fld e)
def bpRList (fld : String) : List RExp → List RExp
  | [] => []
  | e :: es => bpR fld e :: bpRList fld es
def bpRFields (fld : String) : List (String × RExp) → List (String × RExp)
  | [] => []
  | (k, e) :: es => (k, bpR fld e) :: bpRFields fld es
end

mutual
/-- shape discipline of a resolved expression of type `t` -/
def wtR (st : StructTable) : Ty → RExp → Bool
  | _, .lit j => match j with | .null => true | _ => false
  | t, .arr xs => t.arrDim != 0 && wtRList st { t with arrDim := t.arrDim - 1 } xs
  | t, .map kvs => t.arrDim == 0 && t.mapDim != 0 && wtRFields st ⟨t.base, 0, t.mapDim - 1⟩ kvs
  | t, .struct _ => t.arrDim == 0 && t.mapDim == 0
  | t, .ref _ ty path => pathTy st ty path == t
  | t, .split _ false e => wtR st { t with arrDim := t.arrDim + 1 } e
  | t, .split _ true e => t.mapDim == 0 && wtR st ⟨t.base, t.arrDim + 1, 0⟩ e
  -- (a merge over `c` of a value that contains a `split` over `c` is the cancelling shape of
  -- `mkMerge`: its projection is not a merge, and is sound only for stores whose index set of `c`
  -- is that of the split collection — `merge_split_cancel_sound`)
  | t, .merge c false e => t.arrDim != 0 && noSplitOf c e && wtR st { t with arrDim := t.arrDim - 1 } e
  | t, .merge c true e => t.arrDim == 0 && t.mapDim != 0 && noSplitOf c e && wtR st ⟨t.base, 0, t.mapDim - 1⟩ e
  | t, .disabled _ v => wtR st t v
  | t, .fork _ _ e => wtR st t e
def wtRList (st : StructTable) : Ty → List RExp → Bool
  | _, [] => true
  | t, e :: es => wtR st t e && wtRList st t es
def wtRFields (st : StructTable) : Ty → List (String × RExp) → Bool
  | _, [] => true
  | t, (_, e) :: es => wtR st t e && wtRFields st t es
end

end Martian.ResolverForks
