/-
C16 model, string leaf at byte level.

The JSON → MRO direction of the conversion hands the JSON text of an argument
to the MRO parser (`convertToExp`: `parser.ParseValExp(json.RawMessage)`), so
every JSON string token – whoever wrote it: Go's `encoding/json` with or
without HTML escaping, `json.Marshal` re-compacting a `RawMessage`, Python's
`json.dump` of a stage – is read by the MRO string lexer and
`unquoteBytes` (model: `Martian.Lexer.unquoteBytes`).  The MRO → JSON direction
prints every string and map key with `quoteString` (model:
`Martian.Format.quoteString`), and that text is read by JSON decoders.

Modelled here, byte-exactly:

* `jsonEncodeString html` – `encoding/json.appendString` (Go 1.23): `\" \\`,
  `\b \f \n \r \t`, `\u00XX` for the other control bytes, `< >
  &` when `escapeHTML` is on (`json.Marshal`, `json.NewEncoder` default;
  off in cmd/mrg, cmd/mro where `SetEscapeHTML(false)` is called), U+2028 /
  U+2029 always as `\\u2028` / `\\u2029`, a byte that starts no valid UTF-8
  sequence as `\\ufffd`; DEL and every other valid rune literally.
* `pyEncodeString` – Python's `json.dumps` (default `ensure_ascii=True`) on the
  text decoded from valid UTF-8: everything outside `' '..'~'` is escaped,
  non-BMP code points as a surrogate pair of `\uXXXX` escapes.
* `jsonDecodeString` – what `encoding/json` accepts as a string token and
  decodes it to (scanner `stateInString*` + `unquoteBytes` of decode.go): the
  escapes `\" \\ \/ \b \f \n \r \t \uXXXX`, surrogate pairs, a lone or
  mis-paired surrogate escape ↦ U+FFFD, a raw control byte or any other escape
  ↦ error, a literal byte that starts no valid UTF-8 sequence ↦ U+FFFD.

Core Lean only.
-/
import Martian.Format

namespace Martian.InvocationStr
open Martian.Lexer (Bytes hexByte hexVal encodeRune runeError)
open Martian.Format (Pend hexDigit escAscii escFFFD esc2028 esc2029)
open Martian.ShellQuote (runeWidth)

/-! ## encoders -/

/-- `\u00XY` for an ASCII byte -/
def escU00 (b : UInt8) : Bytes :=
  [0x5C, 0x75, 0x30, 0x30, hexDigit (b.toNat / 16), hexDigit (b.toNat % 16)]

/-- what `appendString` writes for one ASCII byte: `htmlSafeSet` differs from
`safeSet` exactly in `<`, `>`, `&` -/
def jsonEsc (html : Bool) (b : UInt8) : Bytes :=
  if html && (b == 0x3C || b == 0x3E || b == 0x26) then escU00 b else escAscii b

/-- The encoder loop with the ASCII escape function as a parameter (the
non-ASCII part – copy a valid rune, `\\u2028`/`\\u2029`, `\\ufffd` – is the same
in `encoding/json.appendString` and in martian's `quoteString`). -/
def encFrom (esc : UInt8 → Bytes) : Bytes → Pend → Bytes
  | [], _ => []
  | b :: r, .copy (k + 1) => b :: encFrom esc r (if k = 0 then .none else .copy k)
  | _ :: r, .drop (k + 1) => encFrom esc r (if k = 0 then .none else .drop k)
  | b :: r, _ =>
    if b < 0x80 then esc b ++ encFrom esc r .none
    else match runeWidth (b :: r) with
      | some w =>
        if b == 0xE2 && r.take 2 == [0x80, 0xA8] then esc2028 ++ encFrom esc r (.drop 2)
        else if b == 0xE2 && r.take 2 == [0x80, 0xA9] then esc2029 ++ encFrom esc r (.drop 2)
        else b :: encFrom esc r (if w ≤ 1 then .none else .copy (w - 1))
      | none => escFFFD ++ encFrom esc r .none

/-- `encoding/json.appendString(dst, s, escapeHTML)` -/
def jsonEncodeString (html : Bool) (s : Bytes) : Bytes :=
  0x22 :: (encFrom (jsonEsc html) s .none ++ [0x22])

/-! ### Python `json.dumps` (`ensure_ascii=True`) -/

def hex4 (n : Nat) : Bytes :=
  [hexDigit (n / 4096 % 16), hexDigit (n / 256 % 16), hexDigit (n / 16 % 16), hexDigit (n % 16)]

def escU (n : Nat) : Bytes := 0x5C :: 0x75 :: hex4 n

/-- `ESCAPE_ASCII` replacement for a code point -/
def pyEscRune (r : Nat) : Bytes :=
  if r == 0x22 then [0x5C, 0x22]
  else if r == 0x5C then [0x5C, 0x5C]
  else if r == 0x0A then [0x5C, 0x6E]
  else if r == 0x0D then [0x5C, 0x72]
  else if r == 0x09 then [0x5C, 0x74]
  else if r == 0x0C then [0x5C, 0x66]
  else if r == 0x08 then [0x5C, 0x62]
  else if 0x20 ≤ r && r ≤ 0x7E then [UInt8.ofNat r]
  else if r < 0x10000 then escU r
  else escU (0xD800 + (r - 0x10000) / 1024) ++ escU (0xDC00 + (r - 0x10000) % 1024)

/-- the code point of a valid UTF-8 sequence of width `w` at the head -/
def decodeRune (w : Nat) (s : Bytes) : Nat :=
  match w, s with
  | 2, b0 :: b1 :: _ => (b0.toNat % 32) * 64 + b1.toNat % 64
  | 3, b0 :: b1 :: b2 :: _ => (b0.toNat % 16) * 4096 + (b1.toNat % 64) * 64 + b2.toNat % 64
  | 4, b0 :: b1 :: b2 :: b3 :: _ =>
    (b0.toNat % 8) * 262144 + (b1.toNat % 64) * 4096 + (b2.toNat % 64) * 64 + b3.toNat % 64
  | _, b0 :: _ => b0.toNat
  | _, [] => 0

/-- body of the Python writer; `skip` = continuation bytes of the rune just
written.  A byte that starts no valid sequence cannot occur in a Python `str`
read from valid UTF-8; it is written as `\\ufffd` (what `errors="replace"`
gives). -/
def pyFrom : Bytes → Nat → Bytes
  | [], _ => []
  | _ :: r, k + 1 => pyFrom r k
  | b :: r, 0 =>
    match runeWidth (b :: r) with
    | some w => pyEscRune (decodeRune w (b :: r)) ++ pyFrom r (w - 1)
    | none => escFFFD ++ pyFrom r 0

def pyEncodeString (s : Bytes) : Bytes := 0x22 :: (pyFrom s 0 ++ [0x22])

/-! ## the JSON string decoder -/

/-- `getu4` on the four bytes after `\u` (`none` = -1) -/
def getu4 : Bytes → Option (Nat × Bytes)
  | h0 :: h1 :: h2 :: h3 :: rest =>
    match hexByte h2 h3, hexByte h0 h1 with
    | some lo, some hi => some (lo + hi * 256, rest)
    | _, _ => none
  | _ => none

/-- After `\uXXXX` with a surrogate value `r`: `rr1 := getu4(s[r:])`,
`utf16.DecodeRune(rr, rr1)`; a valid high/low pair is one code point and both
escapes are consumed, anything else is U+FFFD and only the first escape is
consumed.  (`\u` followed by something that is no four hex digits is rejected
by the scanner; here it makes the whole decode fail on the next iteration or
right away – the result of the whole function is the same.) -/
def jsonSurr (r : Nat) (rest : Bytes) : Option (Bytes × Bytes) :=
  match rest with
  | c :: d :: g0 :: g1 :: g2 :: g3 :: rest2 =>
    if c == 0x5C && d == 0x75 then
      match hexByte g2 g3, hexByte g0 g1 with
      | some lo2, some hi2 =>
        let r2 := lo2 + hi2 * 256
        if r < 0xDC00 && 0xDC00 ≤ r2 && r2 < 0xE000 then
          some (encodeRune (0x10000 + (r - 0xD800) * 1024 + (r2 - 0xDC00)), rest2)
        else some (runeError, rest)
      | _, _ => none
    else some (runeError, rest)
  | _ => some (runeError, rest)

/-- the `switch s[r]` after a backslash (`none` = the token is rejected) -/
def jsonEscape (c2 : UInt8) (v : Bytes) : Option (Bytes × Bytes) :=
  if c2 == 0x22 || c2 == 0x5C || c2 == 0x2F then some ([c2], v)
  else if c2 == 0x62 then some ([0x08], v)
  else if c2 == 0x66 then some ([0x0C], v)
  else if c2 == 0x6E then some ([0x0A], v)
  else if c2 == 0x72 then some ([0x0D], v)
  else if c2 == 0x74 then some ([0x09], v)
  else if c2 == 0x75 then
    match getu4 v with
    | none => none
    | some (r, rest) =>
      if 0xD800 ≤ r && r < 0xE000 then jsonSurr r rest else some (encodeRune r, rest)
  else none

/-- The decoder loop over the text between the quotes; `k` = continuation
bytes of a valid multi-byte rune still to be copied (`utf8.DecodeRune` +
`utf8.EncodeRune` of a valid rune is a copy).  `none` = rejected. -/
def jsonDecLoop : Nat → Bytes → Nat → Option Bytes
  | 0, _, _ => none
  | _ + 1, [], _ => some []
  | f + 1, c :: r, k + 1 => (jsonDecLoop f r k).map (c :: ·)
  | f + 1, c :: r, 0 =>
    if c == 0x5C then
      match r with
      | [] => none
      | c2 :: r2 =>
        match jsonEscape c2 r2 with
        | none => none
        | some (out, rest) => (jsonDecLoop f rest 0).map (out ++ ·)
    else if c == 0x22 || c < 0x20 then none
    else if c < 0x80 then (jsonDecLoop f r 0).map (c :: ·)
    else match runeWidth (c :: r) with
      | some w => (jsonDecLoop f r (w - 1)).map (c :: ·)
      | none => (jsonDecLoop f r 0).map (runeError ++ ·)

/-- `json.Unmarshal(token, &string)` for a string token -/
def jsonDecodeString (v : Bytes) : Option Bytes :=
  match v with
  | 0x22 :: r =>
    match r.reverse with
    | 0x22 :: br => jsonDecLoop (br.length + 1) br.reverse 0
    | _ => none
  | _ => none

end Martian.InvocationStr
