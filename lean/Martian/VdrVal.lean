/-
Values (JSON as the runtime sees it), the file names `getMaybeFileNames`
(martian/core/stage.go) finds in them, and conformance of a value to a type —
what the `IsFile` filter of makePrenodesForBinding relies on: a value of a
type that cannot name files contains no path-like string.

Element lists are encoded in the type itself (`vcons` / `vnil`); array
elements carry the empty key.  Core Lean only, executable.
-/
import Martian.VdrBuild

namespace Martian.Vdr

inductive Val
  | null
  | atom                    -- a number or a boolean
  | str (s : String)
  | vnil
  | vcons (key : String) (v : Val) (rest : Val)
  | arr (elems : Val)
  | obj (elems : Val)
  deriving Repr, DecidableEq

/-- `len(k) > 0 && k[0] == os.PathSeparator` / `path.IsAbs(s)` -/
def pathLike (s : String) : Bool := s.toList.head? == some '/'

/-- `getMaybeFileNames`: every absolute-path string, and every object key that is one -/
def Val.names : Val → List String
  | .str s => if pathLike s then [s] else []
  | .vcons k v r => (if pathLike k then [k] else []) ++ v.names ++ r.names
  | .arr e => e.names
  | .obj e => e.names
  | _ => []

/-- no key of the element list looks like a path -/
def Val.keysOk : Val → Bool
  | .vcons k _ r => !pathLike k && r.keysOk
  | _ => true

mutual
/-- the value is one the type admits (`null` is admitted everywhere) -/
def conforms : Val → Ty → Bool
  | .null, _ => true
  | .atom, t => match t with
    | .prim _ => true
    | .umap => true
    | _ => false
  | .str _, t => match t with
    | .prim b => b
    | .umap => true
    | _ => false
  | .arr es, t => match t with
    | .arr e => allElems es e && es.keysOk
    | .umap => true
    | _ => false
  | .obj es, t => match t with
    | .tmap e => allElems es e && (e.isFile || es.keysOk)
    | .struct ms => allMembers es ms
    | .umap => true
    | .prim b => b          -- a user file type or string position holding structured data
    | _ => false
  | .vnil, _ => false
  | .vcons _ _ _, _ => false

def allElems : Val → Ty → Bool
  | .vcons _ v r, e => conforms v e && allElems r e
  | .vnil, _ => true
  | _, _ => false

def allMembers : Val → Ty → Bool
  | .vcons k v r, ms =>
    (match ms.member k with
     | some t => conforms v t
     | none => false) && !pathLike k && allMembers r ms
  | .vnil, _ => true
  | _, _ => false
end

/-! ### bindings the compiler accepts -/

mutual
/-- the typed walk meets none of its error cases (what a compiled pipeline guarantees;
decided by the driver for every binding the harness sees) -/
def wellTyped : BExp → Ty → Bool
  | .const, _ => true
  | .ref _ _, _ => true
  | .nil, _ => false
  | .cons _ _ _, _ => false
  | .arr es, t =>
    match t with
    | .arr e => wtElems es e
    | _ => false
  | .map es, t =>
    match t with
    | .tmap e => wtElems es e
    | .struct ms => wtMembers es ms
    | .umap => true
    | _ => false
  | .split mode e, t => wtSplit mode e t
  | .merge e, t =>
    match t with
    | .arr el => wellTyped e el
    | .tmap el => wellTyped e el
    | _ => false
  | .disabled v d, t => wellTyped v t && wellTyped d (.prim false)

def wtElems : BExp → Ty → Bool
  | .cons _ e r, t => wellTyped e t && wtElems r t
  | .nil, _ => true
  | _, _ => false

def wtMembers : BExp → Ty → Bool
  | .cons k e r, ms =>
    (match ms.member k with
     | some t => wellTyped e t
     | none => false) && wtMembers r ms
  | .nil, _ => true
  | _, _ => false

def wtSplit : Bool → BExp → Ty → Bool
  | _, .map es, t => wtElems es t
  | _, .arr es, t => wtElems es t
  | mode, .merge v, t => wellTyped v (if mode then .tmap t else .arr t)
  | _, .ref _ _, _ => true
  | _, .split m2 v, t => wtSplit m2 v (if m2 then .tmap t else .arr t)
  | mode, .disabled v d, t => wtSplit mode v t && wellTyped d (.prim false)
  | _, .const, _ => true
  | _, _, _ => false
end

end Martian.Vdr
