/-
SchedTables — the decision structure of `Fork.getState`, `Node.getState` and
`Fork.stepStage` as tables + interpreters.  Each table has a rendering as strings
that is compared with the table regenerated from the Go source (`Gen.*`, see
extract/sched_steps.go); each interpreter is proved equal to the model's function
(Proofs/SchedTables.lean).  A re-ordered test or a changed condition in the Go
source changes `Gen.*` and breaks the comparison.  Core Lean only.
-/
import Martian.Sched
import Martian.SchedProgress

namespace Martian.Sched

/-! ## `Node.getState`: the fork loop -/

inductive FCond where
  | eqFailed | notDone | notDisabled
  deriving DecidableEq, Repr

def FCond.holds : FCond → FState → Bool
  | .eqFailed, x => x == .failed
  | .notDone, x => x != .complete && x != .disabled
  | .notDisabled, x => x != .disabled

def FCond.name : FCond → String
  | .eqFailed => "==failed" | .notDone => "!=complete&&!=disabled" | .notDisabled => "!=disabled"

inductive LoopAct where
  | retFailed | brk | clearDisabled
  deriving DecidableEq, Repr

def LoopAct.name : LoopAct → String
  | .retFailed => "return failed" | .brk => "complete=false;break" | .clearDisabled => "disabled=false"

/-- the `if … else if … else if …` chain of the fork loop, in source order -/
def nodeLoopTable : List (FCond × LoopAct) :=
  [(.eqFailed, .retFailed), (.notDone, .brk), (.notDisabled, .clearDisabled)]

def nodeLoopNames : List (String × String) := nodeLoopTable.map fun p => (p.1.name, p.2.name)

/-- what the loop body does with one fork state: the first arm whose condition holds -/
def loopStep (x : FState) : Option LoopAct := (nodeLoopTable.find? fun p => p.1.holds x).map (·.2)

/-- the fork loop, driven by the table -/
def scanTable : List FState → Bool → Scan
  | [], d => .done d
  | x :: r, d =>
    match loopStep x with
    | some .retFailed => .failed
    | some .brk => .incomplete
    | some .clearDisabled => scanTable r false
    | none => scanTable r d

/-- what follows the loop, rendered from the model's own `nodeStateOf` on witnesses:
all forks disabled / a complete fork / an unfinished fork with an unfinished prenode /
an unfinished fork with finished prenodes -/
def nodeTailNames : List (String × String) :=
  [("complete&&disabled", "return " ++ (nodeStateOf [.disabled] false).name),
   ("complete", "return " ++ (nodeStateOf [.complete, .disabled] false).name),
   ("prenode:!=complete&&!=disabled", "return " ++ (nodeStateOf [.ready] false).name),
   ("", "return " ++ (nodeStateOf [.ready] true).name)]

/-! ## `Fork.getState` -/

inductive FStep where
  | direct (sts : List MState)   -- `if state == a || state == b … { return state }`
  | prefixed (join : Bool)       -- `if state, ok := …; ok { if state == Failed {return state} else {return state.Prefixed(P)} }`
  | chunks                       -- the chunk loop
  | ready                        -- `return Ready`
  deriving DecidableEq, Repr

/-- the statements of `Fork.getState`, in source order -/
def forkSteps : List (String × FStep) :=
  [("metadata", .direct [.failed, .complete, .disabled]), ("join_metadata", .prefixed true),
   ("chunks", .chunks), ("split_metadata", .prefixed false), ("", .ready)]

def FStep.name : FStep → String
  | .direct sts => String.intercalate "||" (sts.map fun st => "==" ++ st.name) ++ ":return state"
  | .prefixed j => "ok:==failed:return state;else:return " ++ (if j then "join_" else "split_") ++ "*"
  | .chunks => "loop"
  | .ready => "return " ++ FState.ready.name

def forkStepsNames : List (String × String) := forkSteps.map fun p => (p.1, p.2.name)

def ofMState : MState → FState
  | .failed => .failed | .complete => .complete | .disabled => .disabled
  | .running => .ready | .queued => .ready   -- not returned directly by `Fork.getState`

def ofCSum : CSum → Option FState
  | .failed => some .failed | .complete => some .chunksComplete | .running => some .chunksRunning
  | .none => none

/-- `Fork.getState`, driven by the table (`c` = result of the chunk loop) -/
def runSteps (fm jm sm : Option MState) (c : CSum) : List (String × FStep) → FState
  | [] => .ready
  | (m, .direct sts) :: r =>
    let v := if m == "metadata" then fm else if m == "join_metadata" then jm else sm
    match v with
    | some st => if sts.contains st then ofMState st else runSteps fm jm sm c r
    | none => runSteps fm jm sm c r
  | (m, .prefixed j) :: r =>
    let v := if m == "metadata" then fm else if m == "join_metadata" then jm else sm
    match v with
    | some .failed => .failed
    | some st => if j then .join st else .split st
    | none => runSteps fm jm sm c r
  | (_, .chunks) :: r =>
    match ofCSum c with
    | some x => x
    | none => runSteps fm jm sm c r
  | (_, .ready) :: _ => .ready

/-! ### the chunk loop -/

inductive ChunkEff where
  | retFailed | keep | notComplete | neither
  deriving DecidableEq, Repr

def ChunkEff.name : ChunkEff → String
  | .retFailed => "return failed" | .keep => "" | .notComplete => "complete=false"
  | .neither => "complete=false;running=false"

/-- the `switch chunk.getState()`; the row with no labels is `default` -/
def chunkSwitch : List (List MState × ChunkEff) :=
  [([.failed], .retFailed), ([.complete], .keep), ([.queued, .running], .notComplete),
   ([], .neither)]

def chunkSwitchNames : List (String × String) :=
  chunkSwitch.map fun p =>
    (if p.1.isEmpty then "default" else String.intercalate "," (p.1.map (·.name)), p.2.name)

/-- the effect of one chunk state (`none` = Ready): the first case that lists it, else `default` -/
def chunkEff (c : Option MState) : ChunkEff :=
  match c with
  | some st =>
    match chunkSwitch.find? fun p => p.1.contains st with
    | some p => p.2
    | none => .neither
  | none => .neither

/-- the loop: flags (complete, running); `none` = `return Failed` -/
def chunkLoop : List (Option MState) → Bool → Bool → Option (Bool × Bool)
  | [], c, r => some (c, r)
  | x :: xs, c, r =>
    match chunkEff x with
    | .retFailed => none
    | .keep => chunkLoop xs c r
    | .notComplete => chunkLoop xs false r
    | .neither => chunkLoop xs false false

/-- the tests after the loop, in source order -/
def chunkAfterNames : List (String × String) :=
  [("complete", "return " ++ FState.chunksComplete.name),
   ("running", "return " ++ FState.chunksRunning.name)]

/-- the chunk part of `Fork.getState`, driven by the tables -/
def chunkSumTable (cs : List (Option MState)) : CSum :=
  if cs.isEmpty then .none
  else
    match chunkLoop cs true true with
    | none => .failed
    | some (c, r) => if c then .complete else if r then .running else .none

end Martian.Sched
