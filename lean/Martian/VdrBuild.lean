/-
Model of the CONSTRUCTION of the VDR bookkeeping (martian/core/node.go:
makePrenodesForBinding, attachToFileParents, cloneFork; pipestance.go:
NewStagestance / NewPipestance / setupRetains / Pipestance.buildForks;
martian/syntax/resolved_binding.go: ResolvedBinding.FindRefs and the
FindTypedRefs walk of every expression kind; the IsFile methods of the types).

From a pipestance's resolved bindings (what each node's inputs, the return
bindings of the pipelines and the retain lists resolve to) to the per-producer
`fileArgs` / `filePostNodes` tables every fork of the producer starts with.

Lists inside the recursive types are encoded in the type itself (`mcons`,
`cons`, …) so that every function is plainly structurally recursive.

Core Lean only; everything is executable (the driver runs it).
-/
import Martian.Vdr

namespace Martian.Vdr

/-! ### types, as far as `IsFile` and the typed walk need them -/

inductive Ty
  | prim (file : Bool)   -- int/float/bool: false;  string/path/file/user file types: true
  | umap                 -- the untyped `map`
  | null                 -- the type of `null`
  | arr (e : Ty)
  | tmap (e : Ty)
  | mnil                 -- end of a member list
  | mcons (name : String) (t : Ty) (rest : Ty)
  | struct (members : Ty)
  deriving Repr, DecidableEq

/-- `Type.IsFile() != KindIsNotFile` -/
def Ty.isFile : Ty → Bool
  | .prim b => b
  | .umap => true
  | .null => false
  | .arr e => e.isFile
  | .tmap e => e.isFile
  | .mnil => false
  | .mcons _ t r => t.isFile || r.isFile
  | .struct m => m.isFile

/-- the declared type of a struct member -/
def Ty.member : Ty → String → Option Ty
  | .mcons n t r, k => if n == k then some t else r.member k
  | .struct m, k => m.member k
  | _, _ => none

/-! ### resolved binding expressions -/

inductive BExp
  | const                                  -- a literal without references (valExp)
  | ref (node : Node) (out : Arg)          -- RefExp: fqid of a stage, output id (possibly dotted, possibly empty)
  | nil                                    -- end of an element list
  | cons (key : String) (e : BExp) (rest : BExp)
  | arr (elems : BExp)                     -- ArrayExp
  | map (elems : BExp)                     -- MapExp (a map or a struct literal)
  | split (mapMode : Bool) (e : BExp)      -- SplitExp with its CallMode (array / map)
  | merge (e : BExp)                       -- MergeExp
  | disabled (v : BExp) (d : BExp)         -- DisabledExp
  deriving Repr, DecidableEq

/-- a reference with the fact the typed walk attaches to it: is the type it
is bound at one that may name files -/
abbrev TRef := Node × Arg × Bool

/-- `Exp.FindRefs` restricted to value positions (the references whose value
becomes part of the value of the expression) -/
def BExp.valueRefs : BExp → List (Node × Arg)
  | .const => []
  | .ref n o => [(n, o)]
  | .nil => []
  | .cons _ e r => e.valueRefs ++ r.valueRefs
  | .arr es => es.valueRefs
  | .map es => es.valueRefs
  | .split _ e => e.valueRefs
  | .merge e => e.valueRefs
  | .disabled v _ => v.valueRefs

def BExp.lookupKey : BExp → String → Option BExp
  | .cons k e r, x => if k == x then some e else r.lookupKey x
  | _, _ => none

def Ty.elemOfArr : Ty → Ty
  | .arr e => e
  | t => t

mutual
/-- `Exp.FindTypedRefs(list, t, lookup)`, keeping of each type only whether it
may name files.  Error cases of the Go code (which the compiler excludes)
yield no references. -/
def typedRefs : BExp → Ty → List TRef
  | .const, _ => []
  | .ref n o, t => [(n, o, t.isFile)]
  | .nil, _ => []
  | .cons _ _ _, _ => []
  | .arr es, t =>
    match t with
    | .arr e => elemRefs es e
    | _ => []
  | .map es, t =>
    match t with
    | .tmap e => elemRefs es e
    | .struct ms => memberRefs es ms
    | .umap => (es.valueRefs).map fun r => (r.1, r.2, true)
    | _ => []
  | .split mode e, t => splitRefs mode e t
  | .merge e, t =>
    match t with
    | .arr el => typedRefs e el
    | .tmap el => typedRefs e el
    | _ => []
  | .disabled v d, t => typedRefs v t ++ typedRefs d (.prim false)

/-- the elements of an array or typed-map literal, each at the element type -/
def elemRefs : BExp → Ty → List TRef
  | .cons _ e r, t => typedRefs e t ++ elemRefs r t
  | _, _ => []

/-- the fields of a struct literal, walked member by member of the type -/
def memberRefs : BExp → Ty → List TRef
  | .cons k e r, ms =>
    (match ms.member k with
     | some t => typedRefs e t
     | none => []) ++ memberRefs r ms
  | _, _ => []

/-- `SplitExp.FindTypedRefs`: the case distinction on the split value -/
def splitRefs : Bool → BExp → Ty → List TRef
  | _, .map es, t => elemRefs es t                  -- innerType = map<t>
  | _, .arr es, t => elemRefs es t                  -- innerType = t[]
  | mode, .merge v, t => typedRefs v (if mode then .tmap t else .arr t)
  | _, .ref n o, t => [(n, o, t.isFile)]
  | _, .split m2 v, t => splitRefs m2 v (if m2 then .tmap t else .arr t)
  | mode, .disabled v d, t => splitRefs mode v t ++ typedRefs d (.prim false)
  | _, _, _ => []
end

/-- a resolved binding: expression and the type it is bound at -/
abbrev Binding := BExp × Ty

/-- the `fileRefs` that `makePrenodesForBinding`, folded over the bindings,
hands to `attachToFileParents`: (producer, output) for every typed reference
whose type may name files -/
def fileRefs (bs : List Binding) : List (Node × Arg) :=
  (bs.flatMap fun b => typedRefs b.1 b.2).filterMap fun r => if r.2.2 then some (r.1, r.2.1) else none

/-! ### the tables -/

/-- what every fork of a producer node starts with -/
structure Tab where
  fileArgs : List (Arg × List Holder) := []
  postNodes : List (Node × List Arg) := []
  deriving Repr

/-- a fork of the producer with these tables, nothing cleaned yet -/
def Tab.st (t : Tab) (disk : List DiskEnt) : St :=
  { fileArgs := t.fileArgs, postNodes := t.postNodes, disk := disk }

/-- `fileArgs[a][h] = struct{}{}` -/
def Tab.hold (t : Tab) (a : Arg) (h : Holder) : Tab :=
  match t.fileArgs.lookup a with
  | none => { t with fileArgs := t.fileArgs ++ [(a, [h])] }
  | some hs =>
    if hs.contains h then t
    else { t with fileArgs := t.fileArgs.map fun p => if p.1 == a then (p.1, p.2 ++ [h]) else p }

/-- `filePostNodes[n] = forkArgs` (a fresh copy per fork; an earlier entry is overwritten) -/
def Tab.post (t : Tab) (n : Node) (as : List Arg) : Tab :=
  { t with postNodes := (n, as) :: t.postNodes.filter (fun p => p.1 != n) }

/-- the body of `attachToFileParents` for one fork of one producer: `as` are
the outputs of this producer among the file references (`boundArgs`) -/
def Tab.attach (t : Tab) (h : Holder) (as : List Arg) : Tab :=
  if as.isEmpty then t else
  let t := match h with
    | some n => t.post n as
    | none => t
  as.foldl (fun t a => t.hold a h) t

/-- construction steps, in the order the code performs them -/
inductive BOp
  | forks (p : Node)                           -- Node.buildForks: the node's forks exist from here on
  | attach (h : Holder) (refs : List (Node × Arg))   -- attachToFileParents(fileRefs) with setNode = h
  | retain (p : Node) (a : Arg)                -- setupRetains / Pipestance.buildForks: the nil holder
  deriving Repr

abbrev Tabs := List (Node × Tab)

def updTab (ts : Tabs) (p : Node) (f : Tab → Tab) : Tabs :=
  ts.map fun x => if x.1 == p then (x.1, f x.2) else x

/-- the outputs of producer `p` among the references (`fileParents[p]`, a set) -/
def argsOf (refs : List (Node × Arg)) (p : Node) : List Arg :=
  ((refs.filter fun r => r.1 == p).map (·.2)).eraseDups

def stepB (ts : Tabs) : BOp → Tabs
  | .forks p => (p, {}) :: ts
  | .attach h refs => ts.map fun x => (x.1, x.2.attach h (argsOf refs x.1))
  | .retain p a => updTab ts p fun t => t.hold a none

def buildFrom (ts : Tabs) (ops : List BOp) : Tabs := ops.foldl stepB ts
def build (ops : List BOp) : Tabs := buildFrom [] ops

/-- what the construction needs of the order of events: forks are built once,
before anybody refers to the node (a reference to a node without forks
registers nothing), and a consuming stage attaches once -/
def wfOps : List Node → List Node → List BOp → Bool
  | _, _, [] => true
  | built, seen, .forks p :: r => !built.contains p && wfOps (p :: built) seen r
  | built, seen, .attach (some n) refs :: r =>
    !seen.contains n && refs.all (fun x => built.contains x.1) && wfOps built (n :: seen) r
  | built, seen, .attach none refs :: r => refs.all (fun x => built.contains x.1) && wfOps built seen r
  | built, seen, .retain p _ :: r => built.contains p && wfOps built seen r

/-! ### the node tree and the order of construction -/

/-- the nodes of a pipestance: a list of siblings, each a stage or a pipeline
with its children -/
inductive PTree
  | nil
  | stage (id : Node) (inputs : List Binding) (retain : List (Node × Arg)) (rest : PTree)
  | pipe (id : Node) (top : Bool) (inputs : List Binding) (children : PTree)
      (ret : List Binding) (retained : List (Node × Arg)) (rest : PTree)
  deriving Repr

/-- `NewStagestance` / `NewPipestance`: `NewNode` (makePrenodes →
attachToFileParents; a pipeline that is not the top-level one returns at
once), the children in order, `makeReturnBindings`, `buildForks`, retains -/
def opsOf : PTree → List BOp
  | .nil => []
  | .stage id ins ret rest =>
    .attach (some id) (fileRefs ins) :: .forks id :: (ret.map fun r => BOp.retain r.1 r.2) ++ opsOf rest
  | .pipe id top ins ch ret retained rest =>
    (if top then [BOp.attach none (fileRefs ins)] else []) ++ opsOf ch ++
    (if top then [BOp.attach none (fileRefs ret)] else []) ++
    [BOp.forks id] ++ (retained.map fun r => BOp.retain r.1 r.2) ++ opsOf rest

/-- **the shape of a call graph**: `Scoped before tr after` — going through
the nodes in the order they are constructed, every node's id is new, the file
references of a stage's resolved inputs (and of the top-level pipeline's
inputs and return binding) and every retain point to nodes constructed
before (a stage may retain its own outputs, a pipeline those of its
subtree); `after` are the nodes known when the tree is done.  This is what
the compiler's scoping rules give: a call is bound to earlier calls of its
pipeline or to the pipeline's inputs, a return to the pipeline's own calls,
and fully qualified ids are unique. -/
inductive Scoped : List Node → PTree → List Node → Prop
  | nil {b} : Scoped b .nil b
  | stage {b a id ins ret rest} :
      id ∉ b → (∀ r ∈ fileRefs ins, r.1 ∈ b) → (∀ r ∈ ret, r.1 ∈ id :: b) →
      Scoped (id :: b) rest a → Scoped b (.stage id ins ret rest) a
  | pipe {b b1 a id top ins ch ret rd rest} :
      (top = true → ∀ r ∈ fileRefs ins, r.1 ∈ b) → Scoped b ch b1 →
      (top = true → ∀ r ∈ fileRefs ret, r.1 ∈ b1) → id ∉ b1 → (∀ r ∈ rd, r.1 ∈ id :: b1) →
      Scoped (id :: b1) rest a → Scoped b (.pipe id top ins ch ret rd rest) a

def allIn (b : List Node) (refs : List (Node × Arg)) : Bool := refs.all fun r => b.contains r.1

/-- `Scoped`, decided (the driver evaluates it for every pipestance built) -/
def scopedB : List Node → PTree → Option (List Node)
  | b, .nil => some b
  | b, .stage id ins ret rest =>
    if !b.contains id && allIn b (fileRefs ins) && allIn (id :: b) ret then scopedB (id :: b) rest else none
  | b, .pipe id top ins ch ret rd rest =>
    if !top || allIn b (fileRefs ins) then
      match scopedB b ch with
      | none => none
      | some b1 =>
        if (!top || allIn b1 (fileRefs ret)) && !b1.contains id && allIn (id :: b1) rd then scopedB (id :: b1) rest
        else none
    else none

/-- `cloneFork`: the new fork gets a copy of both tables; everything else is that of a new fork -/
def cloneFork (s : St) (disk : List DiskEnt) : St :=
  { fileArgs := s.fileArgs.map (fun p => (p.1, p.2.map id))
    postNodes := s.postNodes.map (fun p => (p.1, p.2.map id))
    disk := disk }

end Martian.Vdr
