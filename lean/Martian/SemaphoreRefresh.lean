/-
C12 model: the availability-update path `LocalJobManager.refreshResources`
(martian/core/jobmanager_local.go) — the arithmetic that turns what the OS
reports into the arguments of the four `Update*` calls, composed with the
semaphore model (`Martian.Semaphore.step`).

  usedMem := GetProcessTreeMemory(os.Getpid(), false, nil)      -- mrp's CHILDREN, mrp itself excluded
  memMBSem.UpdateFreeUsed((ActualFree+1024*1024-1)/(1024*1024), (usedMem.Rss+1024*1024-1)/(1024*1024))
  vmemMBSem.UpdateActual(maxVmemMB - usedMem.Vmem/(1024*1024))                       (if there is one)
  centcoreSem.UpdateActual(int64((NumCPU - load.One + 0.9) * 100))                   (if --limit-loadavg)
  procsSem.UpdateFreeUsed(rlimCur - userProcs, usedMem.Procs + startingThreadCount)  (if there is one)

Byte counts and process counts are non-negative, so Go's truncating `/` is
floor division (`Int./`); the float → int conversion of the load average is
taken as an observation (`idleCenti`).  Core Lean only.
-/
import Martian.Semaphore

namespace Martian.SemaphoreRefresh
open Martian.Semaphore

/-- what `refreshResources` reads from the OS -/
structure Obs where
  actualFree : Int   -- bytes (`MemInfo.ActualFree`)
  rss : Int          -- bytes, process tree below mrp
  vmem : Int         -- bytes, process tree below mrp
  procs : Int        -- processes/threads in the tree below mrp
  idleCenti : Int    -- int64((NumCPU - load.One + 0.9) * 100)
  rlimCur : Int
  userProcs : Int
deriving Repr, DecidableEq

def MB : Int := 1024 * 1024

/-- `(b + 1024*1024 - 1) / (1024*1024)` -/
def ceilMB (b : Int) : Int := (b + MB - 1) / MB

/-- arguments of `memMBSem.UpdateFreeUsed` -/
def memArgs (o : Obs) : Int × Int := (ceilMB o.actualFree, ceilMB o.rss)

/-- argument of `vmemMBSem.UpdateActual` -/
def vmemArg (maxVmemMB : Int) (o : Obs) : Int := maxVmemMB - o.vmem / MB

/-- argument of `centcoreSem.UpdateActual` -/
def coresArg (o : Obs) : Int := o.idleCenti

/-- arguments of `procsSem.UpdateFreeUsed` -/
def procsArgs (o : Obs) : Int × Int := (o.rlimCur - o.userProcs, o.procs + startingThreadCount)

def refreshMemOp (o : Obs) : SemOp := .updFreeUsed (memArgs o).1 (memArgs o).2
def refreshVmemOp (maxVmemMB : Int) (o : Obs) : SemOp := .updActual (vmemArg maxVmemMB o)
def refreshCoresOp (o : Obs) : SemOp := .updActual (coresArg o)
def refreshProcsOp (o : Obs) : SemOp := .updFreeUsed (procsArgs o).1 (procsArgs o).2

/-- the four semaphores of a `LocalJobManager` (vmem / procs may be absent) -/
structure Sems where
  cores : Sem
  mem : Sem
  vmem : Option Sem
  procs : Option Sem
  maxVmemMB : Int
  limitLoad : Bool
deriving Repr, DecidableEq

/-- one `refreshResources` call -/
def refresh (y : Sems) (o : Obs) : Sems :=
  { y with
    mem := (step y.mem (refreshMemOp o)).1
    vmem := y.vmem.map fun s => (step s (refreshVmemOp y.maxVmemMB o)).1
    cores := if y.limitLoad then (step y.cores (refreshCoresOp o)).1 else y.cores
    procs := y.procs.map fun s => (step s (refreshProcsOp o)).1 }

/-- The same call if the usage of mrp ITSELF (`own`) were counted into the tree
usage (`GetProcessTreeMemory(pid, true, …)`). -/
def Obs.withOwn (o : Obs) (ownRss ownVmem ownProcs : Int) : Obs :=
  { o with rss := o.rss + ownRss, vmem := o.vmem + ownVmem, procs := o.procs + ownProcs }

end Martian.SemaphoreRefresh
