/-
C13 model: martian/core/post_process.go — `Fork.postProcess`,
`processStructOuts`, `handleOuts`, `moveOutFiles`, `moveOutDir`,
`moveOutArrayDir`, `moveOutFile`, `copyOutSymlink`; martian/syntax/struct_type.go
`GetOutFilename`; compile_types.go (duplicate out-name rejection);
compile_params.go `IsLegalUnixFilename`.

The Go recursion over (type, JSON value) threads a byte writer and the real
file system.  Here the file system is an abstract map path ↦ entry, the writer
is a result tree (`J`) plus a token-level serialiser (`emit`) that mirrors the
hand-built punctuation (`[\n … , … ]`, `[]`, `{ "k": … , … }`, `{}`).

Core Lean only (no Mathlib) so that the driver links natively.
-/
namespace Martian.PostProcess

/-! ## Paths, file system -/

/-- absolute path as its list of components (`/a/b` = `["a","b"]`) -/
abbrev Path := List String

/-- symlink target as stored in the link: absolute, or relative components
(may contain `..`) -/
inductive LinkT where
  | abs (p : Path)
  | rel (cs : List String)
  deriving DecidableEq, Repr

inductive Entry where
  | file (content : Nat)
  | dir
  | link (t : LinkT)
  deriving DecidableEq, Repr

/-- The file system: `get` is its meaning (what the theorems talk about);
`dom` is a finite over-approximation of the paths that may be occupied, kept
only so that the driver can print the resulting tree. -/
structure FS where
  get : Path → Option Entry
  dom : List Path

/-- `stripPrefix p q = some s` iff `q = p ++ s` -/
def stripPrefix : Path → Path → Option Path
  | [], q => some q
  | _ :: _, [] => none
  | a :: p, b :: q => if a = b then stripPrefix p q else none

def isPrefix (p q : Path) : Bool := (stripPrefix p q).isSome

def prefixes : Path → List Path
  | [] => [[]]
  | a :: p => [] :: (prefixes p).map (a :: ·)

def FS.set (fs : FS) (p : Path) (e : Entry) : FS :=
  { get := fun q => if q = p then some e else fs.get q, dom := p :: fs.dom }

/-- `os.MkdirAll`: every missing prefix of `p` (and `p`) becomes a directory. -/
def mkdirAll (fs : FS) (p : Path) : FS :=
  { get := fun q =>
      match fs.get q with
      | some e => some e
      | none => if isPrefix q p then some .dir else none
    dom := prefixes p ++ fs.dom }

/-- `os.Rename src dst` (files and whole directory trees). -/
def rename (fs : FS) (src dst : Path) : FS :=
  { get := fun q =>
      match stripPrefix dst q with
      | some suf => fs.get (src ++ suf)
      | none => if isPrefix src q then none else fs.get q
    dom := fs.dom.filterMap (fun q => (stripPrefix src q).map (dst ++ ·)) ++ fs.dom }

/-- `os.Symlink t at`: fails (no change) when something is already there. -/
def symlinkAt (fs : FS) (at_ : Path) (t : LinkT) : FS :=
  match fs.get at_ with
  | none => fs.set at_ (.link t)
  | some _ => fs

/-- lexical resolution of relative components against a directory
(`filepath.Clean(filepath.Join(dir, rel))`) -/
def resolve : Path → List String → Path
  | d, [] => d
  | d, c :: cs =>
    if c = ".." then resolve d.dropLast cs
    else if c = "." ∨ c = "" then resolve d cs
    else resolve (d ++ [c]) cs

def commonLen : Path → Path → Nat
  | a :: p, b :: q => if a = b then commonLen p q + 1 else 0
  | _, _ => 0

/-- `filepath.Rel(base, target)` for clean absolute paths -/
def relPath (base target : Path) : List String :=
  let n := commonLen base target
  List.replicate (base.length - n) ".." ++ target.drop n

/-- `os.Stat` succeeds: the entry exists after following symlinks
(at most 40 levels, as the kernel does).  Intermediate directory components
are not resolved. -/
def statExists (fs : FS) : Nat → Path → Bool
  | 0, _ => false
  | n + 1, q =>
    match fs.get q with
    | none => false
    | some (.link (.abs t)) => statExists fs n t
    | some (.link (.rel cs)) => statExists fs n (resolve q.dropLast cs)
    | some _ => true

def statFuel : Nat := 40

/-! ## Path strings -/

def renderPath (p : Path) : String := "/" ++ "/".intercalate p

def cleanComps : List String → Path → Path
  | [], acc => acc
  | c :: cs, acc =>
    if c = ".." then cleanComps cs acc.dropLast
    else if c = "." ∨ c = "" then cleanComps cs acc
    else cleanComps cs (acc ++ [c])

/-- split at every `/` (structural, so that the kernel can evaluate it) -/
def splitSlash : List Char → List Char → List String
  | [], acc => [String.ofList acc.reverse]
  | c :: cs, acc =>
    if c = '/' then String.ofList acc.reverse :: splitSlash cs [] else splitSlash cs (c :: acc)

/-- absolute path string → cleaned component list; `none` for relative paths -/
def parsePath (s : String) : Option Path :=
  match s.toList with
  | '/' :: cs => some (cleanComps (splitSlash cs []) [])
  | _ => none

def isInfixChars : List Char → List Char → Bool
  | [], _ => true
  | _ :: _, [] => false
  | a, b :: t => (a.isPrefixOf (b :: t)) || isInfixChars a t

/-- `strings.Contains(abs(file), abs(pipestance))` — a substring test, as in
the code (not a path-prefix test). -/
def inside (ps p : Path) : Bool :=
  isInfixChars (renderPath ps).toList (renderPath p).toList

/-! ## JSON values and types -/

inductive J where
  | null
  | lit (s : String)            -- number / true / false, literal text
  | str (s : String)
  | arr (xs : List J)
  | obj (kvs : List (String × J))
  deriving Repr

/-- Output-parameter types as `lookup.Get(TypeId)` builds them.
`arr e k` is Go's `ArrayType{Elem: e, Dim: k+1}` (`e` never an array);
`struct` members are `(id, outName, type)` in declaration order. -/
inductive Ty where
  | scalar                       -- int, float, bool, string, map, …: copied verbatim
  | file (ext : String)          -- `file`/`path` (ext = "") or a user file type
  | arr (elem : Ty) (extra : Nat)
  | tmap (elem : Ty)
  | struct (ms : List (String × String × Ty))
  deriving Repr

mutual
/-- `IsFile() ∈ {KindIsFile, KindIsDirectory}` -/
def hasFile : Ty → Bool
  | .scalar => false
  | .file _ => true
  | .arr e _ => hasFile e
  | .tmap e => hasFile e
  | .struct ms => hasFileMs ms
def hasFileMs : List (String × String × Ty) → Bool
  | [] => false
  | (_, _, t) :: ms => hasFile t || hasFileMs ms
end

/-- `StructMember.GetOutFilename` for a member of type `ty` (which is file-ish) -/
def outFilename (ty : Ty) (id outName : String) : String :=
  if outName ≠ "" then outName else
  match ty with
  | .file ext => if ext = "" then id else id ++ "." ++ ext
  | _ => id

/-- `syntax.IsLegalUnixFilename` -/
def legalName (s : String) : Bool :=
  decide (s.utf8ByteSize ≤ 255) && s ≠ "" && s ≠ "." && s ≠ ".." &&
    s.toList.all (fun c => c ≠ '/' && c ≠ Char.ofNat 0)

/-! ## Names of array elements: `fmt.Sprintf("%0*d", util.WidthForInt(len), i)` -/

def widthAux : Nat → Nat → Nat
  | 0, _ => 1
  | fuel + 1, n => if n < 10 then 1 else 1 + widthAux fuel (n / 10)

/-- number of decimal digits of `n` (`util.WidthForInt`) -/
def width (n : Nat) : Nat := widthAux n n

def digitChar (d : Nat) : Char := Char.ofNat (48 + d % 10)

/-- the `w` low decimal digits of `i`, least significant first -/
def digitsRev : Nat → Nat → List Nat
  | 0, _ => []
  | w + 1, i => (i % 10) :: digitsRev w (i / 10)

/-- zero-padded decimal of width (at least) `w`.  For `i < 10^w` (always the
case here: `i < len`, `w = width len`) exactly `w` digits. -/
def pad (w i : Nat) : String := String.ofList ((digitsRev w i).reverse.map digitChar)

/-! ## Sorting (Go `sort.Strings`: bytewise = code-point lexicographic) -/

def insertSorted (k : String) : List String → List String
  | [] => [k]
  | a :: r => if k < a then k :: a :: r else a :: insertSorted k r

def sortStrings : List String → List String
  | [] => []
  | a :: r => insertSorted a (sortStrings r)

def dedup : List String → List String
  | [] => []
  | a :: r => if r.contains a then dedup r else a :: dedup r

/-- value of key `k` in a decoded Go map (the last duplicate wins) -/
def lookupLast (kvs : List (String × J)) (k : String) : Option J :=
  match kvs with
  | [] => none
  | (k', v) :: r =>
    match lookupLast r k with
    | some v' => some v'
    | none => if k' = k then some v else none

/-! ## Leaves: `moveOutFile` and `copyOutSymlink` -/

/-- the loop of `copyOutSymlink` that chases relative links; `p` is the Go
variable `p` once it has been overwritten by an absolute path.  Go has no
bound (a cycle of relative links never terminates); the model stops after
`fuel` links. -/
def chase (fs : FS) : Nat → Option Path → Path → Option Path × Path
  | 0, p, ap => (p, ap)
  | n + 1, p, ap =>
    match fs.get ap with
    | some (.link (.abs rp)) => (some ap, rp)
    | some (.link (.rel cs)) => chase fs n (some ap) (resolve ap.dropLast cs)
    | _ => (p, ap)

def chaseFuel : Nat := 64

/-- `copyOutSymlink`; `fs` already has `MkdirAll(outsPath)` applied. -/
def copyOutSymlink (ps : Path) (dest : Path) (v : J) (p : Path) (t : LinkT) (fs : FS) : J × FS :=
  if !inside ps p then (v, symlinkAt fs dest (.abs p))
  else if statExists fs statFuel dest then (.str (renderPath dest), fs)
  else
    match t with
    | .abs tp => (.str (renderPath tp), symlinkAt fs dest (.abs tp))
    | .rel cs =>
      let ap0 := resolve p.dropLast cs
      match chase fs chaseFuel none ap0 with
      | (some lp, ap) => (.str (renderPath ap), symlinkAt fs dest (.abs lp))
      | (none, ap) => (.str (renderPath ap), symlinkAt fs dest (.rel (relPath dest.dropLast ap)))

/-- `recoverMovedOutFile`: the recorded path holds nothing.  If it lies inside
the pipestance and its destination already holds a file or directory (not a
symlink) — an earlier post-process was interrupted between the rename into
outs/ and leaving the symlink behind — the link is put in place now and the
destination is reported; otherwise the output is reported as null. -/
def recoverMoved (ps dest p : Path) (fs : FS) : J × FS :=
  if !inside ps p then (.null, fs) else
  match fs.get dest with
  | some (.file _) => (.str (renderPath dest), symlinkAt fs p (.rel (relPath p.dropLast dest)))
  | some .dir => (.str (renderPath dest), symlinkAt fs p (.rel (relPath p.dropLast dest)))
  | _ => (.null, fs)

/-- `moveOutFile` for a non-null value; `name` = `GetOutFilename`. -/
def moveOutFile (ps outs : Path) (name : String) (v : J) (fs : FS) : J × FS :=
  match v with
  | .str s =>
    if s = "" then (.null, fs) else
    match parsePath s with
    | none => (.null, fs)
    | some p =>
      match fs.get p with
      | none => recoverMoved ps (outs ++ [name]) p fs
      | some (.link t) => copyOutSymlink ps (outs ++ [name]) v p t (mkdirAll fs outs)
      | some _ =>
        let dest := outs ++ [name]
        if !inside ps p then (v, symlinkAt (mkdirAll fs outs) dest (.abs p))
        else if statExists fs statFuel dest then (v, fs)
        else
          let fs1 := mkdirAll fs outs
          let fs2 := rename fs1 p dest
          let fs3 := symlinkAt fs2 p (.rel (relPath p.dropLast dest))
          (.str (renderPath dest), fs3)
  | _ => (v, fs)

/-! ## The recursion -/

/-- what `moveOutFiles` does for a member `(id, outName)` of some fixed type:
value, outs directory, file system ↦ rewritten value, file system -/
abbrev Handler := String → String → J → Path → FS → J × FS

/-- thread the file system through the elements of an array, left to right -/
def mapIdx (f : Nat → J → FS → J × FS) : Nat → List J → FS → List J × FS
  | _, [], fs => ([], fs)
  | i, x :: xs, fs =>
    let r := f i x fs
    let rs := mapIdx f (i + 1) xs r.2
    (r.1 :: rs.1, rs.2)

/-- `moveOutArrayDir` on an `ArrayType{Elem, Dim = k+1}`; `h` is `moveOutFiles`
at the element type `Elem`, `outPath` the array's own directory.
`dimAware = false` is the code before the F5 repair: elements of a
multi-dimensional array are handed to `h` (as if they were `Elem`s);
`dimAware = true`: they are processed as arrays of one dimension less, in
their own sub-directory. -/
def arrLevel (dimAware : Bool) (h : Handler) : Nat → J → Path → FS → J × FS
  | 0, v, outPath, fs =>
    match v with
    | .arr xs =>
      let w := width xs.length
      let r := mapIdx (fun i x fs => h (pad w i) "" x outPath fs) 0 xs fs
      (.arr r.1, r.2)
    | _ => (v, fs)
  | k + 1, v, outPath, fs =>
    match v with
    | .arr xs =>
      let w := width xs.length
      let r := mapIdx (fun i x fs =>
        if dimAware then
          match x with
          | .null => (.null, fs)
          | _ => arrLevel dimAware h k x (outPath ++ [pad w i]) fs
        else h (pad w i) "" x outPath fs) 0 xs fs
      (.arr r.1, r.2)
    | _ => (v, fs)

/-- thread the file system through the keys of a map / struct, in the given order -/
def mapKeys (f : String → FS → J × FS) : List String → FS → List (String × J) × FS
  | [], fs => ([], fs)
  | k :: ks, fs =>
    let r := f k fs
    let rs := mapKeys f ks r.2
    ((k, r.1) :: rs.1, rs.2)

/-- `moveOutDir`, `*TypedMapType` case (value already known to be non-null) -/
def mapLevel (h : Handler) (v : J) (outPath : Path) (fs : FS) : J × FS :=
  match v with
  | .obj kvs =>
    let keys := sortStrings (dedup ((kvs.map Prod.fst).filter legalName))
    let r := mapKeys (fun k fs => h k "" ((lookupLast kvs k).getD .null) outPath fs) keys fs
    (.obj r.1, r.2)
  | _ => (v, fs)

/-- per-member handlers of a struct, by member id -/
abbrev MemberHandlers := List (String × (J → Path → FS → J × FS))

def memberHandler (hs : MemberHandlers) (k : String) : J → Path → FS → J × FS :=
  match hs with
  | [] => fun v _ fs => (v, fs)
  | (k', h) :: r => if k' = k then h else memberHandler r k

/-- `moveOutDir`, `*StructType` case -/
def structLevel (hs : MemberHandlers) (v : J) (outPath : Path) (fs : FS) : J × FS :=
  match v with
  | .obj [] => (.obj [], fs)
  | .obj kvs =>
    let keys := sortStrings (hs.map Prod.fst)
    let r := mapKeys (fun k fs => memberHandler hs k ((lookupLast kvs k).getD .null) outPath fs) keys fs
    (.obj r.1, r.2)
  | _ => (v, fs)

mutual
/-- `moveOutFiles(w, member{id,outName,type ty}, ty.IsFile(), value, …, outsPath)` -/
def handler (dimAware : Bool) (ps : Path) : Ty → Handler
  | .scalar => fun _ _ v _ fs => (v, fs)
  | .file ext => fun id on v outs fs =>
    match v with
    | .null => (.null, fs)
    | _ => moveOutFile ps outs (outFilename (.file ext) id on) v fs
  | .arr e k => fun id on v outs fs =>
    if !hasFile e then (v, fs) else
    match v with
    | .null => (.null, fs)
    | _ => arrLevel dimAware (handler dimAware ps e) k v (outs ++ [outFilename (.arr e k) id on]) fs
  | .tmap e => fun id on v outs fs =>
    if !hasFile e then (v, fs) else
    match v with
    | .null => (.null, fs)
    | _ => mapLevel (handler dimAware ps e) v (outs ++ [outFilename (.tmap e) id on]) fs
  | .struct ms => fun id on v outs fs =>
    if !hasFileMs ms then (v, fs) else
    match v with
    | .null => (.null, fs)
    | _ => structLevel (handlersMs dimAware ps ms) v (outs ++ [outFilename (.struct ms) id on]) fs
def handlersMs (dimAware : Bool) (ps : Path) : List (String × String × Ty) → MemberHandlers
  | [] => []
  | (id, on, t) :: ms => (id, handler dimAware ps t id on) :: handlersMs dimAware ps ms
end

/-- `moveOutFiles` for one output parameter -/
def moveOut (dimAware : Bool) (ps : Path) (ty : Ty) (id outName : String) (v : J) (outs : Path) (fs : FS) :
    J × FS :=
  handler dimAware ps ty id outName v outs fs

/-- `handleOuts`: the declared parameters in order; a parameter whose key is
absent from `_outs` is left out of the rewritten record. -/
def handleOuts (dimAware : Bool) (ps : Path) (params : List (String × String × Ty))
    (outs : List (String × J)) (outsPath : Path) (fs : FS) : List (String × J) × FS :=
  match params with
  | [] => ([], fs)
  | (id, on, ty) :: rest =>
    match lookupLast outs id with
    | none => handleOuts dimAware ps rest outs outsPath fs
    | some v =>
      let r := moveOut dimAware ps ty id on v outsPath fs
      let rs := handleOuts dimAware ps rest outs outsPath r.2
      ((id, r.1) :: rs.1, rs.2)

/-- `processStructOuts`: the outs directory is created when some parameter is
file-typed, then `handleOuts`. -/
def processStructOuts (dimAware : Bool) (ps : Path) (params : List (String × String × Ty))
    (outs : J) (outsPath : Path) (fs : FS) : J × FS :=
  let fs1 := if hasFileMs params then mkdirAll fs outsPath else fs
  let kvs := match outs with | .obj kvs => kvs | _ => []
  let r := handleOuts dimAware ps params kvs outsPath fs1
  (.obj r.1, r.2)

/-! ## The verification gate in front of post-processing

A stage or pipeline fork can only complete when its outputs pass
`LazyArgumentMap.ValidateOutputs` (`Fork.verifyOutput` /
`verifyPipelineOutput` → `Type.IsValidJson`).  For a typed map,
`TypedMapType.IsValidJson` (collection_types.go) demands of the KEYS: when the
map is a directory kind (`s.IsFile() == KindIsDirectory`, i.e. its element type
contains a file type: a file, an array of files, a struct with files, a map of
those …) every key must be a legal file name; and it descends into every entry
(`ArrayType` into every element, `StructType` into every declared member).
`keysVerified` is that demand, as a function of (type, value); everything else
the gate checks (value kinds) is not modelled. -/

/-- arrays of `k+1` dimensions whose innermost elements satisfy `f` -/
def keysArr (f : J → Bool) : Nat → J → Bool
  | 0, v =>
    match v with
    | .arr xs => xs.all f
    | _ => true
  | k + 1, v =>
    match v with
    | .arr xs => xs.all (keysArr f k)
    | _ => true

/-- one typed-map value: legal keys when the map is a directory kind, entries satisfy `f` -/
def keysMap (dir : Bool) (f : J → Bool) (v : J) : Bool :=
  match v with
  | .obj kvs => (!dir || kvs.all (fun kv => legalName kv.1)) && kvs.all (fun kv => f kv.2)
  | _ => true

mutual
/-- what output verification demands of typed-map keys in a value of type `ty` -/
def keysVerified : Ty → J → Bool
  | .scalar, _ => true
  | .file _, _ => true
  | .arr e k, v => keysArr (keysVerified e) k v
  | .tmap e, v => keysMap (hasFile e) (keysVerified e) v
  | .struct ms, v =>
    match v with
    | .obj kvs => keysVerifiedMs ms kvs
    | _ => true
def keysVerifiedMs : List (String × String × Ty) → List (String × J) → Bool
  | [], _ => true
  | (id, _, t) :: ms, kvs => keysVerified t ((lookupLast kvs id).getD .null) && keysVerifiedMs ms kvs
end

/-- the gate on a whole `_outs` record -/
def recordKeysVerified (params : List (String × String × Ty)) (outs : J) : Bool :=
  match outs with
  | .obj kvs => keysVerifiedMs params kvs
  | _ => true

/-! ## Mapped top-level calls (`Fork.postProcess`, `*ArrayType` / `*TypedMapType` cases) -/

/-- `Fork.postProcess` for a top-level call mapped over an array: `_outs` is an
array of records, record `i` goes to `outs/<i>` (plain decimal). -/
def postArray (da : Bool) (ps : Path) (params : List (String × String × Ty)) (outs : Path) :
    Nat → List J → FS → List J × FS
  | _, [], fs => ([], fs)
  | i, x :: xs, fs =>
    let r := processStructOuts da ps params x (outs ++ [toString i]) fs
    let rs := postArray da ps params outs (i + 1) xs r.2
    (r.1 :: rs.1, rs.2)

/-- The directory of fork key `k` of a top-level call mapped over a typed map:
`path.Join(outsPath, k)` for the clean absolute `outsPath` (regenerated as
`Gen.postProcessForkDirs`).  `path.Join` drops empty elements, joins with `/`
and applies `path.Clean`, so the key is NOT used as one path component: it is
split at every `/`; empty components and `.` vanish (`""`, `"."`, `"a/"`,
`"./a"`, `"a//b"`), `..` removes the component before it (`".."` is the
pipestance directory itself, `"a/../b"` is `b`), and a key containing `/`
names a directory nested below the directory of a shorter key.  For a key that
is a legal file name this is `outs ++ [k]` (`joinKey_legal`). -/
def joinKey (outs : Path) (k : String) : Path := cleanComps (splitSlash k.toList []) outs

/-- neither path is a prefix of the other (decidable form of `Incomp`) -/
def incompB (a b : Path) : Bool := !isPrefix a b && !isPrefix b a

/-- The per-key directories of the fork keys `keys` are usable side by side:
each lies at or below the outs directory, and they are pairwise incomparable
(no two keys share a directory, none is nested inside another's). -/
def keysSeparable (outs : Path) : List String → Bool
  | [] => true
  | k :: ks =>
    isPrefix outs (joinKey outs k) && ks.all (fun k' => incompB (joinKey outs k) (joinKey outs k')) &&
      keysSeparable outs ks

/-- … over a typed map: record `k` goes to `joinKey outs k` (= `outs/<k>` for a
key that is a legal file name); Go iterates its map in no particular order —
the driver uses the order given (the harness reads the real order off the
console log of the run it compares with). -/
def postMap (da : Bool) (ps : Path) (params : List (String × String × Ty)) (outs : Path) :
    List (String × J) → FS → List (String × J) × FS
  | [], fs => ([], fs)
  | (k, x) :: xs, fs =>
    let r := processStructOuts da ps params x (joinKey outs k) fs
    let rs := postMap da ps params outs xs r.2
    ((k, r.1) :: rs.1, rs.2)

/-- `Fork.postProcess`, typed-map branch, AS REPAIRED (F24; regenerated as
`Gen.postProcessMappedKeyCheck`): a fork key that is not a legal file name
(`IsLegalUnixFilename`) is refused — an error naming the key is reported, the
fork's record entry is kept as it is and nothing of it is moved; every other
fork is processed as before, in `outs/<key>` (one component: for a legal name
`path.Join` cleans nothing, `joinKey_legal`).  `postMap` above is the branch
BEFORE the repair (every key through `path.Join`); it is kept for the negative
witnesses. -/
def postMapChecked (da : Bool) (ps : Path) (params : List (String × String × Ty)) (outs : Path) :
    List (String × J) → FS → List (String × J) × FS
  | [], fs => ([], fs)
  | (k, x) :: xs, fs =>
    if legalName k then
      let r := processStructOuts da ps params x (outs ++ [k]) fs
      let rs := postMapChecked da ps params outs xs r.2
      ((k, r.1) :: rs.1, rs.2)
    else
      let rs := postMapChecked da ps params outs xs fs
      ((k, x) :: rs.1, rs.2)

/-- the fork keys for which `postMapChecked` reports an error -/
def refusedKeys (kvs : List (String × J)) : List String :=
  (kvs.map Prod.fst).filter (fun k => !legalName k)

/-- the forks `postMapChecked` processes -/
def legalForks (kvs : List (String × J)) : List (String × J) := kvs.filter (fun kv => legalName kv.1)

/-! ## Rewriting the `_outs` record under faults

`Fork.postProcess` ends with one write of the record file.  A crash (kill -9)
or an I/O fault (ENOSPC, EFBIG, …) can cut that write short after any number
of steps.  Two kinds of writer exist in `Metadata`:
* `WriteAtomic` → `writeAtomicAt`: the bytes go to `<target>.tmp`
  (`writeFileAt`), then `renameat(tmp, target)`;
* `Write` / `WriteRaw` / `WriteRawBytes`: `os.WriteFile(target)` — truncate,
  then write in place.
ASSUMPTION (operating system): `rename(2)` replaces the target atomically, and
a failed or interrupted `write(2)` leaves a prefix of the data. -/

inductive RecordWriter where
  | atomic
  | inplace
  deriving DecidableEq, Repr

/-- classification of the `Metadata` method named at the write site -/
def writerOfName (n : String) : Option RecordWriter :=
  if n = "WriteAtomic" then some .atomic
  else if n = "Write" ∨ n = "WriteRaw" ∨ n = "WriteRawBytes" ∨ n = "_writeRawNoLock" then some .inplace
  else none

/-- the steps `WriteAtomic` must consist of for the argument to hold -/
def atomicSteps : List String := ["writeFileAt:tmp", "renameat:tmp->target"]

/-- Content of the record file when the write is cut after `k` units of
progress: for the in-place writer, unit 0 is the truncation and unit `i+1` the
`i`-th byte; for the atomic writer units `0 … len` fill the temp file and the
last unit is the rename. -/
def recordAfterFault (w : RecordWriter) (old new : List UInt8) (k : Nat) : List UInt8 :=
  match w with
  | .atomic => if new.length + 1 < k then new else old
  | .inplace => if k = 0 then old else new.take (k - 1)

/-! ### The two writers as operations on a file system of byte files

Metadata files as byte strings (`BFS`).  The steps of `writeAtomicAt(dirFd,
target, data)` (write_atomic_linux.go): `tmp := target + ".tmp"`;
`writeFileAt(tmp)` = open with O_CREAT|O_TRUNC (the temp file exists, empty),
then the bytes; `renameat(tmp, target)`.  A crash or an I/O error can stop the
sequence after any number `k` of units of progress: unit 1 is the open, units
`2 … n+1` the `n` bytes (a failed write leaves a prefix), unit `n+2` the rename.

OS ASSUMPTION, stated once, as the semantics of `BFS.rename`: `rename(2)` is
atomic — there is no observable state between "target holds what it held" and
"target holds what the source held, the source name is gone". -/

abbrev BFS := Path → Option (List UInt8)

def BFS.set (fs : BFS) (p : Path) (b : List UInt8) : BFS := fun q => if q = p then some b else fs q

/-- `rename(2)` of one file: atomic replacement (the OS assumption) -/
def BFS.rename (fs : BFS) (src dst : Path) : BFS :=
  fun q => if q = dst then fs src else if q = src then none else fs q

/-- `target + ".tmp"`: the sibling with `.tmp` appended to the last component -/
def tmpPath (target : Path) : Path := target.dropLast ++ [target.getLast?.getD "" ++ ".tmp"]

/-- the file system after `k` units of progress of `writeAtomicAt` -/
def writeAtomicCut (fs : BFS) (target : Path) (new : List UInt8) (k : Nat) : BFS :=
  if k = 0 then fs
  else if k ≤ new.length + 1 then fs.set (tmpPath target) (new.take (k - 1))
  else (fs.set (tmpPath target) new).rename (tmpPath target) target

/-- … of `os.WriteFile(target)` (`Write`/`WriteRaw`/`WriteRawBytes`): unit 1 is
the open with O_TRUNC, units `2 … n+1` the bytes -/
def writeInplaceCut (fs : BFS) (target : Path) (new : List UInt8) (k : Nat) : BFS :=
  if k = 0 then fs else fs.set target (new.take (k - 1))

def writeCut (w : RecordWriter) (fs : BFS) (target : Path) (new : List UInt8) (k : Nat) : BFS :=
  match w with
  | .atomic => writeAtomicCut fs target new k
  | .inplace => writeInplaceCut fs target new k

/-! ## The compile-time duplicate-name check (compile_types.go `StructType.compile`) -/

/-- `StructType.compile`'s duplicate check as a decidable predicate: the
output file names of the file-typed members are pairwise distinct. -/
def noDupNames : List (String × String × Ty) → List String → Bool
  | [], _ => true
  | (id, on, t) :: ms, seen =>
    if hasFile t then
      let n := outFilename t id on
      if seen.contains n then false else noDupNames ms (n :: seen)
    else noDupNames ms seen

/-- names of the file-typed members, in declaration order -/
def memberNames : List (String × String × Ty) → List String
  | [] => []
  | (id, on, t) :: ms => if hasFile t then outFilename t id on :: memberNames ms else memberNames ms

/-! ## The hand-built JSON writer, token level

`moveOutDir`/`moveOutArrayDir` write punctuation by hand around fragments
produced by `json.Marshal` (keys, new paths) or copied from the input
(everything that is not a file).  `emit` is that writer for a result tree;
`parse` is a JSON parser on the same tokens.  Strings and literals are atomic
tokens (their bytes come from `encoding/json`). -/

inductive Tok where
  | lbrace | rbrace | lbrack | rbrack | comma | colon
  | null
  | lit (s : String)
  | str (s : String)
  deriving DecidableEq, Repr

mutual
def emit : J → List Tok
  | .null => [.null]
  | .lit s => [.lit s]
  | .str s => [.str s]
  | .arr [] => [.lbrack, .rbrack]                         -- `[]`
  | .arr (x :: xs) => .lbrack :: (emit x ++ emitTail xs)   -- `[\n` x {`,` x} `]`
  | .obj [] => [.lbrace, .rbrace]                         -- `{}`
  | .obj ((k, v) :: kvs) => .lbrace :: .str k :: .colon :: (emit v ++ emitFields kvs)
def emitTail : List J → List Tok
  | [] => [.rbrack]
  | x :: xs => .comma :: (emit x ++ emitTail xs)
def emitFields : List (String × J) → List Tok
  | [] => [.rbrace]
  | (k, v) :: kvs => .comma :: .str k :: .colon :: (emit v ++ emitFields kvs)
end

mutual
/-- recursive-descent JSON parser on tokens (fuel = an upper bound on the
number of tokens) -/
def parseVal : Nat → List Tok → Option (J × List Tok)
  | 0, _ => none
  | _ + 1, .null :: r => some (.null, r)
  | _ + 1, .lit s :: r => some (.lit s, r)
  | _ + 1, .str s :: r => some (.str s, r)
  | _ + 1, .lbrack :: .rbrack :: r => some (.arr [], r)
  | n + 1, .lbrack :: r =>
    match parseVal n r with
    | some (x, r1) =>
      match parseTail n r1 with
      | some (xs, r2) => some (.arr (x :: xs), r2)
      | none => none
    | none => none
  | _ + 1, .lbrace :: .rbrace :: r => some (.obj [], r)
  | n + 1, .lbrace :: .str k :: .colon :: r =>
    match parseVal n r with
    | some (v, r1) =>
      match parseFields n r1 with
      | some (kvs, r2) => some (.obj ((k, v) :: kvs), r2)
      | none => none
    | none => none
  | _ + 1, _ => none
def parseTail : Nat → List Tok → Option (List J × List Tok)
  | 0, _ => none
  | _ + 1, .rbrack :: r => some ([], r)
  | n + 1, .comma :: r =>
    match parseVal n r with
    | some (x, r1) =>
      match parseTail n r1 with
      | some (xs, r2) => some (x :: xs, r2)
      | none => none
    | none => none
  | _ + 1, _ => none
def parseFields : Nat → List Tok → Option (List (String × J) × List Tok)
  | 0, _ => none
  | _ + 1, .rbrace :: r => some ([], r)
  | n + 1, .comma :: .str k :: .colon :: r =>
    match parseVal n r with
    | some (v, r1) =>
      match parseFields n r1 with
      | some (kvs, r2) => some ((k, v) :: kvs, r2)
      | none => none
    | none => none
  | _ + 1, _ => none
end

/-- parse a complete token stream -/
def parse (ts : List Tok) : Option J :=
  match parseVal (ts.length + 1) ts with
  | some (v, []) => some v
  | _ => none

end Martian.PostProcess
