/-
C09 model, part 4: the full call statement and the other statements of a
pipeline body (martian/syntax/format_callable.go `CallStm.format`,
`BindStms.format`, `BindStm.format`, `ReturnStm.format`,
`PipelineRetains.format`, the statement part of `Pipeline.format`), and the
reader of the same fragment (grammar.y: `call_stm_begin` with `modifiers`, all
three alternatives of `call_stm`, `modifier_stm_list`, `modifier_stm`,
`bind_stm_list` / `split_bind_stm_list` with `wildcard_bind`, `return_stm`,
`pipeline_retain`, `pipeline_retain_list`, `call_stm_list`), on the tokens of
`Martian.FormatExp`.  Builds on `Martian.FormatCall` (bindings, `split`).

* `fmtBindsGo` / `idWidthGo` / `fmtBindStms` = `BindStms.format` on ANY list of
  bindings: the wildcard binding has the id `*`; after it both loops `break`
  (nothing after a `*` is measured or printed).  The parser only builds lists
  with `*` last (`rawBinds`); lists with `*` elsewhere are reachable through
  the exported `Ast.Format` on a hand-made AST (tied by the harness).
* `fmtCall2 p c` = `CallStm.format(printer, p)` for a call without comments:
  `p` is `""` for the top-level call of a file and INDENT inside a pipeline.
  The `) using (` block is printed iff `Modifiers.Bindings` is non-empty or
  one of `Local`/`Preflight`/`Volatile` is set; the keyword modifiers are
  appended as `local = true` … unless a binding with that id is in the block
  (`convMods`), the block is sorted by id (`sort.Slice`, modelled by a stable
  insertion sort: Go's pdqsort is an insertion sort below 12 elements; the
  claim is made for distinct ids) and printed by `BindStms.format`.
* `pCall2`: `[map] call <modifiers> id [as id] ( bindings ) {using ( … )}`,
  returning the remaining tokens.  `local`/`preflight`/`volatile` after `call`
  are modifiers unless followed by `(` or `as` (then it is the callee's name:
  LALR(1) look-ahead of `id: LOCAL`).  Every `using` block REPLACES
  `Modifiers.Bindings` (the production is left recursive).
* `pReturn`, `pPRetain`, `pBody` (`call_stm_list? return_stm pipeline_retain '}'`).

Core Lean only.
-/
import Martian.FormatCall

namespace Martian.FormatCall2
open Martian.Lexer (Bytes)
open Martian.FormatExp Martian.FormatCall

def sStar : Bytes := [0x2A]
def sLocal : Bytes := [0x6C, 0x6F, 0x63, 0x61, 0x6C]
def sPreflight : Bytes := [0x70, 0x72, 0x65, 0x66, 0x6C, 0x69, 0x67, 0x68, 0x74]
def sVolatile : Bytes := [0x76, 0x6F, 0x6C, 0x61, 0x74, 0x69, 0x6C, 0x65]
def sDisabled : Bytes := [0x64, 0x69, 0x73, 0x61, 0x62, 0x6C, 0x65, 0x64]
def sUsing : Bytes := [0x75, 0x73, 0x69, 0x6E, 0x67]
def sReturn : Bytes := [0x72, 0x65, 0x74, 0x75, 0x72, 0x6E]
def sRetain : Bytes := [0x72, 0x65, 0x74, 0x61, 0x69, 0x6E]
/-- `") using (\n"` -/
def sUsingOpen : Bytes := [0x29, 0x20] ++ sUsing ++ [0x20, 0x28, 0x0A]

/-! ## AST -/

/-- `Modifiers`: the keyword form (`call local preflight volatile X(…)`) and
the `using` block (`Modifiers.Bindings`, nil = empty) -/
structure Mods where
  loc : Bool
  pre : Bool
  vol : Bool
  binds : List (Bytes × Exp)
  deriving Repr, Inhabited

/-- `CallStm`: `id = decId` when there is no `as`; `wildcard` is the value of
the final `* = …` binding (`self` alone is `.ref true [] []`) -/
structure Call2 where
  decId : Bytes
  id : Bytes
  binds : List Bind
  wildcard : Option Exp
  mods : Mods
  deriving Repr, Inhabited

/-- `ReturnStm.Bindings` -/
structure Ret where
  binds : List Bind
  wildcard : Option Exp
  deriving Repr, Inhabited

/-- the statements of a pipeline: `Calls`, `Ret`, `Retain` (nil = none) -/
structure Body where
  calls : List Call2
  ret : Ret
  retain : Option (List Exp)
  deriving Repr, Inhabited

def noMods : Mods := ⟨false, false, false, []⟩

def isMap2 (c : Call2) : Bool := c.binds.any (·.split)

/-- the wildcard binding as an element of `BindStms.List` -/
def wildBind (e : Exp) : Bind := ⟨sStar, false, e⟩

/-- `BindStms.List` as the parser builds it: the wildcard last -/
def rawBinds (bs : List Bind) (w : Option Exp) : List Bind :=
  bs ++ (match w with | some e => [wildBind e] | none => [])

/-- a modifier binding as an element of `Modifiers.Bindings.List` -/
def modBind (kv : Bytes × Exp) : Bind := ⟨kv.1, false, kv.2⟩

/-! ## printer -/

/-- `BindStm.format(printer, p, w)` -/
def fmtBind (p : Bytes) (w : Nat) (b : Bind) : Bytes :=
  p ++ bindPre w b ++ fmt (p ++ indent) b.exp ++ [0x2C, 0x0A]

/-- the first loop of `BindStms.format` -/
def idWidthGo : List Bind → Nat
  | [] => 0
  | b :: r =>
    if b.id.length < 30 then max b.id.length (if b.id = sStar then 0 else idWidthGo r)
    else (if b.id = sStar then 0 else idWidthGo r)

/-- the second loop of `BindStms.format` -/
def fmtBindsGo (p : Bytes) (w : Nat) : List Bind → Bytes
  | [] => []
  | b :: r => fmtBind p w b ++ (if b.id = sStar then [] else fmtBindsGo p w r)

/-- `BindStms.format(printer, p)` -/
def fmtBindStms (p : Bytes) (bs : List Bind) : Bytes := fmtBindsGo p (idWidthGo bs) bs

def hasId (k : Bytes) (l : List (Bytes × Exp)) : Bool := l.any (fun kv => kv.1 == k)

/-- one `if self.Modifiers.X && !foundMods.X { append }` -/
def addKw (on : Bool) (k : Bytes) (orig l : List (Bytes × Exp)) : List (Bytes × Exp) :=
  if on && !hasId k orig then l ++ [(k, .bool true)] else l

/-- "Convert unbound-form mods to bound form" -/
def convMods (m : Mods) : List (Bytes × Exp) :=
  addKw m.vol sVolatile m.binds (addKw m.pre sPreflight m.binds (addKw m.loc sLocal m.binds m.binds))

/-- insert before the first element that is not smaller -/
def insMod (kv : Bytes × Exp) : List (Bytes × Exp) → List (Bytes × Exp)
  | [] => [kv]
  | x :: r => if bytesLt x.1 kv.1 then x :: insMod kv r else kv :: x :: r

/-- `sort.Slice(…, Id[i] < Id[j])`, as a stable insertion sort -/
def sortMods (l : List (Bytes × Exp)) : List (Bytes × Exp) := l.foldr insMod []

/-- what the `using` block of the printed call holds -/
def modList (m : Mods) : List (Bytes × Exp) := sortMods (convMods m)

/-- the condition under which the `using` block is printed -/
def usingPrinted (m : Mods) : Bool := !m.binds.isEmpty || m.loc || m.pre || m.vol

/-- `CallStm.format(printer, p)` on any `Bindings.List` (`m`: `Mapping != nil`) -/
def fmtCallRaw (p : Bytes) (m : Bool) (decId id : Bytes) (raw : List Bind) (mods : Mods) : Bytes :=
  p ++ (if m then sMap ++ [0x20] else []) ++ sCall ++ [0x20] ++ decId ++
    (if id = decId then [] else [0x20] ++ sAs ++ [0x20] ++ id) ++ [0x28] ++
    (if raw.isEmpty then [] else 0x0A :: (fmtBindStms p raw ++ p)) ++
    (if usingPrinted mods then sUsingOpen ++ fmtBindStms p ((modList mods).map modBind) ++ p
     else []) ++ [0x29, 0x0A]

/-- `CallStm.format(printer, p)` -/
def fmtCall2 (p : Bytes) (c : Call2) : Bytes :=
  fmtCallRaw p (isMap2 c) c.decId c.id (rawBinds c.binds c.wildcard) c.mods

/-- `Bindings.List` with the wildcard binding moved to position `k` (not what
the parser builds; `Ast.Format` on a hand-made AST) -/
def rawBindsAt (k : Nat) (bs : List Bind) (e : Exp) : List Bind :=
  bs.take k ++ wildBind e :: bs.drop k

/-- `ReturnStm.format(printer)` -/
def fmtReturn (r : Ret) : Bytes :=
  indent ++ sReturn ++ [0x20, 0x28, 0x0A] ++ fmtBindStms indent (rawBinds r.binds r.wildcard) ++
    indent ++ [0x29, 0x0A]

def fmtRefs : List Exp → Bytes
  | [] => []
  | e :: r => indent ++ indent ++ fmt (indent ++ indent) e ++ [0x2C, 0x0A] ++ fmtRefs r

/-- `PipelineRetains.format(printer)` -/
def fmtPRetain (refs : List Exp) : Bytes :=
  indent ++ sRetain ++ [0x20, 0x28, 0x0A] ++ fmtRefs refs ++ indent ++ [0x29, 0x0A]

def fmtCalls : List Call2 → Bytes
  | [] => []
  | c :: r => 0x0A :: (fmtCall2 indent c ++ fmtCalls r)

/-- what `Pipeline.format` writes after `")\n{"` (for calls in the order
`topoSort` leaves them in) -/
def fmtBody (b : Body) : Bytes :=
  fmtCalls b.calls ++ [0x0A] ++ fmtReturn b.ret ++
    (match b.retain with | some rs => 0x0A :: fmtPRetain rs | none => []) ++ [0x7D, 0x0A]

/-! ## reader -/

/-- `wildcard_bind` after `'*' '='`: `SELF ','` or `ref_exp ','` -/
def pWild (fe : Nat) : List Tok → Option (Exp × List Tok)
  | .kSelf :: .punct 0x2C :: r => some (.ref true [] [], r)
  | ts =>
    match pExp fe ts with
    | some (.ref s i o, .punct 0x2C :: r) => some (.ref s i o, r)
    | _ => none

/-- `bind_stm_list` / `split_bind_stm_list` up to the closing parenthesis (a
wildcard binding ends the list: the caller demands `)` next) -/
def pBinds2 (m : Bool) (fe : Nat) : Nat → List Tok → Option (List Bind × Option Exp × List Tok)
  | 0, _ => none
  | f + 1, ts =>
    match ts with
    | .punct 0x29 :: r => some ([], none, .punct 0x29 :: r)
    | .punct 0x2A :: .punct 0x3D :: r =>
      match pWild fe r with
      | some (e, r') => some ([], some e, r')
      | none => none
    | _ =>
      match pBind m fe ts with
      | some (b, r) => (pBinds2 m fe f r).map fun (bs, w, r') => (b :: bs, w, r')
      | none => none

/-- `modifiers id [AS id] '('` after `CALL`: a modifier keyword followed by `(`
or `as` is the name of the callee -/
def pHead2 : Nat → Bool → Bool → Bool → List Tok →
    Option (Bool × Bool × Bool × Bytes × Bytes × List Tok)
  | 0, _, _, _, _ => none
  | _ + 1, l, p, v, .id d :: .punct 0x28 :: r => some (l, p, v, d, d, r)
  | _ + 1, l, p, v, .id d :: .reserved a :: .id i :: .punct 0x28 :: r =>
    if a = sAs then some (l, p, v, d, i, r) else none
  | f + 1, l, p, v, .id d :: r =>
    if d = sLocal then pHead2 f true p v r
    else if d = sPreflight then pHead2 f l true v r
    else if d = sVolatile then pHead2 f l p true r
    else none
  | _ + 1, _, _, _, _ => none

def isModKw (k : Bytes) : Bool := k == sLocal || k == sPreflight || k == sVolatile

/-- `modifier_stm` -/
def pModStm (fe : Nat) : List Tok → Option ((Bytes × Exp) × List Tok)
  | .id k :: .punct 0x3D :: ts =>
    if isModKw k then
      match ts with
      | .kTrue :: .punct 0x2C :: r => some ((k, .bool true), r)
      | .kFalse :: .punct 0x2C :: r => some ((k, .bool false), r)
      | _ => none
    else if k = sDisabled then
      match pExp fe ts with
      | some (.ref s i o, .punct 0x2C :: r) => some ((k, .ref s i o), r)
      | _ => none
    else none
  | _ => none

/-- `modifier_stm_list` up to the closing parenthesis -/
def pMods (fe : Nat) : Nat → List Tok → Option (List (Bytes × Exp) × List Tok)
  | 0, _ => none
  | f + 1, ts =>
    match ts with
    | .punct 0x29 :: r => some ([], .punct 0x29 :: r)
    | _ =>
      match pModStm fe ts with
      | some (kv, r) => (pMods fe f r).map fun (l, r') => (kv :: l, r')
      | none => none

/-- `(USING '(' modifier_stm_list ')')*`: each block replaces the bindings -/
def pUsing (fe : Nat) : Nat → List (Bytes × Exp) → List Tok → Option (List (Bytes × Exp) × List Tok)
  | 0, _, _ => none
  | f + 1, cur, .id u :: r =>
    if u = sUsing then
      match r with
      | .punct 0x28 :: r1 =>
        match pMods fe f r1 with
        | some (l, .punct 0x29 :: r2) => pUsing fe f l r2
        | _ => none
      | _ => none
    else some (cur, .id u :: r)
  | _ + 1, cur, ts => some (cur, ts)

/-- `call_stm` at the head of a token sequence; the remaining tokens -/
def pCall2 (ts : List Tok) : Option (Call2 × List Tok) :=
  match (pMapKw ts).2 with
  | .reserved c :: r0 =>
    if c = sCall then
      match pHead2 (ts.length + 1) false false false r0 with
      | some (l, p, v, d, i, r) =>
        match pBinds2 (pMapKw ts).1 (2 * ts.length + 1) (ts.length + 1) r with
        | some (bs, w, .punct 0x29 :: r') =>
          if (pMapKw ts).1 == bs.any (·.split) then
            match pUsing (2 * ts.length + 1) (ts.length + 1) [] r' with
            | some (mb, rest) => some (⟨d, i, bs, w, ⟨l, p, v, mb⟩⟩, rest)
            | none => none
          else none
        | _ => none
      | none => none
    else none
  | _ => none

/-- a file that holds one call statement and nothing else -/
def parseCall2 (src : Bytes) : Option Call2 :=
  (lexAll src).bind fun ts =>
    match pCall2 ts with
    | some (c, []) => some c
    | _ => none

/-- `return_stm` -/
def pReturn (ts : List Tok) : Option (Ret × List Tok) :=
  match ts with
  | .reserved k :: .punct 0x28 :: r =>
    if k = sReturn then
      match pBinds2 false (2 * ts.length + 1) (ts.length + 1) r with
      | some (bs, w, .punct 0x29 :: r') => some (⟨bs, w⟩, r')
      | _ => none
    else none
  | _ => none

/-- `pipeline_retain_list` up to the closing parenthesis -/
def pRefs (fe : Nat) : Nat → List Tok → Option (List Exp × List Tok)
  | 0, _ => none
  | f + 1, ts =>
    match ts with
    | .punct 0x29 :: r => some ([], .punct 0x29 :: r)
    | _ =>
      match pExp fe ts with
      | some (.ref s i o, .punct 0x2C :: r) => (pRefs fe f r).map fun (es, r') => (.ref s i o :: es, r')
      | _ => none

/-- `pipeline_retain` (possibly empty) -/
def pPRetain (ts : List Tok) : Option (Option (List Exp) × List Tok) :=
  match ts with
  | .id k :: r =>
    if k = sRetain then
      match r with
      | .punct 0x28 :: r1 =>
        match pRefs (2 * ts.length + 1) (ts.length + 1) r1 with
        | some (es, .punct 0x29 :: r2) => some (some es, r2)
        | _ => none
      | _ => none
    else some (none, ts)
  | _ => some (none, ts)

/-- `call_stm_list` (possibly empty): calls as long as the next token is `call` or `map` -/
def pCalls : Nat → List Tok → Option (List Call2 × List Tok)
  | 0, _ => none
  | f + 1, ts =>
    match ts with
    | .reserved k :: r =>
      if k = sCall || k = sMap then
        match pCall2 (.reserved k :: r) with
        | some (c, r') => (pCalls f r').map fun (cs, r'') => (c :: cs, r'')
        | none => none
      else some ([], .reserved k :: r)
    | _ => some ([], ts)

/-- what follows `'{'` in `pipeline`, up to and including `'}'` -/
def pBody (ts : List Tok) : Option (Body × List Tok) :=
  match pCalls (ts.length + 1) ts with
  | some (cs, r1) =>
    match pReturn r1 with
    | some (ret, r2) =>
      match pPRetain r2 with
      | some (rt, .punct 0x7D :: r3) => some (⟨cs, ret, rt⟩, r3)
      | _ => none
    | none => none
  | none => none

/-- the body text of a pipeline, to the end of the file -/
def parseBody (src : Bytes) : Option Body :=
  (lexAll src).bind fun ts =>
    match pBody ts with
    | some (b, []) => some b
    | _ => none

/-! ## what reading a printed statement gives back; the statements the claim is made for -/

/-- keyword modifiers become `= true` bindings (unless bound), the block is
sorted by id; binding values are normalised (`norm` is the identity on the
booleans and references a modifier or wildcard binding holds) -/
def normMods (m : Mods) : Mods := ⟨false, false, false, modList m⟩

def normCall2 (c : Call2) : Call2 :=
  ⟨c.decId, c.id, c.binds.map normBind, c.wildcard, normMods c.mods⟩

def normRet (r : Ret) : Ret := ⟨r.binds.map normBind, r.wildcard⟩

def normBody (b : Body) : Body := ⟨b.calls.map normCall2, normRet b.ret, b.retain⟩

def isBareSelf : Exp → Bool
  | .ref true [] [] => true
  | _ => false

def isRefE : Exp → Bool
  | .ref .. => true
  | _ => false

def isBoolE : Exp → Bool
  | .bool _ => true
  | _ => false

/-- `self`, or a well-formed reference -/
def wfWild (e : Exp) : Bool := isBareSelf e || (isRefE e && wf e)

/-- `local|preflight|volatile = bool_exp`, `disabled = ref_exp` -/
def wfMod (kv : Bytes × Exp) : Bool :=
  (isModKw kv.1 && isBoolE kv.2) || (kv.1 == sDisabled && isRefE kv.2 && wf kv.2)

def distinctIds : List (Bytes × Exp) → Bool
  | [] => true
  | kv :: r => !hasId kv.1 r && distinctIds r

def wfMods (m : Mods) : Bool := m.binds.all wfMod && distinctIds m.binds

def wfWildOpt : Option Exp → Bool
  | some e => wfWild e
  | none => true

def wfCall2 (c : Call2) : Bool :=
  isIdent c.decId && isIdent c.id && c.binds.all wfBind && wfWildOpt c.wildcard && wfMods c.mods

/-- `return` has no split bindings (`split` is an identifier there) -/
def wfRet (r : Ret) : Bool :=
  r.binds.all wfBind && r.binds.all (fun b => !b.split) && wfWildOpt r.wildcard

def wfPRetain (rs : List Exp) : Bool := rs.all fun e => isRefE e && wf e

def wfBody (b : Body) : Bool :=
  b.calls.all wfCall2 && wfRet b.ret &&
    (match b.retain with | some rs => wfPRetain rs | none => true)

end Martian.FormatCall2
