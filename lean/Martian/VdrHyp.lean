/-
The decidable hypotheses of the VDR theorems (`CfgOK`, `DiskWF`, `PathKinds`),
as executable checks: the driver evaluates them on every state it replays.
Core Lean only.
-/
import Martian.Vdr

namespace Martian.Vdr

def endsSlash (p : Path) : Bool := p.getLast? == some '/'

/-- a doubled separator somewhere in the path -/
def hasDbl : Path → Bool
  | [] => false
  | a :: r => (a == '/' && r.head? == some '/') || hasDbl r

/-- without its trailing separators -/
def stripN : Nat → Path → Path
  | 0, p => p
  | n + 1, p => if endsSlash p then stripN n p.dropLast else p

def stripSlashes (p : Path) : Path := stripN p.length p

/-- `CfgOK c s` -/
def cfgOKB (c : Cfg) (s : St) : Bool :=
  c.argFiles.all (fun kv => !(c.namesOf kv.1).isEmpty || kv.2.isEmpty) &&
  c.argFiles.all (fun kv => kv.2.all fun f =>
    !endsSlash f || (kv.2.contains (stripSlashes f) && !endsSlash (stripSlashes f))) &&
  s.disk.all (fun d => !endsSlash d.path && !hasDbl d.path) &&
  decide (c.initArgs = s.fileArgs) && decide (c.initPost = s.postNodes)

/-- `PathKinds disk` -/
def pathKindsB (disk : List DiskEnt) : Bool :=
  disk.all fun d => disk.all fun d' => d.path != d'.path || decide (d.kind = d'.kind)

/-- `Sep disk` -/
def sepB (disk : List DiskEnt) : Bool :=
  disk.all fun d => !isTmp d.kind || disk.all fun d' => isTmp d'.kind || !pathIsInside d.path d'.path

/-- `LinksTop disk` -/
def linksTopB (disk : List DiskEnt) : Bool :=
  disk.all fun d => d.alts.isEmpty || disk.all fun d' =>
    isTmp d'.kind || !pathIsInside d.path d'.path || decide (d' = d)

end Martian.Vdr
