/-
The decidable hypotheses of the VDR theorems (`CfgOK`, `DiskWF`, `PathKinds`),
as executable checks: the driver evaluates them on every state it replays.
Core Lean only.
-/
import Martian.Vdr

namespace Martian.Vdr

def endsSlash (p : Path) : Bool := p.getLast? == some '/'

/-- `CfgOK c s` -/
def cfgOKB (c : Cfg) (s : St) : Bool :=
  c.argFiles.all (fun kv => !(c.namesOf kv.1).isEmpty || kv.2.isEmpty) &&
  c.argFiles.all (fun kv => kv.2.all fun f => !endsSlash f) &&
  s.disk.all (fun d => !endsSlash d.path) &&
  decide (c.initArgs = s.fileArgs) && decide (c.initPost = s.postNodes)

/-- `PathKinds disk` -/
def pathKindsB (disk : List DiskEnt) : Bool :=
  disk.all fun d => disk.all fun d' => d.path != d'.path || decide (d.kind = d'.kind)

/-- `Sep disk` -/
def sepB (disk : List DiskEnt) : Bool :=
  disk.all fun d => !isTmp d.kind || disk.all fun d' => isTmp d'.kind || !pathIsInside d.path d'.path

/-- `LinksTop disk` -/
def linksTopB (disk : List DiskEnt) : Bool :=
  disk.all fun d => d.alts.isEmpty || disk.all fun d' =>
    isTmp d'.kind || !pathIsInside d.path d'.path || decide (d' = d)

end Martian.Vdr
