/-
C09 model, part 4: type names, parameter lists, `struct` and `filetype`
declarations — the printer of martian/syntax/format_callable.go
(`paramFormat`, `InParams.getWidths`, `OutParams.getWidths`,
`measureParamsWidths`, `InParams.format`, `OutParams.format`), format_types.go
(`StructType.format`, `StructMember.format`, `UserType.format`), types.go
(`TypeId.writeTo` / `String` / `strlen`), and the reader of the same fragment
(grammar.y: `type_id`, `type`, `nonmap_type`, `arr_list`, `id_list`,
`in_param_list`, `in_param`, `out_param_list`, `out_param`,
`struct_field_list`, `struct_field`, `help`, `outname`, `struct`,
`dec: FILETYPE id_list ';'`) on the tokens of `Martian.FormatExp`.

* `TypeId`: Go's `TypeId{Tname, ArrayDim, MapDim}`.  `Tname` is kept split at
  its dots (`json.gz` = `[json, gz]`; the Go AST holds the joined string, the
  harness splits it at `.`: an identifier never contains one).  `map<T[]>[]` is
  `⟨T, 1, 2⟩` (`MapDim` = 1 + inner dimensions).
* `Member` = `StructMember` (type, id, help, out name); `Param` = a `Member`
  with its mode (`out = false`: an `InParam`, whose `GetOutName()` is `""`;
  `out = true`: an `OutParam`).  An unnamed output (`out int,`) has the id
  `default` (`defaultOutName`).
* `fmtParam mw tw iw hw p` = `paramFormat(printer, p, mw, tw, iw, hw)` without
  comments, for ARBITRARY widths (a `for i := len(x); i < w` loop writes nothing
  when `len(x) ≥ w`: truncated subtraction).  `strings.Repeat(" ", tw - strlen)`
  panics for `tw < strlen`; the model writes nothing there (callers pass widths
  from `widths`/`maxWidths` over a list containing the parameter, where
  `typeLen ≤ tw`: `typeLen_le_widths`).
* `widths` = `getWidths` (ids of 35 bytes or more and help texts of 25 bytes or
  more do not count; the id of an unnamed output counts as `default`, 7 bytes,
  although nothing is printed for it), `wmax`/`maxWidths` =
  `measureParamsWidths`.
* `fmtStruct` = `StructType.format`, `fmtFiletype` = `UserType.format`; with
  nothing else in the file, the whole output of `FormatSrcBytes`.
* readers: recursive descent for the LALR(1) productions (after `out type_id`
  the next token decides: `,` / LITSTRING → unnamed output; an `id` token →
  `struct_field`).  `arr_list` is limited to 32767 dimensions as in the grammar
  action; the inner dimensions of a typed map to 32766 (with 32767 the Go
  action `MapDim: 1 + $4` overflows `int16`: the model rejects, the code reads
  a negative `MapDim`; 64 KB of `[]`, never generated).

Core Lean only.
-/
import Martian.FormatExp

namespace Martian.FormatDecl
open Martian.Lexer (Bytes unquoteBytes)
open Martian.Format (quoteString)
open Martian.FormatExp

/-! ## AST -/

structure TypeId where
  tname : List Bytes
  arrayDim : Nat
  mapDim : Nat
  deriving Repr, DecidableEq, Inhabited

/-- `StructMember` -/
structure Member where
  type : TypeId
  id : Bytes
  help : Bytes
  outName : Bytes
  deriving Repr, DecidableEq, Inhabited

/-- `InParam` (`out = false`) / `OutParam` (`out = true`) -/
structure Param extends Member where
  out : Bool
  deriving Repr, DecidableEq, Inhabited

/-- `StructType` -/
structure Struct where
  id : Bytes
  members : List Member
  deriving Repr, DecidableEq, Inhabited

/-- `UserType`: the components of its dotted `Id` -/
structure Filetype where
  id : List Bytes
  deriving Repr, DecidableEq, Inhabited

/-! ## words -/

def sIn : Bytes := [0x69, 0x6E]
def sOut : Bytes := [0x6F, 0x75, 0x74]
def sMap : Bytes := [0x6D, 0x61, 0x70]
def sInt : Bytes := [0x69, 0x6E, 0x74]
def sString : Bytes := [0x73, 0x74, 0x72, 0x69, 0x6E, 0x67]
def sPath : Bytes := [0x70, 0x61, 0x74, 0x68]
def sFloat : Bytes := [0x66, 0x6C, 0x6F, 0x61, 0x74]
def sBool : Bytes := [0x62, 0x6F, 0x6F, 0x6C]
def sStruct : Bytes := [0x73, 0x74, 0x72, 0x75, 0x63, 0x74]
def sFiletype : Bytes := [0x66, 0x69, 0x6C, 0x65, 0x74, 0x79, 0x70, 0x65]

/-- the keyword alternatives of `nonmap_type` -/
def isNonMapBuiltin (w : Bytes) : Bool :=
  w == sInt || w == sString || w == sPath || w == sFloat || w == sBool

/-- the keyword alternatives of `type` -/
def isBuiltin (w : Bytes) : Bool := isNonMapBuiltin w || w == sMap

/-! ## printer: types -/

/-- `a.b.c` -/
def joinDots : List Bytes → Bytes
  | [] => []
  | c :: r => c ++ dotted r

/-- `[]` n times -/
def brackets : Nat → Bytes
  | 0 => []
  | n + 1 => 0x5B :: 0x5D :: brackets n

/-- `TypeId.writeTo` = `TypeId.String` -/
def fmtType (t : TypeId) : Bytes :=
  if 0 < t.mapDim then
    sMap ++ [0x3C] ++ joinDots t.tname ++ brackets (t.mapDim - 1) ++ [0x3E] ++ brackets t.arrayDim
  else joinDots t.tname ++ brackets t.arrayDim

/-- `TypeId.strlen` -/
def typeLen (t : TypeId) : Nat :=
  (joinDots t.tname).length + 2 * t.arrayDim + (if 0 < t.mapDim then 5 + 2 * (t.mapDim - 1) else 0)

/-! ## printer: parameters -/

/-- `getMode()` -/
def mode (p : Param) : Bytes := if p.out then sOut else sIn

/-- `GetOutName()`: an `InParam` has none -/
def getOutName (p : Param) : Bytes := if p.out then p.outName else []

/-- the id `paramFormat` prints: nothing for `default` -/
def shownId (p : Param) : Bytes := if p.id = sDefault then [] else p.id

/-- `wmax`: componentwise maximum -/
def wmax (a b : Nat × Nat × Nat × Nat) : Nat × Nat × Nat × Nat :=
  (max a.1 b.1, max a.2.1 b.2.1, max a.2.2.1 b.2.2.1, max a.2.2.2 b.2.2.2)

/-- what one parameter contributes to `getWidths` -/
def widths1 (p : Param) : Nat × Nat × Nat × Nat :=
  ((mode p).length, typeLen p.type, (if p.id.length < 35 then p.id.length else 0),
    (if p.help.length < 25 then p.help.length else 0))

/-- `InParams.getWidths` / `OutParams.getWidths`: (mode, type, id, help) -/
def widths : List Param → Nat × Nat × Nat × Nat
  | [] => (0, 0, 0, 0)
  | p :: r => wmax (widths1 p) (widths r)

/-- `measureParamsWidths` of the `getWidths` results -/
def maxWidths : List (Nat × Nat × Nat × Nat) → Nat × Nat × Nat × Nat
  | [] => (0, 0, 0, 0)
  | w :: r => wmax w (maxWidths r)

/-- the help column of `paramFormat`: `if len(help) > 0 {…}` -/
def helpPart (tw iw : Nat) (p : Param) : Bytes :=
  if p.help = [] then []
  else
    (if shownId p = [] then spaces (tw - typeLen p.type) ++ [0x20] else []) ++
      spaces (iw - (shownId p).length) ++ [0x20, 0x20] ++ quoteString p.help

/-- the out-name column: `if len(outName) > 0 {…}`, with the `  ""` placeholder
when there is no help text -/
def outNamePart (iw hw : Nat) (p : Param) : Bytes :=
  if getOutName p = [] then []
  else
    (if p.help = [] then spaces (iw - (shownId p).length) ++ [0x20, 0x20, 0x22, 0x22] else []) ++
      spaces (hw - p.help.length) ++ [0x20, 0x20] ++ quoteString (getOutName p)

/-- `paramFormat(printer, p, mw, tw, iw, hw)` -/
def fmtParam (mw tw iw hw : Nat) (p : Param) : Bytes :=
  indent ++ mode p ++ spaces (mw - (mode p).length) ++ [0x20] ++ fmtType p.type ++
    (if shownId p = [] then [] else spaces (tw - typeLen p.type) ++ [0x20] ++ shownId p) ++
    helpPart tw iw p ++ outNamePart iw hw p ++ [0x2C, 0x0A]

/-- `InParams.format` / `OutParams.format` -/
def fmtParams (mw tw iw hw : Nat) : List Param → Bytes
  | [] => []
  | p :: r => fmtParam mw tw iw hw p ++ fmtParams mw tw iw hw r

/-! ## printer: struct and filetype declarations -/

/-- `StructMember.format` -/
def fmtMember (tw iw hw : Nat) (m : Member) : Bytes :=
  indent ++ fmtType m.type ++ spaces (tw - typeLen m.type) ++ [0x20] ++ m.id ++
    (if m.help = [] ∧ m.outName = [] then []
     else spaces (iw - m.id.length) ++ [0x20] ++ quoteString m.help) ++
    (if m.outName = [] then []
     else spaces (hw - m.help.length) ++ [0x20] ++ quoteString m.outName) ++ [0x2C, 0x0A]

def fmtMembers (tw iw hw : Nat) : List Member → Bytes
  | [] => []
  | m :: r => fmtMember tw iw hw m ++ fmtMembers tw iw hw r

/-- the column widths of `StructType.format`: plain maxima (type, id, help) -/
def structWidths : List Member → Nat × Nat × Nat
  | [] => (0, 0, 0)
  | m :: r =>
    (max (typeLen m.type) (structWidths r).1, max m.id.length (structWidths r).2.1,
      max m.help.length (structWidths r).2.2)

/-- `StructType.format` -/
def fmtStruct (s : Struct) : Bytes :=
  sStruct ++ [0x20] ++ s.id ++ [0x28, 0x0A] ++
    fmtMembers (structWidths s.members).1 (structWidths s.members).2.1 (structWidths s.members).2.2
      s.members ++ [0x29, 0x0A]

/-- `UserType.format` -/
def fmtFiletype (t : Filetype) : Bytes := sFiletype ++ [0x20] ++ joinDots t.id ++ [0x3B, 0x0A]

/-! ## reader -/

/-- `arr_list`: the number of `[` `]` pairs at the head (a `[` that is not
followed by `]` is left for the caller, which accepts no `[`) -/
def pArr : List Tok → Nat × List Tok
  | .punct a :: .punct b :: r =>
    if a == 0x5B && b == 0x5D then ((pArr r).1 + 1, (pArr r).2) else (0, .punct a :: .punct b :: r)
  | r => (0, r)

/-- `nonmap_type`: a builtin keyword or an `id_list` -/
def pBase (f : Nat) : List Tok → Option (List Bytes × List Tok)
  | .reserved w :: r => if isNonMapBuiltin w then some ([w], r) else none
  | .id x :: r => (pDots f r).map fun (xs, r') => (x :: xs, r')
  | _ => none

/-- `type arr_list` with the base name already read -/
def pPlain (n : List Bytes) (r : List Tok) : Option (TypeId × List Tok) :=
  if (pArr r).1 ≤ 32767 then some (⟨n, (pArr r).1, 0⟩, (pArr r).2) else none

/-- is the next token the punctuation `c`? -/
def headPunct (c : UInt8) : List Tok → Bool
  | .punct d :: _ => d == c
  | _ => false

/-- is the next token the reserved word `w`? -/
def headKw (w : Bytes) : List Tok → Bool
  | .reserved v :: _ => v == w
  | _ => false

/-- `nonmap_type arr_list '>' arr_list` (after `MAP '<'`) -/
def pMapArg (f : Nat) (r : List Tok) : Option (TypeId × List Tok) :=
  match pBase f r with
  | some (n, r1) =>
    if headPunct 0x3E (pArr r1).2 && decide ((pArr r1).1 ≤ 32766) &&
        decide ((pArr ((pArr r1).2.drop 1)).1 ≤ 32767) then
      some (⟨n, (pArr ((pArr r1).2.drop 1)).1, (pArr r1).1 + 1⟩, (pArr ((pArr r1).2.drop 1)).2)
    else none
  | none => none

/-- `type_id`.  LALR(1): after MAP a `<` is shifted, anything else reduces
`type: MAP`. -/
def pType (f : Nat) : List Tok → Option (TypeId × List Tok)
  | .reserved w :: r =>
    if w = sMap then (if headPunct 0x3C r then pMapArg f (r.drop 1) else pPlain [sMap] r)
    else if isNonMapBuiltin w then pPlain [w] r
    else none
  | .id x :: r =>
    match pDots f r with
    | some (xs, r1) => pPlain (x :: xs) r1
    | none => none
  | _ => none

/-- `',' | help ','` -/
def pInTail : List Tok → Option (Bytes × List Tok)
  | .punct c :: r => if c == 0x2C then some ([], r) else none
  | .str h :: .punct c :: r => if c == 0x2C then (unquoteBytes h).map fun h' => (h', r) else none
  | _ => none

/-- `',' | help ',' | help outname ','` -/
def pTail : List Tok → Option (Bytes × Bytes × List Tok)
  | .punct c :: r => if c == 0x2C then some ([], [], r) else none
  | .str h :: .punct c :: r =>
    if c == 0x2C then (unquoteBytes h).map fun h' => (h', [], r) else none
  | .str h :: .str o :: .punct c :: r =>
    if c == 0x2C then
      match unquoteBytes h, unquoteBytes o with
      | some h', some o' => some (h', o', r)
      | _, _ => none
    else none
  | _ => none

/-- `in_param` (the head token is IN) -/
def pInParam (f : Nat) : List Tok → Option (Param × List Tok)
  | .reserved w :: ts =>
    if w = sIn then
      match pType f ts with
      | some (t, .id x :: r) => (pInTail r).map fun (h, r') => (⟨⟨t, x, h, []⟩, false⟩, r')
      | _ => none
    else none
  | _ => none

/-- `struct_field` -/
def pMember (f : Nat) (ts : List Tok) : Option (Member × List Tok) :=
  match pType f ts with
  | some (t, .id x :: r) => (pTail r).map fun (h, o, r') => (⟨t, x, h, o⟩, r')
  | _ => none

/-- `out_param` (the head token is OUT).  After the type an `id` token starts
the rest of a `struct_field`; anything else must be the tail of an unnamed
output, whose id is `default`. -/
def pOutParam (f : Nat) : List Tok → Option (Param × List Tok)
  | .reserved w :: ts =>
    if w = sOut then
      match pType f ts with
      | some (t, .id x :: r) => (pTail r).map fun (h, o, r') => (⟨⟨t, x, h, o⟩, true⟩, r')
      | some (t, r) => (pTail r).map fun (h, o, r') => (⟨⟨t, sDefault, h, o⟩, true⟩, r')
      | none => none
    else none
  | _ => none

/-- `in_param_list`: as many `in_param`s as there are IN tokens -/
def pInParams : Nat → List Tok → Option (List Param × List Tok)
  | 0, _ => none
  | f + 1, ts =>
    if headKw sIn ts then
      match pInParam f ts with
      | some (p, r) => (pInParams f r).map fun (ps, r') => (p :: ps, r')
      | none => none
    else some ([], ts)

/-- `out_param_list` -/
def pOutParams : Nat → List Tok → Option (List Param × List Tok)
  | 0, _ => none
  | f + 1, ts =>
    if headKw sOut ts then
      match pOutParam f ts with
      | some (p, r) => (pOutParams f r).map fun (ps, r') => (p :: ps, r')
      | none => none
    else some ([], ts)

/-- `struct_field_list`: one or more fields, up to the closing parenthesis -/
def pMembers : Nat → List Tok → Option (List Member × List Tok)
  | 0, _ => none
  | f + 1, ts =>
    match pMember f ts with
    | some (m, r) =>
      if headPunct 0x29 r then some ([m], r)
      else (pMembers f r).map fun (ms, r') => (m :: ms, r')
    | none => none

/-- `struct` on a token sequence (STRUCT lexes as an `id` token: the grammar's
`id` accepts it) -/
def parseStructToks (ts : List Tok) : Option Struct :=
  match ts with
  | .id k :: .id x :: .punct c :: r =>
    if k = sStruct && c == 0x28 then
      match pMembers (ts.length + 1) r with
      | some (ms, [.punct d]) => if d == 0x29 then some ⟨x, ms⟩ else none
      | _ => none
    else none
  | _ => none

/-- a file that consists of one `struct` declaration -/
def parseStruct (src : Bytes) : Option Struct := (lexAll src).bind parseStructToks

/-- `FILETYPE id_list ';'` on a token sequence -/
def parseFiletypeToks (ts : List Tok) : Option Filetype :=
  match ts with
  | .id k :: .id x :: r =>
    if k = sFiletype then
      match pDots (ts.length + 1) r with
      | some (xs, [.punct c]) => if c == 0x3B then some ⟨x :: xs⟩ else none
      | _ => none
    else none
  | _ => none

/-- a file that consists of one `filetype` declaration -/
def parseFiletype (src : Bytes) : Option Filetype := (lexAll src).bind parseFiletypeToks

/-- a bare parameter block `in … out …` (not a file of the language: what
stands between `(` and `src` in a stage, between `(` and `)` in a pipeline) -/
def parseParamsToks (ts : List Tok) : Option (List Param) :=
  match pInParams (ts.length + 1) ts with
  | some (ins, r) =>
    match pOutParams (ts.length + 1) r with
    | some (outs, []) => some (ins ++ outs)
    | _ => none
  | none => none

def parseParams (src : Bytes) : Option (List Param) := (lexAll src).bind parseParamsToks

/-! ## the values the parser can produce (and the printers are claimed for) -/

/-- a base type name is a builtin keyword (`map` only without type argument) or
a dotted list of identifiers; the dimensions fit `int16` -/
def wfType (t : TypeId) : Bool :=
  (match t.tname with
   | [] => false
   | [w] => (isNonMapBuiltin w || (w == sMap && t.mapDim == 0)) || isIdent w
   | c :: r => (c :: r).all isIdent) &&
  decide (t.arrayDim ≤ 32767) && decide (t.mapDim ≤ 32767)

/-- `struct_field`: the id is an identifier, help and out name are what
`unquote` returned (valid UTF-8) -/
def wfMember (m : Member) : Bool :=
  wfType m.type && isIdent m.id && Martian.ShellQuote.validUtf8 m.help &&
    Martian.ShellQuote.validUtf8 m.outName

/-- `in_param` / `out_param`: the id is an identifier or, for an output only,
`default` (the unnamed output); an input has no out name -/
def wfParam (p : Param) : Bool :=
  wfType p.type && (isIdent p.id || (p.out && p.id == sDefault)) &&
    Martian.ShellQuote.validUtf8 p.help && Martian.ShellQuote.validUtf8 p.outName &&
    (p.out || p.outName == [])

/-- `struct`: at least one member (`struct_field_list` is not empty) -/
def wfStruct (s : Struct) : Bool := isIdent s.id && !s.members.isEmpty && s.members.all wfMember

def wfFiletype (t : Filetype) : Bool := !t.id.isEmpty && t.id.all isIdent

end Martian.FormatDecl
