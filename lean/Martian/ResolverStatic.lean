/-
C01 — the TWO-PHASE RESOLVER, the way the code does it.

STATIC phase (martian/syntax: `MakeCallGraph` → `CallGraphPipeline.resolve` /
`CallGraphStage.resolve` → `resolveInputs` → `BindStms.resolve` → `resolveExp`
= `Exp.resolveRefs` followed by `Exp.filter`): every binding expression of every
call is resolved through the sub-pipeline boundaries until only literals and
references to STAGE nodes (by fully qualified id) remain; `self.x.p` takes the
enclosing pipeline's resolved input `x` and pushes the projection `p` inside it
(`BindingPath`), `CALL.o.p` takes the resolved outputs of the sibling call (for a
stage: a reference to the stage node; for a pipeline: the struct of its resolved
return bindings) and projects; struct literals are narrowed statically to the
parameter type (`MapExp.filter`), references are left for the run-time phase.
The result is, per stage node, the map parameter ↦ (resolved expression, type)
(`CallGraphStage.Inputs`, a `ResolvedBindingMap`) and per pipeline node the
resolved outputs (`Outputs`).

RUN-TIME phase (martian/core/resolve.go `TopNode.resolve(exp, type, fork)`):
type-directed evaluation of a resolved expression given the recorded outs of
the producers: a reference reads the `_outs` of the matched fork of the node and
applies `LazyArgumentMap.Path(outputId, stageType, type)` (projection, then
`FilterJson` to the wanted type), an array literal evaluates its elements at the
element type, a map literal at a typed-map type its values at the value type,
at a struct type exactly the DECLARED members at their types (`resolveMap`), a
`DisabledExp` evaluates its control at `bool` and yields null or the value,
`split` / `merge` select / collect over the forks of a mapped call.  A map / struct
literal at a type that is neither a typed map nor a struct (an untyped `map`
parameter) is evaluated entry by entry as it stands: in the code such an
expression is reference-free (the compiler rejects references inside untyped
maps) and `resolve` returns it unchanged (`!binding.HasRef() && !binding.HasSplit()`).

This file: the static phase for call graphs without `disabled` modifier whose map
calls are calls of STAGES over collections of statically known size (array /
typed-map literals after resolution; plain calls: `mapped`/`Forks`/`split` are
empty and `Disable` is nil, so `resolveInputs` is `Bindings.resolve` and nothing
else; such a map call: split bindings become `split` nodes over the resolved
literal, the node forks over the call, its outputs are the unrolled merge — an
array / typed map of the node's reference read in each fork), the run-time
phase for every `RExp` node.  Not covered by the static phase: mapped
pipelines, split sources of run-time size (`merge` nodes stay), nested map calls.  The refinement theorem is in Proofs/ResolverStatic*.lean.
-/
import Martian.Dataflow
import Martian.Resolver
import Martian.ResolverForks

namespace Martian.ResolverStatic
open Martian.Dataflow Martian.Resolver Martian.ResolverForks

/-- `syntax.ResolvedBinding` -/
structure RB where
  exp : RExp
  ty : Ty
deriving Inhabited

abbrev RBMap := List (String × RB)

/-! ## static phase -/

/-- `Exp.BindingPath(path, nil, lookup)`: one `bpR` per path component (array and
map literals project element-wise, a struct literal selects the member and goes
on with the remainder, a reference extends its output id) -/
def bpPath : List String → RExp → RExp
  | [], e => e
  | f :: r, e => bpPath r (bpR f e)

mutual
/-- `Exp.resolveRefs(self, siblings, lookup)` -/
def resolveRefs (self sib : RBMap) : Exp → RExp
  | .lit j => .lit j
  | .arr xs => .arr (resolveRefsList self sib xs)
  | .map kvs => .map (resolveRefsFields self sib kvs)
  | .struct kvs => .struct (resolveRefsFields self sib kvs)
  | .self p path =>
    match self.lookup p with
    | some rb => bpPath path rb.exp
    | none => .lit .null
  | .ref c path =>
    match sib.lookup c with
    | some rb => bpPath path rb.exp
    | none => .lit .null
def resolveRefsList (self sib : RBMap) : List Exp → List RExp
  | [] => []
  | e :: es => resolveRefs self sib e :: resolveRefsList self sib es
def resolveRefsFields (self sib : RBMap) : List (String × Exp) → List (String × RExp)
  | [] => []
  | (k, e) :: es => (k, resolveRefs self sib e) :: resolveRefsFields self sib es
end

def memberTy (ps : List Param) (k : String) : Ty :=
  ((ps.find? (fun p => p.name == k)).map (·.ty)).getD badTy

def isStructBase (st : StructTable) (t : Ty) : Bool := (st.lookup t.base).isSome

mutual
/-- `Exp.filter(t, lookup)`: static struct narrowing of LITERALS.  Array / typed-map
literals are filtered element-wise when the base type is a struct, a map / struct
literal bound at a struct type keeps exactly the declared members (each
filtered at its member type); references, scalars and null are returned as they are
(`RefExp.filter` — their narrowing happens at run time, by `FilterJson`). -/
def filterR (st : StructTable) : Ty → RExp → RExp
  | t, .arr xs =>
    if isStructBase st t && t.arrDim != 0 then .arr (filterRList st { t with arrDim := t.arrDim - 1 } xs)
    else .arr xs
  | t, .map kvs =>
    if t.arrDim == 0 && t.mapDim == 0 then
      match st.lookup t.base with
      | some ps => .struct (ps.filterMap fun p => ((filterRMembers st ps kvs).lookup p.name).map fun e => (p.name, e))
      | none => .map kvs
    else if isStructBase st t && t.arrDim == 0 then .map (filterRFields st ⟨t.base, 0, t.mapDim - 1⟩ kvs)
    else .map kvs
  | t, .struct kvs =>
    if t.arrDim == 0 && t.mapDim == 0 then
      match st.lookup t.base with
      | some ps => .struct (ps.filterMap fun p => ((filterRMembers st ps kvs).lookup p.name).map fun e => (p.name, e))
      | none => .struct kvs
    else if isStructBase st t && t.arrDim == 0 then .map (filterRFields st ⟨t.base, 0, t.mapDim - 1⟩ kvs)
    else .struct kvs
  | t, .disabled d v => .disabled d (filterR st t v)
  | _, e => e
def filterRList (st : StructTable) : Ty → List RExp → List RExp
  | _, [] => []
  | t, e :: es => filterR st t e :: filterRList st t es
def filterRFields (st : StructTable) : Ty → List (String × RExp) → List (String × RExp)
  | _, [] => []
  | t, (k, e) :: es => (k, filterR st t e) :: filterRFields st t es
/-- every entry filtered at the type of the member it is named after -/
def filterRMembers (st : StructTable) : List Param → List (String × RExp) → List (String × RExp)
  | _, [] => []
  | ps, (k, e) :: es => (k, filterR st (memberTy ps k) e) :: filterRMembers st ps es
end

/-- `resolveExp(binding.Exp, binding.Tname, self, siblings)` for every parameter of the
callee (the compiler demands exactly one binding per parameter:
`ArgumentNotSuppliedError`) -/
def resolveBinds (st : StructTable) (self sib : RBMap) (ins : List Param) (c : Call) : RBMap :=
  ins.map fun p =>
    (p.name,
     match c.binds.find? (fun b => b.param == p.name) with
     | some b => ⟨filterR st p.ty (resolveRefs self sib b.exp), p.ty⟩
     | none => ⟨.lit .null, p.ty⟩)

/-- a stage node of the call graph with its resolved inputs -/
structure SNode where
  path : List String
  callee : String
  inputs : RBMap
  /-- the mapped calls this node forks over (outermost first) with their index sets
  (`CallGraphStage.Forks` + the statically known size of each) -/
  forks : List (String × List Idx) := []
  /-- the run-time controls that disable the node (`CallGraphStage.Disable`): its own and those of
  the pipelines around it -/
  disable : List RExp := []
deriving Inhabited

/-! ### map calls over statically sized collections -/

/-- the type of the collection a split parameter of type `t` is an element of -/
def liftSplitTy (isMap : Bool) (t : Ty) : Ty :=
  if isMap then ⟨t.base, t.arrDim + 1, 0⟩ else { t with arrDim := t.arrDim + 1 }

/-- index set of a split source of statically known size (an array / typed-map literal after
resolution): `KnownLength` / `ArrayLength` / `Keys` of the `MapCallSource` -/
def staticIndices : RExp → Option (Bool × List Idx)
  | .arr xs => some (false, (List.range xs.length).map .i)
  | .map kvs => some (true, kvs.map fun kv => .k kv.1)
  | _ => none

def isMapLit : RExp → Bool
  | .map _ => true
  | _ => false

/-- `Bindings.resolve` of a MAP call: a `split` binding resolves to `SplitExp{Call, Value}` with the
value resolved and filtered at the collection type (`SplitExp.resolveRefs`, `SplitExp.filter`) -/
def resolveBindsM (st : StructTable) (self sib : RBMap) (ins : List Param) (c : Call) : RBMap :=
  ins.map fun p =>
    (p.name,
     match c.binds.find? (fun b => b.param == p.name) with
     | some b =>
       if b.split then
         ⟨.split c.id (isMapLit (resolveRefs self sib b.exp))
            (filterR st (liftSplitTy (isMapLit (resolveRefs self sib b.exp)) p.ty) (resolveRefs self sib b.exp)), p.ty⟩
       else ⟨filterR st p.ty (resolveRefs self sib b.exp), p.ty⟩
     | none => ⟨.lit .null, p.ty⟩)

/-- the first parameter of the callee that the call binds with `split` -/
def splitParam (ins : List Param) (c : Call) : Option Param :=
  ins.find? fun p =>
    match c.binds.find? (fun b => b.param == p.name) with
    | some b => b.split
    | none => false

/-- the index set of the call: that of its first split input, if statically known
(`unifyMapSources`: all sources must agree) -/
def callIndicesR (st : StructTable) (self sib : RBMap) (ins : List Param) (c : Call) :
    Option (Bool × List Idx) :=
  match splitParam ins c with
  | none => none
  | some p =>
    match c.binds.find? (fun b => b.param == p.name) with
    | some b =>
      staticIndices (filterR st (liftSplitTy (isMapLit (resolveRefs self sib b.exp)) p.ty)
        (resolveRefs self sib b.exp))
    | none => none

/-- the resolved outputs of a call mapped over a collection of known size: the merge over the call
unrolled (`MergeExp.BindingPath` with `KnownLength`): one copy of the callee's outputs per
fork, each read in that fork -/
def unrolledOutputs (c : Call) (ixs : Bool × List Idx) (out : RExp) : RB :=
  if ixs.1 then ⟨.map (ixs.2.map fun ix => (ix.keyText, .fork c.id ix out)), ⟨c.callee, 1, 0⟩⟩
  else ⟨.arr (ixs.2.map fun ix => .fork c.id ix out), ⟨c.callee, 0, 1⟩⟩

/-- the children of a pipeline node, in call order: `childMap` grows by each
child's resolved outputs (`CallGraphPipeline.resolve`) -/
def staticCalls (st : StructTable) (insOf : String → List Param)
    (node : String → List String → RBMap → RB × List SNode) (path : List String) (self : RBMap) :
    List Call → RBMap → List SNode → RBMap × List SNode
  | [], sib, acc => (sib, acc)
  | c :: cs, sib, acc =>
    if c.mapped then
      let cins := resolveBindsM st self sib (insOf c.callee) c
      let r := node c.callee (path ++ [c.id]) cins
      let ixs := (callIndicesR st self sib (insOf c.callee) c).getD (false, [])
      staticCalls st insOf node path self cs (sib ++ [(c.id, unrolledOutputs c ixs r.1.exp)])
        (acc ++ r.2.map fun n => { n with forks := (c.id, ixs.2) :: n.forks })
    else
      let r := node c.callee (path ++ [c.id]) (resolveBinds st self sib (insOf c.callee) c)
      staticCalls st insOf node path self cs (sib ++ [(c.id, r.1)]) (acc ++ r.2)

/-- `makeCallGraphNodes` + `resolve` of one node: its resolved outputs and the stage
nodes below it.  A stage's outputs are the reference to the node itself
(`RefExp{Id: fqid}`), a pipeline's the struct of its resolved return bindings
(`makeOutExp`).  `nm` = `makeFqid`. -/
def staticCallable (P : Program) (nm : List String → String) :
    Nat → String → List String → RBMap → RB × List SNode
  | 0, _, _, _ => (⟨.lit .null, badTy⟩, [])
  | fuel+1, callee, path, ins =>
    match P.callables.lookup callee with
    | none => (⟨.lit .null, badTy⟩, [])
    | some (.stage _ _) => (⟨.ref (nm path) ⟨callee, 0, 0⟩ [], ⟨callee, 0, 0⟩⟩, [⟨path, callee, ins, [], []⟩])
    | some (.pipeline _ outs calls ret) =>
      let r := staticCalls P.table P.insOf (staticCallable P nm fuel) path ins calls [] []
      (⟨.struct (outs.map fun p =>
          (p.name,
           match ret.lookup p.name with
           | some e => filterR P.table p.ty (resolveRefs ins r.1 e)
           | none => .lit .null)), ⟨callee, 0, 0⟩⟩,
       r.2)

/-! ### the shapes of map calls that the static phase above covers -/

/-- every split input of the map call has the statically known index set `ixs` -/
def splitsStaticB (st : StructTable) (self sib : RBMap) (ins : List Param) (c : Call)
    (ixs : Bool × List Idx) : Bool :=
  ins.all fun p =>
    match c.binds.find? (fun b => b.param == p.name) with
    | some b =>
      !b.split ||
        staticIndices (filterR st (liftSplitTy (isMapLit (resolveRefs self sib b.exp)) p.ty)
          (resolveRefs self sib b.exp)) == some ixs
    | none => true

/-- the map call's size is known after resolution, is not zero, and all its split inputs agree -/
def mappedShapeOk (st : StructTable) (self sib : RBMap) (ins : List Param) (c : Call) : Bool :=
  match callIndicesR st self sib ins c with
  | some ixs => !ixs.2.isEmpty && splitsStaticB st self sib ins c ixs
  | none => false

/-- `mappedShapeOk` for every map call instance of the call graph (same traversal as `staticCalls`) -/
def staticCallsOk (st : StructTable) (insOf : String → List Param)
    (node : String → List String → RBMap → RB × List SNode)
    (ok : String → List String → RBMap → Bool) (path : List String) (self : RBMap) :
    List Call → RBMap → Bool
  | [], _ => true
  | c :: cs, sib =>
    if c.mapped then
      let cins := resolveBindsM st self sib (insOf c.callee) c
      let r := node c.callee (path ++ [c.id]) cins
      let ixs := (callIndicesR st self sib (insOf c.callee) c).getD (false, [])
      mappedShapeOk st self sib (insOf c.callee) c && ok c.callee (path ++ [c.id]) cins &&
        staticCallsOk st insOf node ok path self cs (sib ++ [(c.id, unrolledOutputs c ixs r.1.exp)])
    else
      let cins := resolveBinds st self sib (insOf c.callee) c
      let r := node c.callee (path ++ [c.id]) cins
      ok c.callee (path ++ [c.id]) cins && staticCallsOk st insOf node ok path self cs (sib ++ [(c.id, r.1)])

def staticCallableOk (P : Program) (nm : List String → String) :
    Nat → String → List String → RBMap → Bool
  | 0, _, _, _ => true
  | fuel+1, callee, path, ins =>
    match P.callables.lookup callee with
    | some (.pipeline _ _ calls _) =>
      staticCallsOk P.table P.insOf (staticCallable P nm fuel) (staticCallableOk P nm fuel) path ins calls []
    | _ => true

/-- resolved inputs of the top-level call (`Bindings.resolve(nil, nil)`) -/
def topInputs (P : Program) : RBMap :=
  resolveBinds P.table [] [] (P.insOf P.top.callee) P.top

/-- THE STATIC PHASE: resolved outputs of the top node, every stage node with its resolved inputs -/
def staticProgram (P : Program) (nm : List String → String) : RB × List SNode :=
  staticCallable P nm P.fuel P.top.callee [P.top.id] (topInputs P)

/-- every map call instance of the program has a statically known, non-zero size on which its split
inputs agree (what `C01.static` checks before it compares: otherwise `merge` nodes stay) -/
def staticProgramOk (P : Program) (nm : List String → String) : Bool :=
  staticCallableOk P nm P.fuel P.top.callee [P.top.id] (topInputs P)

/-! ## run-time phase -/

mutual
/-- `TopNode.resolve(exp, t, fork)` -/
def evalRT (st : StructTable) (nf : Nat) (ρ : Store) : ForkAssign → Ty → RExp → J
  | _, _, .lit j => j
  | f, t, .arr xs => .arr (evalRTList st nf ρ f { t with arrDim := t.arrDim - 1 } xs)
  | f, t, .map kvs =>
    if t.arrDim == 0 && t.mapDim != 0 then .obj (evalRTFields st nf ρ f ⟨t.base, 0, t.mapDim - 1⟩ kvs)
    else
      match st.lookup t.base with
      | some ps => .obj (ps.map fun p => (p.name, ((evalRTMembers st nf ρ f ps kvs).lookup p.name).getD .null))
      | none => .obj (evalRTFields st nf ρ f ⟨t.base, 0, 0⟩ kvs)
  | f, t, .struct kvs =>
    if t.arrDim == 0 && t.mapDim != 0 then .obj (evalRTFields st nf ρ f ⟨t.base, 0, t.mapDim - 1⟩ kvs)
    else
      match st.lookup t.base with
      | some ps => .obj (ps.map fun p => (p.name, ((evalRTMembers st nf ρ f ps kvs).lookup p.name).getD .null))
      | none => .obj (evalRTFields st nf ρ f ⟨t.base, 0, 0⟩ kvs)
  | f, t, .ref node sty path => narrow st nf t (projPath st sty path (ρ.outs node f))
  | f, t, .split c false e => elemArr (evalRT st nf ρ f { t with arrDim := t.arrDim + 1 } e) ((f.lookup c).getD .none)
  | f, t, .split c true e => elemMap (evalRT st nf ρ f ⟨t.base, t.arrDim + 1, 0⟩ e) ((f.lookup c).getD .none)
  | f, t, .merge c false e =>
    .arr ((ρ.idx c f).map fun ix => evalRT st nf ρ (fset f c ix) { t with arrDim := t.arrDim - 1 } e)
  | f, t, .merge c true e =>
    .obj ((ρ.idx c f).map fun ix => (ix.keyText, evalRT st nf ρ (fset f c ix) ⟨t.base, 0, t.mapDim - 1⟩ e))
  | f, t, .disabled d v =>
    if isTrue (evalRT st nf ρ f ⟨"bool", 0, 0⟩ d) then .null else evalRT st nf ρ f t v
  | f, t, .fork c ix e => evalRT st nf ρ (fset f c ix) t e
def evalRTList (st : StructTable) (nf : Nat) (ρ : Store) : ForkAssign → Ty → List RExp → List J
  | _, _, [] => []
  | f, t, e :: es => evalRT st nf ρ f t e :: evalRTList st nf ρ f t es
def evalRTFields (st : StructTable) (nf : Nat) (ρ : Store) :
    ForkAssign → Ty → List (String × RExp) → List (String × J)
  | _, _, [] => []
  | f, t, (k, e) :: es => (k, evalRT st nf ρ f t e) :: evalRTFields st nf ρ f t es
/-- every entry evaluated at the type of the member it is named after -/
def evalRTMembers (st : StructTable) (nf : Nat) (ρ : Store) :
    ForkAssign → List Param → List (String × RExp) → List (String × J)
  | _, _, [] => []
  | f, ps, (k, e) :: es => (k, evalRT st nf ρ f (memberTy ps k) e) :: evalRTMembers st nf ρ f ps es
end

/-- `Node.resolveInputs(fork)`: the argument record of one fork of a stage node -/
def runtimeArgs (st : StructTable) (nf : Nat) (ρ : Store) (f : ForkAssign) (n : SNode) : J :=
  .obj (n.inputs.map fun kv => (kv.1, evalRT st nf ρ f kv.2.ty kv.2.exp))

/-- the store a run leaves behind: the recorded outs of stage instance `(path, forks)`
are found under the node's fully qualified id -/
def StoreOf (nm : List String → String) (O : Oracle) (ρ : Store) : Prop :=
  ∀ path forks, ρ.outs (nm path) forks = (O ⟨path, forks⟩).getD .null

/-- the stage instance a (plain) stage node is, with the argument record the run-time phase computes -/
def toInst (st : StructTable) (nf : Nat) (ρ : Store) (n : SNode) : Inst :=
  ⟨⟨n.path, []⟩, runtimeArgs st nf ρ [] n, false, false⟩

/-- BOTH PHASES: (top-level outputs, argument record of every stage node) for a plain program -/
def twoPhase (P : Program) (nm : List String → String) (ρ : Store) : J × List Inst :=
  ((evalRT P.table P.nfuel ρ [] ⟨P.top.callee, 0, 0⟩ (staticProgram P nm).1.exp),
   (staticProgram P nm).2.map (toInst P.table P.nfuel ρ))

/-- the stage instances a node stands for (one per fork) with the argument records the
run-time phase computes; this model: at most one fork dimension per node -/
def instsOf (st : StructTable) (nf : Nat) (ρ : Store) (n : SNode) : List Inst :=
  match n.forks with
  | [] => [toInst st nf ρ n]
  | (c, ixs) :: _ => ixs.map fun ix => ⟨⟨n.path, [(c, ix)]⟩, runtimeArgs st nf ρ [(c, ix)] n, false, false⟩

/-- BOTH PHASES with map calls of stages over statically sized collections -/
def twoPhaseM (P : Program) (nm : List String → String) (ρ : Store) : J × List Inst :=
  ((evalRT P.table P.nfuel ρ [] ⟨P.top.callee, 0, 0⟩ (staticProgram P nm).1.exp),
   (staticProgram P nm).2.flatMap (instsOf P.table P.nfuel ρ))

/-- the store a run leaves behind, from the recorded outs `O` and the nodes of the call graph:
the outs of `node`, read in fork assignment `f`, are those of the fork of the node that `f`
selects — only the node's own fork dimensions matter (`Node.matchFork`) -/
def storeOfNodes (nm : List String → String) (nodes : List SNode) (O : Oracle) : Store :=
  { outs := fun node f =>
      match nodes.find? (fun n => nm n.path == node) with
      | some n => (O ⟨n.path, n.forks.map fun d => (d.1, (f.lookup d.1).getD .none)⟩).getD .null
      | none => .null
    idx := fun _ _ => [] }

/-! ## the fragment -/

/-- no map call and no `disabled` modifier anywhere -/
def Call.plain (c : Call) : Bool := !c.mapped && c.disabled.isNone && c.binds.all fun b => !b.split

def Callable.plain : Callable → Bool
  | .stage _ _ => true
  | .pipeline _ _ calls _ => calls.all Call.plain

def Program.plain (P : Program) : Bool :=
  Call.plain P.top && P.callables.all fun c => Callable.plain c.2

/-- no `disabled`; every map call is a call of a stage; the top call is plain -/
def Program.mapsOfStages (P : Program) : Bool :=
  Call.plain P.top && P.callables.all fun c =>
    match c.2 with
    | .stage _ _ => true
    | .pipeline _ _ calls _ => calls.all fun c =>
        c.disabled.isNone &&
        (Call.plain c ||
          (c.mapped && match P.callables.lookup c.callee with
            | some (.stage _ _) => true
            | _ => false))

end Martian.ResolverStatic
