/-
C15, lock protocol as a labelled transition system over an unbounded set of
actors (mrp processes), at the granularity of martian/core/pipestance.go:

  func (self *Pipestance) Lock() error {
      self.metadata.loadCache()
      if f, err := os.OpenFile(<_lock>, O_WRONLY|O_CREATE|O_EXCL, 0644); err == nil {   -- acquire p
          f.Close()                                                                     --   (atomic
      } else if os.IsExist(err) {                                                       --    test-and-set
          return &PipestanceLockedError{…}                                              --    by the OS)
      } else { log; return err }                                                        -- acquireFail p: ANY other error (EPERM, ENOSPC,
      util.RegisterSignalHandler(self)                                                  -- register p      EROFS, EIO, ENOENT …) is returned.
                                                                                        --   Before the repair: `else { log }` and Lock()
                                                                                        --   went on = acquireErr p.  Which of the two the
                                                                                        --   code does: fact `Gen.c15LockCreateErrorIgnored`
      self.metadata.WriteTime(Lock)
      return nil
  }
  Unlock():       metadata.remove(Lock); UnregisterSignalHandler                        -- unlock p
  HandleSignal(): metadata.remove(Lock)   (for every registered object, when the        -- signal p
                  process dies through a handled signal / DieIf)
  SIGKILL / crash: nothing runs, the file stays                                         -- kill p
  "delete the _lock file in … and start Martian again" (operator)                       -- rmLock

  Runtime.InvokePipeline (a START): directory must be empty; instantiatePipeline → Lock();      -- start p
      on an instantiation error the clean-up — since the repair of the "failed start deletes
      the running pipestance" defects `os.RemoveAll(pipestancePath)` only when this call took
      the lock, else `os.Remove` of the folder if it is still empty (regenerated fact
      `Gen.c15RefusedStartRemovesDir`).  A start can fail BEFORE `Lock()` too (its source     -- startFail p
      does not parse / compile, call graph error, …).

The exclusive create is the regenerated fact `Gen.c15LockExclusive`.  There is no
heartbeat and no automatic stale-lock takeover in the code: a lock left by a
killed process — or by one that was signalled between its `acquire` and its
`register` — blocks every attach until an operator removes it.

Core Lean only.
-/
namespace Martian.LockLTS

structure St where
  /-- `_lock` exists -/
  lockFile : Bool
  /-- created the file and are alive: the processes that own the pipestance -/
  holders : List Nat
  /-- have this pipestance registered with util.RegisterSignalHandler -/
  registered : List Nat
  deriving DecidableEq, Repr

inductive Act
  | acquire (p : Nat)
  | register (p : Nat)
  | unlock (p : Nat)
  | signal (p : Nat)
  | kill (p : Nat)
  | rmLock
  /-- The code BEFORE the repair 89932cb (`Gen.c15LockCreateErrorIgnored = true`):
  `Lock()` when the create of `_lock` fails with an error other than "exists": the
  error is logged, the signal handler is registered and `Lock()` returns nil although
  no file was created.  This describes an error that PERSISTS (EPERM on an immutable
  directory, EROFS — what the harness injects): `metadata.WriteTime(Lock)` that follows
  fails too and no file appears.  After a TRANSIENT error (EINTR, a momentary ENOSPC /
  EIO) that second, NON-exclusive write would create `_lock` after all — possibly over
  another process's; that outcome is not modelled (`lockFile` stays as it was here).
  (The callers then fail on the first operation that needs the lock — "Pipestance is in
  read only mode" — and `Unlock()`; that sequel is an `unlock`-like step of its own, not
  part of this action.) -/
  | acquireErr (p : Nat)
  /-- `Lock()` when the create of `_lock` fails with an error other than "exists" and the
  error is RETURNED (the code since the repair): nothing is registered, nothing is written -/
  | acquireFail (p : Nat)
  /-- `Runtime.InvokePipeline` by a second mrp that saw the directory still empty: `Lock()`,
  and on refusal the clean-up of `InvokePipeline` -/
  | start (p : Nat)
  /-- `Runtime.InvokePipeline` by a second mrp that saw the directory still empty and fails
  before it reaches `Lock()` (parse / compile / call-graph error of ITS source) -/
  | startFail (p : Nat)
  deriving DecidableEq, Repr

def drop (p : Nat) (l : List Nat) : List Nat := l.filter (· != p)

/-- one transition; the Bool is `Lock()`'s verdict for `acquire` (false = PipestanceLockedError).
`regFirst` = the regenerated fact "RegisterSignalHandler is called before the lock is owned";
`startRm` = the regenerated fact "a start refused with PipestanceLockedError removes the
pipestance directory" (and with it the owner's `_lock`). -/
def step (regFirst startRm : Bool) (s : St) : Act → St × Bool
  | .acquire p =>
      if s.lockFile then
        ({ s with registered := if regFirst then p :: s.registered else s.registered }, false)
      else ({ s with lockFile := true, holders := p :: s.holders }, true)
  | .register p => ({ s with registered := p :: s.registered }, true)
  | .unlock p =>
      ({ lockFile := false, holders := drop p s.holders, registered := drop p s.registered }, true)
  | .signal p =>
      ({ lockFile := if s.registered.contains p then false else s.lockFile,
         holders := drop p s.holders, registered := drop p s.registered }, true)
  | .kill p =>
      ({ s with holders := drop p s.holders, registered := drop p s.registered }, true)
  | .rmLock => ({ s with lockFile := false }, true)
  | .acquireErr p => ({ s with registered := p :: s.registered }, true)
  | .start p =>
      if s.lockFile then
        (if startRm then { s with lockFile := false } else s, false)
      else ({ s with lockFile := true, holders := p :: s.holders }, true)
  | .startFail _ => (if startRm then { s with lockFile := false } else s, false)
  | .acquireFail _ => (s, false)

/-- what the code structure allows: `register` only by an owner that has not yet
registered, `unlock` only by an owner, `acquire` only by a process that does not
already own; anybody may die at any time; the file may be deleted at any time;
ANY interleaving of different processes' actions is allowed -/
def enabled (s : St) : Act → Bool
  | .acquire p => !s.holders.contains p
  | .register p => s.holders.contains p && !s.registered.contains p
  | .unlock p => s.holders.contains p
  | .signal _ => true
  | .kill _ => true
  | .rmLock => true
  | .acquireErr p => !s.holders.contains p
  | .start p => !s.holders.contains p
  | .startFail p => !s.holders.contains p
  | .acquireFail p => !s.holders.contains p

/-- the remaining assumption: the operator deletes `_lock` only when no process owns
the pipestance.  `acquireErr` (a create error that is IGNORED) is excluded too; since
the repair 89932cb that is not an assumption about the environment any more but the
regenerated fact `Gen.c15LockCreateErrorIgnored = false`: a create error is returned
(`acquireFail`, allowed here; `Props.C15.lts_create_error_changes_nothing`); negative
witness for the old code: `lts_create_error_breaks_exclusion` -/
def disciplined (s : St) : Act → Bool
  | .rmLock => s.holders.isEmpty
  | .acquireErr _ => false
  | _ => true

/-- what `Lock()` does when the exclusive create fails with an error other than "exists",
as a function of the regenerated fact `Gen.c15LockCreateErrorIgnored` -/
def createErr (ignored : Bool) (p : Nat) : Act := if ignored then .acquireErr p else .acquireFail p

def run (regFirst startRm : Bool) (ok : St → Act → Bool) : St → List Act → Option St
  | s, [] => some s
  | s, a :: r => if enabled s a && ok s a then run regFirst startRm ok (step regFirst startRm s a).1 r else none

def init : St := { lockFile := false, holders := [], registered := [] }

def anything (_ : St) (_ : Act) : Bool := true

end Martian.LockLTS
