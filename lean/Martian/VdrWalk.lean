/-
The directory walk of the VDR code (`util.Walk`, martian/util/walk_linux.go;
used by addFilesToArgsMappings, the temp cleaners and Fork.vdrKill): the root
is lstat'ed and reported — a symbolic link as a link, without descending —;
below a directory every name is lstat'ed and reported, and only real
directories are descended into (opened with O_NOFOLLOW).

The file system below a directory is a tree; sibling lists are encoded in the
type (`file`/`link`/`dir` … `rest`).  Core Lean only, executable.
-/
import Martian.VdrFs

namespace Martian.Vdr

inductive FsTree
  | nil
  | file (name : Path) (size : Nat) (rest : FsTree)
  | link (name : Path) (target : Path) (rest : FsTree)
  | dir (name : Path) (children : FsTree) (rest : FsTree)
  deriving Repr, DecidableEq

inductive WKind
  | file | dir | link
  deriving Repr, DecidableEq

/-- what is at the root of a walk -/
inductive RootNode
  | missing
  | file (size : Nat)
  | link (target : Path)
  | dir (content : FsTree)
  deriving Repr

/-- the sibling names -/
def FsTree.names : FsTree → List Path
  | .nil => []
  | .file n _ r => n :: r.names
  | .link n _ r => n :: r.names
  | .dir n _ r => n :: r.names

/-- `walkInternal`: the entries reported below the directory `root` -/
def walkBelow (root : Path) : FsTree → List (Path × WKind)
  | .nil => []
  | .file n _ r => (root ++ '/' :: n, .file) :: walkBelow root r
  | .link n _ r => (root ++ '/' :: n, .link) :: walkBelow root r
  | .dir n ch r => (root ++ '/' :: n, .dir) :: (walkBelow (root ++ '/' :: n) ch ++ walkBelow root r)

/-- `util.Walk(root, …)` -/
def walk (root : Path) : RootNode → List (Path × WKind)
  | .missing => []
  | .file _ => [(root, .file)]
  | .link _ => [(root, .link)]
  | .dir t => (root, .dir) :: walkBelow root t

/-- the entries of the file system below `root`, links with their text -/
def entsBelow (root : Path) : FsTree → List FsEnt
  | .nil => []
  | .file n _ r => ⟨root ++ '/' :: n, none⟩ :: entsBelow root r
  | .link n tg r => ⟨root ++ '/' :: n, some tg⟩ :: entsBelow root r
  | .dir n ch r => ⟨root ++ '/' :: n, none⟩ :: (entsBelow (root ++ '/' :: n) ch ++ entsBelow root r)

/-- a directory's content as a file system has it: names are not empty, contain
no separator and are pairwise different, at every level -/
def FsTree.wf : FsTree → Bool
  | .nil => true
  | .file n _ r => !n.isEmpty && !n.contains '/' && !r.names.contains n && r.wf
  | .link n _ r => !n.isEmpty && !n.contains '/' && !r.names.contains n && r.wf
  | .dir n ch r => !n.isEmpty && !n.contains '/' && !r.names.contains n && ch.wf && r.wf

/-! ### the guard against removing through a link -/

/-- `Fork.vdrAcrossSymlink`: one of the directories the code lstats on the way to the
fork's files (`chain`: the node's directory and those of the pipelines above it, the fork
directory, every job's directory, files and temp directory) is a symbolic link -/
def refusedBy (fs : List FsEnt) (chain : List Path) : Bool :=
  fs.any fun e => e.link.isSome && chain.contains e.path

/-- a step of a fork under the guard: the passes that remove something return at once
when the fork is refused (`partialVdrKill`, `doChunks`) -/
def stepG (refused : Bool) (c : Cfg) (s : St) (e : Ev) : St :=
  if refused && (match e with | .early _ => true | .kill => true | _ => false) then s else step c s e

def runG (refused : Bool) (c : Cfg) (s : St) (evs : List Ev) : St := evs.foldl (stepG refused c) s

/-- the directories `Fork.vdrAcrossSymlink` lstats, as a function of the fork: the node's
directory and those of the pipelines above it (`nodeDirs`), the fork directory, and for
every job directory of the fork the directory itself, its files/ and its tmp/ -/
def guardChain (nodeDirs : List Path) (forkDir : Path) (jobDirs : List Path) : List Path :=
  nodeDirs ++ forkDir :: jobDirs.flatMap fun j => [j, j ++ "/files".toList, j ++ "/tmp".toList]

/-- the shape of the file system the dichotomy needs: every link is one of the guarded
directories, or lies below the walk's root, or is elsewhere — neither the root or above it
nor (lexically) below it, like mrp's own `chnk0 -> chnk0-u…` links (decidable; evaluated by
the driver on the independently lstat'ed directory trees of real runs) -/
def hfsB (fs : List FsEnt) (chain : List Path) (root : Path) (t : FsTree) : Bool :=
  fs.all fun e => e.link.isNone || chain.contains e.path || (entsBelow root t).contains e ||
    (!pathIsInside root e.path && !pathIsInside e.path root)

end Martian.Vdr
