/-
The directory walk of the VDR code (`util.Walk`, martian/util/walk_linux.go;
used by addFilesToArgsMappings, the temp cleaners and Fork.vdrKill): the root
is lstat'ed and reported — a symbolic link as a link, without descending —;
below a directory every name is lstat'ed and reported, and only real
directories are descended into (opened with O_NOFOLLOW).

The file system below a directory is a tree; sibling lists are encoded in the
type (`file`/`link`/`dir` … `rest`).  Core Lean only, executable.
-/
import Martian.VdrFs

namespace Martian.Vdr

inductive FsTree
  | nil
  | file (name : Path) (size : Nat) (rest : FsTree)
  | link (name : Path) (target : Path) (rest : FsTree)
  | dir (name : Path) (children : FsTree) (rest : FsTree)
  deriving Repr, DecidableEq

inductive WKind
  | file | dir | link
  deriving Repr, DecidableEq

/-- what is at the root of a walk -/
inductive RootNode
  | missing
  | file (size : Nat)
  | link (target : Path)
  | dir (content : FsTree)
  deriving Repr

/-- the sibling names -/
def FsTree.names : FsTree → List Path
  | .nil => []
  | .file n _ r => n :: r.names
  | .link n _ r => n :: r.names
  | .dir n _ r => n :: r.names

/-- `walkInternal`: the entries reported below the directory `root` -/
def walkBelow (root : Path) : FsTree → List (Path × WKind)
  | .nil => []
  | .file n _ r => (root ++ '/' :: n, .file) :: walkBelow root r
  | .link n _ r => (root ++ '/' :: n, .link) :: walkBelow root r
  | .dir n ch r => (root ++ '/' :: n, .dir) :: (walkBelow (root ++ '/' :: n) ch ++ walkBelow root r)

/-- `util.Walk(root, …)` -/
def walk (root : Path) : RootNode → List (Path × WKind)
  | .missing => []
  | .file _ => [(root, .file)]
  | .link _ => [(root, .link)]
  | .dir t => (root, .dir) :: walkBelow root t

/-- the entries of the file system below `root`, links with their text -/
def entsBelow (root : Path) : FsTree → List FsEnt
  | .nil => []
  | .file n _ r => ⟨root ++ '/' :: n, none⟩ :: entsBelow root r
  | .link n tg r => ⟨root ++ '/' :: n, some tg⟩ :: entsBelow root r
  | .dir n ch r => ⟨root ++ '/' :: n, none⟩ :: (entsBelow (root ++ '/' :: n) ch ++ entsBelow root r)

/-- a directory's content as a file system has it: names are not empty, contain
no separator and are pairwise different, at every level -/
def FsTree.wf : FsTree → Bool
  | .nil => true
  | .file n _ r => !n.isEmpty && !n.contains '/' && !r.names.contains n && r.wf
  | .link n _ r => !n.isEmpty && !n.contains '/' && !r.names.contains n && r.wf
  | .dir n ch r => !n.isEmpty && !n.contains '/' && !r.names.contains n && ch.wf && r.wf

end Martian.Vdr
