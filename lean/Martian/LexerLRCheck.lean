import Martian.LexerLR

/-!
C08: a CHECKER for the parser tables.  `check T C` evaluates, cell by cell, what
the proofs of Proofs/LexerLR.lean need: every table lookup the driver can make
succeeds, the stack discipline (certificate `C.pred`: which states can lie
directly below which) is closed under shifts and reductions and never lets a
reduction pop the bottom, the states are ranked so that every reduction lowers
the rank of the top state (`C.rank`: no infinite run of reductions), there is
no shift on `error` or on `$end`.  The certificate is computed by the extractor
and is NOT trusted: `check` is evaluated by the kernel, its soundness is a
theorem.
-/
namespace Martian.LexerLR

structure Cert where
  pred : Tab (List Nat)
  rank : Tab Nat
  maxRank : Nat

def predOf (C : Cert) (s : Nat) : List Nat := (C.pred.get? s).getD []
def rankOf (C : Cert) (s : Nat) : Nat := (C.rank.get? s).getD 0

def NS (T : Tables) : Nat := T.pact.size
def NP (T : Tables) : Nat := T.r1.size
def NT (T : Tables) : Nat := T.ntoknames + 1

def addNew (x : Nat) (l : List Nat) : List Nat := if l.contains x then l else x :: l

def addAll (xs : List Nat) (acc : List Nat) : List Nat := xs.foldl (fun a x => addNew x a) acc

/-- the states that can lie directly below one of `L` -/
def levelUp (C : Cert) (L : List Nat) : List Nat := L.foldl (fun acc s => addAll (predOf C s) acc) []

/-- walk `k` entries down the stack from the states `L`: the possible states
there, `none` if the bottom (state 0) could be reached earlier -/
def walk (C : Cert) : Nat → List Nat → Option (List Nat)
  | 0, L => some L
  | k + 1, L => if L.contains 0 then none else walk C k (levelUp C L)

/-- the productions state `s` can reduce by -/
def excaProds (T : Tables) : Nat → Int → List Nat
  | 0, _ => []
  | f + 1, xi =>
    match T.exca.get? xi, T.exca.get? (xi + 1) with
    | some a, some b => (if b > 0 then [b.toNat] else []) ++ (if a < 0 then [] else excaProds T f (xi + 2))
    | _, _ => []

def redsOf (T : Tables) (s : Nat) : List Nat :=
  match T.dfl.get? s with
  | some d =>
    if d == -2 then
      match excaFind T s (T.exca.size + 1) 0 with
      | some xi => excaProds T (T.exca.size + 1) (xi + 2)
      | none => []
    else if d > 0 then [d.toNat] else []
  | none => []

def redOK (T : Tables) (C : Cert) (s n : Nat) : Bool :=
  decide (0 < n) && decide (n < NP T) &&
  match T.r2.get? n, T.r1.get? n with
  | some k, some A =>
    decide (0 ≤ k) &&
    match walk C k.toNat [s] with
    | none => false
    | some L =>
      L.all fun t =>
        match gotoState T t A with
        | some s2 => decide (0 ≤ s2) && decide (s2.toNat < NS T) && (predOf C s2.toNat).contains t &&
            decide (rankOf C s2.toNat < rankOf C s)
        | none => false
  | _, _ => false

def cellOK (T : Tables) (C : Cert) (s : Nat) (tok : Nat) : Bool :=
  match action T s tok with
  | some (.shift s') => decide (s' < NS T) && (predOf C s').contains s && tok != T.eofCode && tok != T.errCode
  | some (.reduce n) => (redsOf T s).contains n
  | some .accept => true
  | some .error => true
  | none => false

def stateOK (T : Tables) (C : Cert) (s : Nat) : Bool :=
  (needsLA T s).isSome && errMsgSafe T s && (errorShift T s == some none) && decide (rankOf C s ≤ C.maxRank) &&
  ((redsOf T s).all fun n => redOK T C s n) &&
  ((List.range (NT T)).all fun tok => tok == 0 || cellOK T C s tok)

def tokTabOK (T : Tables) (t : Tab Int) : Bool :=
  (List.range t.size).all fun i =>
    match t.get? i with
    | some v => decide (1 ≤ v) && decide (v < NT T)
    | none => false

def check (T : Tables) (C : Cert) : Bool :=
  T.nerrmsgs == 0 && decide (0 < NS T) && tokTabOK T T.tok1 && tokTabOK T T.tok2 && decide (2 ≤ T.tok2.size) &&
  T.tok3 == [[0]] && T.tok1.get? 0 == some T.eofCode && decide (0 < T.tok1.size) &&
  ((List.range (NS T)).all fun s => stateOK T C s)

/-- the fuel that always suffices: (tokens + 1) rounds of at most `maxRank + 1`
reductions and a shift -/
def fuelFor (C : Cert) (input : List Int) : Nat := (input.length + 1) * (C.maxRank + 2) + 1

/-- the outcomes a parser may have on an input of `N` tokens: accept, an
abort by a semantic action, or a syntax error AT a lookahead token (index ≤ N,
= N: at the end of the input) — never an index panic, never out of fuel -/
def GoodOutcome (N : Nat) : Outcome → Prop
  | .accept => True
  | .syntaxError i => i ≤ N
  | .actionError => True
  | .panic => False
  | .outOfFuel => False

/-- a table is well chunked: every chunk but the last has exactly 32 elements and
no chunk is empty, so that `tab[i/32][i%32]` is the flat index `i` -/
def wellChunked {α : Type} : Tab α → Bool
  | [] => true
  | [c] => !c.isEmpty && decide (c.length ≤ 32)
  | c :: r => decide (c.length = 32) && wellChunked r

/-- no state shifts the parser token `tok` -/
def neverShifted (T : Tables) (tok : Int) : Bool :=
  (List.range (NS T)).all fun s =>
    match action T s tok with
    | some (.shift _) => false
    | some _ => true
    | none => false

end Martian.LexerLR
