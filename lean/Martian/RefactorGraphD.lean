/-
C19 — the resolved call graph WITH `disabled` modifiers (Go: resolve_stage.go
`resolveDisable` / `resolveDisableExp` / `makeDisabled` / `wrapDisabled`,
resolve_pipeline.go `resolvePipelineOuts`, disabled_exp.go `DisabledExp`).

`deepGraphD` extends `Martian.Refactor.deepGraph` (RefactorGraph.lean): every
node carries the list of resolved expressions which could disable it (its
enclosing pipelines' and its own `disabled` binding; a constant `false` is
dropped, a constant `true` makes the node always disabled: resolved output
null, no child nodes); the resolved output of a conditionally disabled call is
wrapped in `dis d v` ("v unless d") and the wrapper distributes over projection
and type narrowing.  On programs without `disabled` modifiers it coincides with
`deepGraph` (checked on every run: both are compared with `Ast.MakeCallGraph`).
The call-graph THEOREMS of Props/C19.lean are about `deepGraph`; this model
extends the TIE to programs with `disabled` modifiers.  Map calls / `split` are
still outside.  Core Lean only.
-/
import Martian.RefactorGraph

namespace Martian.Refactor

inductive DExp
  | lit (s : String)
  | sref (fq : List String) (callable : String) (path : List String)
  | split (e : DExp)
  | arr (elems : DExp)
  | map (isStruct : Bool) (elems : DExp)
  | nil
  | cons (key : String) (head tail : DExp)
  /-- `DisabledExp{Disabled: d, Value: v}`: `v`, or null when `d` evaluates to true -/
  | dis (d v : DExp)
  deriving DecidableEq, Repr, Inhabited

def dnull : DExp := .lit "6e756c6c"
def dtrue : DExp := .lit "74727565"

def isNullD (e : DExp) : Bool := e == dnull

abbrev DEnv := List (String × DExp)

def denvGet (env : DEnv) (k : String) : DExp := (env.lookup k).getD dnull

def denvEntries : DEnv → DExp
  | [] => .nil
  | (k, v) :: rest => .cons k v (denvEntries rest)

/-- Go `makeDisabledExp(disable, inner)`.  The Go code skips the wrapper when `inner` is already
disabled by the SAME control object (pointer comparison); two resolutions of the same reference
are different objects, so the model always wraps.  KNOWN APPROXIMATION (seed-5 sweep): the same
object DOES arrive twice when a control flows unchanged through pipeline inputs (`flag = self.flag`,
`* = self`) to a call that is disabled on `self.flag` inside a call disabled on the same `self.flag`:
the Go code then neither appends the control a second time nor wraps the node's output (`makeDisabled`
wraps only the controls this node added to its parent's list).  The model has no object identity; the
harness compares such graphs modulo duplicate controls (counted: `graph-tie:equal-modulo-control-object-
identity`; pin: corpus/C19/graph-disabled-control-inherited-through-input.mro). -/
def makeDis (d inner : DExp) : DExp :=
  if isNullD inner then inner else
  match d with
  | .lit s => if s = "74727565" then dnull else inner
  | .sref fq c p => .dis (.sref fq c p) inner
  | _ => inner

mutual
  def bindingPathD (path : List String) : DExp → DExp
    | .lit s => .lit s
    | .sref fq c p => .sref fq c (p ++ path)
    | .split e => .split e
    | .arr es => .arr (bindingPathElemsD path es)
    | .map false es => .map false (bindingPathElemsD path es)
    | .map true es =>
      match path with
      | [] => .map true es
      | h :: t => projectMemberD h t es
    | .nil => .nil
    | .cons k h t => .cons k h t
    | .dis d v => makeDis d (bindingPathD path v)
  def bindingPathElemsD (path : List String) : DExp → DExp
    | .cons k h t => .cons k (bindingPathD path h) (bindingPathElemsD path t)
    | .lit s => .lit s
    | .sref fq c p => .sref fq c p
    | .split e => .split e
    | .arr es => .arr es
    | .map b es => .map b es
    | .nil => .nil
    | .dis d v => .dis d v
  def projectMemberD (h : String) (t : List String) : DExp → DExp
    | .cons k v rest => if k = h then bindingPathD t v else projectMemberD h t rest
    | .lit _ => dnull
    | .sref _ _ _ => dnull
    | .split _ => dnull
    | .arr _ => dnull
    | .map _ _ => dnull
    | .nil => dnull
    | .dis _ _ => dnull
end

mutual
  def filterD (mo : String → Option Members) (ty : Ty) : DExp → DExp
    | .arr es =>
      match mo ty.base with
      | none => .arr es
      | some _ =>
        if ty.arrayDim = 0 then .arr es
        else .arr (filterElemsD mo { ty with arrayDim := ty.arrayDim - 1 } es)
    | .map st es =>
      match mo ty.base with
      | none => .map st es
      | some ms =>
        if ty.arrayDim = 0 ∧ ty.mapDim = 0 then .map true (filterMembersD mo ms es)
        else if ty.arrayDim = 0 then .map false (filterElemsD mo ⟨ty.base, ty.mapDim - 1, 0⟩ es)
        else .map st es
    | .lit s => .lit s
    | .sref fq c p => .sref fq c p
    | .split e => .split e
    | .nil => .nil
    | .cons k h t => .cons k h t
    | .dis d v => makeDis d (filterD mo ty v)
  def filterElemsD (mo : String → Option Members) (ty : Ty) : DExp → DExp
    | .cons k h t => .cons k (filterD mo ty h) (filterElemsD mo ty t)
    | .lit s => .lit s
    | .sref fq c p => .sref fq c p
    | .split e => .split e
    | .arr es => .arr es
    | .map b es => .map b es
    | .nil => .nil
    | .dis d v => .dis d v
  def filterMembersD (mo : String → Option Members) (ms : Members) : DExp → DExp
    | .cons k h t =>
      match ms.lookup k with
      | some mty => .cons k (filterD mo mty h) (filterMembersD mo ms t)
      | none => filterMembersD mo ms t
    | .lit s => .lit s
    | .sref fq c p => .sref fq c p
    | .split e => .split e
    | .arr es => .arr es
    | .map b es => .map b es
    | .nil => .nil
    | .dis d v => .dis d v
end

/-- Go `Exp.FindRefs`: for `dis d v` the references of the value, then of the control -/
def rrefsD : DExp → List DExp
  | .lit _ => []
  | .sref fq c p => [.sref fq c p]
  | .split e => rrefsD e
  | .arr es => rrefsD es
  | .map _ es => rrefsD es
  | .nil => []
  | .cons _ h t => rrefsD h ++ rrefsD t
  | .dis d v => rrefsD v ++ rrefsD d

def substRefsD (f : Ref → DExp) : Exp → DExp
  | .lit s => .lit s
  | .ref r => f r
  | .split e => .split (substRefsD f e)
  | .arr es => .arr (substRefsD f es)
  | .map b es => .map b (substRefsD f es)
  | .nil => .nil
  | .cons k h t => .cons k (substRefsD f h) (substRefsD f t)

def lookupRefD (self : DEnv) (outs : String → DExp) (r : Ref) : DExp :=
  bindingPathD r.path (match r.kind with
    | .self => denvGet self r.id
    | .call => outs r.id)

def resolveBindsD (ti : TypeInfo) (tys : Members) (f : Ref → DExp) (bs : List Bind) : DEnv :=
  bs.map fun b =>
    (b.name, match tys.lookup b.name with
             | some ty => filterD (membersOf ti) ty (substRefsD f b.exp)
             | none => substRefsD f b.exp)

/-- Go `resolveDisableExp`: a reference is appended (the Go code skips it only when the very same
object is already in the list - a pointer comparison that separately resolved references never
satisfy, but a control inherited through pipeline inputs does: see `makeDis`), `true`
replaces everything, `false` adds nothing, a value that is itself disabled by a
control already in the list is looked through. -/
def resolveDisableExp (disable : List DExp) : DExp → List DExp
  | .sref fq c p => disable ++ [.sref fq c p]
  | .lit s => if s = "74727565" then [.lit s] else disable
  | .dis d v => if disable.contains d then resolveDisableExp disable v else disable
  | .split _ => disable
  | .arr _ => disable
  | .map _ _ => disable
  | .nil => disable
  | .cons _ _ _ => disable

def alwaysDisabledD (dis : List DExp) : Bool :=
  match dis with
  | .lit _ :: _ => true
  | _ => false

/-- Go `resolveDisable` (single calls): the enclosing pipeline's list, plus the call's
own `disabled` binding -/
def nodeDisable (parentDis : List DExp) (k : Call) (f : Ref → DExp) : List DExp :=
  if alwaysDisabledD parentDis then parentDis.take 1 else
  match k.mods.find? (·.name == "disabled") with
  | none => parentDis
  | some b => resolveDisableExp parentDis (substRefsD f b.exp)

/-- Go `wrapDisabled` over the call's own controls (`makeDisabled`) -/
def wrapOwn (own : List DExp) (e : DExp) : DExp :=
  own.foldl (fun e d =>
    if isNullD e then e else
    match d with
    | .sref fq c p => .dis (.sref fq c p) e
    | .lit s => if s = "74727565" then dnull else e
    | _ => e) e

def callInsD (ti : TypeInfo) (pipe : Callable) (self : DEnv) (sib : String → DExp) (d : Callable) (k : Call) : DEnv :=
  resolveBindsD ti (insOf ti d.name) (lookupRefD self sib) (expandWild ti pipe d.ins k.binds)

/-- resolved outputs of call `id` of `pipe`; `pdis` = the controls disabling `pipe` -/
def callOutputsD (ti : TypeInfo) (p : Program) :
    Nat → Callable → DEnv → List DExp → List String → String → DExp
  | 0, _, _, _, _, _ => dnull
  | fuel + 1, pipe, self, pdis, pre, id =>
    match pipe.calls.find? (·.id == id) with
    | none => dnull
    | some k =>
      match p.find? k.decId with
      | none => dnull
      | some d =>
        let sib := callOutputsD ti p fuel pipe self pdis pre
        let dis := nodeDisable pdis k (lookupRefD self sib)
        if alwaysDisabledD dis then dnull
        else if !d.isPipe then
          (if d.outs.isEmpty then dnull else wrapOwn (dis.drop pdis.length) (.sref (pre ++ [id]) d.name []))
        else if d.ret.isEmpty then dnull
        else
          let ins := callInsD ti pipe self sib d k
          let outs : DExp := .map true (denvEntries (resolveBindsD ti (outsOf ti d.name)
            (lookupRefD ins (callOutputsD ti p fuel d ins dis (pre ++ [id]))) (expandWild ti d (outNames d) d.ret)))
          if dis.length > pdis.length then
            (match dis.getLast? with | some c => makeDis c outs | none => outs)
          else outs

structure DNode where
  fqid : List String
  callable : String
  isPipe : Bool
  inputs : DEnv
  outputs : DExp
  retained : List DExp
  disable : List DExp
  deriving DecidableEq, Repr, Inhabited

def nodesOfD (ti : TypeInfo) (p : Program) (big : Nat) :
    Nat → Callable → DEnv → List DExp → List String → Call → List DNode
  | 0, _, _, _, _, _ => []
  | fuel + 1, pipe, self, pdis, pre, k =>
    match p.find? k.decId with
    | none => []
    | some d =>
      let sib := callOutputsD ti p big pipe self pdis pre
      let ins := callInsD ti pipe self sib d k
      let fq := pre ++ [k.id]
      let dis := nodeDisable pdis k (lookupRefD self sib)
      let always := alwaysDisabledD dis
      let kids := callOutputsD ti p big d ins dis fq
      { fqid := fq, callable := d.name, isPipe := d.isPipe, inputs := ins,
        outputs := callOutputsD ti p (big + 1) pipe self pdis pre k.id,
        retained := if d.isPipe && !always then d.retain.flatMap (fun r => rrefsD (lookupRefD ins kids r)) else [],
        disable := if always then dis.take 1 else dis }
      :: (if d.isPipe && !always then d.calls.flatMap (nodesOfD ti p big fuel d ins dis fq) else [])

/-- **the resolved call graph with `disabled` modifiers** -/
def deepGraphD (ti : TypeInfo) (p : Program) : List DNode :=
  match p.top with
  | none => []
  | some t => nodesOfD ti p (graphFuel p) (graphFuel p) (topPipe t) [] [] [] t

/-- the embedding of the plain resolved expressions -/
def RExp.toD : RExp → DExp
  | .lit s => .lit s
  | .sref fq c p => .sref fq c p
  | .split e => .split e.toD
  | .arr es => .arr es.toD
  | .map b es => .map b es.toD
  | .nil => .nil
  | .cons k h t => .cons k h.toD t.toD

def Node.toD (n : Node) : DNode :=
  { fqid := n.fqid, callable := n.callable, isPipe := n.isPipe,
    inputs := n.inputs.map (fun kv => (kv.1, kv.2.toD)), outputs := n.outputs.toD,
    retained := n.retained.map RExp.toD, disable := [] }

end Martian.Refactor

namespace Martian.Refactor

/-- no call carries a `disabled` modifier binding -/
def noDisabledMods (p : Program) : Bool :=
  p.callables.all (fun c => c.calls.all (fun k => k.mods.all (fun b => b.name != "disabled")))
  && (match p.top with | some t => t.mods.all (fun b => b.name != "disabled") | none => true)

end Martian.Refactor
