/-
The whole pipestance: all producer forks side by side.  A consumer node's
completion is seen by every fork (`Node.getState` of the post node); every
other event (removeEmptyFileArgs, cacheParamFileMap, partialVdrKill early or
in state complete) belongs to one fork and is interleaved arbitrarily with
the events of the others.  Core Lean only.
-/
import Martian.Vdr

namespace Martian.Vdr

abbrev ForkId := String

structure PFork where
  id : ForkId
  cfg : Cfg
  st : St

inductive GEv
  | nodeDone (n : Node)            -- a consumer node completes (or is disabled)
  | fork (f : ForkId) (e : Ev)     -- an event of one producer fork

def gstep (fs : List PFork) : GEv → List PFork
  | .nodeDone n => fs.map fun f => { f with st := step f.cfg f.st (.nodeDone n) }
  | .fork id e => fs.map fun f => if f.id == id then { f with st := step f.cfg f.st e } else f

def grun (fs : List PFork) (evs : List GEv) : List PFork := evs.foldl gstep fs

/-- what one fork sees of the global history -/
def proj (id : ForkId) : List GEv → List Ev
  | [] => []
  | .nodeDone n :: r => .nodeDone n :: proj id r
  | .fork f e :: r => if f == id then e :: proj id r else proj id r

/-- ONE file system below all the forks: after a global history, an entry of any
fork is still there unless it lies at or below a path some fork — its owner or
any other — has removed (`os.RemoveAll` takes a path with everything below it,
whoever put it there) -/
def sharedDisk (fs : List PFork) (evs : List GEv) : List DiskEnt :=
  (fs.flatMap fun f => f.st.disk).filter fun d =>
    !(fs.any fun f => (run f.cfg f.st (proj f.id evs)).removed.any fun g => pathIsInside d.path g.path)

end Martian.Vdr
