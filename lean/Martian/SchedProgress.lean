/-
SchedProgress — progress / termination vocabulary for the `Sched` transition
system (C03 at-least-once, C05 restart completes, C06 independent nodes go on).

* `mu`            a progress measure on states (lexicographic pair of naturals)
* `Ev.structural` the environment's structure events (fork expansion, fork
                  order, chunk definition while (re)loading) — the measure says
                  nothing about them; runs contain finitely many
* `Ev.quiet`      failure-free, non-structural events: the alphabet of the
                  scheduler, the jobs and the journal
* `Finished`      the pipestance is complete: normal phase, every node finished
                  and its cached state up to date
* `Acyclic`       the prenode relation of the graph is well founded
* `fatalError`    `Node.getFatalError` (C06 `error_names_stage`)
* `stageAction`   the dispatch chain of `Fork.stepStage` (tie: `Gen.stepStageChain`)

Core Lean only.
-/
import Martian.Sched

namespace Martian.Sched

/-! ## the measure -/

/-- how many of the six state-bearing sentinels are NOT in the set -/
def SSet.missing (x : SSet) : Nat :=
  (!x.errors).toNat + (!x.assert).toNat + (!x.complete).toNat +
  (!x.disabled).toNat + (!x.log).toNat + (!x.jobinfo).toNat

/-- potential of one metadata object: sentinels that can still appear in the cache and
in the directory, and a pending `_queued_locally` (it will be removed) -/
def potMeta (m : Meta) : Nat := m.seen.missing + m.disk.missing + 2 * m.disk.queued.toNat

/-- … plus 3 while the object has not been submitted by this incarnation -/
def potObj (s : State) (o : Obj) : Nat :=
  potMeta (s.m o) + (if s.launches.contains (o, s.inc) then 0 else 3)

/-- the metadata objects of one fork, in `Fork.collectMetadatas` order -/
def forkObjs (s : State) (n f : Nat) : List Obj :=
  ⟨n, f, .fork⟩ :: ⟨n, f, .split⟩ :: ⟨n, f, .join⟩ ::
    (List.range (s.nch n f)).map fun i => ⟨n, f, .chunk i⟩

/-- every (node, fork) of the pipestance -/
def forkPairs (s : State) : List (Nat × Nat) :=
  (List.range s.nodes.length).flatMap fun n => (s.forksOf n).map fun f => (n, f)

/-- every metadata object of the pipestance -/
def objs (s : State) : List Obj := (forkPairs s).flatMap fun p => forkObjs s p.1 p.2

def potB (s : State) : Nat := ((objs s).map (potObj s)).sum

/-- nodes whose cached state (`Node.state`) differs from `Node.getState()` -/
def stale (s : State) : Nat :=
  ((List.range s.nodes.length).filter fun n => s.cachedOf n != nodeState s n).length

/-- forks whose chunks are not defined yet -/
def noChunks (s : State) : Nat := ((forkPairs s).filter fun p => s.nch p.1 p.2 == 0).length

/-- the progress measure: (forks without chunk definition, weighted potential) -/
def mu (s : State) : Nat × Nat :=
  (noChunks s,
   potB s * (s.nodes.length + 1) + stale s + (if s.phase == .loading then 1 else 0))

/-- lexicographic order on the measure -/
def LexLt (a b : Nat × Nat) : Prop := a.1 < b.1 ∨ (a.1 = b.1 ∧ a.2 < b.2)

instance (a b : Nat × Nat) : Decidable (LexLt a b) := by unfold LexLt; exact inferInstance

/-! ## event classes -/

/-- structure events of the environment: fork expansion / fork order, and the
definition of chunks while the graph is (re)loaded; and the interruptions -/
def Ev.structural (s : State) : Ev → Bool
  | .fork _ _ => true
  | .forkorder _ _ => true
  | .mkchunks _ _ _ => s.phase != Phase.normal
  | .crash => true
  | .restart => true
  | .reset _ => true
  | .killed _ => true      -- a job dies without a trace (with mrp, or lost by the scheduler)
  | _ => false

/-- the failure events (a job or mrp reports an error) -/
def Ev.failing : Ev → Bool
  | .jobend _ x => x != Sentinel.complete
  | .silentfail _ => true
  | .W _ x => x == Sentinel.errors || x == Sentinel.assert
  | _ => false

/-- no failure, no structure change, no interruption -/
def Ev.quiet (s : State) (e : Ev) : Bool := !e.failing && !e.structural s

/-- no failure event, and the chunk structure of a fork is not redefined while mrp
re-attaches (the model keeps `nchunks` across `restart`; `Fork.restoreChunks`) -/
def Ev.benign (s : State) (e : Ev) : Bool :=
  !e.failing &&
  match e with
  | .mkchunks _ _ _ => !(s.phase == .loading && s.inc != 0)
  | _ => true


/-- the scheduler / job / journal alphabet: what mrp's run loop, a running job and the
journal reader do by themselves — refresh a node's cached state, end the loading phase,
submit a job, write a stub or fork `_complete`, define the chunks once the split is
complete, a job starts (`_log`), a job ends successfully, a `_complete` is read.  NOT in
it: the environment's choices (`fork`, `forkorder`, `W … disabled`, chunk counts while
loading), failures, interruptions, and the stuttering events. -/
def Ev.sched (s : State) : Ev → Bool
  | .nodestate _ _ => true
  | .refresh => s.phase == Phase.loading
  | .launch _ => true
  | .W _ x => x == Sentinel.complete
  | .mkchunks _ _ _ => s.phase == Phase.normal
  | .joblog _ => true
  | .jobend _ x => x == Sentinel.complete
  | .R _ x => x == Sentinel.complete
  | _ => false

/-- an event that makes progress: of the scheduler/job/journal alphabet, enabled, and the
measure goes down -/
def Progress (s : State) (e : Ev) : Prop :=
  e.sched s = true ∧ enabled s e = true ∧ LexLt (mu (apply s e)) (mu s)

/-- nothing of the scheduler/job/journal alphabet can happen (decidable; `no_progress_of_quiescent`):
normal phase, every cached node state current, no live job, every `_complete` on disk is read,
no job can be submitted, no stub / fork `_complete` written, no chunks defined -/
def quiescent (s : State) : Bool :=
  s.phase == Phase.normal && allFresh s && s.alive.isEmpty &&
  ((objs s).all fun o =>
    (!(s.m o).disk.complete || (s.m o).seen.complete) && !launchOk s o &&
    !mrpWriteOk s o .complete) &&
  ((forkPairs s).all fun p => !enabled s (.mkchunks p.1 p.2 1))

/-- `Ev.node e = some n`: `e` is an event of node `n` -/
def Ev.node : Ev → Option Nat
  | .W o _ | .R o _ | .D o _ | .U o _ | .launch o | .joblog o | .jobend o _
  | .silentfail o | .killed o | .reset o => some o.n
  | .fork n _ | .forkorder n _ | .mkchunks n _ _ | .nodestate n _ => some n
  | _ => none

/-- every submitted, unfinished job of node `n` is alive (none died without being reset) -/
def AliveNode (s : State) (n : Nat) : Prop :=
  ∀ f r, r ≠ Role.fork → (s.m ⟨n, f, r⟩).disk.has .jobinfo = true →
    (s.m ⟨n, f, r⟩).disk.has .complete = false → (⟨n, f, r⟩ : Obj) ∈ s.alive

def AliveInv (s : State) : Prop := ∀ n, AliveNode s n

/-- decidable form of `AliveInv` (`aliveInv_of_check`), evaluated by the driver each time loading ends -/
def aliveOk (s : State) : Bool :=
  s.metas.all fun p => p.1.r == Role.fork || !p.2.disk.jobinfo || p.2.disk.complete || s.alive.contains p.1

/-- the pipestance is complete (`Pipestance.GetState() == Complete` and nothing
left to do): every node finished, every cached node state current -/
def Finished (s : State) : Prop :=
  s.phase = .normal ∧
  ∀ n, n < s.nodes.length → nodeDone s n = true ∧ s.cachedOf n = nodeState s n

def preOf (g : List NodeInfo) (n : Nat) : List Nat := ((g[n]?).map (·.pre)).getD []

/-- the prenode relation is well founded (a rank function exists) -/
def Acyclic (g : List NodeInfo) : Prop :=
  ∃ rank : Nat → Nat, ∀ n p, p ∈ preOf g n → rank p < rank n

/-- sufficient and decidable: prenodes have smaller indices (the order in which
the tracer numbers the nodes) -/
def topoSorted (g : List NodeInfo) : Bool :=
  (List.range g.length).all fun n => (preOf g n).all fun p => decide (p < n)

/-! ## runs -/

/-- an infinite run of the transition system from `s0` -/
structure Run (s0 : State) (σ : Nat → State) (es : Nat → Ev) : Prop where
  start : σ 0 = s0
  en : ∀ i, enabled (σ i) (es i) = true
  next : ∀ i, σ (i + 1) = apply (σ i) (es i)

/-- weak fairness towards the scheduler/job alphabet as a whole: the run never
stutters for ever (the environment may repeat `stepend`, `refresh`, `killed`,
re-reads of known files, … as often as it likes) while the pipestance is unfinished
and some progress event is enabled -/
def Fair (σ : Nat → State) : Prop :=
  ∀ i, ¬ Finished (σ i) → (∃ e, Progress (σ i) e) →
    ∃ j, i ≤ j ∧ LexLt (mu (σ (j + 1))) (mu (σ j))

/-! ## `Node.getFatalError` -/

/-- `Node.collectMetadatas` without the node's own metadata (it never has a state) -/
def collect (s : State) (n : Nat) : List Obj := (s.forksOf n).flatMap fun f => forkObjs s n f

/-- `Node.getFatalError`: the first metadata (in `collectMetadatas` order) whose
state is failed, and the file that is reported: `_errors` before `_assert` -/
def fatalErrorIn (s : State) : List Obj → Option (Obj × Sentinel)
  | [] => none
  | o :: r =>
    if s.st o == some .failed then
      if (s.m o).seen.errors then some (o, .errors)
      else if (s.m o).seen.assert then some (o, .assert)
      else fatalErrorIn s r
    else fatalErrorIn s r

def fatalError (s : State) (n : Nat) : Option (Obj × Sentinel) := fatalErrorIn s (collect s n)

/-! ## the dispatch of `Fork.stepStage` -/

inductive StageAction where
  | stop | doSplit | doChunks | doJoin | doComplete
  deriving DecidableEq, Repr

def StageAction.name : StageAction → String
  | .stop => "return" | .doSplit => "doSplit" | .doChunks => "doChunks"
  | .doJoin => "doJoin" | .doComplete => "doComplete"

/-- `Fork.stepStage`: the chain of `if state == X { state = self.doY() }`, in
source order (compared with the regenerated fact `Gen.stepStageChain`) -/
def stageChain : List (FState × StageAction) :=
  [(.disabled, .stop), (.ready, .doSplit), (.split .complete, .doChunks),
   (.chunksComplete, .doJoin), (.join .complete, .doComplete)]

def stageChainNames : List (String × String) := stageChain.map fun p => (p.1.name, p.2.name)

/-- the action `stepStage` takes first in fork state `st` -/
def stageAction (st : FState) : Option StageAction :=
  (stageChain.find? fun p => p.1 == st).map (·.2)

end Martian.Sched
