/-
C09 model, part 5: whole `pipeline` declarations (martian/syntax/format_callable.go
`Pipeline.format`; compile_pipelines.go `directDepsMap`, `topoSort`; grammar.y production
`pipeline`), on the parts `Martian.FormatDecl` (parameter lists), `Martian.FormatCall2` (call
statements, `return`, `retain`) and `Martian.Format` (`topoSort` on positions).

* `Pipeline`: `Id`, `InParams.List`, `OutParams.List`, and the statements (`Body`).
* `callRefs c`: the ids of the `RefExp`s of kind call which `findDeps` visits for the call `c`:
  in the values of `Bindings.List` (the wildcard binding included; through arrays, maps, struct
  literals and `split`) and of `Modifiers.Bindings.List` (`disabled = X.y`).  `self.x` (kind self)
  is not a dependency.
* `lastPos x cs`: `callMap[x]` as a position (a later call with the same id wins).
* `callEdges cs`: `directDepsMap` on positions: `(a, b)` = "call `a` holds a reference to the id
  of call `b`".  A reference to an id which no call has gives a `nil` entry in the Go map, which
  neither `findMissingDeps` nor the shift loop ever looks up: no edge.  A pair `(a, a)` is the
  error `CyclicDependencyError: call … input bound to its own output`.
* `depsError pid cs`: `directDepsMap` returns an error: some call has `DecId == pipeline.Id`
  (`RecursiveCallError`) or references its own id.  `Pipeline.format` then prints a warning on
  stderr and leaves the order alone; the same when `addNextDeps` finds a cycle (`hasCycle` in
  `Martian.Format.topoSort`).
* `sortCalls pid cs`: `Pipeline.Calls` after `topoSort()`.
* `fmtPipeline` = `Pipeline.format` without comments: column widths
  `measureParamsWidths(InParams, OutParams)`.  `fmtPipelineRaw` prints the calls where they are
  (the text of the AST before sorting: the harness feeds it to the real formatter).
* `pPipeline`: both alternatives of the production `pipeline` (with and WITHOUT calls:
  `call_stm_list` is non-empty, the second alternative has none), returning the remaining tokens.

Core Lean only.
-/
import Martian.FormatDecl
import Martian.FormatCall2

namespace Martian.FormatPipe
open Martian.Lexer (Bytes)
open Martian.Format Martian.FormatExp Martian.FormatCall Martian.FormatCall2 Martian.FormatDecl

def sPipeline : Bytes := [0x70, 0x69, 0x70, 0x65, 0x6C, 0x69, 0x6E, 0x65]

/-! ## AST -/

structure Pipeline where
  id : Bytes
  ins : List Param
  outs : List Param
  body : Body
  deriving Repr, Inhabited

/-! ## dependencies between the calls -/

mutual
/-- the ids of the references of kind call inside an expression, in the order `findDeps` visits
them -/
def refIds : Exp → List Bytes
  | .arr xs => refIdsL xs
  | .map kvs => refIdsKV kvs
  | .struct kvs => refIdsKV kvs
  | .ref self id _ => if self then [] else [id]
  | _ => []
def refIdsL : List Exp → List Bytes
  | [] => []
  | x :: r => refIds x ++ refIdsL r
def refIdsKV : List (Bytes × Exp) → List Bytes
  | [] => []
  | (_, v) :: r => refIds v ++ refIdsKV r
end

def bindRefs : List Bind → List Bytes
  | [] => []
  | b :: r => refIds b.exp ++ bindRefs r

def modRefs : List (Bytes × Exp) → List Bytes
  | [] => []
  | kv :: r => refIds kv.2 ++ modRefs r

def wildRefs : Option Exp → List Bytes
  | some e => refIds e
  | none => []

/-- every call id the call refers to: `call.Bindings.List`, then `call.Modifiers.Bindings.List` -/
def callRefs (c : Call2) : List Bytes :=
  bindRefs c.binds ++ wildRefs c.wildcard ++ modRefs c.mods.binds

/-- `callMap[x]`: the position of the LAST call whose id is `x` -/
def lastPos (x : Bytes) : List Call2 → Option Nat
  | [] => none
  | c :: r =>
    match lastPos x r with
    | some j => some (j + 1)
    | none => if c.id = x then some 0 else none

/-- the dependencies of the call at position `i` -/
def edgesFrom (all : List Call2) (i : Nat) (c : Call2) : List (Nat × Nat) :=
  (callRefs c).filterMap fun x => (lastPos x all).map fun j => (i, j)

def callEdgesAux (all : List Call2) : Nat → List Call2 → List (Nat × Nat)
  | _, [] => []
  | i, c :: r => edgesFrom all i c ++ callEdgesAux all (i + 1) r

/-- `directDepsMap` on positions -/
def callEdges (cs : List Call2) : List (Nat × Nat) := callEdgesAux cs 0 cs

/-- `directDepsMap` returns an error -/
def depsError (pid : Bytes) (cs : List Call2) : Bool :=
  cs.any (fun c => c.decId == pid) || (callEdges cs).any (fun e => e.1 == e.2)

/-- the calls at the given positions -/
def pick (cs : List Call2) (l : List Nat) : List Call2 := l.filterMap fun i => cs[i]?

/-- `Pipeline.Calls` after `topoSort()` -/
def sortCalls (pid : Bytes) (cs : List Call2) : List Call2 :=
  if depsError pid cs then cs else pick cs (topoSort cs.length (callEdges cs))

/-- the closed dependency relation has a cycle (`addNextDeps` returns an error) -/
def callCycle (cs : List Call2) : Bool := hasCycle cs.length (closedDeps cs.length (callEdges cs))

/-! ## printer -/

/-- `measureParamsWidths(self.InParams, self.OutParams)` -/
def pipeWidths (ins outs : List Param) : Nat × Nat × Nat × Nat := maxWidths [widths ins, widths outs]

/-- `Pipeline.format` up to and including `")\n{"` -/
def fmtPipeHead (id : Bytes) (ins outs : List Param) : Bytes :=
  sPipeline ++ [0x20] ++ id ++ [0x28, 0x0A] ++
    fmtParams (pipeWidths ins outs).1 (pipeWidths ins outs).2.1 (pipeWidths ins outs).2.2.1
      (pipeWidths ins outs).2.2.2 ins ++
    fmtParams (pipeWidths ins outs).1 (pipeWidths ins outs).2.1 (pipeWidths ins outs).2.2.1
      (pipeWidths ins outs).2.2.2 outs ++ [0x29, 0x0A, 0x7B]

/-- the text of the pipeline with its calls where they are -/
def fmtPipelineRaw (p : Pipeline) : Bytes := fmtPipeHead p.id p.ins p.outs ++ fmtBody p.body

/-- the statements as `Pipeline.format` prints them: calls in `topoSort` order -/
def sortBody (pid : Bytes) (b : Body) : Body := ⟨sortCalls pid b.calls, b.ret, b.retain⟩

/-- `Pipeline.format` -/
def fmtPipeline (p : Pipeline) : Bytes :=
  fmtPipeHead p.id p.ins p.outs ++ fmtBody (sortBody p.id p.body)

/-! ## reader -/

/-- `pipeline` at the head of a token sequence; the remaining tokens -/
def pPipeline (ts : List Tok) : Option (Pipeline × List Tok) :=
  match ts with
  | .reserved k :: .id x :: .punct 0x28 :: r =>
    if k = sPipeline then
      match pInParams (ts.length + 1) r with
      | some (ins, r1) =>
        match pOutParams (ts.length + 1) r1 with
        | some (outs, .punct 0x29 :: .punct 0x7B :: r2) =>
          match pBody r2 with
          | some (b, r3) => some (⟨x, ins, outs, b⟩, r3)
          | none => none
        | _ => none
      | none => none
    else none
  | _ => none

/-- a file that holds one pipeline declaration and nothing else -/
def parsePipeline (src : Bytes) : Option Pipeline :=
  (lexAll src).bind fun ts =>
    match pPipeline ts with
    | some (p, []) => some p
    | _ => none

/-! ## what reading a printed pipeline gives back; the pipelines the claim is made for -/

/-- calls in `topoSort` order, each in normal form; `return` in normal form -/
def normPipeline (p : Pipeline) : Pipeline :=
  ⟨p.id, p.ins, p.outs, normBody (sortBody p.id p.body)⟩

def distinctCallIds : List Call2 → Bool
  | [] => true
  | c :: r => !r.any (fun d => d.id == c.id) && distinctCallIds r

/-- what the parser builds from a file that compiles as far as `DuplicateCallError`: identifiers,
input parameters then output parameters, well-formed statements, distinct call ids -/
def wfPipeline (p : Pipeline) : Bool :=
  isIdent p.id && p.ins.all wfParam && p.ins.all (fun q => !q.out) && p.outs.all wfParam &&
    p.outs.all (fun q => q.out) && wfBody p.body && distinctCallIds p.body.calls

end Martian.FormatPipe
