/-
C09 model, part 2: the value-expression printer of martian/syntax/format_exp.go
and the reader of the same fragment (tokenizer.go `keywordToken`/`nextToken`,
lexer.go `Lex`, the `val_exp`/`exp`/`ref_exp` productions of grammar.y as used
by `Parser.ParseValExp`).

* `Exp`: the expression AST.  Go maps (`MapExp.Value`) are association lists
  in ascending key order (the order `sort.Strings` gives the printer; the
  harness hands them over sorted).  A `FloatExp` is represented by the text
  `strconv.AppendFloat(v, 'g', -1, 64)` prints for it (strconv is trusted: the
  model never computes with the value).  `RefExp.OutputId` is kept split at
  its dots.
* `fmt`: `Exp.format` as run by `FormatExp` (a `strings.Builder`, no comments),
  including the single-line rule for one-element arrays, the key alignment of
  struct literals and the indentation by `prefix + INDENT`.
* `nextLex`/`lexAll`: the tokenizer restricted to what can occur in a value
  expression: punctuation, strings (`tokStringRule`), numbers (the numeric
  branch, `Martian.Lexer.numTok`), identifiers and the keyword table, ASCII
  and Unicode white space (`leadingSpace`), `#` comments (`tokCommentRule`,
  which stops before an invalid UTF-8 sequence and before U+FFFD); and
  `@include` (INCLUDE_DIRECTIVE, used by `Martian.FormatFile` only: no
  production below the file level has it).  Any other byte ≥ 0x80 outside a
  string literal is INVALID, as in the real lexer.
* `pExp` …: a recursive-descent reader for `exp` (goyacc generates an LALR(1)
  automaton from grammar.y for the same language; tied by correspondence on
  generated and near-miss texts), `parseValExp` for the start symbol
  `val_exp`, `parseBindExp` for the right-hand side of a call binding
  (`exp` or `split …`).

Core Lean only.
-/
import Martian.Format

namespace Martian.FormatExp
open Martian.Lexer (Bytes isWord isDigit matchString numTok NumTok parseInt unquoteBytes)
open Martian.Format (quoteString)

/-! ## AST -/

inductive Exp
  | null
  | nilArr                                   -- `ArrayExp{Value: nil}`
  | bool (b : Bool)
  | int (i : Int)
  | float (tok : Bytes)                      -- the 'g' text of the value
  | str (s : Bytes)
  | arr (xs : List Exp)
  | map (kvs : List (Bytes × Exp))           -- `MapExp{Kind: KindMap}`
  | struct (kvs : List (Bytes × Exp))        -- `MapExp{Kind: KindStruct}`
  | ref (self : Bool) (id : Bytes) (out : List Bytes)
  deriving Repr, Inhabited

/-! ## printer -/

def sNull : Bytes := [0x6E, 0x75, 0x6C, 0x6C]
def sTrue : Bytes := [0x74, 0x72, 0x75, 0x65]
def sFalse : Bytes := [0x66, 0x61, 0x6C, 0x73, 0x65]
def sSelf : Bytes := [0x73, 0x65, 0x6C, 0x66]
def sDefault : Bytes := [0x64, 0x65, 0x66, 0x61, 0x75, 0x6C, 0x74]
def sSplit : Bytes := [0x73, 0x70, 0x6C, 0x69, 0x74]
def indent : Bytes := [0x20, 0x20, 0x20, 0x20]

/-- decimal digits of `n`, most significant first (`fuel > number of digits`) -/
def natDigits : Nat → Nat → Bytes
  | 0, _ => []
  | f + 1, n => if n < 10 then [UInt8.ofNat (48 + n)] else natDigits f (n / 10) ++ [UInt8.ofNat (48 + n % 10)]

def fmtNat (n : Nat) : Bytes := natDigits (n + 1) n

/-- `strconv.FormatInt(i, 10)` -/
def fmtInt (i : Int) : Bytes :=
  if i < 0 then 0x2D :: fmtNat i.natAbs else fmtNat i.toNat

mutual
/-- `singleLineFormat`: the printed form has no line break -/
def single : Exp → Bool
  | .arr xs => singleL xs
  | .map kvs => kvs.isEmpty
  | .struct kvs => kvs.isEmpty
  | _ => true
def singleL : List Exp → Bool
  | [] => true
  | [x] => single x
  | _ => false
end

/-- `maxKeyLen` of a struct literal: longest key among the fields printed on
one line -/
def maxKeyLen : List (Bytes × Exp) → Nat
  | [] => 0
  | (k, v) :: r => if single v then max k.length (maxKeyLen r) else maxKeyLen r

def spaces (n : Nat) : Bytes := List.replicate n 0x20

/-- `a.b.c` -/
def dotted : List Bytes → Bytes
  | [] => []
  | x :: r => 0x2E :: (x ++ dotted r)

def fmtRef (self : Bool) (id : Bytes) (out : List Bytes) : Bytes :=
  if self then
    if id = [] then sSelf else sSelf ++ 0x2E :: id ++ dotted out
  else id ++ dotted out

mutual
def fmt (p : Bytes) : Exp → Bytes
  | .null => sNull
  | .nilArr => sNull
  | .bool b => if b then sTrue else sFalse
  | .int i => fmtInt i
  | .float t => t
  | .str s => quoteString s
  | .arr [] => [0x5B, 0x5D]
  | .arr [x] =>
    if single x then 0x5B :: (fmt p x ++ [0x5D])
    else 0x5B :: 0x0A :: (p ++ indent ++ fmt (p ++ indent) x ++ [0x2C, 0x0A] ++ p ++ [0x5D])
  | .arr (x :: y :: r) =>
    0x5B :: 0x0A :: (fmtElems (p ++ indent) (x :: y :: r) ++ p ++ [0x5D])
  | .map [] => [0x7B, 0x7D]
  | .map (kv :: r) => 0x7B :: 0x0A :: (fmtKVs (p ++ indent) (kv :: r) ++ p ++ [0x7D])
  | .struct [] => [0x7B, 0x7D]
  | .struct (kv :: r) =>
    0x7B :: 0x0A :: (fmtFields (p ++ indent) (maxKeyLen (kv :: r)) (kv :: r) ++ p ++ [0x7D])
  | .ref self id out => fmtRef self id out
def fmtElems (vp : Bytes) : List Exp → Bytes
  | [] => []
  | x :: r => vp ++ fmt vp x ++ [0x2C, 0x0A] ++ fmtElems vp r
def fmtKVs (vp : Bytes) : List (Bytes × Exp) → Bytes
  | [] => []
  | (k, v) :: r => vp ++ quoteString k ++ [0x3A, 0x20] ++ fmt vp v ++ [0x2C, 0x0A] ++ fmtKVs vp r
def fmtFields (vp : Bytes) (w : Nat) : List (Bytes × Exp) → Bytes
  | [] => []
  | (k, v) :: r =>
    vp ++ k ++ [0x3A, 0x20] ++ (if single v then spaces (w - k.length) else []) ++ fmt vp v ++
      [0x2C, 0x0A] ++ fmtFields vp w r
end


/-! ## tokens -/

inductive Tok
  | punct (c : UInt8)        -- ( ) * , . : ; < = > [ ] { }
  | str (raw : Bytes)        -- LITSTRING, the text with its quotes
  | int (raw : Bytes)        -- NUM_INT
  | float (raw : Bytes)      -- NUM_FLOAT
  | id (raw : Bytes)         -- ID, or a keyword the grammar's `id` also accepts
  | kTrue | kFalse | kNull | kSelf | kDefault
  | reserved (raw : Bytes)   -- any other keyword
  deriving Repr, DecidableEq, Inhabited

inductive Lexeme
  | tok (t : Tok)
  | skip
  | invalid
  deriving Repr, DecidableEq

def isPunct (c : UInt8) : Bool :=
  c == 0x28 || c == 0x29 || c == 0x2A || c == 0x2C || c == 0x2E || c == 0x3A || c == 0x3B ||
  c == 0x3C || c == 0x3D || c == 0x3E || c == 0x5B || c == 0x5D || c == 0x7B || c == 0x7D

def isSp (c : UInt8) : Bool :=
  c == 0x09 || c == 0x0A || c == 0x0B || c == 0x0C || c == 0x0D || c == 0x20

def isAlpha (c : UInt8) : Bool := (0x41 ≤ c && c ≤ 0x5A) || (0x61 ≤ c && c ≤ 0x7A)

/-- the keyword table of `keywordToken` (tokenizer.go): text ↦ token, in the
order of the source (`Gen.tokKeywords` is re-read from the source on every run
and must equal it, Props/C09.lean):
as bool call comp default disabled exec false filetype float in int local map mem_gb memgb null out path pipeline preflight py retain return self special split src stage strict string struct threads true using volatile vmem_gb vmemgb -/
def keywordTable : List (Bytes × String) :=
  [([0x61, 0x73], "AS"),
   ([0x62, 0x6F, 0x6F, 0x6C], "BOOL"),
   ([0x63, 0x61, 0x6C, 0x6C], "CALL"),
   ([0x63, 0x6F, 0x6D, 0x70], "COMPILED"),
   ([0x64, 0x65, 0x66, 0x61, 0x75, 0x6C, 0x74], "DEFAULT"),
   ([0x64, 0x69, 0x73, 0x61, 0x62, 0x6C, 0x65, 0x64], "DISABLED"),
   ([0x65, 0x78, 0x65, 0x63], "EXEC"),
   ([0x66, 0x61, 0x6C, 0x73, 0x65], "FALSE"),
   ([0x66, 0x69, 0x6C, 0x65, 0x74, 0x79, 0x70, 0x65], "FILETYPE"),
   ([0x66, 0x6C, 0x6F, 0x61, 0x74], "FLOAT"),
   ([0x69, 0x6E], "IN"),
   ([0x69, 0x6E, 0x74], "INT"),
   ([0x6C, 0x6F, 0x63, 0x61, 0x6C], "LOCAL"),
   ([0x6D, 0x61, 0x70], "MAP"),
   ([0x6D, 0x65, 0x6D, 0x5F, 0x67, 0x62], "MEM_GB"),
   ([0x6D, 0x65, 0x6D, 0x67, 0x62], "MEM_GB"),
   ([0x6E, 0x75, 0x6C, 0x6C], "NULL"),
   ([0x6F, 0x75, 0x74], "OUT"),
   ([0x70, 0x61, 0x74, 0x68], "PATH"),
   ([0x70, 0x69, 0x70, 0x65, 0x6C, 0x69, 0x6E, 0x65], "PIPELINE"),
   ([0x70, 0x72, 0x65, 0x66, 0x6C, 0x69, 0x67, 0x68, 0x74], "PREFLIGHT"),
   ([0x70, 0x79], "PY"),
   ([0x72, 0x65, 0x74, 0x61, 0x69, 0x6E], "RETAIN"),
   ([0x72, 0x65, 0x74, 0x75, 0x72, 0x6E], "RETURN"),
   ([0x73, 0x65, 0x6C, 0x66], "SELF"),
   ([0x73, 0x70, 0x65, 0x63, 0x69, 0x61, 0x6C], "SPECIAL"),
   ([0x73, 0x70, 0x6C, 0x69, 0x74], "SPLIT"),
   ([0x73, 0x72, 0x63], "SRC"),
   ([0x73, 0x74, 0x61, 0x67, 0x65], "STAGE"),
   ([0x73, 0x74, 0x72, 0x69, 0x63, 0x74], "STRICT"),
   ([0x73, 0x74, 0x72, 0x69, 0x6E, 0x67], "STRING"),
   ([0x73, 0x74, 0x72, 0x75, 0x63, 0x74], "STRUCT"),
   ([0x74, 0x68, 0x72, 0x65, 0x61, 0x64, 0x73], "THREADS"),
   ([0x74, 0x72, 0x75, 0x65], "TRUE"),
   ([0x75, 0x73, 0x69, 0x6E, 0x67], "USING"),
   ([0x76, 0x6F, 0x6C, 0x61, 0x74, 0x69, 0x6C, 0x65], "VOLATILE"),
   ([0x76, 0x6D, 0x65, 0x6D, 0x5F, 0x67, 0x62], "VMEM_GB"),
   ([0x76, 0x6D, 0x65, 0x6D, 0x67, 0x62], "VMEM_GB")]

/-- the tokens the grammar's `id` production accepts besides `ID` (grammar.y;
`Gen.idTokens`) -/
def idTokens : List String :=
  ["COMPILED", "DISABLED", "EXEC", "FILETYPE", "LOCAL", "MEM_GB", "VMEM_GB", "PREFLIGHT", "RETAIN",
   "SPECIAL", "SPLIT", "STRICT", "STRUCT", "THREADS", "USING", "VOLATILE"]

def lookupKw (w : Bytes) : List (Bytes × String) → Option String
  | [] => none
  | (k, t) :: r => if w = k then some t else lookupKw w r

/-- the token for a maximal run `w` of word characters starting with `_` or a
letter: a keyword when the whole run is one (`bytesPrefixString`), else what
`tokIdRule` (`^_?[[:alpha:]]\\w*\\b`) makes of it -/
def wordLexeme (w : Bytes) : Lexeme :=
  match lookupKw w keywordTable with
  | some t =>
    if t == "TRUE" then .tok .kTrue
    else if t == "FALSE" then .tok .kFalse
    else if t == "NULL" then .tok .kNull
    else if t == "SELF" then .tok .kSelf
    else if t == "DEFAULT" then .tok .kDefault
    else if idTokens.contains t then .tok (.id w)
    else .tok (.reserved w)
  | none =>
    match w with
    | c :: d :: _ => if isAlpha c || (c == 0x5F && isAlpha d) then .tok (.id w) else .invalid
    | [c] => if isAlpha c then .tok (.id w) else .invalid
    | [] => .invalid

/-- `tokCommentRule` after the `#`: the comment goes on rune by rune up to and
including the end of the line, and STOPS (the byte is not consumed) before a
byte sequence `utf8.DecodeRune` reports as `RuneError` — an invalid sequence,
and also a well-formed U+FFFD (`EF BF BD`), which decodes to the same value.
(What follows is then lexed on its own: a byte ≥ 0x80 that is not white space
is INVALID.)  `fuel` ≥ length. -/
def commentFrom : Nat → Bytes → Nat
  | 0, _ => 0
  | _ + 1, [] => 0
  | f + 1, c :: r =>
    if c == 0x0A then 1
    else if c < 0x80 then commentFrom f r + 1
    else match Martian.ShellQuote.runeWidth (c :: r) with
      | some w =>
        if c == 0xEF && r.take 2 == [0xBF, 0xBD] then 0
        else commentFrom f (r.drop (w - 1)) + w
      | none => 0

/-- a `#` comment (the input starts with `#`) -/
def commentLen : Bytes → Nat
  | [] => 0
  | _ :: r => commentFrom (r.length + 1) r + 1

/-- the non-ASCII runes of `unicode.IsSpace` (U+0085, U+00A0, U+1680,
U+2000–U+200A, U+2028, U+2029, U+202F, U+205F, U+3000): the length of the one
at the head of the input, 0 if there is none (`leadingSpace`) -/
def uniSpaceLen : Bytes → Nat
  | c :: x :: r =>
    if c == 0xC2 && (x == 0x85 || x == 0xA0) then 2
    else match r with
      | y :: _ =>
        if (c == 0xE1 && x == 0x9A && y == 0x80) ||
           (c == 0xE2 && x == 0x80 && ((0x80 ≤ y && y ≤ 0x8A) || y == 0xA8 || y == 0xA9 || y == 0xAF)) ||
           (c == 0xE2 && x == 0x81 && y == 0x9F) ||
           (c == 0xE3 && x == 0x80 && y == 0x80) then 3 else 0
      | [] => 0
  | _ => 0

/-- `include` -/
def sIncludeWord : Bytes := [0x69, 0x6E, 0x63, 0x6C, 0x75, 0x64, 0x65]
/-- `@include`: the text of the token INCLUDE_DIRECTIVE (a `.reserved` token: no word of the
keyword table starts with `@`) -/
def sAtInclude : Bytes := 0x40 :: sIncludeWord

/-- `nextToken`: the lexeme at the head of a non-empty input and its length -/
def nextLex (b : Bytes) : Lexeme × Nat :=
  match b with
  | [] => (.invalid, 0)
  | c :: r =>
    if isPunct c then (.tok (.punct c), 1)
    else if isSp c then (.skip, 1)
    else if c == 0x23 then (.skip, commentLen (c :: r))
    else if c == 0x22 then
      match matchString b with
      | some t => (.tok (.str t), t.length)
      | none => (.invalid, 0)
    else if isDigit c || c == 0x2D then
      match numTok false b with
      | .float t => (.tok (.float t), t.length)
      | .int t => (.tok (.int t), t.length)
      | _ => (.invalid, 0)
    else if isAlpha c || c == 0x5F then
      let w := b.takeWhile isWord
      (wordLexeme w, w.length)
    else if c == 0x40 then
      -- `case '@'`: `bytesPrefixString(b, "@include")`, the token INCLUDE_DIRECTIVE
      if r.take 7 == sIncludeWord && !(r.drop 7).head?.any isWord then (.tok (.reserved sAtInclude), 8)
      else (.invalid, 0)
    else if 0x80 ≤ c && uniSpaceLen b ≠ 0 then (.skip, uniSpaceLen b)   -- Unicode white space
    else (.invalid, 0)

/-- `Lex` until the end of the input: the token sequence the parser is fed, or
`none` when some token is INVALID -/
def lexAll : Bytes → Option (List Tok)
  | [] => some []
  | c :: r =>
    match nextLex (c :: r) with
    | (.tok k, n) => (lexAll (r.drop (n - 1))).map (k :: ·)
    | (.skip, n) => lexAll (r.drop (n - 1))
    | (.invalid, _) => none
termination_by b => b.length
decreasing_by all_goals (simp only [List.length_drop, List.length_cons]; omega)

/-! ## reader -/

def bytesLt : Bytes → Bytes → Bool
  | _, [] => false
  | [], _ :: _ => true
  | a :: as, b :: bs => a < b || (a == b && bytesLt as bs)

/-- `m[k] = v` on a map kept in ascending key order -/
def insertKV (k : Bytes) (v : Exp) : List (Bytes × Exp) → List (Bytes × Exp)
  | [] => [(k, v)]
  | (k', v') :: r =>
    if bytesLt k k' then (k, v) :: (k', v') :: r
    else if k = k' then (k, v) :: r
    else (k', v') :: insertKV k v r

def mkMap (kvs : List (Bytes × Exp)) : List (Bytes × Exp) :=
  kvs.foldl (fun m kv => insertKV kv.1 kv.2 m) []

/-- `id_list` continued: `('.' id)*`; a dot must be followed by an `id` -/
def pDots : Nat → List Tok → Option (List Bytes × List Tok)
  | 0, _ => none
  | f + 1, .punct 0x2E :: .id x :: r => (pDots f r).map fun (xs, r') => (x :: xs, r')
  | _ + 1, .punct 0x2E :: _ => none
  | _ + 1, r => some ([], r)

/-- `ref_exp` after its first `id` -/
def pRefCall (f : Nat) (x : Bytes) : List Tok → Option (Exp × List Tok)
  | .punct 0x2E :: .kDefault :: r => some (.ref false x [sDefault], r)
  | r => (pDots f r).map fun (xs, r') => (.ref false x xs, r')

/-- after an item of a bracketed list closed by `close`: a comma followed by
more items (`true`), or the end of the list (an optional trailing comma is
consumed; `false`).  LALR(1): after `,` the next token decides. -/
def afterItem (close : UInt8) : List Tok → Bool × List Tok
  | .punct 0x2C :: .punct c :: r => if c == close then (false, .punct c :: r) else (true, .punct c :: r)
  | .punct 0x2C :: r => (true, r)
  | r => (false, r)

mutual
/-- `exp` -/
def pExp : Nat → List Tok → Option (Exp × List Tok)
  | 0, _ => none
  | _ + 1, .float t :: r => some (.float t, r)
  | _ + 1, .int t :: r => (parseInt t).map fun i => (.int i, r)
  | _ + 1, .str t :: r => (unquoteBytes t).map fun s => (.str s, r)
  | _ + 1, .kTrue :: r => some (.bool true, r)
  | _ + 1, .kFalse :: r => some (.bool false, r)
  | _ + 1, .kNull :: r => some (.null, r)
  | _ + 1, .punct 0x5B :: .punct 0x5D :: r => some (.arr [], r)
  | f + 1, .punct 0x5B :: r =>
    match pElems f r with
    | some (xs, .punct 0x5D :: r') => some (.arr xs, r')
    | _ => none
  | _ + 1, .punct 0x7B :: .punct 0x7D :: r => some (.map [], r)
  | f + 1, .punct 0x7B :: .str k :: r =>
    match pKVs f (.str k :: r) with
    | some (kvs, .punct 0x7D :: r') => some (.map (mkMap kvs), r')
    | _ => none
  | f + 1, .punct 0x7B :: .id k :: r =>
    match pFields f (.id k :: r) with
    | some (kvs, .punct 0x7D :: r') => some (.struct (mkMap kvs), r')
    | _ => none
  | f + 1, .id x :: r => pRefCall f x r
  | f + 1, .kSelf :: .punct 0x2E :: .id x :: r =>
    (pDots f r).map fun (xs, r') => (.ref true x xs, r')
  | _ + 1, _ => none
/-- `exp_list`: `exp (',' exp)* ','?`, read up to the closing bracket -/
def pElems : Nat → List Tok → Option (List Exp × List Tok)
  | 0, _ => none
  | f + 1, ts =>
    match pExp f ts with
    | some (e, r) =>
      match afterItem 0x5D r with
      | (true, r') => (pElems f r').map fun (es, r'') => (e :: es, r'')
      | (false, r') => some ([e], r')
    | none => none
/-- `kvpair_list` -/
def pKVs : Nat → List Tok → Option (List (Bytes × Exp) × List Tok)
  | 0, _ => none
  | f + 1, .str k :: .punct 0x3A :: ts =>
    match unquoteBytes k, pExp f ts with
    | some key, some (e, r) =>
      match afterItem 0x7D r with
      | (true, r') => (pKVs f r').map fun (es, r'') => ((key, e) :: es, r'')
      | (false, r') => some ([(key, e)], r')
    | _, _ => none
  | _ + 1, _ => none
/-- `struct_vals_list` -/
def pFields : Nat → List Tok → Option (List (Bytes × Exp) × List Tok)
  | 0, _ => none
  | f + 1, .id k :: .punct 0x3A :: ts =>
    match pExp f ts with
    | some (e, r) =>
      match afterItem 0x7D r with
      | (true, r') => (pFields f r').map fun (es, r'') => ((k, e) :: es, r'')
      | (false, r') => some ([(k, e)], r')
    | none => none
  | _ + 1, _ => none
end

/-- is the expression a `val_exp` (the start symbol `ParseValExp` accepts)? -/
def isVal : Exp → Bool
  | .ref .. => false
  | _ => true

/-- `Parser.ParseValExp` on a token sequence (the fuel `2·length + 1` is never
exhausted by the token sequence of a printed expression: `cost_le`) -/
def parseToks (ts : List Tok) : Option Exp :=
  match pExp (2 * ts.length + 1) ts with
  | some (e, []) => if isVal e then some e else none
  | _ => none

/-- `Parser.ParseValExp` -/
def parseValExp (src : Bytes) : Option Exp := (lexAll src).bind parseToks

/-! ## what reading a printed expression gives back -/

/-- does the text lex as one NUM_FLOAT token? -/
def isFloatTok (t : Bytes) : Bool := numTok false t == .float t

mutual
/-- the documented normalisations: a nil array prints as `null`; a float whose
'g' text has neither fraction nor exponent reads back as an integer; an empty
struct literal prints as `{}`, which the grammar reads as an empty map -/
def norm : Exp → Exp
  | .nilArr => .null
  | .float t => if isFloatTok t then .float t else
      match parseInt t with
      | some i => .int i
      | none => .float t
  | .arr xs => .arr (normL xs)
  | .map kvs => .map (normKV kvs)
  | .struct [] => .map []
  | .struct (kv :: r) => .struct (normKV (kv :: r))
  | e => e
def normL : List Exp → List Exp
  | [] => []
  | x :: r => norm x :: normL r
def normKV : List (Bytes × Exp) → List (Bytes × Exp)
  | [] => []
  | (k, v) :: r => (k, norm v) :: normKV r
end


/-! ## the expressions for which the round trip is claimed -/

/-- an identifier: a run of word characters which the tokenizer returns as an
`id` token (not `true`, `int`, `self`, …; `split`, `struct`, … are fine) -/
def isIdent (w : Bytes) : Bool := w.all isWord && wordLexeme w == .tok (.id w)

/-- keys in strictly ascending order (what a Go map printed through
`sort.Strings` looks like), stated pairwise -/
def sortedKeys : List (Bytes × Exp) → Bool
  | [] => true
  | (k, _) :: r => r.all (fun kv => bytesLt k kv.1) && sortedKeys r

def inInt64 (v : Int) : Bool := decide (-(9223372036854775808 : Int) ≤ v) && decide (v < 9223372036854775808)

/-- the text is what `strconv.FormatInt` prints for the number it denotes
(no `+`, no leading zeros, no `-0`) -/
def isCanonInt (t : Bytes) : Bool :=
  match parseInt t with
  | some i => fmtInt i == t && inInt64 i
  | none => false

mutual
/-- well-formed: every string is valid UTF-8; integers fit `int64`; a float's
text is a NUM_FLOAT token or a canonical integer (strconv 'g' with shortest digits prints an
integral float of magnitude below 1e6 without exponent or fraction, e.g. `100000`, and from 1e6 on
with an exponent, `1e+06`, which is a NUM_FLOAT token; `-0` is not canonical: F26);
map keys ascending; struct keys and reference components are identifiers; a
reference names a call output (`X`, `X.a.b`, `X.default`) or a parameter
(`self.x`, `self.x.a`) -/
def wf : Exp → Bool
  | .null => true
  | .nilArr => true
  | .bool _ => true
  | .int i => inInt64 i
  | .float t => isFloatTok t || isCanonInt t
  | .str s => Martian.ShellQuote.validUtf8 s
  | .arr xs => wfL xs
  | .map kvs => sortedKeys kvs && wfKV false kvs
  | .struct kvs => sortedKeys kvs && wfKV true kvs
  | .ref self id out =>
    isIdent id && ((!self && out == [sDefault]) || out.all isIdent)
def wfL : List Exp → Bool
  | [] => true
  | x :: r => wf x && wfL r
def wfKV (struct : Bool) : List (Bytes × Exp) → Bool
  | [] => true
  | (k, v) :: r =>
    (if struct then isIdent k else Martian.ShellQuote.validUtf8 k) && wf v && wfKV struct r
end

end Martian.FormatExp
