/-
C11: the predicates and auxiliary functions that occur in the STATEMENTS of
Props/C11.lean (hypotheses of the theorems, obligations on regenerated tables,
negative-witness helpers).  They are part of the specification, so they live
with the model; the lemmas about them are in Proofs/ForkName*.lean.
Core Lean only.
-/
import Martian.ForkName
import Martian.ForkNameBatch
import Martian.ForkNameSet

namespace Martian.ForkName

/-- the replacer covers `.` and `/` and no replacement contains either -/
def TableOK (pairs : Pairs) : Bool :=
  (lookup pairs cDot).isSome && (lookup pairs cSlash).isSome &&
  pairs.all (fun p => !p.2.contains cDot && !p.2.contains cSlash)

/-- the replacer is a percent-encoding that also encodes `%` itself -/
def TablePct (pairs : Pairs) : Bool :=
  pairs.all (fun p => p.2 == pctEncode p.1) && (lookup pairs cPct).isSome

def seg (k : Bytes) : Bytes := sForkU ++ pathEscape k

/-- the id string of a nest of map parts: `fork_<k1>/fork_<k2>/…` -/
def mapsId : List Bytes → Bytes
  | [] => []
  | [k] => seg k
  | k :: k2 :: rest => seg k ++ cSlash :: mapsId (k2 :: rest)

/-- no suffix starts with `.fork` -/
def noDotFork : Bytes → Bool
  | [] => true
  | c :: r => !startsWith sDotFork (c :: r) && noDotFork r

/-- what `fileOK` demands of the metadata file name (with its prefix): reading
on from the dot in front of it, no `.fork` follows and it can be taken neither
for a chunk suffix nor for a uniquifier -/
def fileOK (file : Bytes) : Bool :=
  noDotFork (cDot :: file) && (takeChunk (cDot :: file)).1.isNone && (takeUniq (cDot :: file)).1.isNone

structure WellFormed (x : JName) : Prop where
  fork_ne : x.forkPart ≠ []
  fork_dotfree : ∀ c ∈ x.forkPart, c ≠ cDot
  chunk_ok : ∀ d, x.chunk = some d → d ≠ [] ∧ ∀ c ∈ d, isDigit c = true
  uniq_ok : ∀ u, x.uniq = some u → u.length = 10 ∧ u.all isLowerHex = true
  file_ok : fileOK x.file = true

/-- a resolved part whose index / key is in range -/
def partValid : Part → Bool
  | .arr i len _ => decide (i < len)
  | .key k keys _ => keys.contains k
  | _ => false

/-- a part that contributes nothing to the id: unresolved, or with an empty range -/
def partSkip : Part → Bool
  | .undet => true
  | .empty => true
  | .arr _ len _ => len == 0
  | .key _ keys _ => keys.isEmpty

def partOk (p : Part) : Bool := partValid p || partSkip p

/-- same call structure: same kind, same length / key set, same static-ness
(and, for a part with an empty range, the same irrelevant payload) -/
def sameShapeP : Part → Part → Bool
  | .arr i l s, .arr i' l' s' => l == l' && s == s' && (l != 0 || i == i')
  | .key k ks s, .key k' ks' s' => ks == ks' && s == s' && (!ks.isEmpty || k == k')
  | .undet, .undet => true
  | .empty, .empty => true
  | _, _ => false

def sameShape : List Part → List Part → Bool
  | [], [] => true
  | p :: ps, q :: qs => sameShapeP p q && sameShape ps qs
  | _, _ => false

/-- the same call, a different (valid) index / key -/
def diverge : Part → Part → Bool
  | .arr i l s, .arr i' l' s' => l == l' && s == s' && i != i' && decide (i < l) && decide (i' < l)
  | .key k ks s, .key k' ks' s' => ks == ks' && s == s' && k != k' && ks.contains k && ks.contains k'
  | _, _ => false

/-- what must hold of a job record for its slot -/
def slotValid (nchunks : Nat) (r : JobRec) : Prop :=
  match r.slot with
  | .chunk i => i < nchunks ∧ fileOK r.file = true
  | .split => fileOK (sSplitU ++ r.file) = true
  | .join => fileOK (sJoinU ++ r.file) = true
  | .own => fileOK r.file = true ∧ startsWith sSplitU r.file = false ∧ startsWith sJoinU r.file = false

/-- a job record of a tree -/
structure ValidJob (top : Bytes) (nodes : List NodeM) (nch : Nat → Nat → Nat) (r : JobRec) : Prop where
  node_ok : ∃ nd, nodes[r.node]? = some nd ∧ nd.fqid = top ++ cDot :: r.path ∧ nd.forks.Nodup ∧
    nd.forks[r.fork]? = some r.forkName
  path_ne : r.path ≠ []
  path_free : ∀ m ∈ nodes, m.fqid ≠ r.path
  fork_ne : r.forkName ≠ []
  fork_dotfree : ∀ c ∈ r.forkName, c ≠ cDot
  uniq_ok : ∀ u, r.uniq = some u → u.length = 10 ∧ u.all isLowerHex = true
  slot_ok : slotValid (nch r.node r.fork) r

/-- is the record's uniquifier the owner's current one -/
def JobRec.current (uq : Owner → Bytes) (r : JobRec) : Bool := cacheAccepts (uq r.owner) (r.uniq.getD [])

def srcOk : Src → Prop
  | .keys ks => ks.Nodup
  | _ => True

end Martian.ForkName
