/-
C16: from the BYTES of an invocation JSON value to the tree `Martian.Invocation.J`.

`Martian.Invocation.J` holds a float as the exact value of a float64 and an integer-syntax number
as an exact integer; how a decimal token becomes either was outside the model (audit C16-M5).
Here it is inside: `JsonBytes.parseTop` (byte-level grammar of encoding/json) gives the numeral as
written, `litOfNum` applies what the code applies to it – an integer-syntax token is an exact
integer (`IntExp` via `parseInt`; it must fit int64 to convert: `litOk`), any other token is the
float64 `strconv.ParseFloat` rounds it to (`Num.round64`, Martian/Json.lean), brought to the
canonical form `m` odd – and `ofJson` lifts this over the tree.  `treeOfBytes` is the composition.

Core Lean only.
-/
import Martian.Invocation
import Martian.JsonBytes

namespace Martian.InvocationJson
open Martian.Invocation
open Martian.Json (Num)

/-- strip the factors of two of the mantissa (`fuel` ≥ number of bits) -/
def stripTwos : Nat → Nat → Int → Nat × Int
  | 0, m, e => (m, e)
  | f + 1, m, e => if m ≠ 0 ∧ m % 2 = 0 then stripTwos f (m / 2) (e + 1) else (m, e)

/-- the float64 a rounded numeral is, in canonical form (`none`: out of range, `ParseFloat` fails);
the sign of a zero is not part of `Num` (known finding C16-N5 is about exactly that sign) -/
def fltOfF64 : Num.F64 → Option Flt
  | .inf => none
  | .fin neg m s =>
    if m = 0 then some ⟨false, 0, 0⟩
    else some ⟨neg, (stripTwos 64 m s).1, (stripTwos 64 m s).2⟩

def litOfNum : Num → Option Lit
  | .int v => some (.int v)
  | .flt m e => (fltOfF64 (Num.round64 m e)).map .flt

mutual
def ofJson : Martian.Json.J → Option J
  | .null => some (.lit .null)
  | .bool b => some (.lit (.bool b))
  | .num n => (litOfNum n).map .lit
  | .str s => some (.lit (.str s))
  | .arr xs => (ofJsonList xs).map .arr
  | .obj kvs => (ofJsonKvs kvs).map .obj
def ofJsonList : List Martian.Json.J → Option JList
  | [] => some .nil
  | x :: r =>
    match ofJson x, ofJsonList r with
    | some j, some js => some (.cons j js)
    | _, _ => none
def ofJsonKvs : List (Martian.Json.Bytes × Martian.Json.J) → Option JKvs
  | [] => some .nil
  | (k, v) :: r =>
    match ofJson v, ofJsonKvs r with
    | some j, some js => some (.cons k j js)
    | _, _ => none
end

/-- the invocation tree of the bytes of a JSON value (members in source order, duplicates kept) -/
def treeOfBytes (b : Martian.Lexer.Bytes) : Option J := (Martian.JsonBytes.parseTop b).bind ofJson

end Martian.InvocationJson
