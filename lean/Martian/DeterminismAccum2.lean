/-
C10 model, third part: loops over a Go map whose effect is NOT an error list.

* `STree` / `STree.walk` - `findSplitCalls` (resolve_stage.go): a walk over an
  expression that INSERTS calls into a set (split expressions, fork indices of
  references) and, after descending into a merge expression, DELETES the merged
  call if it was not in the set before the descent.  Inserts and deletes do not
  commute in general; `STree.free` is the closed form (`walk t S = S ∪ free t`)
  that shows why this particular use does.  Collections (map literals - a Go map
  in arbitrary order -, array literals, the inputs of a call in
  `CallGraphStage.resolveForks`) are cons-spines.
* `callModeIn` / `callMode` - the fold of the element modes in
  `SplitExp.CallMode` (split_expression.go), over the entries as given / over
  the sorted keys (the code as it is now).  The fold is NOT symmetric.
* `insertKeyed` - "insert vf(p) under the computed key kf(p) for every entry"
  (`Parser.FixIncludes`: incLookup / optionalLookup);
* `eraseAll`    - "delete every collected key" (`getRequiredIncludes`).

Core Lean only.
-/
import Martian.DeterminismAccum

namespace Martian.Determinism
open Martian.SortKeys

/-! ### findSplitCalls -/

inductive STree
  /-- a reference: every call it is indexed by (through an index with a source) is inserted -/
  | leaf (cs : List Key)
  /-- a split over call `c`; `ins` = `!onlyUnknown || !source.KnownLength()` -/
  | split (c : Key) (ins : Bool) (inner : STree)
  /-- a merge over call `c` -/
  | merge (c : Key) (v : STree)
  | nil
  /-- a collection: walk `h`, then the rest -/
  | cons (h t : STree)
  deriving Repr

/-- `result[c] = struct{}{}` -/
def setInsert (S : List Key) (c : Key) : List Key := if S.contains c then S else c :: S

/-- `findSplitCalls(exp, result, onlyUnknown)` -/
def STree.walk : STree → List Key → List Key
  | .leaf cs, S => cs.foldl setInsert S
  | .split c ins inner, S => inner.walk (if ins then setInsert S c else S)
  | .merge c v, S => if S.contains c then v.walk S else (v.walk S).filter (· != c)
  | .nil, S => S
  | .cons h t, S => t.walk (h.walk S)

/-- the calls an expression is split over outside every merge over them -/
def STree.free : STree → List Key
  | .leaf cs => cs
  | .split c ins inner => (if ins then [c] else []) ++ inner.free
  | .merge c v => v.free.filter (· != c)
  | .nil => []
  | .cons h t => h.free ++ t.free

/-- "the same expression, with the entries of any collection at any depth
visited in another order" -/
inductive STree.Reorder : STree → STree → Prop
  | refl (t) : Reorder t t
  | swap (a b r) : Reorder (.cons a (.cons b r)) (.cons b (.cons a r))
  | cons {h h' t t'} : Reorder h h' → Reorder t t' → Reorder (.cons h t) (.cons h' t')
  | split (c ins) {v v'} : Reorder v v' → Reorder (.split c ins v) (.split c ins v')
  | merge (c) {v v'} : Reorder v v' → Reorder (.merge c v) (.merge c v')
  | trans {a b c} : Reorder a b → Reorder b c → Reorder a c

/-! ### SplitExp.CallMode -/

inductive Mode
  | single | array | map | null | unknown
  deriving DecidableEq, Repr

/-- the fold state: `inner == -1`, `inner == m`, or "returned ModeUnknownMapCall" -/
inductive CMState
  | start | cur (m : Mode) | ret
  deriving DecidableEq, Repr

/-- one element: `none` = not a `MapCallSource`, `some m` = a source of mode `m` -/
def cmStep : CMState → Option Mode → CMState
  | .ret, _ => .ret
  | .start, none => .cur .single
  | .cur .single, none => .cur .single
  | .cur _, none => .ret
  | .start, some m => .cur m
  | .cur i, some m =>
    if i = m then .cur i
    else if i = .unknown ∨ i = .null then .cur m
    else if m ≠ .unknown ∧ m ≠ .null then .ret
    else .cur i

def CMState.result : CMState → Mode
  | .start => .null
  | .cur m => m
  | .ret => .unknown

/-- the fold over the entries in the order given (a `range` over the Go map) -/
def callModeIn {K : Type} (l : List (K × Option Mode)) : Mode :=
  if l.isEmpty then .null else (l.foldl (fun s p => cmStep s p.2) .start).result

/-- the fold as the code is now: over the sorted keys -/
def callMode (l : List (Key × Option Mode)) : Mode := callModeIn (sortK l)

/-! ### computed keys, deletes -/

/-- `for _, p := range m { res[kf(p)] = vf(p) }` -/
def insertKeyed {α V : Type} (kf : α → Key) (vf : α → V) (l : List α) : List (Key × V) :=
  l.foldl (fun m p => insertKV m (kf p) (vf p)) []

/-- `delete(m, k)` -/
def eraseKey {V : Type} (m : List (Key × V)) (k : Key) : List (Key × V) := m.filter (·.1 != k)

/-- `for _, k := range ks { delete(m, k) }` -/
def eraseAll {V : Type} (m : List (Key × V)) (ks : List Key) : List (Key × V) := ks.foldl eraseKey m

end Martian.Determinism
