/-
C12 model, part 2: the local job manager as a system of nested semaphores.

`LocalJobManager.Enqueue` (martian/core/jobmanager_local.go) runs, for every
job, in its own goroutine: Acquire on the semaphores in one fixed order
(cores → memory → vmem → processes; regenerated fact `Gen.localAcquireOrder`),
holding what it has while it waits; an Acquire error makes the goroutine return
(the deferred releases of what it already holds run); then the job process
runs; then the deferred releases run in reverse order.  Every release hands
back the amount that was acquired (the same local variable), i.e. the client
protocol of `gstep`.

One `Sys.act y j` is the next semaphore call (or the "job process ends" event)
of job `j`; a schedule is a list of job ids.  Availability updates are not part
of this model: `curSize = maxSize` throughout ("availability restored").
-/
import Martian.Semaphore

namespace Martian.Semaphore

/-- Where a job's goroutine is. `acq s w`: holds semaphores `0..s-1` and is
about to call (`w = false`) or is blocked in (`w = true`) `Acquire` on
semaphore `s`; with `s` = number of semaphores the job process runs.
`rel r`: the goroutine is returning, still holds `0..r-1`; `rel 0` = over. -/
inductive Phase
  | acq (s : Nat) (waiting : Bool)
  | rel (r : Nat)
deriving Repr, DecidableEq

structure LJob where
  id : Nat
  amts : List Int      -- amount per semaphore, in acquisition order
  ph : Phase
  failed : Bool        -- an Acquire returned the "Tried to acquire …" error
  ran : Bool           -- the job process ran (all semaphores were held)
deriving Repr, DecidableEq

structure Sys where
  gs : List G          -- the semaphores, in acquisition order, with their ghost holders
  jobs : List LJob
deriving Repr, DecidableEq

def Phase.holds : Phase → Nat → Bool
  | .acq s _, i => decide (i < s)
  | .rel r, i => decide (i < r)

def hasReject : List Ev → Bool
  | [] => false
  | .reject .. :: _ => true
  | _ :: es => hasReject es

def hidG (g : G) : List Nat := g.held.map Prod.fst
def widG (g : G) : List Nat := g.sem.waiters.map Prod.fst

/-- phase after `Acquire` on semaphore `s` returned / blocked -/
def acqPhase (s : Nat) (evs : List Ev) : Phase :=
  if (grantsOf evs).isEmpty = false then .acq (s + 1) false
  else if hasReject evs then .rel s
  else .acq s true

/-- The next action of job `j` (nothing when it is blocked, over or unknown). -/
def Sys.act (y : Sys) (j : Nat) : Sys :=
  match y.jobs.find? (fun b => b.id == j) with
  | none => y
  | some b =>
    match b.ph with
    | .acq _ true => y
    | .rel 0 => y
    | .acq s false =>
      match y.gs[s]? with
      | none =>
        -- all semaphores held: the job process runs and ends; the deferred releases start
        { y with jobs := y.jobs.map fun c => if c.id = j then { c with ph := .rel s, ran := true } else c }
      | some g =>
        let r := gstep g (.acquire j (b.amts.getD s 0))
        { gs := y.gs.set s r.1,
          jobs := y.jobs.map fun c =>
            if c.id = j then { c with ph := acqPhase s r.2, failed := c.failed || hasReject r.2 } else c }
    | .rel (r + 1) =>
      match y.gs[r]? with
      | none => { y with jobs := y.jobs.map fun c => if c.id = j then { c with ph := .rel r } else c }
      | some g =>
        let q := gstep g (.release j)
        let granted := (grantsOf q.2).map Prod.fst
        { gs := y.gs.set r q.1,
          jobs := y.jobs.map fun c =>
            if c.id = j then { c with ph := .rel r }
            else if c.id ∈ granted then { c with ph := .acq (r + 1) false } else c }

def Sys.runSched : Sys → List Nat → Sys
  | y, [] => y
  | y, j :: js => Sys.runSched (y.act j) js

/-- job `j` can act -/
def LJob.enabled (b : LJob) : Bool :=
  match b.ph with
  | .acq _ w => !w
  | .rel r => r != 0

def Sys.enabledId (y : Sys) (j : Nat) : Bool :=
  match y.jobs.find? (fun b => b.id == j) with
  | none => false
  | some b => b.enabled

/-- every step of the schedule is a step of a job that can act -/
def Sys.EnabledSched : Sys → List Nat → Prop
  | _, [] => True
  | y, j :: js => y.enabledId j = true ∧ Sys.EnabledSched (y.act j) js

def Sys.allOver (y : Sys) : Bool := y.jobs.all fun b => b.ph == .rel 0

/-- ranking: an upper bound on the number of actions the job still performs -/
def phaseRank (k : Nat) : Phase → Nat
  | .acq s false => 2 * (k - s) + 1 + k
  | .acq s true => 2 * (k - s) + k
  | .rel r => r

def Sys.rank (y : Sys) : Nat := (y.jobs.map fun b => phaseRank y.gs.length b.ph).sum

/-- fresh system: semaphores of the given sizes, jobs (id, amounts) not started -/
def Sys.init (sizes : List Int) (jobs : List (Nat × List Int)) : Sys :=
  { gs := sizes.map G.init,
    jobs := jobs.map fun p => { id := p.1, amts := p.2, ph := .acq 0 false, failed := false, ran := false } }

/-- the job's amounts fit the maxima of all semaphores -/
def LJob.fits (b : LJob) (gs : List G) : Prop :=
  ∀ i g, gs[i]? = some g → b.amts.getD i 0 ≤ g.sem.max

end Martian.Semaphore
