/-
C01 — implementation-kernel model: the small pure functions the run-time
resolver is built from (martian/core/resolve.go `LazyArgumentMap.Path`,
`resolvePath`, `filter`; martian/core/jobdef.go `ChunkDef.Merge`;
martian/core/stage.go `doJoin`; martian/syntax `*Exp.BindingPath`).

* `resolvePath` — the recursive, per-element formulation of projection used by
  `resolvePath`/`Path` (descend the value, peel one array / map level at a time,
  consume one path component at each struct level);
* `chunkMerge`   — `ChunkDef.Merge`: bindings overridden by the chunk def's args;
* `joinChunkOuts`— `_chunk_outs` as assembled by `doJoin`;
* `bindingPath`  — static projection of a binding expression (`BindingPath` for
  array / map / struct literals and references).
-/
import Martian.Dataflow

namespace Martian.Resolver
open Martian.Dataflow

/-! ## run-time projection, the way resolve.go does it -/

/-- `resolvePath` under `n` remaining array levels, then the map level, then the
struct level — written element by element like the Go code
(`case *syntax.ArrayType: for i, v := range arr { resolvePath(v, p, et, …) }`). -/
def resolveArr (f : J → J) : Nat → J → J
  | 0, v => f v
  | n+1, .arr xs => .arr (xs.map (resolveArr f n))
  | _+1, .dnull => .dnull
  | _+1, _ => .null

def resolveMapLevel (f : J → J) (t : Ty) (v : J) : J :=
  match t.mapDim with
  | 0 => f v
  | k+1 =>
    match v with
    | .obj kvs => .obj (kvs.map fun kv => (kv.1, resolveArr f k kv.2))
    | .dnull => .dnull
    | _ => .null

/-- one path component through a value of type `t` (`LazyArgumentMap.Path` +
`resolvePath`, one struct level) -/
def resolve1 (t : Ty) (f : String) (v : J) : J :=
  resolveArr (resolveMapLevel (fun s => s.field f) t) t.arrDim v

def resolvePath (st : StructTable) : Ty → List String → J → J
  | _, [], v => v
  | t, f :: r, v => resolvePath st (projTy1 st t f) r (resolve1 t f v)

/-! ## chunk arguments -/

/-- `ChunkDef.Merge` / `MergeArguments`: every binding, then every chunk-def
argument on top (chunk-def args override bindings of the same name) -/
def chunkMerge (bindings chunkDef : List (String × J)) : List (String × J) :=
  (bindings.filter fun b => (chunkDef.lookup b.1).isNone) ++ chunkDef

/-- value of parameter `k` in a merged chunk argument record -/
def argOf (args : List (String × J)) (k : String) : Option J := args.lookup k

/-- `doJoin`: `_chunk_outs` is the list of the chunks' outs, in chunk order -/
def joinChunkOuts (chunkOuts : List J) : J := .arr chunkOuts

/-- `doJoin` READS every chunk's `_outs` (`none` = the file cannot be read / parsed): the readable
ones are appended in chunk order and written to `_chunk_outs`; when any read failed the fork
is `Failed` and the join is NOT launched (`ok = false … if !ok { return Failed }`).  Result: the
file content and whether the join is launched. -/
def doJoinRead (reads : List (Option J)) : J × Bool :=
  (.arr (reads.filterMap id), reads.all Option.isSome)

/-- `doJoin`: `_chunk_defs` is the list of the chunk defs' args, in chunk order -/
def joinChunkDefs (chunkDefs : List (List (String × J))) : J := .arr (chunkDefs.map .obj)

/-! ## static projection of binding expressions (`*Exp.BindingPath`, one field) -/

mutual
/-- `e.BindingPath(f)`: array literals project element-wise, typed-map literals
value-wise, struct literals select the member, references extend their path, a
literal null stays null. -/
def bindingPath1 (f : String) : Exp → Exp
  | .lit _ => .lit .null
  | .arr xs => .arr (bpList f xs)
  | .map kvs => .map (bpFields f kvs)
  | .struct kvs => (kvs.lookup f).getD (.lit .null)
  | .self p path => .self p (path ++ [f])
  | .ref c path => .ref c (path ++ [f])
def bpList (f : String) : List Exp → List Exp
  | [] => []
  | e :: es => bindingPath1 f e :: bpList f es
def bpFields (f : String) : List (String × Exp) → List (String × Exp)
  | [] => []
  | (k, e) :: es => (k, bindingPath1 f e) :: bpFields f es
end

mutual
/-- the shape discipline the compiler enforces on a binding expression of type `t`
(only what static projection relies on) -/
def wt (st : StructTable) (env : Env) : Ty → Exp → Bool
  | _, .lit j => match j with | .null => true | _ => false
  | t, .arr xs => t.arrDim != 0 && wtList st env { t with arrDim := t.arrDim - 1 } xs
  | t, .map kvs => t.arrDim == 0 && t.mapDim != 0 && wtFields st env ⟨t.base, 0, t.mapDim - 1⟩ kvs
  | t, .struct _ => t.arrDim == 0 && t.mapDim == 0
  | t, .self p path => pathTy st (env.selfTy p) path == t
  | t, .ref c path => pathTy st (env.callTy c) path == t
def wtList (st : StructTable) (env : Env) : Ty → List Exp → Bool
  | _, [] => true
  | t, e :: es => wt st env t e && wtList st env t es
def wtFields (st : StructTable) (env : Env) : Ty → List (String × Exp) → Bool
  | _, [] => true
  | t, (_, e) :: es => wt st env t e && wtFields st env t es
end

/-! ## fork-index substitution on a split literal (`SplitExp.BindingPath` with a known fork index) -/

/-- the binding of fork `ix` of a call mapped over a literal collection: the
`ix`-th element expression (references keep their fork index until run time:
that part is `elemAt` on the resolved value, see `evalCall`) -/
def selectFork (ix : Idx) : Exp → Exp
  | .arr xs =>
    match ix with
    | .i n => xs.getD n (.lit .null)
    | _ => .lit .null
  | .map kvs =>
    match ix with
    | .k s => (kvs.lookup s).getD (.lit .null)
    | _ => .lit .null
  | e => e

end Martian.Resolver
