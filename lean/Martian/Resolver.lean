/-
C01 — implementation-kernel model: the small pure functions the run-time
resolver is built from (martian/core/resolve.go `LazyArgumentMap.Path`,
`resolvePath`, `filter`; martian/core/jobdef.go `ChunkDef.Merge`;
martian/core/stage.go `doJoin`; martian/syntax `*Exp.BindingPath`).

* `resolvePath` — the recursive, per-element formulation of projection used by
  `resolvePath`/`Path` (descend the value, peel one array / map level at a time,
  consume one path component at each struct level);
* `chunkMerge`   — `ChunkDef.Merge`: bindings overridden by the chunk def's args;
* `joinChunkOuts`— `_chunk_outs` as assembled by `doJoin`;
* `bindingPath`  — static projection of a binding expression (`BindingPath` for
  array / map / struct literals and references).
-/
import Martian.Dataflow

namespace Martian.Resolver
open Martian.Dataflow

/-! ## run-time projection, the way resolve.go does it -/

/-- `resolvePath` under `n` remaining array levels, then the map level, then the
struct level — written element by element like the Go code
(`case *syntax.ArrayType: for i, v := range arr { resolvePath(v, p, et, …) }`). -/
def resolveArr (f : J → J) : Nat → J → J
  | 0, v => f v
  | n+1, .arr xs => .arr (xs.map (resolveArr f n))
  | _+1, .dnull => .dnull
  | _+1, _ => .null

def resolveMapLevel (f : J → J) (t : Ty) (v : J) : J :=
  match t.mapDim with
  | 0 => f v
  | k+1 =>
    match v with
    | .obj kvs => .obj (kvs.map fun kv => (kv.1, resolveArr f k kv.2))
    | .dnull => .dnull
    | _ => .null

/-- one path component through a value of type `t` (`LazyArgumentMap.Path` +
`resolvePath`, one struct level) -/
def resolve1 (t : Ty) (f : String) (v : J) : J :=
  resolveArr (resolveMapLevel (fun s => s.field f) t) t.arrDim v

def resolvePath (st : StructTable) : Ty → List String → J → J
  | _, [], v => v
  | t, f :: r, v => resolvePath st (projTy1 st t f) r (resolve1 t f v)

/-! ## chunk arguments -/

/-- `ChunkDef.Merge` / `MergeArguments`: every binding, then every chunk-def
argument on top (chunk-def args override bindings of the same name) -/
def chunkMerge (bindings chunkDef : List (String × J)) : List (String × J) :=
  (bindings.filter fun b => (chunkDef.lookup b.1).isNone) ++ chunkDef

/-- value of parameter `k` in a merged chunk argument record -/
def argOf (args : List (String × J)) (k : String) : Option J := args.lookup k

/-- `doJoin`: `_chunk_outs` is the list of the chunks' outs, in chunk order -/
def joinChunkOuts (chunkOuts : List J) : J := .arr chunkOuts

/-- `doJoin`: `_chunk_defs` is the list of the chunk defs' args, in chunk order -/
def joinChunkDefs (chunkDefs : List (List (String × J))) : J := .arr (chunkDefs.map .obj)

end Martian.Resolver
