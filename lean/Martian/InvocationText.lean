/-
C16, the TEXT LEG made real.

`Martian.Invocation.reparse` says, as a tree function, what printing a call and parsing it back
does.  Here the printer, the lexer and the parser themselves enter: `Martian.FormatExp` /
`Martian.FormatCall` (C09) are byte-exact models of `Exp.format` / `CallStm.format`, the MRO
tokenizer and the `val_exp` / `call_stm` grammar, each tied to the real function every run.
`toF` / `ofF` translate between the invocation expressions and C09's expression type.

The one thing not computed is strconv: a `FloatExp` is printed by `AppendFloat(v,'g',-1,64)` and
read back by `ParseFloat`.  C09 represents a float by that text; here the text enters as an
explicit oracle `G` (`text` = what strconv prints, `val` = what strconv reads), and `floatsOk`
states – per float occurring in the expression, decidably – the two facts used: the text is an
integer token of the value exactly when the model says it prints in integer syntax
(`Flt.textAsInt`), and otherwise it is a NUM_FLOAT token that reads back as the same float64.
The harness supplies the real strconv output for every float of every case and the driver
evaluates `floatsOk` on it.

Core Lean only.
-/
import Martian.Invocation
import Martian.FormatExp
import Martian.FormatCall

namespace Martian.InvocationText
open Martian.Invocation
open Martian.Lexer (Bytes parseInt)

/-- strconv as an oracle: the 'g' text of a float, and the float a text denotes -/
structure G where
  text : Flt → Bytes
  val : Bytes → Flt

mutual
/-- invocation expression → C09 expression (`MapExp{Kind: map}` ↦ `.map`, `{Kind: struct}` ↦ `.struct`) -/
def toF (g : G) : Exp → Martian.FormatExp.Exp
  | .lit .null => .null
  | .lit (.bool b) => .bool b
  | .lit (.int i) => .int i
  | .lit (.flt f) => .float (g.text f)
  | .lit (.str s) => .str s
  | .arr xs => .arr (toFList g xs)
  | .map false kvs => .map (toFKvs g kvs)
  | .map true kvs => .struct (toFKvs g kvs)
def toFList (g : G) : EList → List Martian.FormatExp.Exp
  | .nil => []
  | .cons e r => toF g e :: toFList g r
def toFKvs (g : G) : EKvs → List (Bytes × Martian.FormatExp.Exp)
  | .nil => []
  | .cons k e r => (k, toF g e) :: toFKvs g r
end

mutual
/-- C09 expression → invocation expression (a reference has no counterpart: `null`) -/
def ofF (g : G) : Martian.FormatExp.Exp → Exp
  | .null => .lit .null
  | .nilArr => .lit .null
  | .bool b => .lit (.bool b)
  | .int i => .lit (.int i)
  | .float t => .lit (.flt (g.val t))
  | .str s => .lit (.str s)
  | .arr xs => .arr (ofFList g xs)
  | .map kvs => .map false (ofFKvs g kvs)
  | .struct kvs => .map true (ofFKvs g kvs)
  | .ref _ _ _ => .lit .null
def ofFList (g : G) : List Martian.FormatExp.Exp → EList
  | [] => .nil
  | x :: r => .cons (ofF g x) (ofFList g r)
def ofFKvs (g : G) : List (Bytes × Martian.FormatExp.Exp) → EKvs
  | [] => .nil
  | (k, v) :: r => .cons k (ofF g v) (ofFKvs g r)
end

/-- what is used of strconv for one float -/
def floatOk (g : G) (f : Flt) : Bool :=
  if f.textAsInt then
    !Martian.FormatExp.isFloatTok (g.text f) && parseInt (g.text f) == some f.intVal
  else Martian.FormatExp.isFloatTok (g.text f) && g.val (g.text f) == f

mutual
def floatsOk (g : G) : Exp → Bool
  | .lit (.flt f) => floatOk g f
  | .lit _ => true
  | .arr xs => floatsOkList g xs
  | .map _ kvs => floatsOkKvs g kvs
def floatsOkList (g : G) : EList → Bool
  | .nil => true
  | .cons e r => floatsOk g e && floatsOkList g r
def floatsOkKvs (g : G) : EKvs → Bool
  | .nil => true
  | .cons _ e r => floatsOk g e && floatsOkKvs g r
end

/-- the text `FormatExp(e, "")` prints -/
def printExp (g : G) (e : Exp) : Bytes := Martian.FormatExp.fmt [] (toF g e)

/-- print, lex, parse (`Parser.ParseValExp`), translate back -/
def textLeg (g : G) (e : Exp) : Option Exp :=
  (Martian.FormatExp.parseValExp (printExp g e)).map (ofF g)

/-- printable by the formatter and accepted back: C09's well-formedness of the translated
expression (strings and map keys valid UTF-8, map keys ascending, struct keys identifiers and
ascending, integers in int64, float texts NUM_FLOAT tokens or canonical integers) -/
def wfText (g : G) (e : Exp) : Bool := Martian.FormatExp.wf (toF g e)

/-! ## call level -/

def toFBind (g : G) (b : Str × Arg) : Martian.FormatCall.Bind :=
  ⟨b.1, b.2.isSplit, toF g b.2.value⟩

def ofFBind (g : G) (b : Martian.FormatCall.Bind) : Str × Arg :=
  (b.id, if b.split then .split (ofF g b.exp) else .plain (ofF g b.exp))

/-- the call `BuildCallAst` builds: `Id = DecId = name` -/
def toFCall (g : G) (name : Str) (bs : List (Str × Arg)) : Martian.FormatCall.Call :=
  ⟨name, name, bs.map (toFBind g)⟩

/-- the text `Ast.Format()` prints for the call (nothing else in the file) -/
def printCall (g : G) (name : Str) (bs : List (Str × Arg)) : Bytes :=
  Martian.FormatCall.fmtCall (toFCall g name bs)

/-- print the call, lex, parse (`call_stm`), translate the bindings back -/
def callTextLeg (g : G) (name : Str) (bs : List (Str × Arg)) : Option (Str × List (Str × Arg)) :=
  (Martian.FormatCall.parseCall (printCall g name bs)).map fun c => (c.decId, c.binds.map (ofFBind g))

def wfCallText (g : G) (name : Str) (bs : List (Str × Arg)) : Bool :=
  Martian.FormatCall.wfCall (toFCall g name bs)

def floatsOkBinds (g : G) (bs : List (Str × Arg)) : Bool := bs.all fun b => floatsOk g b.2.value

end Martian.InvocationText
