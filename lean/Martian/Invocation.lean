/-
C16 model: conversion between invocation JSON and MRO call expressions.

Go code modelled (martian/core/runtime.go, martian/syntax/format_exp_json.go):

* `ofJ`        – `Parser.ParseValExp` applied to the text of a JSON value: the
                 JSON value grammar is a sub-grammar of MRO value expressions
                 (objects become `MapExp{Kind: KindMap}`, an integer-syntax
                 number becomes `IntExp` and must fit int64, any other number
                 becomes `FloatExp`).
* `fix`        – `fixExpressionTypes`: the type-directed struct-vs-map decision
                 on `TypeId{Tname, ArrayDim, MapDim}` with a populated lookup.
* `convert`    – `convertToExp(split=false, json.RawMessage)` = `fix ∘ ofJ`.
* `buildBinding` – `convertToExp` + the split handling of `BuildCallAst`
                 (`{"split": v}` wrapper for arguments named in `splitargs`).
* `encode`     – `Exp.MarshalJSON/EncodeJSON` for value expressions,
                 `encodeArg` adds `SplitExp.MarshalJSON` (`{"split": v}`).
* `buildCall` / `dataOf` – the per-parameter loops of `BuildCallAst` and
                 `BuildDataForAst`.

What is abstracted (tied by the correspondence harness, not by proof):
strings are decoded byte strings (JSON/MRO escape syntax is outside the model);
a float is the exact value of a finite float64, `(-1)^neg · m · 2^e` (decimal
printing/parsing by strconv is not modelled beyond "which values print in
integer syntax"); Go maps are association lists in the order of their sorted
keys with no duplicate keys.

Two printers exist for a `FloatExp` and they differ (since the repair
"float literals with an integral value are written as JSON integers"):
* MRO text (`FloatExp.format`): `AppendFloat(v,'g',-1,64)` – integer syntax
  iff the value is integral and below 10^6 in magnitude (`Flt.textAsInt`);
* JSON (`FloatExp.appendJSON`, used by MarshalJSON/EncodeJSON): integer
  syntax iff `float64(int64(v)) == v`, i.e. integral and within int64
  (`Flt.jsonAsInt`), else the `'g'` form.
Either way a number written in integer syntax is read back as an integer
(`IntExp` / integer-class JSON number): the numeric value survives exactly, the
int-vs-float syntax of an integral value does not, and neither does the sign of
a floating-point zero (`-0.0` ↦ `0`).

Core Lean only (no Mathlib): the driver links natively.
-/
namespace Martian.Invocation

abbrev Str := List UInt8

/-- The exact value of a finite float64: `(-1)^neg · m · 2^e` with `m` odd,
or `m = 0 ∧ e = 0` for ±0 (so the value is integral iff `m = 0 ∨ 0 ≤ e`). -/
structure Flt where
  neg : Bool
  m : Nat
  e : Int
deriving DecidableEq, Repr

/-- the integral value `± m·2^e` (meaningful when `m = 0 ∨ 0 ≤ e`) -/
def Flt.intVal (f : Flt) : Int :=
  let v : Int := Int.ofNat (f.m * 2 ^ f.e.toNat)
  if f.neg then -v else v

def Flt.isIntegral (f : Flt) : Bool := f.m == 0 || decide (0 ≤ f.e)

/-- MRO text: `strconv.AppendFloat(v,'g',-1,64)` prints no `.` and no
exponent.  `%e` is used iff the decimal exponent `dp-1` is `< -4` or `≥ 6`
(shortest ⇒ `eprec = 6`), so integer syntax ⇔ zero, or integral with at most 6
digits (⇔ integral and below 10^6 in magnitude). -/
def Flt.textAsInt (f : Flt) : Bool :=
  f.m == 0 || (decide (0 ≤ f.e) && decide (f.m * 2 ^ f.e.toNat < 1000000))

/-- canonical representative: `m` odd, or `m = 0 ∧ e = 0` (what a float64 decomposes into) -/
def Flt.canonical (f : Flt) : Bool := (f.m == 0 && f.e == 0) || f.m % 2 == 1

/-- THE VALUE of a float, as an exact dyadic rational `n · 2^e` in the form `(n, e)` with `e ≤ 0`
(`e = 0` for integral values): zero is `(0, 0)` whatever its sign, an integral value `± m·2^e`
(`0 ≤ e`) is `(± m·2^e, 0)`, anything else `(± m, e)`.  On canonical representatives two floats have
the same `val` iff they are the same real number. -/
def Flt.val (f : Flt) : Int × Int :=
  if f.m = 0 then (0, 0)
  else if 0 ≤ f.e then (f.intVal, 0)
  else ((if f.neg then -(Int.ofNat f.m) else Int.ofNat f.m), f.e)

inductive Lit
  | null
  | bool (b : Bool)
  | int (i : Int)
  | flt (f : Flt)
  | str (s : Str)
deriving DecidableEq, Repr

def inInt64 (i : Int) : Bool :=
  decide (-9223372036854775808 ≤ i) && decide (i ≤ 9223372036854775807)

/-- JSON: the guard of `FloatExp.appendJSON`: `-2^63 ≤ v < 2^63` and then
`i := int64(v); float64(i) == v` (the range is checked first, so the
implementation-defined out-of-range conversion never happens; +2^63 is excluded,
-2^63 included): the value is integral and fits int64.  Includes ±0. -/
def Flt.jsonAsInt (f : Flt) : Bool :=
  f.m == 0 || (decide (0 ≤ f.e) && inInt64 f.intVal)

/-- the numeric value of a number literal as an exact dyadic rational (`none` for non-numbers) -/
def Lit.val : Lit → Option (Int × Int)
  | .int i => some (i, 0)
  | .flt f => some f.val
  | _ => none

/-- What survives of a scalar after `MarshalJSON` → JSON text → token class: a
float written in integer syntax is an integer-class number of the same value. -/
def encLit : Lit → Lit
  | .flt f => if f.jsonAsInt then .int f.intVal else .flt f
  | l => l

/-- What survives of a scalar after `format` → MRO lexer. -/
def textLit : Lit → Lit
  | .flt f => if f.textAsInt then .int f.intVal else .flt f
  | l => l

/-- integer literals the MRO lexer/`parseInt` can hold -/
def litOk : Lit → Bool
  | .int i => inInt64 i
  | _ => true

/-! ## JSON trees -/
mutual
inductive J
  | lit (l : Lit)
  | arr (xs : JList)
  | obj (kvs : JKvs)
inductive JList
  | nil
  | cons (j : J) (r : JList)
inductive JKvs
  | nil
  | cons (k : Str) (j : J) (r : JKvs)
end

/-! ## Value expressions (no references: top-level call arguments) -/
mutual
inductive Exp
  | lit (l : Lit)
  | arr (xs : EList)
  | map (isStruct : Bool) (kvs : EKvs)
inductive EList
  | nil
  | cons (e : Exp) (r : EList)
inductive EKvs
  | nil
  | cons (k : Str) (e : Exp) (r : EKvs)
end

/-- A call argument: `x = e` or `x = split e`. -/
inductive Arg
  | plain (e : Exp)
  | split (e : Exp)

def Arg.isSplit : Arg → Bool
  | .plain _ => false
  | .split _ => true

def Arg.value : Arg → Exp
  | .plain e => e
  | .split e => e

/-! ## Types: `TypeId{Tname, ArrayDim, MapDim}` with the lookup resolved -/
mutual
/-- What `TypeLookup.Get(TypeId{Tname})` yields for the base name. -/
inductive Base
  | scalar               -- builtin int/float/string/bool/path/file or a user file type
  | umap                 -- builtin untyped `map`
  | unknown              -- name not in the lookup (`Get` returns nil)
  | struct (fs : Fields) -- declared struct with its members
inductive Fields
  | nil
  | cons (name : Str) (base : Base) (arrayDim mapDim : Nat) (rest : Fields)
end

structure TypeId where
  base : Base
  arrayDim : Nat
  mapDim : Nat

/-- member lookup (`for _, member := range t.Members`; ids are unique) -/
def Fields.find : Fields → Str → Option TypeId
  | .nil, _ => none
  | .cons n b ad md r, k => if n = k then some ⟨b, ad, md⟩ else r.find k

/-! ## JSON → expression -/
mutual
/-- `ParseValExp` on JSON text (`none` = no expression: an integer literal
outside int64 makes `parseInt` panic (19 digits) or the lexer fail). -/
def ofJ : J → Option Exp
  | .lit l => if litOk l then some (.lit l) else none
  | .arr xs => (ofJList xs).map .arr
  | .obj kvs => (ofJKvs kvs).map (.map false)
def ofJList : JList → Option EList
  | .nil => some .nil
  | .cons j r =>
    match ofJ j, ofJList r with
    | some e, some es => some (.cons e es)
    | _, _ => none
def ofJKvs : JKvs → Option EKvs
  | .nil => some .nil
  | .cons k j r =>
    match ofJ j, ofJKvs r with
    | some e, some es => some (.cons k e es)
    | _, _ => none
end

/-- The type given to a key that is no declared member: `fix` at a scalar
type changes nothing (lemma `fix_scalar`), which is what the Go loop over
`t.Members` does to undeclared keys. -/
def Fields.findD (fs : Fields) (k : Str) : TypeId :=
  (fs.find k).getD ⟨.scalar, 0, 0⟩

/-- The branch `fixExpressionTypes` takes at a `MapExp` for
`TypeId{b, ad, md}` (lookup non-nil). -/
inductive MapAction
  | vals (b : Base) (ad md : Nat)  -- typed map: fix every value at the element type
  | fields (fs : Fields)           -- struct: Kind = struct, fix declared members
  | markStruct                     -- `lookup.Get` = nil: Kind = struct, no recursion
  | keep                           -- builtin / array type: nothing

def Base.unknownAction : Base → MapAction
  | .unknown => .markStruct
  | .scalar => .keep
  | .umap => .keep
  | .struct _ => .keep

def Base.action0 : Base → MapAction
  | .struct fs => .fields fs
  | .unknown => .markStruct
  | .scalar => .keep
  | .umap => .keep

def mapAction (b : Base) (ad md : Nat) : MapAction :=
  if md > 0 then .vals b (md - 1) 0
  else if ad > 0 then b.unknownAction   -- `Get` yields an ArrayType unless the base is unknown
  else b.action0

mutual
/-- `fixExpressionTypes(exp, TypeId{b, ad, md}, lookup)` (lookup non-nil). -/
def fix (b : Base) (ad md : Nat) : Exp → Exp
  | .lit l => .lit l
  | .arr xs => .arr (fixList b (ad - 1) md xs)
  | .map k kvs =>
    match mapAction b ad md with
    | .vals b' ad' md' => .map k (fixVals b' ad' md' kvs)
    | .fields fs => .map true (fixFields fs kvs)
    | .markStruct => .map true kvs
    | .keep => .map k kvs
def fixList (b : Base) (ad md : Nat) : EList → EList
  | .nil => .nil
  | .cons e r => .cons (fix b ad md e) (fixList b ad md r)
def fixVals (b : Base) (ad md : Nat) : EKvs → EKvs
  | .nil => .nil
  | .cons k e r => .cons k (fix b ad md e) (fixVals b ad md r)
/-- members present in the literal are fixed at the member's type; other
keys are left alone -/
def fixFields (fs : Fields) : EKvs → EKvs
  | .nil => .nil
  | .cons k e r =>
    .cons k (fix (fs.findD k).base (fs.findD k).arrayDim (fs.findD k).mapDim e) (fixFields fs r)
end

/-- `convertToExp(parser, false, json.RawMessage(j), t, lookup)` -/
def convert (t : TypeId) (j : J) : Option Exp :=
  (ofJ j).map (fix t.base t.arrayDim t.mapDim)

def JKvs.find : JKvs → Str → Option J
  | .nil, _ => none
  | .cons k j r, q => if k = q then some j else r.find q

def splitKey : Str := [0x73, 0x70, 0x6C, 0x69, 0x74]  -- "split"

/-- `encoding/json`'s key folding (`foldName`): ASCII letters to upper case, U+017F (long s) to
`S`, U+212A (Kelvin sign) to `K` -/
def foldKey : Str → Str
  | [] => []
  | 0xC5 :: 0xBF :: r => 0x53 :: foldKey r
  | 0xE2 :: 0x84 :: 0xAA :: r => 0x4B :: foldKey r
  | c :: r => (if 0x61 ≤ c && c ≤ 0x7A then c - 0x20 else c) :: foldKey r

/-- does the key select the field `Split … `json:"split"``?  (exact or case-folded match) -/
def isSplitKey (k : Str) : Bool := foldKey k == [0x53, 0x50, 0x4C, 0x49, 0x54]

/-- the member `json.Unmarshal` into `struct{Split json.RawMessage `json:"split"`}` keeps: members
are assigned in source order, so the LAST member whose key folds to `split` wins -/
def JKvs.findSplit : JKvs → Option J
  | .nil => none
  | .cons k j r =>
    match r.findSplit with
    | some v => some v
    | none => if isSplitKey k then some j else none

/-- The type at which the operand of a split is converted: an argument split
over a map is a `map<T>` of the parameter's type `T` (an array operand needs
no adjustment: `fix` saturates `arrayDim` at 0). -/
def splitSourceType (t : TypeId) : J → TypeId
  | .obj _ => if t.mapDim = 0 then ⟨t.base, 0, t.arrayDim + 1⟩ else t
  | _ => t

/-- The operand of a split argument (`convertToExp(split = true)` after the
`{"split": v}` wrapper is removed).  A map operand of a parameter whose own
type is a typed map (or an array of typed maps) would be a map of maps, for
which there is no `TypeId`: every value is converted at the parameter's type
and the outer literal stays a map (repair of finding C16-N7; before it the
operand was converted at the parameter's type `t` itself, which typed the
per-key values one level too deep).  In all other cases the operand is
converted at `splitSourceType`. -/
def convertSplit (t : TypeId) (v : J) : Option Exp :=
  match v with
  | .obj kvs =>
    if t.mapDim = 0 then convert (splitSourceType t v) v
    else (ofJKvs kvs).map fun es => .map false (fixVals t.base t.arrayDim t.mapDim es)
  | _ => convert (splitSourceType t v) v

/-- One binding of `BuildCallAst`: an argument listed in `splitargs` must be
`{"split": v}`; `v` is converted at the collection type over the parameter's
type and the result is a `SplitExp` (`convertToExp` returns a bare `NullExp`
for `v = null`, which `BuildCallAst` wraps again). -/
def buildBinding (split : Bool) (t : TypeId) (j : J) : Option Arg :=
  if split then
    match j with
    | .obj kvs =>
      match kvs.findSplit with
      | some v => (convertSplit t v).map .split
      | none => none
    | _ => none
  else (convert t j).map .plain

/-! ## expression → JSON -/
mutual
/-- `EncodeJSON` of a value expression followed by reading the text back as
a JSON tree (number token class decided by the text). -/
def encode : Exp → J
  | .lit l => .lit (encLit l)
  | .arr xs => .arr (encodeList xs)
  | .map _ kvs => .obj (encodeKvs kvs)
def encodeList : EList → JList
  | .nil => .nil
  | .cons e r => .cons (encode e) (encodeList r)
def encodeKvs : EKvs → JKvs
  | .nil => .nil
  | .cons k e r => .cons k (encode e) (encodeKvs r)
end

/-- `binding.Exp.MarshalJSON()` in `BuildDataForAst` (`SplitExp` without
`Call`, source = the literal itself). -/
def encodeArg : Arg → J
  | .plain e => encode e
  | .split e => .obj (.cons splitKey (encode e) .nil)

/-- `BuildDataForAst` for one binding: (listed in splitargs?, args[id]). -/
def dataOfBinding (a : Arg) : Bool × J := (a.isSplit, encodeArg a)

/-! ## normal forms used to state the round trips -/
mutual
/-- JSON with every float that prints in integer syntax replaced by that
integer (same numeric value). -/
def normJ : J → J
  | .lit l => .lit (encLit l)
  | .arr xs => .arr (normJList xs)
  | .obj kvs => .obj (normJKvs kvs)
def normJList : JList → JList
  | .nil => .nil
  | .cons j r => .cons (normJ j) (normJList r)
def normJKvs : JKvs → JKvs
  | .nil => .nil
  | .cons k j r => .cons k (normJ j) (normJKvs r)
end

mutual
def normE : Exp → Exp
  | .lit l => .lit (encLit l)
  | .arr xs => .arr (normEList xs)
  | .map k kvs => .map k (normEKvs kvs)
def normEList : EList → EList
  | .nil => .nil
  | .cons e r => .cons (normE e) (normEList r)
def normEKvs : EKvs → EKvs
  | .nil => .nil
  | .cons k e r => .cons k (normE e) (normEKvs r)
end

mutual
/-- What `Ast.Format()` followed by the MRO parser (`BuildCallSource` then
`InvocationDataFromSource`) returns, as a TREE function: structure and flags are
kept – except that an empty struct literal prints as `{}`, which the grammar
reads as an empty map –, scalars go through the text printer and the lexer.
That this tree function IS printer ∘ lexer ∘ parser is a theorem
(Proofs/InvocationText.lean `text_leg_exp`: `parseValExp (fmt [] (toF e))`, with
the byte-exact models of C09, returns `toF`-image of `reparse e`); only
strconv's 'g' text of a float enters as an explicit oracle. -/
def reparse : Exp → Exp
  | .lit l => .lit (textLit l)
  | .arr xs => .arr (reparseList xs)
  | .map k kvs => .map (match kvs with | .nil => false | .cons _ _ _ => k) (reparseKvs kvs)
def reparseList : EList → EList
  | .nil => .nil
  | .cons e r => .cons (reparse e) (reparseList r)
def reparseKvs : EKvs → EKvs
  | .nil => .nil
  | .cons k e r => .cons k (reparse e) (reparseKvs r)
end

def Arg.reparse : Arg → Arg
  | .plain e => .plain (Martian.Invocation.reparse e)
  | .split e => .split (Martian.Invocation.reparse e)

mutual
/-- forget the struct-vs-map flags -/
def erase : Exp → Exp
  | .lit l => .lit l
  | .arr xs => .arr (eraseList xs)
  | .map _ kvs => .map false (eraseKvs kvs)
def eraseList : EList → EList
  | .nil => .nil
  | .cons e r => .cons (erase e) (eraseList r)
def eraseKvs : EKvs → EKvs
  | .nil => .nil
  | .cons k e r => .cons k (erase e) (eraseKvs r)
end

mutual
/-- every integer literal fits int64 (true of anything the MRO parser built) -/
def intsOk : Exp → Bool
  | .lit l => litOk l
  | .arr xs => intsOkList xs
  | .map _ kvs => intsOkKvs kvs
def intsOkList : EList → Bool
  | .nil => true
  | .cons e r => intsOk e && intsOkList r
def intsOkKvs : EKvs → Bool
  | .nil => true
  | .cons _ e r => intsOk e && intsOkKvs r
end

mutual
def jIntsOk : J → Bool
  | .lit l => litOk l
  | .arr xs => jIntsOkList xs
  | .obj kvs => jIntsOkKvs kvs
def jIntsOkList : JList → Bool
  | .nil => true
  | .cons j r => jIntsOk j && jIntsOkList r
def jIntsOkKvs : JKvs → Bool
  | .nil => true
  | .cons _ j r => jIntsOk j && jIntsOkKvs r
end

mutual
/-- all flags are `false` (what `ParseValExp` yields for JSON) -/
def plainMaps : Exp → Bool
  | .lit _ => true
  | .arr xs => plainMapsList xs
  | .map k kvs => !k && plainMapsKvs kvs
def plainMapsList : EList → Bool
  | .nil => true
  | .cons e r => plainMaps e && plainMapsList r
def plainMapsKvs : EKvs → Bool
  | .nil => true
  | .cons _ e r => plainMaps e && plainMapsKvs r
end

def Lit.isNull : Lit → Bool
  | .null => true
  | _ => false

def Base.isScalar : Base → Bool
  | .scalar => true
  | _ => false

def Base.isUmap : Base → Bool
  | .umap => true
  | _ => false

mutual
/-- `wt b ad md e`: the literal `e` has the shape of the type and carries the
struct-vs-map flags the type dictates (what the MRO compiler accepts for a
parameter of that type, restricted to what matters here): arrays under array
dims, map literals under typed maps, struct literals with declared member
names under struct types, plain (JSON-like) content under the untyped `map`,
scalars or null elsewhere.  `null` is allowed everywhere. -/
def wt (b : Base) (ad md : Nat) : Exp → Bool
  | .lit l => l.isNull || (ad == 0 && md == 0 && b.isScalar)
  | .arr xs => decide (ad > 0) && wtList b (ad - 1) md xs
  | .map k kvs =>
    ad == 0 &&
    match mapAction b ad md with
    | .vals b' ad' md' => !k && wtVals b' ad' md' kvs
    | .fields fs => k && wtFields fs kvs
    | .markStruct => false
    | .keep => b.isUmap && !k && plainMapsKvs kvs
def wtList (b : Base) (ad md : Nat) : EList → Bool
  | .nil => true
  | .cons e r => wt b ad md e && wtList b ad md r
def wtVals (b : Base) (ad md : Nat) : EKvs → Bool
  | .nil => true
  | .cons _ e r => wt b ad md e && wtVals b ad md r
def wtFields (fs : Fields) : EKvs → Bool
  | .nil => true
  | .cons k e r =>
    (fs.find k).isSome && wt (fs.findD k).base (fs.findD k).arrayDim (fs.findD k).mapDim e
      && wtFields fs r
end

mutual
/-- JSON-side typing (audit C16-M2): the JSON value `j` has the shape of the type – arrays under
array dims, objects under typed maps (any keys), objects whose every key is a declared member under
struct types, any object under the untyped `map`, scalars or `null` elsewhere; `null` everywhere.
(The counterpart of `wt` before conversion: `convert_wt` shows the conversion of such a value is
well-typed, i.e. carries exactly the struct-vs-map flags the compiler demands.) -/
def jWt (b : Base) (ad md : Nat) : J → Bool
  | .lit l => l.isNull || (ad == 0 && md == 0 && b.isScalar)
  | .arr xs => decide (ad > 0) && jWtList b (ad - 1) md xs
  | .obj kvs =>
    ad == 0 &&
    match mapAction b ad md with
    | .vals b' ad' md' => jWtVals b' ad' md' kvs
    | .fields fs => jWtFields fs kvs
    | .markStruct => false
    | .keep => b.isUmap
def jWtList (b : Base) (ad md : Nat) : JList → Bool
  | .nil => true
  | .cons j r => jWt b ad md j && jWtList b ad md r
def jWtVals (b : Base) (ad md : Nat) : JKvs → Bool
  | .nil => true
  | .cons _ j r => jWt b ad md j && jWtVals b ad md r
def jWtFields (fs : Fields) : JKvs → Bool
  | .nil => true
  | .cons k j r =>
    (fs.find k).isSome && jWt (fs.findD k).base (fs.findD k).arrayDim (fs.findD k).mapDim j
      && jWtFields fs r
end

/-! ## the call level: `BuildCallAst` / `BuildDataForAst` loops -/

abbrev Sig := List (Str × TypeId)

structure Data where
  args : List (Str × J)
  splitargs : List Str

def lookupArg (args : List (Str × J)) (k : Str) : J :=
  match args.find? (fun p => p.1 = k) with
  | some p => p.2
  | none => .lit .null     -- `binding.Exp = &null`

/-- `BuildCallAst`: one binding per declared parameter, in declaration order;
missing arguments become `null` (arguments that are no parameter are dropped). -/
def buildCall : Sig → Data → Option (List (Str × Arg))
  | [], _ => some []
  | (p, t) :: ps, d =>
    match (if d.args.any (fun q => q.1 = p) then
             buildBinding (d.splitargs.contains p) t (lookupArg d.args p)
           else some (.plain (.lit .null))),
          buildCall ps d with
    | some a, some bs => some ((p, a) :: bs)
    | _, _ => none

/-- `BuildDataForAst`: every binding is marshalled; split bindings are listed. -/
def dataOf (bs : List (Str × Arg)) : Data :=
  { args := bs.map (fun b => (b.1, encodeArg b.2)),
    splitargs := (bs.filter (fun b => b.2.isSplit)).map (·.1) }

/-- What one argument looks like after JSON → call → JSON: floats that print as
integers are integers; a split argument is exactly `{"split": v}`. -/
def canonArg (split : Bool) (j : J) : J :=
  if split then
    match j with
    | .obj kvs =>
      match kvs.findSplit with
      | some v => .obj (.cons splitKey (normJ v) .nil)
      | none => .lit .null
    | _ => .lit .null
  else normJ j

/-- The invocation data a round trip returns: all parameters present in
declaration order, absent arguments `null`, splitargs in declaration order. -/
def canonData (sig : Sig) (d : Data) : Data :=
  { args := sig.map (fun p =>
      (p.1, if d.args.any (fun q => q.1 = p.1) then
              canonArg (d.splitargs.contains p.1) (lookupArg d.args p.1)
            else .lit .null)),
    splitargs := (sig.filter (fun p =>
      d.args.any (fun q => q.1 = p.1) && d.splitargs.contains p.1)).map (·.1) }

/-- Specification-level type of the operand of `x = split e` for a parameter
of type `t`: `T[]` for an array operand, `map<T>` for a map operand (no map of
maps), anything for `null`. -/
def collectionType (t : TypeId) : Exp → TypeId
  | .arr _ => ⟨t.base, t.arrayDim + 1, t.mapDim⟩
  | .map _ _ => if t.mapDim = 0 then ⟨t.base, 0, t.arrayDim + 1⟩ else t
  | .lit _ => t

/-- What the compiler accepts as the operand of `x = split e` for a parameter
of type `t` (shape and struct-vs-map flags): an array of `t`-values, a map
literal whose every value is a `t`-value – also when `t` is itself a typed map,
where `collectionType` has no `TypeId` to offer –, or `null` (a scalar
literal is treated as `collectionType` does). -/
def splitOperandOk (t : TypeId) : Exp → Bool
  | .arr xs => wtList t.base t.arrayDim t.mapDim xs
  | .map k kvs => !k && wtVals t.base t.arrayDim t.mapDim kvs
  | .lit l => wt t.base t.arrayDim t.mapDim (.lit l)

/-! ## references and aliases (outside the round trip)

A reference (`STAGE.out`, `self.x`) in an argument of a top-level call is
rejected by the compiler ("this binding cannot be resolved outside of a stage
or pipeline"); the unchecked parser accepts it and `RefExp.MarshalJSON` writes
`{"__reference__": "ID.out"}`, which nothing reads back: `convertToExp` turns
it into a map literal.  `call X as Y`: `BuildDataForAst` records `DecId` (`X`);
the alias `Y` is not part of invocation data. -/
def refKey : Str :=
  [0x5F, 0x5F, 0x72, 0x65, 0x66, 0x65, 0x72, 0x65, 0x6E, 0x63, 0x65, 0x5F, 0x5F]  -- "__reference__"

/-- `RefExp.MarshalJSON` without fork indices -/
def encodeRef (id : Str) : J := .obj (.cons refKey (.lit (.str id)) .nil)

/-- the part of `CallStm` that matters: `Id` (the alias, or the callable's
name), `DecId` (the callable), bindings -/
structure Call where
  id : Str
  decId : Str
  bindings : List (Str × Arg)

/-- `BuildDataForAst`: `Call: ast.Call.DecId` -/
def dataOfCall (c : Call) : Str × Data := (c.decId, dataOf c.bindings)

/-- `BuildCallAst(name, …)`: `Id: name, DecId: callable.GetId()` with
`name = invocation.Call` = the callable's name -/
def callOfData (name : Str) (bs : List (Str × Arg)) : Call := ⟨name, name, bs⟩

/-! ## what the MRO grammar can express

`split_bind_stm : id '=' SPLIT nonempty_collection_exp`: the operand of a
top-level `split` must be a non-empty array or a non-empty map literal with
quoted keys (a struct literal `{a: 1}` is not a `nonempty_map_exp`). -/
def Arg.printable : Arg → Bool
  | .plain _ => true
  | .split (.arr (.cons _ _)) => true
  | .split (.map false (.cons _ _ _)) => true
  | .split _ => false

end Martian.Invocation
