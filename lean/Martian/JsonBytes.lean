/-
JSON VALUES AT BYTE LEVEL (shared by C17 "filter bytes" and C16 "invocation bytes").

* `parseV` – the value grammar `encoding/json` accepts (scanner.go: objects,
  arrays, strings, numbers, `true`/`false`/`null`, white space = space, \t, \n,
  \r), as a total function on bytes returning the tree `J` of Martian/Json.lean
  and the unconsumed rest.  Strings: the scanner finds the end of the literal
  (`strEnd`: a backslash protects the next byte) and `unquote` decodes it
  (`InvocationStr.jsonDecLoop`).  Numbers are kept as written
  (`Num.int` / `Num.flt mantissa exponent`).  Duplicate keys are kept in source
  order (what a `map` decode retains is `dedupLast`, Martian/Json.lean).
* `parseTop` – a whole document: value, optional white space, end of input
  (`json.Unmarshal`, `json.Valid`).
* `printJ` – the canonical compact printer (no white space, strings by
  `encoding/json`'s encoder without HTML escaping = martian's `quoteString`,
  integers in decimal, `Num.flt m e` as `<m>e<e>`).

Core Lean only.
-/
import Martian.Json
import Martian.InvocationStr
import Martian.Types

namespace Martian.JsonBytes
open Martian.Json (J Num)
open Martian.Lexer (Bytes)
open Martian.InvocationStr (jsonDecLoop jsonEncodeString)

/-! ## white space, literals -/

def isWs (b : UInt8) : Bool := b == 0x20 || b == 0x09 || b == 0x0A || b == 0x0D

def skipWs : Bytes → Bytes
  | [] => []
  | b :: r => if isWs b then skipWs r else b :: r

/-- `pre` is a prefix of the input: the rest -/
def stripPrefix : Bytes → Bytes → Option Bytes
  | [], r => some r
  | _ :: _, [] => none
  | p :: ps, c :: r => if p == c then stripPrefix ps r else none

/-! ## numbers: `-? (0 | [1-9][0-9]*) (\. [0-9]+)? ([eE] [+-]? [0-9]+)?` -/

def isDigit (b : UInt8) : Bool := 0x30 ≤ b && b ≤ 0x39

def spanDigits : Bytes → Bytes × Bytes
  | [] => ([], [])
  | c :: r => if isDigit c then ((spanDigits r).1.cons c, (spanDigits r).2) else ([], c :: r)

def decValFrom (a : Nat) (ds : Bytes) : Nat := ds.foldl (fun a c => 10 * a + (c.toNat - 48)) a
def decVal (ds : Bytes) : Nat := decValFrom 0 ds

def signed (neg : Bool) (n : Nat) : Int := if neg then -(n : Int) else (n : Int)

/-- optional leading `-` -/
def splitMinus (b : Bytes) : Bool × Bytes :=
  match b with
  | c :: r => if c == 0x2D then (true, r) else (false, c :: r)
  | [] => (false, [])

/-- optional leading `+` or `-` -/
def splitSign (b : Bytes) : Bool × Bytes :=
  match b with
  | c :: r => if c == 0x2D then (true, r) else if c == 0x2B then (false, r) else (false, c :: r)
  | [] => (false, [])

/-- the exponent part, if any: `(present, value, rest)`; `none` = malformed -/
def parseExp (b : Bytes) : Option (Option Int × Bytes) :=
  match b with
  | c :: r =>
    if c == 0x65 || c == 0x45 then
      let sr := splitSign r
      let ds := spanDigits sr.2
      if ds.1 = [] then none else some (some (signed sr.1 (decVal ds.1)), ds.2)
    else some (none, b)
  | [] => some (none, [])

/-- the fraction part, if any: `(digits, rest)` (`[]` = absent) -/
def parseFrac (b : Bytes) : Option (Bytes × Bytes) :=
  match b with
  | c :: r =>
    if c == 0x2E then
      let ds := spanDigits r
      if ds.1 = [] then none else some ds
    else some ([], c :: r)
  | [] => some ([], [])

def parseNum (b : Bytes) : Option (Num × Bytes) :=
  let nr := splitMinus b
  let ds := spanDigits nr.2
  if ds.1 = [] then none
  else if ds.1.length > 1 && ds.1.head? == some 0x30 then none   -- leading zero
  else match parseFrac ds.2 with
    | none => none
    | some (fs, r2) =>
      match parseExp r2 with
      | none => none
      | some (ex, r3) =>
        if fs = [] && ex.isNone then some (.int (signed nr.1 (decVal ds.1)), r3)
        else some (.flt (signed nr.1 (decVal (ds.1 ++ fs))) (ex.getD 0 - (fs.length : Int)), r3)

/-! ## strings -/

/-- the scanner's end of a string literal (input just after the opening
quote): a backslash protects the next byte; returns the body and the input
after the closing quote -/
def strEndAux : Bool → Bytes → Option (Bytes × Bytes)
  | _, [] => none
  | true, c :: r => (strEndAux false r).map fun p => (c :: p.1, p.2)
  | false, c :: r =>
    if c == 0x22 then some ([], r)
    else if c == 0x5C then (strEndAux true r).map fun p => (c :: p.1, p.2)
    else (strEndAux false r).map fun p => (c :: p.1, p.2)

def strEnd (b : Bytes) : Option (Bytes × Bytes) := strEndAux false b

/-- a string literal at the head (opening quote included) -/
def parseStr (b : Bytes) : Option (Bytes × Bytes) :=
  match b with
  | 0x22 :: r =>
    match strEnd r with
    | some (body, rest) => (jsonDecLoop (body.length + 1) body 0).map fun s => (s, rest)
    | none => none
  | _ => none

/-! ## values -/

mutual
/-- a value, leading white space skipped -/
def parseV : Nat → Bytes → Option (J × Bytes)
  | 0, _ => none
  | f + 1, b =>
    match skipWs b with
    | [] => none
    | c :: r =>
      if c == 0x7B then
        match skipWs r with
        | 0x7D :: r' => some (.obj [], r')
        | r' => (parseMembers f r').map fun p => (.obj p.1, p.2)
      else if c == 0x5B then
        match skipWs r with
        | 0x5D :: r' => some (.arr [], r')
        | r' => (parseElems f r').map fun p => (.arr p.1, p.2)
      else if c == 0x22 then (parseStr (c :: r)).map fun p => (.str p.1, p.2)
      else if c == 0x74 then (stripPrefix [0x72, 0x75, 0x65] r).map fun t => (.bool true, t)
      else if c == 0x66 then (stripPrefix [0x61, 0x6C, 0x73, 0x65] r).map fun t => (.bool false, t)
      else if c == 0x6E then (stripPrefix [0x75, 0x6C, 0x6C] r).map fun t => (.null, t)
      else if c == 0x2D || isDigit c then (parseNum (c :: r)).map fun p => (.num p.1, p.2)
      else none
/-- `value (ws , value)* ws ]` -/
def parseElems : Nat → Bytes → Option (List J × Bytes)
  | 0, _ => none
  | f + 1, b =>
    match parseV f b with
    | none => none
    | some (x, r) =>
      match skipWs r with
      | c :: r' =>
        if c == 0x2C then (parseElems f r').map fun p => (x :: p.1, p.2)
        else if c == 0x5D then some ([x], r')
        else none
      | [] => none
/-- `ws string ws : value (ws , ws string ws : value)* ws }` -/
def parseMembers : Nat → Bytes → Option (List (Bytes × J) × Bytes)
  | 0, _ => none
  | f + 1, b =>
    match parseStr (skipWs b) with
    | none => none
    | some (k, r) =>
      match skipWs r with
      | c :: r1 =>
        if c == 0x3A then
          match parseV f r1 with
          | none => none
          | some (x, r2) =>
            match skipWs r2 with
            | c2 :: r3 =>
              if c2 == 0x2C then (parseMembers f r3).map fun p => ((k, x) :: p.1, p.2)
              else if c2 == 0x7D then some ([(k, x)], r3)
              else none
            | [] => none
        else none
      | [] => none
end

/-- a whole document (`json.Unmarshal`): one value, white space, end of input.
Fuel: every recursive call consumes at least one byte. -/
def parseTop (b : Bytes) : Option J :=
  match parseV (b.length + 1) b with
  | some (j, r) => if skipWs r = [] then some j else none
  | none => none

/-! ## the canonical printer -/

def digitChar (d : Nat) : UInt8 := UInt8.ofNat (48 + d)

/-- decimal digits, most significant first (`fuel > number of digits`) -/
def natDigitsAux : Nat → Nat → Bytes → Bytes
  | 0, _, acc => acc
  | f + 1, n, acc =>
    if n < 10 then digitChar n :: acc else natDigitsAux f (n / 10) (digitChar (n % 10) :: acc)

def natDigits (n : Nat) : Bytes := natDigitsAux (n + 1) n []

def printInt (v : Int) : Bytes := if v < 0 then 0x2D :: natDigits v.natAbs else natDigits v.natAbs

def printNum : Num → Bytes
  | .int v => printInt v
  | .flt m e => printInt m ++ 0x65 :: printInt e

def printStr (s : Bytes) : Bytes := jsonEncodeString false s

mutual
def printJ : J → Bytes
  | .null => [0x6E, 0x75, 0x6C, 0x6C]
  | .bool true => [0x74, 0x72, 0x75, 0x65]
  | .bool false => [0x66, 0x61, 0x6C, 0x73, 0x65]
  | .num n => printNum n
  | .str s => printStr s
  | .arr xs => 0x5B :: (printJs xs ++ [0x5D])
  | .obj kvs => 0x7B :: (printKvs kvs ++ [0x7D])
def printJs : List J → Bytes
  | [] => []
  | [x] => printJ x
  | x :: y :: r => printJ x ++ 0x2C :: printJs (y :: r)
def printKvs : List (Bytes × J) → Bytes
  | [] => []
  | [(k, v)] => printStr k ++ 0x3A :: printJ v
  | (k, v) :: kv :: r => printStr k ++ 0x3A :: (printJ v ++ 0x2C :: printKvs (kv :: r))
end


/-! ## well-formed trees; splicing -/

mutual
/-- every string and every object key is valid UTF-8 (anything else does not
survive any JSON writer: U+FFFD) -/
def wfJ : J → Bool
  | .str s => Martian.ShellQuote.validUtf8 s
  | .arr xs => wfJs xs
  | .obj kvs => wfKvs kvs
  | _ => true
def wfJs : List J → Bool
  | [] => true
  | x :: r => wfJ x && wfJs r
def wfKvs : List (Bytes × J) → Bool
  | [] => true
  | (k, v) :: r => Martian.ShellQuote.validUtf8 k && wfJ v && wfKvs r
end

/-- pieces separated by `,` -/
def joinComma : List Bytes → Bytes
  | [] => []
  | [p] => p
  | p :: q :: r => p ++ 0x2C :: joinComma (q :: r)

/-- `[` pieces `]`: what every array writer of the code emits (`ArrayType.FilterJson`
re-encoding path, `marshallerArray.encodeJSON`, `ArrayExp.encodeJSON`) -/
def spliceArr (ps : List Bytes) : Bytes := 0x5B :: (joinComma ps ++ [0x5D])

/-- `{` keyToken `:` piece , … `}`: what every object writer emits (struct / typed-map
re-encoding, `LazyArgumentMap`/`MarshalerMap`/`MapExp`/`ResolvedBindingMap` `encodeJSON`) -/
def spliceObj (ms : List (Bytes × Bytes)) : Bytes :=
  0x7B :: (joinComma (ms.map fun m => m.1 ++ 0x3A :: m.2) ++ [0x7D])

end Martian.JsonBytes

/-! # The byte-splicing filters of martian/syntax (`FilterJson`)

`FilterJson` never builds a tree: at every level it asks `encoding/json` for
the raw slices of the members (`[]json.RawMessage` / `map[string]json.RawMessage`),
filters each slice, and either returns its input slice untouched (when every
member came back as the SAME slice: `sameSlice`, pointer identity) or writes a
new container by concatenating `[`/`{`, the member slices, `,`, `:` and
re-encoded keys.  The model works on the annotated tree `A` = the parse tree
with, at every node, the raw bytes the decoder hands out for it. -/
namespace Martian.JsonBytes
open Martian.Json (J Num)
open Martian.Lexer (Bytes)
open Martian.Types (Ty Fields Base FErr canFilter worstF)
open Martian.InvocationStr (jsonEncodeString)

/-- a parse tree annotated with the raw bytes of every node (no surrounding white space) -/
inductive A where
  | lit (raw : Bytes) (j : J)
  | arr (raw : Bytes) (xs : List A)
  | obj (raw : Bytes) (kvs : List (Bytes × A))
  deriving Inhabited

def A.raw : A → Bytes
  | .lit r _ => r
  | .arr r _ => r
  | .obj r _ => r

mutual
def A.toJ : A → J
  | .lit _ j => j
  | .arr _ xs => .arr (toJs xs)
  | .obj _ kvs => .obj (toJKvs kvs)
def toJs : List A → List J
  | [] => []
  | x :: r => x.toJ :: toJs r
def toJKvs : List (Bytes × A) → List (Bytes × J)
  | [] => []
  | (k, v) :: r => (k, v.toJ) :: toJKvs r
end

def A.isNull : A → Bool
  | .lit _ .null => true
  | _ => false

/-- the bytes between the start of a value and the rest after it -/
def consumed (start rest : Bytes) : Bytes := start.take (start.length - rest.length)

mutual
/-- `parseV` keeping, at every node, the bytes it consumed -/
def parseA : Nat → Bytes → Option (A × Bytes)
  | 0, _ => none
  | f + 1, b =>
    match skipWs b with
    | [] => none
    | c :: r =>
      if c == 0x7B then
        match skipWs r with
        | 0x7D :: r' => some (.obj (consumed (c :: r) r') [], r')
        | r' => (parseMembersA f r').map fun p => (.obj (consumed (c :: r) p.2) p.1, p.2)
      else if c == 0x5B then
        match skipWs r with
        | 0x5D :: r' => some (.arr (consumed (c :: r) r') [], r')
        | r' => (parseElemsA f r').map fun p => (.arr (consumed (c :: r) p.2) p.1, p.2)
      else if c == 0x22 then (parseStr (c :: r)).map fun p => (.lit (consumed (c :: r) p.2) (.str p.1), p.2)
      else if c == 0x74 then (stripPrefix [0x72, 0x75, 0x65] r).map fun t => (.lit (consumed (c :: r) t) (.bool true), t)
      else if c == 0x66 then
        (stripPrefix [0x61, 0x6C, 0x73, 0x65] r).map fun t => (.lit (consumed (c :: r) t) (.bool false), t)
      else if c == 0x6E then (stripPrefix [0x75, 0x6C, 0x6C] r).map fun t => (.lit (consumed (c :: r) t) .null, t)
      else if c == 0x2D || isDigit c then
        (parseNum (c :: r)).map fun p => (.lit (consumed (c :: r) p.2) (.num p.1), p.2)
      else none
def parseElemsA : Nat → Bytes → Option (List A × Bytes)
  | 0, _ => none
  | f + 1, b =>
    match parseA f b with
    | none => none
    | some (x, r) =>
      match skipWs r with
      | c :: r' =>
        if c == 0x2C then (parseElemsA f r').map fun p => (x :: p.1, p.2)
        else if c == 0x5D then some ([x], r')
        else none
      | [] => none
def parseMembersA : Nat → Bytes → Option (List (Bytes × A) × Bytes)
  | 0, _ => none
  | f + 1, b =>
    match parseStr (skipWs b) with
    | none => none
    | some (k, r) =>
      match skipWs r with
      | c :: r1 =>
        if c == 0x3A then
          match parseA f r1 with
          | none => none
          | some (x, r2) =>
            match skipWs r2 with
            | c2 :: r3 =>
              if c2 == 0x2C then (parseMembersA f r3).map fun p => ((k, x) :: p.1, p.2)
              else if c2 == 0x7D then some ([(k, x)], r3)
              else none
            | [] => none
        else none
      | [] => none
end

/-- a whole document with its annotation -/
def parseTopA (b : Bytes) : Option A :=
  match parseA (b.length + 1) b with
  | some (a, r) => if skipWs r = [] then some a else none
  | none => none

/-! ## what a decode into a Go `map` retains, `sort.Strings` -/

/-- the last member of every key, in the position of that last occurrence -/
def dedupLastG {α : Type} : List (Bytes × α) → List (Bytes × α)
  | [] => []
  | kv :: r => if (r.map Prod.fst).contains kv.1 then dedupLastG r else kv :: dedupLastG r

/-- `m[k]` after decoding into a map: the last member with that key -/
def getKeyG {α : Type} (k : Bytes) : List (Bytes × α) → Option α
  | [] => none
  | (k', v) :: rest =>
    match getKeyG k rest with
    | some w => some w
    | none => if k' = k then some v else none

/-- Go's `<=` on strings: bytewise lexicographic -/
def bytesLe : Bytes → Bytes → Bool
  | [], _ => true
  | _ :: _, [] => false
  | a :: as, b :: bs => a < b || (a == b && bytesLe as bs)

def insertByKey {α : Type} (kv : Bytes × α) : List (Bytes × α) → List (Bytes × α)
  | [] => [kv]
  | x :: r => if bytesLe kv.1 x.1 then kv :: x :: r else x :: insertByKey kv r

/-- `sort.Strings` on the keys of a map (keys are distinct, so any sorting algorithm gives this
list; insertion sort, so that the kernel can evaluate it) -/
def sortByKey {α : Type} (l : List (Bytes × α)) : List (Bytes × α) :=
  l.foldr insertByKey []

/-! ## the filters -/

structure FRes where
  /-- the returned message with its tree -/
  out : A
  /-- the returned slice IS the input slice (`sameSlice`) -/
  same : Bool
  err : FErr
  deriving Inhabited

def nullA : A := .lit [0x6E, 0x75, 0x6C, 0x6C] .null

/-- `BuiltinType.FilterJson`: the decision is `TypesR.filterBase` on the tree; only the `int`
rewrite (`json.Marshal(&i)`) returns new bytes -/
def filterBaseA (b : Base) (a : A) : FRes :=
  match Martian.TypesR.filterBase b a.toJ with
  | (.num (.int i), .soft) => ⟨.lit (printInt i) (.num (.int i)), false, .soft⟩
  | (_, e) => ⟨a, true, e⟩

mutual
/-- `Type.FilterJson` on raw messages -/
def filterA : Ty → A → FRes
  | .base b, a => filterBaseA b a
  | .user _, a =>
    match a.toJ with
    | .null | .str _ => ⟨a, true, .ok⟩
    | _ => ⟨a, true, .soft⟩
  | .arr t, a =>
    if a.isNull || !canFilter t then ⟨a, true, .ok⟩ else
    match a with
    | .arr _ xs =>
      if xs.isEmpty then ⟨a, true, .ok⟩ else
      let rs := xs.map (fun x => filterA t x)
      let err := worstF (rs.map (·.err))
      if rs.all (·.same) then ⟨a, true, err⟩
      else ⟨.arr (spliceArr (rs.map (·.out.raw))) (rs.map (·.out)), false, err⟩
    | _ => ⟨a, true, .fatal⟩
  | .tmap t, a =>
    if a.isNull || !canFilter t then ⟨a, true, .ok⟩ else
    match a with
    | .obj _ kvs =>
      let m := sortByKey (dedupLastG kvs)
      if m.isEmpty then ⟨a, true, .ok⟩ else
      let rs := m.map (fun kv => (kv.1, filterA t kv.2))
      let err := worstF (rs.map (·.2.err))
      if rs.all (·.2.same) then ⟨a, true, err⟩
      else ⟨.obj (spliceObj (rs.map fun r => (jsonEncodeString true r.1, r.2.out.raw)))
              (rs.map fun r => (r.1, r.2.out)), false, err⟩
    | _ => ⟨a, true, .fatal⟩
  | .struct _ fs, a =>
    if a.isNull then ⟨a, true, .ok⟩ else
    match a with
    | .obj _ kvs =>
      let m := dedupLastG kvs
      let r := filterFieldsA fs m
      if !(m.length != fs.toList.length || r.2.1) then ⟨a, true, r.2.2⟩
      else ⟨.obj (spliceObj (r.1.map fun kv => (jsonEncodeString true kv.1, kv.2.raw))) r.1, false, r.2.2⟩
    | _ => ⟨a, true, .fatal⟩
/-- the member loop of `StructType.FilterJson`: (members written, different, error class) -/
def filterFieldsA : Fields → List (Bytes × A) → List (Bytes × A) × Bool × FErr
  | .nil, _ => ([], false, .ok)
  | .cons k t r, m =>
    let rest := filterFieldsA r m
    match getKeyG k m with
    | none => ((k, nullA) :: rest.1, rest.2.1, .fatal)
    | some v =>
      if canFilter t then
        ((k, (filterA t v).out) :: rest.1, rest.2.1 || !(filterA t v).same, (filterA t v).err.max rest.2.2)
      else ((k, v) :: rest.1, rest.2.1, rest.2.2)
end

mutual
/-- the annotated document has scalar leaves (always true of what `parseTopA` returns) and NO OBJECT
WITH TWO MEMBERS OF THE SAME KEY, at any depth -/
def noDupA : A → Bool
  | .lit _ (.arr _) => false
  | .lit _ (.obj _) => false
  | .lit _ _ => true
  | .arr _ xs => noDupAs xs
  | .obj _ kvs => decide ((kvs.map Prod.fst).Nodup) && noDupKvs kvs
def noDupAs : List A → Bool
  | [] => true
  | x :: r => noDupA x && noDupAs r
def noDupKvs : List (Bytes × A) → Bool
  | [] => true
  | (_, v) :: r => noDupA v && noDupKvs r
end

/-- `t.FilterJson(data)` on bytes without surrounding white space: output bytes and error class
(`none`: `data` is no JSON value; the real filters then fail in `json.Unmarshal`) -/
def filterBytes (t : Ty) (data : Bytes) : Option (Bytes × FErr) :=
  (parseTopA data).map fun a => ((filterA t a).out.raw, (filterA t a).err)

end Martian.JsonBytes

/-! # the sorted-key / array writers of martian/core and martian/syntax

`LazyArgumentMap.encodeJSON`, `MarshalerMap.encodeJSON` (keys by `json.Marshal` = HTML-escaping
encoder, values spliced raw, keys in `sort.Strings` order), `marshallerArray.encodeJSON`,
`MapExp.encodeJSON` / `ResolvedBindingMap.encodeJSON` (keys by `quoteString`). -/
namespace Martian.JsonBytes
open Martian.Lexer (Bytes)
open Martian.InvocationStr (jsonEncodeString)

/-- a Go map of raw messages written with sorted keys; `html` = keys by `json.Marshal` -/
def encodeRawMap (html : Bool) (m : List (Bytes × Bytes)) : Bytes :=
  spliceObj ((sortByKey m).map fun kv => (jsonEncodeString html kv.1, kv.2))

/-- a slice of raw messages -/
def encodeRawArr (xs : List Bytes) : Bytes := spliceArr xs

end Martian.JsonBytes
