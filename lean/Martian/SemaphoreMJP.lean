/-
C12 model: MaxJobsSemaphore WITH its callers (martian/core/maxjobs_semaphore.go).

`Martian.Semaphore.MJ` models one pass through `Acquire` and says "goes to
cond.Wait()" (`none`) without remembering who waits.  Here the callers blocked in
`self.cond.Wait()` are part of the state, with the condition variable's
semantics as the code uses it:

* `Release`: `delete; self.cond.Signal()` (only when the job held a slot);
* `FindDone`: after removing finished holders, `Broadcast()` when more than one
  slot is spare, `Signal()` when exactly one is;
* `Clear`: `Limit = 0; Broadcast()`;
* `Acquire`: `defer self.cond.Signal()` is registered after the entry test and
  before the lock, so EVERY return from inside (granted, cancelled, already
  holding, non-blocking refusal, limit 0) signals once more — this is what hands
  a wake-up on when the woken caller did not need the slot.

`Signal` moves the longest-waiting parked caller to `woken` (Go's notify list is
FIFO; nothing proved here depends on which one is woken), `Broadcast` all of
them.  A woken caller re-runs the loop (`resume`) whenever the scheduler lets it:
a state with `woken = []` is quiescent.  Core Lean only.
-/
import Martian.Semaphore

namespace Martian.Semaphore

/-- a blocked `Acquire` call: (caller id, job id) -/
abbrev Caller := Nat × Nat

structure MJP where
  limit : Int
  running : List Nat
  parked : List Caller   -- in cond.Wait(), oldest first
  woken : List Caller    -- signalled, have not yet re-acquired the lock
deriving Repr, DecidableEq

def MJP.init (limit : Int) : MJP := ⟨limit, [], [], []⟩

/-- the semaphore proper -/
def MJP.mj (s : MJP) : MJ := ⟨s.limit, s.running⟩

/-- `self.cond.Signal()` -/
def MJP.signal (s : MJP) : MJP :=
  match s.parked with
  | [] => s
  | p :: ps => { s with parked := ps, woken := s.woken ++ [p] }

/-- `self.cond.Broadcast()` -/
def MJP.broadcast (s : MJP) : MJP := { s with parked := [], woken := s.woken ++ s.parked }

/-- One pass of caller `w` (for job `id`, whose state is `st` now) through the
locked part of `Acquire`: `MJ.attempt` decides; a return runs the deferred
`Signal`, otherwise the caller parks. -/
def MJP.pass (s : MJP) (w id : Nat) (st : MdState) (nb : Bool) : MJP × Option Bool :=
  let r := s.mj.attempt id st nb
  let s' := { s with running := r.1.running }
  match r.2 with
  | some b => (s'.signal, some b)
  | none => ({ s' with parked := s'.parked ++ [(w, id)] }, none)

inductive MJPOp
  /-- a new `Acquire(md, nonblocking)` call -/
  | enter (w id : Nat) (st : MdState) (nonblocking : Bool)
  /-- a woken caller gets the lock back; `st` = its job's state now -/
  | resume (w : Nat) (st : MdState)
  | release (id : Nat)
  | findDone (finished : List Nat)
  | clear
deriving Repr, DecidableEq

/-- Result: `some b` = an `Acquire` returned `b`; `none` = nobody returned.
`valid = false`: a `resume` of a caller that has not been signalled. -/
structure MJPRes where
  st : MJP
  ret : Option Bool
  valid : Bool
deriving Repr, DecidableEq

def MJP.step (s : MJP) : MJPOp → MJPRes
  | .enter w id st nb =>
    -- the entry test comes before `defer self.cond.Signal()`
    if st.cancelled nb then ⟨s, some false, true⟩
    else let r := s.pass w id st nb; ⟨r.1, r.2, true⟩
  | .resume w st =>
    match s.woken.find? (fun c => c.1 == w) with
    | some c =>
      let r := ({ s with woken := s.woken.filter fun d => d.1 != w }).pass w c.2 st false
      ⟨r.1, r.2, true⟩
    | none =>
      -- which parked caller a Signal wakes is not specified by sync.Cond: the wake-up that
      -- the model gave to the longest-waiting caller `t` may have gone to `w` instead
      match s.parked.find? (fun c => c.1 == w), s.woken with
      | some c, t :: ts =>
        let r := ({ s with woken := ts, parked := t :: s.parked.filter fun d => d.1 != w }).pass w c.2 st false
        ⟨r.1, r.2, true⟩
      | _, _ => ⟨s, none, false⟩
  | .release id =>
    if s.running.contains id then ⟨({ s with running := s.running.erase id }).signal, none, true⟩
    else ⟨s, none, true⟩
  | .findDone fin =>
    let run' := s.running.filter fun r => !fin.contains r
    if run'.length = s.running.length then ⟨s, none, true⟩
    else
      let s' := { s with running := run' }
      let spare := s.limit - (run'.length : Int)
      if spare > 1 then ⟨s'.broadcast, none, true⟩
      else if spare = 1 then ⟨s'.signal, none, true⟩
      else ⟨s', none, true⟩
  | .clear => ⟨({ s with limit := 0 }).broadcast, none, true⟩

/-- Quiescence: every signalled caller gets the lock back (oldest first) and re-runs the
loop; `stOf id` = the job's state now.  Returns the callers that returned meanwhile. -/
def MJP.quiesce (stOf : Nat → MdState) : Nat → MJP → List (Nat × Bool) → MJP × List (Nat × Bool)
  | 0, s, acc => (s, acc)
  | fuel + 1, s, acc =>
    match s.woken with
    | [] => (s, acc)
    | c :: _ =>
      let r := s.step (.resume c.1 (stOf c.2))
      MJP.quiesce stOf fuel r.st (match r.ret with | some b => acc ++ [(c.1, b)] | none => acc)

def MJP.run : MJP → List MJPOp → MJP
  | s, [] => s
  | s, op :: ops => MJP.run (s.step op).st ops

def MJP.trace : MJP → List MJPOp → List MJPRes
  | _, [] => []
  | s, op :: ops => let r := s.step op; r :: MJP.trace r.st ops

/-- a slot is free -/
def MJP.room (s : MJP) : Prop := (s.running.length : Int) < s.limit

/-- **No parked caller is forgotten**: if a slot is free and somebody is parked,
somebody has been signalled and will look at the semaphore again. -/
def MJP.NoLostWakeup (s : MJP) : Prop := s.room → s.parked = [] ∨ s.woken ≠ []

end Martian.Semaphore
