/-
C16, clause "every fork's `_invocation` compiles to a call of that stage whose arguments equal the
fork's resolved arguments" (audit C16-H2): the model of `Fork.writeInvocation` (martian/core/stage.go).

    splitArgs, argBindings, err := self.node.resolveInputs(self.forkId, true)
    invocation, _ := BuildCallSource(call.Id, argBindings, splitArgs, callable, types, mroPaths)
    self.metadata.WriteRaw(InvocationFile, invocation)

`Node.resolveInputs(fork, keepSplit)` (resolve.go) hands over a `MarshalerMap` parameter ↦ value
whose values have the DYNAMIC types the run-time resolver (`TopNode.resolve`) produces:

  * `nil`                          – a disabled / null binding,
  * `syntax.ValExp`                – a binding without reference and split is returned AS IT STANDS in the
                                     compiled pipeline (`!binding.HasRef() && !binding.HasSplit()`), and a
                                     `*SplitExp` that no fork index resolves (a pipeline's fork "only
                                     sort-of forks": its fork id is empty) is returned in place
                                     (`resolveSplit`: "This fork's split is unresolved"),
  * `json.RawMessage`              – `LazyArgumentMap.Path` of a reference: the producer's `_outs` narrowed,
  * `LazyArgumentMap`              – a struct read from `_outs` member by member,
  * `MarshalerMap`                 – `resolveMap` of a map / struct literal with references inside,
  * `marshallerArray`              – `resolveArray` / `resolveMerge`.

`MV` is that type; `convertMV` is `convertToExp` on it (runtime.go: the `ValExp`, `RawMessage`,
`LazyArgumentMap`, `MarshalerMap`, `marshallerArray` and `nil` cases – the `RawMessage` case is the
existing `convert`), `bindingOf` / `invocationOf` the loop of `BuildCallAst` over the callable's
parameters, `marshal` is `MarshalJSON` (what `_args` receives of the same values).  The resolver
itself – which value a fork gets – is C01's model (`ResolverStatic.evalRT` / `runtimeArgs`, tied to
the real `_args` per run); `ofDJ` / `argsOfNode` below read its result as such values.

Expressions with `split` INSIDE (`IExp`): what the formatter prints for a sub-pipeline's fork whose
binding contains the split of an enclosing map call below the top of the expression.  The grammar
has `split` only directly after `=` in a binding of a `map call`, so such a call does not parse:
`forkCompiles` is the decidable statement of which fork invocations compile (known finding C16-N6).

Core Lean only.
-/
import Martian.Invocation
import Martian.InvocationText
import Martian.InvocationJson
import Martian.InvocationSort
import Martian.ResolverStatic

namespace Martian.InvocationFork
open Martian.Invocation Martian.InvocationText

/-! ## expressions with splits left in place -/
mutual
inductive IExp
  | lit (l : Lit)
  | arr (xs : IList)
  | map (isStruct : Bool) (kvs : IKvs)
  /-- `*syntax.SplitExp` -/
  | split (e : IExp)
inductive IList
  | nil
  | cons (e : IExp) (r : IList)
inductive IKvs
  | nil
  | cons (k : Str) (e : IExp) (r : IKvs)
end

mutual
def ofExp : Exp → IExp
  | .lit l => .lit l
  | .arr xs => .arr (ofEList xs)
  | .map k kvs => .map k (ofEKvs kvs)
def ofEList : EList → IList
  | .nil => .nil
  | .cons e r => .cons (ofExp e) (ofEList r)
def ofEKvs : EKvs → IKvs
  | .nil => .nil
  | .cons k e r => .cons k (ofExp e) (ofEKvs r)
end

mutual
/-- the expression, when no `split` occurs in it -/
def plainE : IExp → Option Exp
  | .lit l => some (.lit l)
  | .arr xs => (plainL xs).map .arr
  | .map k kvs => (plainK kvs).map (.map k)
  | .split _ => none
def plainL : IList → Option EList
  | .nil => some .nil
  | .cons e r =>
    match plainE e, plainL r with
    | some e', some r' => some (.cons e' r')
    | _, _ => none
def plainK : IKvs → Option EKvs
  | .nil => some .nil
  | .cons k e r =>
    match plainE e, plainK r with
    | some e', some r' => some (.cons k e' r')
    | _, _ => none
end

mutual
/-- `MarshalJSON` of an expression (`SplitExp` without `Call`: `{"split": value}`) -/
def encodeI : IExp → J
  | .lit l => .lit (encLit l)
  | .arr xs => .arr (encodeIL xs)
  | .map _ kvs => .obj (encodeIK kvs)
  | .split e => .obj (.cons splitKey (encodeI e) .nil)
def encodeIL : IList → JList
  | .nil => .nil
  | .cons e r => .cons (encodeI e) (encodeIL r)
def encodeIK : IKvs → JKvs
  | .nil => .nil
  | .cons k e r => .cons k (encodeI e) (encodeIK r)
end

/-! ## the values `resolveInputs` returns -/
mutual
inductive MV
  /-- `nil` -/
  | nil
  /-- `syntax.ValExp`: a literal of the compiled source, or a `SplitExp` left in place -/
  | val (e : IExp)
  /-- `json.RawMessage` -/
  | raw (j : J)
  /-- `LazyArgumentMap`: member ↦ raw JSON -/
  | lazy (kvs : JKvs)
  /-- `MarshalerMap` -/
  | mmap (kvs : MKvs)
  /-- `marshallerArray` -/
  | marr (xs : MList)
inductive MList
  | nil
  | cons (v : MV) (r : MList)
inductive MKvs
  | nil
  | cons (k : Str) (v : MV) (r : MKvs)
end

mutual
/-- `MarshalJSON`: the JSON `_args` receives of the value -/
def marshal : MV → J
  | .nil => .lit .null
  | .val e => encodeI e
  | .raw j => j
  | .lazy kvs => .obj kvs
  | .mmap kvs => .obj (marshalK kvs)
  | .marr xs => .arr (marshalL xs)
def marshalL : MList → JList
  | .nil => .nil
  | .cons v r => .cons (marshal v) (marshalL r)
def marshalK : MKvs → JKvs
  | .nil => .nil
  | .cons k v r => .cons k (marshal v) (marshalK r)
end

mutual
/-- no `ValExp` inside: the value was assembled from run-time data only -/
def noVal : MV → Bool
  | .val _ => false
  | .mmap kvs => noValK kvs
  | .marr xs => noValL xs
  | _ => true
def noValL : MList → Bool
  | .nil => true
  | .cons v r => noVal v && noValL r
def noValK : MKvs → Bool
  | .nil => true
  | .cons _ v r => noVal v && noValK r
end

mutual
/-- no `SplitExp` anywhere in the value: every split is resolved – the case of a STAGE fork, whose fork
id carries an index for every enclosing map call -/
def splitFreeI : IExp → Bool
  | .lit _ => true
  | .arr xs => splitFreeIL xs
  | .map _ kvs => splitFreeIK kvs
  | .split _ => false
def splitFreeIL : IList → Bool
  | .nil => true
  | .cons e r => splitFreeI e && splitFreeIL r
def splitFreeIK : IKvs → Bool
  | .nil => true
  | .cons _ e r => splitFreeI e && splitFreeIK r
end

mutual
def splitFree : MV → Bool
  | .val e => splitFreeI e
  | .mmap kvs => splitFreeK kvs
  | .marr xs => splitFreeL xs
  | _ => true
def splitFreeL : MList → Bool
  | .nil => true
  | .cons v r => splitFree v && splitFreeL r
def splitFreeK : MKvs → Bool
  | .nil => true
  | .cons _ v r => splitFree v && splitFreeK r
end

mutual
/-- every integer of the run-time data fits int64 (else `ParseValExp` fails) -/
def mvIntsOk : MV → Bool
  | .raw j => jIntsOk j
  | .lazy kvs => jIntsOkKvs kvs
  | .mmap kvs => mvIntsOkK kvs
  | .marr xs => mvIntsOkL xs
  | _ => true
def mvIntsOkL : MList → Bool
  | .nil => true
  | .cons v r => mvIntsOk v && mvIntsOkL r
def mvIntsOkK : MKvs → Bool
  | .nil => true
  | .cons _ v r => mvIntsOk v && mvIntsOkK r
end

/-! ## `convertToExp` on these values -/

/-- `possibleStructType(tname, lookup)` (lookup non-nil): not a typed map, and the lookup yields a
struct type or nothing -/
def structKind (b : Base) (ad md : Nat) : Bool :=
  match mapAction b ad md with
  | .fields _ => true
  | .markStruct => true
  | .vals _ _ _ => false
  | .keep => false

/-- the type at which the entry `k` of a `LazyArgumentMap` / `MarshalerMap` is converted:
`structMemberType(tname, lookup, k)` when the value is taken for a struct (the member's type; the
struct's OWN type when `k` is no member or the base is unknown), the element type of a typed map,
else the type unchanged -/
def memberType (b : Base) (ad md : Nat) (k : Str) : TypeId :=
  match mapAction b ad md with
  | .fields fs => (fs.find k).getD ⟨b, ad, md⟩
  | .vals b' ad' md' => ⟨b', ad', md'⟩
  | .markStruct => ⟨b, ad, md⟩
  | .keep => ⟨b, ad, md⟩

/-- the entries of a `LazyArgumentMap` (each a `RawMessage`) -/
def convertLazy (b : Base) (ad md : Nat) : JKvs → Option IKvs
  | .nil => some .nil
  | .cons k j r =>
    match convert (memberType b ad md k) j, convertLazy b ad md r with
    | some e, some es => some (.cons k (ofExp e) es)
    | _, _ => none

mutual
/-- `convertToExp(parser, false, val, TypeId{b, ad, md}, lookup)` by dynamic type of `val` -/
def convertMV (b : Base) (ad md : Nat) : MV → Option IExp
  | .nil => some (.lit .null)
  | .val e => some e
  | .raw j => (convert ⟨b, ad, md⟩ j).map ofExp
  | .lazy kvs => (convertLazy b ad md kvs).map (.map (structKind b ad md))
  | .mmap kvs => (convertMK b ad md kvs).map (.map (structKind b ad md))
  | .marr xs => (convertML b (ad - 1) md xs).map .arr
def convertML (b : Base) (ad md : Nat) : MList → Option IList
  | .nil => some .nil
  | .cons v r =>
    match convertMV b ad md v, convertML b ad md r with
    | some e, some es => some (.cons e es)
    | _, _ => none
/-- the entries of a `MarshalerMap` whose own type is `TypeId{b, ad, md}` -/
def convertMK (b : Base) (ad md : Nat) : MKvs → Option IKvs
  | .nil => some .nil
  | .cons k v r =>
    match convertMV (memberType b ad md k).base (memberType b ad md k).arrayDim
            (memberType b ad md k).mapDim v, convertMK b ad md r with
    | some e, some es => some (.cons k e es)
    | _, _ => none
end

/-! ## `BuildCallAst` on such arguments -/

inductive IArg
  | plain (e : IExp)
  | split (e : IExp)

def ofArg : Arg → IArg
  | .plain e => .plain (ofExp e)
  | .split e => .split (ofExp e)

def plainArg : IArg → Option Arg
  | .plain e => (plainE e).map .plain
  | .split e => (plainE e).map .split

/-- `s, ok := binding.Exp.(*syntax.SplitExp); if split && !ok { s = &SplitExp{Value: binding.Exp} }` -/
def wrapBinding (split : Bool) : IExp → IArg
  | .split op => .split op
  | e => if split then .split e else .plain e

/-- one binding: `nil` gives `null` whatever `splitargs` says (`if val := args[id]; val != nil`); a
`RawMessage` goes the way of invocation data (`buildBinding`: with `split` it must be
`{"split": v}`); any other value is converted ignoring `split`, a `SplitExp` result stays the
binding, and `split && !ok` wraps the result -/
def bindingOf (split : Bool) (t : TypeId) : MV → Option IArg
  | .nil => some (.plain (.lit .null))
  | .raw j => (buildBinding split t j).map ofArg
  | v => (convertMV t.base t.arrayDim t.mapDim v).map (wrapBinding split)

def lookupMV (args : List (Str × MV)) (k : Str) : Option MV :=
  (args.find? (fun p => p.1 = k)).map (·.2)

/-- `BuildCallAst(name, args, splitargs, callable, lookup, mroPaths)`: one binding per declared
parameter in declaration order; `none` = an error (`BuildCallSource` returns "", and
`writeInvocation` writes an EMPTY `_invocation`) -/
def invocationOf : Sig → List Str → List (Str × MV) → Option (List (Str × IArg))
  | [], _, _ => some []
  | (p, t) :: ps, mapped, args =>
    match (match lookupMV args p with
           | some v => bindingOf (mapped.contains p) t v
           | none => some (.plain (.lit .null))),
          invocationOf ps mapped args with
    | some a, some bs => some ((p, a) :: bs)
    | _, _ => none

def plainBinds : List (Str × IArg) → Option (List (Str × Arg))
  | [] => some []
  | (p, a) :: r =>
    match plainArg a, plainBinds r with
    | some a', some r' => some ((p, a') :: r')
    | _, _ => none

/-! ## the text -/

/-- the call `BuildCallAst` builds: `Id = name` (the call's id: the alias of `call X as Y`),
`DecId = callable.GetId()` -/
def forkCall (g : G) (decId id : Str) (bs : List (Str × Arg)) : Martian.FormatCall.Call :=
  ⟨decId, id, bs.map (toFBind g)⟩

/-- the call statement of `Ast.Format()` (the `_invocation` after its `@include` line) -/
def printFork (g : G) (decId id : Str) (bs : List (Str × Arg)) : Martian.Lexer.Bytes :=
  Martian.FormatCall.fmtCall (forkCall g decId id bs)

/-- print, lex, parse as a `call_stm`, translate the bindings back: (DecId, Id, bindings) -/
def forkTextLeg (g : G) (decId id : Str) (bs : List (Str × Arg)) :
    Option (Str × Str × List (Str × Arg)) :=
  (Martian.FormatCall.parseCall (printFork g decId id bs)).map fun c =>
    (c.decId, c.id, c.binds.map (ofFBind g))

def wfForkText (g : G) (decId id : Str) (bs : List (Str × Arg)) : Bool :=
  Martian.FormatCall.wfCall (forkCall g decId id bs)

/-! ## which fork invocations compile (C16-N6) -/

mutual
def keysOf : EKvs → List Str
  | .nil => []
  | .cons k _ r => k :: keysOf r
def lenOf : EList → Nat
  | .nil => 0
  | .cons _ r => lenOf r + 1
end

/-- what `MergeMapCallSources` compares of a literal split operand: array or map, length, keys -/
def splitShape : Exp → Bool × Nat × List Str
  | .arr xs => (false, lenOf xs, [])
  | .map _ kvs => (true, 0, keysOf kvs)
  | .lit _ => (false, 0, [])

def splitShapes : List (Str × Arg) → List (Bool × Nat × List Str)
  | [] => []
  | (_, .split e) :: r => splitShape e :: splitShapes r
  | (_, .plain _) :: r => splitShapes r

/-- all split operands of the call are arrays of one length or maps with one key set ("inconsistent
split inputs" otherwise; the printed keys are sorted and distinct, so equal key sets are equal
lists) -/
def splitsConsistent (bs : List (Str × Arg)) : Bool :=
  match splitShapes bs with
  | [] => true
  | s :: r => r.all (· == s)

def isSplitIArg : IArg → Bool
  | .split _ => true
  | .plain _ => false

/-- `if len(splitargs) > 0 && ast.Call.Mapping == nil { ast.Call.Mapping = new(NullExp) }` (BuildCallAst):
a parameter is listed as left split but NO binding came out split – `resolveInputs` put the
parameter into `mapped` with the value `nil` (its split source disagrees with the fork: a disabled /
null producer next to another split argument) and `nil` gives a plain `null` binding.  The call is
then printed `map call X(…)` without any `split` binding, which the grammar rejects (audit pass 3,
A13; known finding C16-N8). -/
def mapPlaceholder (mapped : List Str) (ibs : List (Str × IArg)) : Bool :=
  !mapped.isEmpty && !ibs.any (fun b => isSplitIArg b.2)

/-- the call statement `Ast.Format()` prints for the fork: members of every map through the Go map
in printing order (`sortBinds`: keys sorted, last duplicate kept – raw / lazy values keep SOURCE
order in `bs`), and `map call` for the placeholder mapping -/
def printForkM (g : G) (decId id : Str) (mapped : List Str) (ibs : List (Str × IArg))
    (bs : List (Str × Arg)) : Martian.Lexer.Bytes :=
  if mapPlaceholder mapped ibs then
    Martian.FormatCall.sMap ++ [0x20] ++ printFork g decId id (Martian.InvocationSort.sortBinds bs)
  else printFork g decId id (Martian.InvocationSort.sortBinds bs)

/-- THE SHAPES THAT COMPILE: no `split` inside a value (the grammar has `split` only directly after
`=`), not the placeholder `map call` without a split binding, the call as Go prints it
(`sortBinds`) printable and readable back (`wfCall`: every split operand a non-empty array or a
non-empty map literal with quoted keys – not `split []`, `split {}`, `split null`, `split {a: 1}` –,
identifiers, valid strings), and all split operands of one shape -/
def forkCompiles (g : G) (decId id : Str) (mapped : List Str) (ibs : List (Str × IArg)) : Bool :=
  !mapPlaceholder mapped ibs &&
  match plainBinds ibs with
  | none => false
  | some bs =>
    wfForkText g decId id (Martian.InvocationSort.sortBinds bs) &&
      splitsConsistent (Martian.InvocationSort.sortBinds bs)

/-! ## the data the invocation stands for -/

/-- what `BuildDataForAst` returns for the binding of one value: `args[p]` -/
def canonTop (split : Bool) : MV → J
  | .nil => .lit .null
  | .raw j => canonArg split j
  | .val (.split op) => .obj (.cons splitKey (normJ (encodeI op)) .nil)
  | v => if split then .obj (.cons splitKey (normJ (marshal v)) .nil) else normJ (marshal v)

/-- is the binding of the value a split binding -/
def isSplitTop (split : Bool) : MV → Bool
  | .nil => false
  | .val (.split _) => true
  | _ => split

def argData (mapped : List Str) (args : List (Str × MV)) (p : Str) : J :=
  match lookupMV args p with
  | some v => canonTop (mapped.contains p) v
  | none => .lit .null

def argSplit (mapped : List Str) (args : List (Str × MV)) (p : Str) : Bool :=
  match lookupMV args p with
  | some v => isSplitTop (mapped.contains p) v
  | none => false

/-- the invocation data of the fork: every declared parameter, `null` for the absent ones; a
parameter left split carries `{"split": collection}` and is listed -/
def forkData (sig : Sig) (mapped : List Str) (args : List (Str × MV)) : Data :=
  { args := sig.map fun p => (p.1, argData mapped args p.1),
    splitargs := (sig.filter fun p => argSplit mapped args p.1).map (·.1) }

/-- the arguments as `_args` has them -/
def marshalArgs (args : List (Str × MV)) : List (Str × J) := args.map fun a => (a.1, marshal a.2)

/-! ## reading C01's resolver model

`ResolverStatic.runtimeArgs st nf ρ f n` is the argument record of fork `f` of stage node `n`, a
`Dataflow.J` whose scalars are atoms in canonical JSON text.  `ofDJ` reads it as an invocation tree
(the atoms through the JSON grammar and `ParseFloat` model `InvocationJson.treeOfBytes`), `tyOfD`
resolves a `Dataflow.Ty` against the struct table the way `TypeLookup.Get` does. -/

/-- the UTF-8 bytes of a string -/
def strBytes (s : String) : Str := s.toList.flatMap fun c => String.utf8EncodeChar c

mutual
def ofDJ : Martian.Dataflow.J → Option J
  | .null => some (.lit .null)
  | .dnull => some (.lit .null)
  | .atom s =>
    match Martian.InvocationJson.treeOfBytes (strBytes s) with
    | some (.lit l) => some (.lit l)
    | _ => none
  | .arr xs => (ofDJList xs).map .arr
  | .obj kvs => (ofDJKvs kvs).map .obj
def ofDJList : List Martian.Dataflow.J → Option JList
  | [] => some .nil
  | x :: r =>
    match ofDJ x, ofDJList r with
    | some j, some js => some (.cons j js)
    | _, _ => none
def ofDJKvs : List (String × Martian.Dataflow.J) → Option JKvs
  | [] => some .nil
  | (k, x) :: r =>
    match ofDJ x, ofDJKvs r with
    | some j, some js => some (.cons (strBytes k) j js)
    | _, _ => none
end

def builtinScalars : List String := ["int", "float", "string", "bool", "path", "file"]

mutual
/-- `lookup.Get(TypeId{Tname: name})` with the struct table as lookup (`fuel` bounds the struct
nesting): `map` is the untyped map, a struct its members, the builtins and anything else declared
(user file types) scalars -/
def baseOfD (st : Martian.Dataflow.StructTable) : Nat → String → Base
  | 0, _ => .unknown
  | fuel + 1, name =>
    if name = "map" then .umap
    else match st.lookup name with
      | some ps => .struct (fieldsOfD st fuel ps)
      | none => .scalar
def fieldsOfD (st : Martian.Dataflow.StructTable) : Nat → List Martian.Dataflow.Param → Fields
  | _, [] => .nil
  | fuel, p :: r => .cons (strBytes p.name) (baseOfD st fuel p.ty.base) p.ty.arrDim p.ty.mapDim (fieldsOfD st fuel r)
end

def tyOfD (st : Martian.Dataflow.StructTable) (fuel : Nat) (t : Martian.Dataflow.Ty) : TypeId :=
  ⟨baseOfD st fuel t.base, t.arrDim, t.mapDim⟩

/-- the signature of the stage a node calls, from its resolved inputs (declaration order) -/
def sigOfNode (st : Martian.Dataflow.StructTable) (fuel : Nat) (n : Martian.ResolverStatic.SNode) : Sig :=
  n.inputs.map fun kv => (strBytes kv.1, tyOfD st fuel kv.2.ty)

/-- resolved inputs evaluated in fork `f`, as values handed to `BuildCallAst` (the JSON the run-time
phase computes, whatever the dynamic type: `convertMV_eq_convert`) -/
def argsOfInputs (st : Martian.Dataflow.StructTable) (nf : Nat) (ρ : Martian.ResolverForks.Store)
    (f : Martian.ResolverForks.ForkAssign) : Martian.ResolverStatic.RBMap → Option (List (Str × MV))
  | [] => some []
  | kv :: r =>
    match ofDJ (Martian.ResolverStatic.evalRT st nf ρ f kv.2.ty kv.2.exp), argsOfInputs st nf ρ f r with
    | some j, some as => some ((strBytes kv.1, .raw j) :: as)
    | _, _ => none

/-- the resolved arguments of fork `f` of stage node `n` -/
def argsOfNode (st : Martian.Dataflow.StructTable) (nf : Nat) (ρ : Martian.ResolverForks.Store)
    (f : Martian.ResolverForks.ForkAssign) (n : Martian.ResolverStatic.SNode) : Option (List (Str × MV)) :=
  argsOfInputs st nf ρ f n.inputs

def kvsOfList : List (Str × J) → JKvs
  | [] => .nil
  | (k, j) :: r => .cons k j (kvsOfList r)

/-- a value as a top-level argument of the top-level call or of a fork none of whose own splits is
open: split-free, or a `SplitExp` over a split-free operand at the top -/
def topOk : MV → Bool
  | .val (.split op) => splitFreeI op
  | v => splitFree v

end Martian.InvocationFork
