/-
C09 model, value expressions, part 3: ACCEPTED SOURCE TEXTS.

`Martian.FormatExp.parseValExp` is the RAW reader: its float leaves keep the
token text (`1e3` ↦ `.float "1e3"`).  Go's `Parser.ParseValExp` builds a
`float64` from the token (`parseFloat`) and `FloatExp.format` prints it with
`strconv.AppendFloat(v, 'g', -1, 64)` (`1000`).  strconv is trusted (the model
never computes with float values), so what Go does at a float leaf is modelled
by an ABSTRACT canonicaliser `g : Bytes → Bytes`,

    g t  =  FormatFloat(ParseFloat(t, 64), 'g', -1, 64),

about which only `GOK g` is assumed.

* `canon g e`: `e` with every `.float t` replaced by `.float (g t)`.
* `parseValExpG g src`: `Parser.ParseValExp` = the raw reader, then `canon g`.
* `GOK g`: what is trusted about strconv (both clauses are true of
  `ParseFloat`/`FormatFloat`: 'g' with shortest digits prints `d.ddde±XX` — a
  NUM_FLOAT token — for decimal exponents < -4 or ≥ 6, else `ddd.ddd` — a NUM_FLOAT
  token — or `ddd` — a canonical integer numeral, or `-0`; and the shortest
  digits read back as the same value, which prints the same).
* `strsValid`, `noNegZero`: the two recorded exceptions as Bool predicates
  (F6b: a string with invalid UTF-8; F26: the float `-0`).
* `tokOK`: the range of the tokenizer (what every token `lexAll` returns
  satisfies), `wfRaw`: the range of the raw reader `pExp` on such tokens.

Core Lean only.
-/
import Martian.FormatExp

namespace Martian.FormatExp
open Martian.Lexer (Bytes numTok parseInt unquoteBytes)

/-! ## Go's `ParseValExp`: the raw reader followed by the float canonicaliser -/

mutual
/-- every float leaf `.float t` becomes `.float (g t)` -/
def canon (g : Bytes → Bytes) : Exp → Exp
  | .float t => .float (g t)
  | .arr xs => .arr (canonL g xs)
  | .map kvs => .map (canonKV g kvs)
  | .struct kvs => .struct (canonKV g kvs)
  | e => e
def canonL (g : Bytes → Bytes) : List Exp → List Exp
  | [] => []
  | x :: r => canon g x :: canonL g r
def canonKV (g : Bytes → Bytes) : List (Bytes × Exp) → List (Bytes × Exp)
  | [] => []
  | (k, v) :: r => (k, canon g v) :: canonKV g r
end

/-- `Parser.ParseValExp` with the float leaves as Go holds them (`g` = print ∘ parse of strconv) -/
def parseValExpG (g : Bytes → Bytes) (src : Bytes) : Option Exp := (parseValExp src).map (canon g)

/-- `-0`: what 'g' prints for the float64 negative zero (F26) -/
def sNegZero : Bytes := [0x2D, 0x30]

/-- what is trusted about `g = fun t => FormatFloat(ParseFloat(t, 64), 'g', -1, 64)`, on the
texts `t` that are NUM_FLOAT tokens accepted by the range check (`isFloatTok`):
(a) the printed form is one NUM_FLOAT token, or a canonical integer numeral, or `-0`;
(b) printing, reading and printing again gives the same text. -/
structure GOK (g : Bytes → Bytes) : Prop where
  range : ∀ t, isFloatTok t = true → isFloatTok (g t) = true ∨ isCanonInt (g t) = true ∨ g t = sNegZero
  fixed : ∀ t, isFloatTok t = true → isFloatTok (g t) = true → g (g t) = g t

/-! ## the two recorded exceptions, as predicates on the expression read -/

mutual
/-- every string and every map key is valid UTF-8 (fails for F6b inputs such as `"\xff"`) -/
def strsValid : Exp → Bool
  | .str s => Martian.ShellQuote.validUtf8 s
  | .arr xs => strsValidL xs
  | .map kvs => strsValidKV true kvs
  | .struct kvs => strsValidKV false kvs
  | _ => true
def strsValidL : List Exp → Bool
  | [] => true
  | x :: r => strsValid x && strsValidL r
/-- `keys`: are the keys strings (map) or identifiers (struct literal)? -/
def strsValidKV (keys : Bool) : List (Bytes × Exp) → Bool
  | [] => true
  | (k, v) :: r => (!keys || Martian.ShellQuote.validUtf8 k) && strsValid v && strsValidKV keys r
end

mutual
/-- no float leaf is `-0` (fails for F26 inputs such as `-0.0`) -/
def noNegZero : Exp → Bool
  | .float t => !(t == sNegZero)
  | .arr xs => noNegZeroL xs
  | .map kvs => noNegZeroKV kvs
  | .struct kvs => noNegZeroKV kvs
  | _ => true
def noNegZeroL : List Exp → Bool
  | [] => true
  | x :: r => noNegZero x && noNegZeroL r
def noNegZeroKV : List (Bytes × Exp) → Bool
  | [] => true
  | (_, v) :: r => noNegZero v && noNegZeroKV r
end

/-! ## the range of the tokenizer and of the raw reader -/

/-- what every token returned by `lexAll` satisfies: a NUM_INT text is one NUM_INT token whose
value `parseInt` accepts (so it is in `int64` range), a NUM_FLOAT text is one NUM_FLOAT token
accepted by the range check, a LITSTRING text is unquoted without a panic, an `id` text is an
identifier, a punctuation byte is one of the 14 -/
def tokOK : Tok → Bool
  | .punct c => isPunct c
  | .str raw => (unquoteBytes raw).isSome
  | .int raw => numTok false raw == .int raw
  | .float raw => isFloatTok raw
  | .id raw => isIdent raw
  | _ => true

mutual
/-- the range of the raw reader: `wf` without the validity of strings, and with every float
leaf a NUM_FLOAT token (the token text, before Go turns it into a `float64`) -/
def wfRaw : Exp → Bool
  | .null => true
  | .nilArr => true
  | .bool _ => true
  | .int i => inInt64 i
  | .float t => isFloatTok t
  | .str _ => true
  | .arr xs => wfRawL xs
  | .map kvs => sortedKeys kvs && wfRawKV false kvs
  | .struct kvs => sortedKeys kvs && wfRawKV true kvs
  | .ref self id out =>
    isIdent id && ((!self && out == [sDefault]) || out.all isIdent)
def wfRawL : List Exp → Bool
  | [] => true
  | x :: r => wfRaw x && wfRawL r
def wfRawKV (struct : Bool) : List (Bytes × Exp) → Bool
  | [] => true
  | (k, v) :: r => (!struct || isIdent k) && wfRaw v && wfRawKV struct r
end

/-- an instance of the canonicaliser on two texts: `1e3` ↦ `1000`, `-0.0` ↦ `-0`, everything
else unchanged (what strconv does on these two; used for examples and the F26 witness) -/
def gSample (t : Bytes) : Bytes :=
  if t = [0x31, 0x65, 0x33] then [0x31, 0x30, 0x30, 0x30]
  else if t = [0x2D, 0x30, 0x2E, 0x30] then sNegZero
  else t

end Martian.FormatExp
