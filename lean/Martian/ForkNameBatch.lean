/-
C11 model, part 2: one refresh cycle (`Node.refreshState`) over a BATCH of
journal entries, down to the metadata object that is credited.

  martian/core/node.go   refreshState: for every file of the journal directory
                         parseRunFilename → find → getFork, then
                         `chunkIndex >= 0` ? fork.getChunk(chunkIndex).updateState
                                           : fork.updateState
                         parseRunFilename: `chunkIndex, _ = strconv.Atoi(match[3])`
  martian/core/stage.go  Fork.getChunk (index < len(chunks)),
                         Fork.updateState (split_ / join_ prefix dispatch),
                         Chunk.updateState → Metadata.cache
  martian/core/metadata.go  Metadata.cache (uniquifier equality),
                         Metadata.UpdateJournal (journalPath "." journalPrefix name)

The loop body of `refreshState` carries NO state from one journal entry to the
next (apart from the set of forks to print, which routes nothing): a cycle is
the `map` of the per-entry function.  `routeBatch` / `creditTable` say exactly
that; a per-cycle cache or any other fold whose result for an entry depends on
the entries read before it is outside this model and shows up as a
correspondence violation of the batch stream.

Core Lean only.
-/
import Martian.ForkName

namespace Martian.ForkName

/-- what `route` returns: node position, fork position, chunk digits,
uniquifier, metadata file name (with its `split_` / `join_` prefix) -/
abbrev Target := Nat × Nat × Option Bytes × Option Bytes × Bytes

/-- One refresh cycle routes every entry of the journal directory on its own. -/
def routeBatch (top : Bytes) (nodes : List NodeM) (ss : List Bytes) : List (Option Target) :=
  ss.map (route top nodes)

def sSplitU : Bytes := [0x73, 0x70, 0x6C, 0x69, 0x74, 0x5F]   -- "split_"
def sJoinU : Bytes := [0x6A, 0x6F, 0x69, 0x6E, 0x5F]          -- "join_"

/-- The metadata objects of one fork that a journal entry can be credited to:
the fork's own, its split job's, its join job's, the main job of chunk `i`. -/
inductive Slot where
  | own
  | split
  | join
  | chunk (i : Nat)
  deriving DecidableEq, Repr

structure Owner where
  node : Nat
  fork : Nat
  slot : Slot
  deriving DecidableEq, Repr

/-- `strconv.Atoi(match[3])` on the digit run the regex captured.  (Beyond the
int range Go returns MaxInt64 with an error that is dropped; both that and the
true value are ≥ every chunk count, so `getChunk` finds nothing either way.) -/
def chunkIndexOf (d : Bytes) : Nat := (digitsVal d 0).getD 0

/-- `refreshState` below `getFork`: with chunk digits the entry goes to
`fork.getChunk(index)` (nothing when `index ≥ len(chunks)`); without, to
`Fork.updateState`, which strips a `split_` / `join_` prefix and picks the split
/ join / fork metadata object.  The result is the object and the metadata file
name it records. -/
def slotOf (nchunks : Nat) (ch : Option Bytes) (file : Bytes) : Option (Slot × Bytes) :=
  match ch with
  | some d => if chunkIndexOf d < nchunks then some (.chunk (chunkIndexOf d), file) else none
  | none =>
    if startsWith sSplitU file then some (.split, file.drop 6)
    else if startsWith sJoinU file then some (.join, file.drop 5)
    else some (.own, file)

structure Delivery where
  owner : Owner
  /-- the uniquifier the entry carries (`""` when the name has no `.u…` part) -/
  uniq : Bytes
  file : Bytes
  deriving DecidableEq, Repr

/-- One journal entry, from its file name to the metadata object whose
`cache(name, uniquifier)` is called.  `nch n f` = number of chunks of fork `f`
of node `n`. -/
def deliver (top : Bytes) (nodes : List NodeM) (nch : Nat → Nat → Nat) (s : Bytes) : Option Delivery :=
  match route top nodes s with
  | none => none
  | some (n, f, ch, uq, file) =>
    match slotOf (nch n f) ch file with
    | none => none
    | some (sl, name) => some ⟨⟨n, f, sl⟩, uq.getD [], name⟩

/-- `Metadata.cache` applied to a delivery: recorded iff the entry carries the
object's current uniquifier (`uq o`). -/
def credit (uq : Owner → Bytes) (d : Delivery) : Option (Owner × Bytes) :=
  if cacheAccepts (uq d.owner) d.uniq then some (d.owner, d.file) else none

/-- The credit table of one refresh cycle: which metadata object records which
file name, in the order of the directory listing. -/
def creditTable (top : Bytes) (nodes : List NodeM) (nch : Nat → Nat → Nat) (uq : Owner → Bytes)
    (batch : List Bytes) : List (Owner × Bytes) :=
  batch.filterMap fun s => (deliver top nodes nch s).bind (credit uq)

/-- what one owner is credited with by a cycle -/
def creditedTo (top : Bytes) (nodes : List NodeM) (nch : Nat → Nat → Nat) (uq : Owner → Bytes)
    (batch : List Bytes) (o : Owner) : List Bytes :=
  (creditTable top nodes nch uq batch).filterMap fun e => if e.1 = o then some e.2 else none

/-! ## What a job writes

`Metadata.UpdateJournal(name)` of the job-side metadata object writes
`<journalFile>.<journalPrefix><name>`, where `journalFile` is
`<node path>.fork<fork name>[.chnk<padded index>][.u<uniquifier>]`. -/

structure JobRec where
  node : Nat
  fork : Nat
  slot : Slot
  uniq : Option Bytes
  /-- the bare metadata file name (`complete`, `errors`, …) -/
  file : Bytes
  /-- the node's id below the pipestance (`TOP.PIPE.STAGE`) -/
  path : Bytes
  /-- what follows `fork` in the fork's journal name -/
  forkName : Bytes
  /-- the zero-padding width of chunk indices in this fork -/
  width : Nat
  deriving DecidableEq, Repr

def JobRec.owner (r : JobRec) : Owner := ⟨r.node, r.fork, r.slot⟩

def JobRec.jname (r : JobRec) : JName :=
  match r.slot with
  | .chunk i => ⟨r.path, r.forkName, some (padded r.width i), r.uniq, r.file⟩
  | .split => ⟨r.path, r.forkName, none, r.uniq, sSplitU ++ r.file⟩
  | .join => ⟨r.path, r.forkName, none, r.uniq, sJoinU ++ r.file⟩
  | .own => ⟨r.path, r.forkName, none, r.uniq, r.file⟩

/-- the journal file name the job writes -/
def JobRec.name (r : JobRec) : Bytes := r.jname.render

/-- what `route` must return for it -/
def JobRec.target (r : JobRec) : Target :=
  (r.node, r.fork, r.jname.chunk, r.uniq, r.jname.file)

/-! ## Name lengths -/

/-- `NAME_MAX` of the file systems martian runs on: a single path component
longer than this makes `mkdir` / `open` fail with ENAMETOOLONG. -/
def nameMax : Nat := 255

/-- number of bytes of a key that `url.PathEscape` percent-encodes -/
def escCount (k : Bytes) : Nat := k.countP shouldEscape

/-- directory name of the fork for map key `k` of a singly mapped call
(`mapKeyFork.forkString`): `fork_` ++ makeKeySafe(k) -/
def mapForkDir (k : Bytes) : Bytes := sForkU ++ pathEscape k

/-! ## A lookup that folds case (NOT the code's: a negative model)

`getFork` with the fork name compared up to ASCII case (what
`strings.EqualFold` does on ASCII text), the numeric shortcut left as it is. -/

def foldByte (c : UInt8) : UInt8 := if 0x41 ≤ c && c ≤ 0x5A then c + 0x20 else c

def foldEq (a b : Bytes) : Bool := a.map foldByte == b.map foldByte

def findNameFold (names : List Bytes) (index : Bytes) : Option Nat :=
  match names with
  | [] => none
  | n :: rest =>
    if !n.isEmpty && foldEq n index then some 0 else (findNameFold rest index).map (· + 1)

def getForkFold (names : List Bytes) (index : Bytes) : Option Nat :=
  match numericIndex names index with
  | some i => if nameMatches (names.getD i []) index then some i else findNameFold names index
  | none => findNameFold names index

/-! ## A router that remembers (NOT the code's: a negative model)

A refresh cycle that memoises the (node, fork) lookup under the plain
concatenation `fqid ++ forkPart` of the two parsed strings.  The cache maps
the key to the lookup result of the first entry that had it. -/

def memoLookup (key : Bytes) : List (Bytes × Option (Nat × Nat)) → Option (Option (Nat × Nat))
  | [] => none
  | (k, v) :: rest => if k == key then some v else memoLookup key rest

def routeNF (top : Bytes) (nodes : List NodeM) (x : JName) : Option (Nat × Nat) :=
  match findNode top (nodes.map (·.fqid)) x.fqid with
  | none => none
  | some n =>
    match getForkNew ((nodes.getD n ⟨[], []⟩).forks) x.forkPart with
    | none => none
    | some f => some (n, f)

def routeMemoConcat (top : Bytes) (nodes : List NodeM) :
    List (Bytes × Option (Nat × Nat)) → List Bytes → List (Option Target)
  | _, [] => []
  | cache, s :: rest =>
    match parseRun s with
    | none => none :: routeMemoConcat top nodes cache rest
    | some x =>
      if x.fqid.isEmpty then none :: routeMemoConcat top nodes cache rest else
      let key := x.fqid ++ x.forkPart
      match memoLookup key cache with
      | some r =>
        (r.map fun nf => (nf.1, nf.2, x.chunk, x.uniq, x.file)) :: routeMemoConcat top nodes cache rest
      | none =>
        let r := routeNF top nodes x
        (r.map fun nf => (nf.1, nf.2, x.chunk, x.uniq, x.file)) ::
          routeMemoConcat top nodes ((key, r) :: cache) rest

end Martian.ForkName
