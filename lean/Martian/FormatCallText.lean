/-
C09 model, call statements and pipelines: ACCEPTED SOURCE TEXTS.

`Martian.FormatCall.parseCall`, `Martian.FormatCall2.parseCall2` / `parseBody` and
`Martian.FormatPipe.parsePipeline` are RAW readers: the float leaves of every
expression keep the token text.  Go's parser builds a `float64` at every float
leaf, whichever statement the expression stands in; as in `Martian.FormatExpText`
this is modelled by the abstract canonicaliser `g` (`GOK g`) applied to EVERY
expression of the statement:

* `canonBind g`, `canonCall g`, `canonMods g`, `canonCall2 g`, `canonRet g`,
  `canonBody g`, `canonPipeline g`;
* `parseCallG g`, `parseCall2G g`, `parseBodyG g`, `parsePipelineG g`: what Go's
  `UncheckedParse` holds for a file that is one call statement / one pipeline.
* `wfBindRaw` … `wfPipelineRaw`: the RANGE of the raw readers on tokens in the
  range of the tokenizer (`tokOK`): `wfCall2` … `wfPipeline` minus the validity of
  strings (F6b), with float leaves only required to be NUM_FLOAT tokens, and
  minus the two conditions the grammar does NOT guarantee:
  `distinctIds` of the `using` block and `distinctCallIds` of a pipeline.
* the exception hypotheses of the text-side theorems as Bool predicates:
  `call2StrsValid` / `call2NoNegZero` (F6b / F26 lifted to the bindings of a call),
  `modsDistinct` (F40: the same modifier id twice in a `using` block — the
  model's stable sort is `sort.Slice` only for distinct ids),
  `pipeStrsValid` (help texts and out names included), `pipeNoNegZero`,
  `pipeModsDistinct`, and `distinctCallIds` (F34).
* `modsConflict`: a keyword modifier together with a binding of the same id
  (`call local X() using (local = false,)`): the compiler rejects it
  (`ConflictingModifiers`), the formatter prints the binding only (F41).
* `findMod`, `modValue`, `modFlags`, `modDisabled`: what `Modifiers.compile` computes from the
  modifiers of a call (kept by `normMods`: Proofs/FormatCallRangeMods.lean).

Core Lean only.
-/
import Martian.FormatExpText
import Martian.FormatPipe

namespace Martian.FormatCallText
open Martian.Lexer (Bytes)
open Martian.FormatExp Martian.FormatCall Martian.FormatCall2 Martian.FormatDecl Martian.FormatPipe

/-! ## the float canonicaliser on statements -/

def canonBind (g : Bytes → Bytes) (b : Bind) : Bind := ⟨b.id, b.split, canon g b.exp⟩

def canonMod (g : Bytes → Bytes) (kv : Bytes × Exp) : Bytes × Exp := (kv.1, canon g kv.2)

def canonMods (g : Bytes → Bytes) (m : Mods) : Mods := ⟨m.loc, m.pre, m.vol, m.binds.map (canonMod g)⟩

def canonCall (g : Bytes → Bytes) (c : Call) : Call := ⟨c.decId, c.id, c.binds.map (canonBind g)⟩

def canonCall2 (g : Bytes → Bytes) (c : Call2) : Call2 :=
  ⟨c.decId, c.id, c.binds.map (canonBind g), c.wildcard.map (canon g), canonMods g c.mods⟩

def canonRet (g : Bytes → Bytes) (r : Ret) : Ret := ⟨r.binds.map (canonBind g), r.wildcard.map (canon g)⟩

def canonBody (g : Bytes → Bytes) (b : Body) : Body :=
  ⟨b.calls.map (canonCall2 g), canonRet g b.ret, b.retain.map (List.map (canon g))⟩

def canonPipeline (g : Bytes → Bytes) (p : Pipeline) : Pipeline := ⟨p.id, p.ins, p.outs, canonBody g p.body⟩

/-- `UncheckedParse` on a file that is one modifier-less call, as Go holds it -/
def parseCallG (g : Bytes → Bytes) (src : Bytes) : Option Call := (parseCall src).map (canonCall g)

/-- `UncheckedParse` on a file that is one call statement, as Go holds it -/
def parseCall2G (g : Bytes → Bytes) (src : Bytes) : Option Call2 := (parseCall2 src).map (canonCall2 g)

/-- the statements of a pipeline, as Go holds them -/
def parseBodyG (g : Bytes → Bytes) (src : Bytes) : Option Body := (parseBody src).map (canonBody g)

/-- `UncheckedParse` on a file that is one pipeline declaration, as Go holds it -/
def parsePipelineG (g : Bytes → Bytes) (src : Bytes) : Option Pipeline :=
  (parsePipeline src).map (canonPipeline g)

/-! ## the range of the raw readers -/

/-- `wfBind` with `wfRaw` for `wf` -/
def wfBindRaw (b : Bind) : Bool := isIdent b.id && wfRaw b.exp && (!b.split || isSplitVal b.exp)

def wfCallRaw (c : Call) : Bool := isIdent c.decId && isIdent c.id && c.binds.all wfBindRaw

/-- `self`, or a reference in the range of the reader -/
def wfWildRaw (e : Exp) : Bool := isBareSelf e || (isRefE e && wfRaw e)

def wfWildOptRaw : Option Exp → Bool
  | some e => wfWildRaw e
  | none => true

def wfModRaw (kv : Bytes × Exp) : Bool :=
  (isModKw kv.1 && isBoolE kv.2) || (kv.1 == sDisabled && isRefE kv.2 && wfRaw kv.2)

/-- `wfCall2` without `distinctIds` of the `using` block, `wfRaw` for `wf` -/
def wfCall2Raw (c : Call2) : Bool :=
  isIdent c.decId && isIdent c.id && c.binds.all wfBindRaw && wfWildOptRaw c.wildcard &&
    c.mods.binds.all wfModRaw

def wfRetRaw (r : Ret) : Bool :=
  r.binds.all wfBindRaw && r.binds.all (fun b => !b.split) && wfWildOptRaw r.wildcard

def wfPRetainRaw (rs : List Exp) : Bool := rs.all fun e => isRefE e && wfRaw e

def wfBodyRaw (b : Body) : Bool :=
  b.calls.all wfCall2Raw && wfRetRaw b.ret &&
    (match b.retain with | some rs => wfPRetainRaw rs | none => true)

/-- `wfParam` without the validity of help text and out name -/
def pipeParamRaw (p : Param) : Bool :=
  wfType p.type && (isIdent p.id || (p.out && p.id == sDefault)) && (p.out || p.outName == [])

/-- `wfPipeline` without `distinctCallIds` and without the validity of strings -/
def wfPipelineRaw (p : Pipeline) : Bool :=
  isIdent p.id && p.ins.all pipeParamRaw && p.ins.all (fun q => !q.out) && p.outs.all pipeParamRaw &&
    p.outs.all (fun q => q.out) && wfBodyRaw p.body

/-! ## the exception hypotheses of the text-side theorems -/

/-- F6b on a binding list: every string in a binding value is valid UTF-8 -/
def bindsStrsValid (bs : List Bind) : Bool := bs.all fun b => strsValid b.exp

/-- F26 on a binding list: no float leaf of a binding value is `-0` -/
def bindsNoNegZero (bs : List Bind) : Bool := bs.all fun b => noNegZero b.exp

def callStrsValid (c : Call) : Bool := bindsStrsValid c.binds
def callNoNegZero (c : Call) : Bool := bindsNoNegZero c.binds

def call2StrsValid (c : Call2) : Bool := bindsStrsValid c.binds
def call2NoNegZero (c : Call2) : Bool := bindsNoNegZero c.binds

/-- F40: no modifier id occurs twice in the `using` block (the grammar allows
`using (local = true, local = false,)`; the compiler rejects it later:
`DuplicateBinding`) -/
def modsDistinct (c : Call2) : Bool := distinctIds c.mods.binds

def retStrsValid (r : Ret) : Bool := bindsStrsValid r.binds
def retNoNegZero (r : Ret) : Bool := bindsNoNegZero r.binds

def bodyStrsValid (b : Body) : Bool := b.calls.all call2StrsValid && retStrsValid b.ret
def bodyNoNegZero (b : Body) : Bool := b.calls.all call2NoNegZero && retNoNegZero b.ret
def bodyModsDistinct (b : Body) : Bool := b.calls.all modsDistinct

/-- F6b on a parameter list: help texts and out names are valid UTF-8 -/
def paramsStrsValid (ps : List Param) : Bool :=
  ps.all fun p => Martian.ShellQuote.validUtf8 p.help && Martian.ShellQuote.validUtf8 p.outName

def pipeStrsValid (p : Pipeline) : Bool :=
  paramsStrsValid p.ins && paramsStrsValid p.outs && bodyStrsValid p.body
def pipeNoNegZero (p : Pipeline) : Bool := bodyNoNegZero p.body
def pipeModsDistinct (p : Pipeline) : Bool := bodyModsDistinct p.body
/-- F34: no two calls of the pipeline have the same id -/
def pipeCallsDistinct (p : Pipeline) : Bool := distinctCallIds p.body.calls

/-! ## keyword modifiers and bindings of the same id -/

/-- F41: a keyword modifier together with a binding of the same id — what
`Modifiers.compile` rejects with `ConflictingModifiers` -/
def modsConflict (m : Mods) : Bool :=
  (m.loc && hasId sLocal m.binds) || (m.pre && hasId sPreflight m.binds) ||
    (m.vol && hasId sVolatile m.binds)

/-- `Bindings.Table[k]` of the `using` block (for distinct ids: the binding with id `k`) -/
def findMod (k : Bytes) : List (Bytes × Exp) → Option Exp
  | [] => none
  | kv :: r => if kv.1 = k then some kv.2 else findMod k r

/-- the value of the boolean modifier `k` after `Modifiers.compile` (`mods.X = binding.Value` when
the block binds `k`, else the keyword; the grammar only allows boolean literals there) -/
def modValue (k : Bytes) (kw : Bool) (l : List (Bytes × Exp)) : Bool :=
  match findMod k l with
  | some v => (match v with | .bool b => b | _ => false)
  | none => kw

/-- (`Local`, `Preflight`, `Volatile`) after `Modifiers.compile` -/
def modFlags (m : Mods) : Bool × Bool × Bool :=
  (modValue sLocal m.loc m.binds, modValue sPreflight m.pre m.binds, modValue sVolatile m.vol m.binds)

/-- the `disabled` binding, if any -/
def modDisabled (m : Mods) : Option Exp := findMod sDisabled m.binds

end Martian.FormatCallText
