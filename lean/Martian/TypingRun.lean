/-
The run-time side of a reference binding AS THE CODE DOES IT (C07, audit
finding H1): martian/core/resolve.go

  `LazyArgumentMap.Path(p, source, dest, lookup)` / `resolvePath(b, p, t, dest, lookup)`
                                             → `pathVal`, `pathF`, `leafRT`
  `LazyArgumentMap.filter(dest, lookup)`     → `wholeRT`

`Path` does not "project, then filter the result with the parameter type".  It
walks the value along the path and PEELS THE DESTINATION TYPE in lock-step with
the source type – one array dimension per array level (`GetArray(dest, -1)`),
the element type at a typed map when the destination is a typed map, nothing
at a struct member – and applies `dest.FilterJson` to each LEAF; a fatal filter
error there is the run-time resolution error ("cannot filter X to Y"), a soft
one is ignored.  When the destination is the untyped `map`, the values below a
typed map of the source are taken as they are (destination `nil` → filtered
with their own type): this is the code AFTER repair 85e056c; before it the
untyped `map` stayed in place and every projected leaf was filtered as a map
(`Props.C07.h1_untyped_map_dest_old_code`).

`evalT` is the type-directed evaluation of a binding expression: literals are
resolved element-wise at the element type (`resolveArray` / `resolveMap`),
references through `pathVal` / `wholeRT`.  `none` = a run-time resolution
error.  Core Lean only; all functions structural.
-/
import Martian.Typing
import Martian.TypingPipeline

namespace Martian.Typing
open Martian.Json Martian.Types

/-- `lookup.GetArray(dest, -1)`.  For a destination that is NOT an array the model
returns `none` (no destination); the real lookup builds an `ArrayType` with
dimension −1 (type_lookup.go Get / GetArray; audit pass 2, LOW-2).  Such pairs
are rejected at compile time, so the run time never asks (harness: histogram
`path_rejected_pair_differs`). -/
def peelArrD : Option Ty → Option Ty
  | some (.arr d) => some d
  | _ => none

/-- the destination below a typed map of the source -/
def peelMapD : Option Ty → Option Ty
  | some (.tmap d) => some d
  | some (.base .map) => none
  | d => d

/-- the destination below a typed map BEFORE repair 85e056c -/
def peelMapDOld : Option Ty → Option Ty
  | some (.tmap d) => some d
  | d => d

/-- the leaf of `Path`: `dest.FilterJson(v)` with `dest = ` the member's own
type when there is no destination; only a FATAL error is an error -/
def leafRT (dest : Option Ty) (mt : Ty) (v : J) : Option J :=
  if (filter (dest.getD mt) v).2 = .fatal then none else some (filter (dest.getD mt) v).1

mutual
  /-- `resolvePath(b, p, t, dest)` for a non-empty path (`pm` = how the
  destination is peeled at a typed map: `peelMapD`, or `peelMapDOld`) -/
  def pathValG (pm : Option Ty → Option Ty) (dest : Option Ty) : Ty → J → List Bytes → Option J
    | t, v, [] => leafRT none t v                      -- not reached (`t.FilterJson(b)`)
    | .arr e, v, k :: p =>
      match v with
      | .null => some .null
      | .arr xs => (allSome (xs.map (fun x => pathValG pm (peelArrD dest) e x (k :: p)))).map J.arr
      | _ => none
    | .tmap e, v, k :: p =>
      match v with
      | .null => some .null
      | .obj kvs =>
        (allSome (kvs.map (fun kv => (pathValG pm (pm dest) e kv.2 (k :: p)).map (fun w => (kv.1, w))))).map J.obj
      | _ => none
    | .struct _ fs, v, k :: p =>
      match v with
      | .null => some .null
      | .obj kvs =>
        match getKey k kvs with
        | none => none                                   -- "key was not present"
        | some w => pathFG pm dest fs k w p
      | _ => none
    | .base _, v, _ :: _ => match v with | .null => some .null | _ => none
    | .user _, v, _ :: _ => match v with | .null => some .null | _ => none
  def pathFG (pm : Option Ty → Option Ty) (dest : Option Ty) : Fields → Bytes → J → List Bytes → Option J
    | .nil, _, _, _ => none
    | .cons k' t r, k, w, p =>
      if k' = k then
        (match p with
          | [] => leafRT dest t w
          | _ :: _ => pathValG pm dest t w p)
      else pathFG pm dest r k w p
end

/-- the code as it is (after 85e056c) -/
def pathVal (dest : Option Ty) (t : Ty) (v : J) (p : List Bytes) : Option J := pathValG peelMapD dest t v p

/-- `LazyArgumentMap.filter(dest)` – a reference to the whole call: ANY filter
error is an error -/
def wholeRT (dest : Ty) (v : J) : Option J :=
  if (filter dest v).2 = .ok then some (filter dest v).1 else none

/-- a reference bound at type `t`, given the declared type `s` and the value
`v` of what it refers to (the struct of a call's outputs / a pipeline input) -/
def refRT (t s : Ty) (v : J) : List Bytes → Option J
  | [] => wholeRT t v
  | k :: p => pathVal (some t) s v (k :: p)

/-- a reference (or, where a literal does not fit the type, anything else) -/
def evalLeaf (Γ : Env) (ρ : Store) (t : Ty) : Exp → Option J
  | .self id p =>
    match Γ.self.lookup id, ρ.self.lookup id with
    | some s, some v => refRT t s v p
    | _, _ => none
  | .call id p =>
    match Γ.calls.lookup id, ρ.calls.lookup id with
    | some sig, some v => refRT t sig.whole v p
    | _, _ => none
  | e => eval Γ ρ e

mutual
  /-- the value a binding expression delivers to a parameter of type `t`
  (`none`: run-time resolution error) -/
  def evalT (Γ : Env) (ρ : Store) : Ty → Exp → Option J
    | .base b, e => evalLeaf Γ ρ (.base b) e
    | .user n, e => evalLeaf Γ ρ (.user n) e
    | .arr t, e =>
      match e with
      | .arr xs => (allSome (xs.toList.map (fun x => evalT Γ ρ t x))).map J.arr
      | e => evalLeaf Γ ρ (.arr t) e
    | .tmap t, e =>
      match e with
      | .map _ kvs =>
        (allSome (kvs.toList.map (fun kv => (evalT Γ ρ t kv.2).map (fun w => (kv.1, w))))).map J.obj
      | e => evalLeaf Γ ρ (.tmap t) e
    | .struct n fs, e =>
      match e with
      | .map _ kvs => (evalTF Γ ρ fs kvs).map J.obj
      | e => evalLeaf Γ ρ (.struct n fs) e
  /-- the declared members of a struct literal, each at its member type -/
  def evalTF (Γ : Env) (ρ : Store) : Fields → KVs → Option (List (Bytes × J))
    | .nil, _ => some []
    | .cons k t r, kvs =>
      match kvs.get k with
      | none => none
      | some e =>
        match evalT Γ ρ t e, evalTF Γ ρ r kvs with
        | some v, some vs => some ((k, v) :: vs)
        | _, _ => none
end

/-- what a binding hands to the callee, as the run time computes it: the value
(plain) or the elements the forks receive (split; each at the parameter type) -/
def deliveredT (Γ : Env) (ρ : Store) (t : Ty) : Bind → Option (List J)
  | .plain e => (evalT Γ ρ t (bindExp Γ t e)).map fun v => [v]
  | .split (.arr xs) => allSome (xs.toList.map (fun x => evalT Γ ρ t x))
  | .split (.map _ kvs) => allSome (kvs.toList.map (fun kv => evalT Γ ρ t kv.2))
  | .split e =>
    match refType Γ e with
    | some (.arr _) => (evalT Γ ρ (.arr t) e).bind elems
    | some (.tmap _) => (evalT Γ ρ (.tmap t) e).bind elems
    | _ => none

end Martian.Typing

namespace Martian.Typing
open Martian.Json Martian.Types

/-- the hypothesis of the run-time soundness of a binding: C17's `noHole` at
every reference; for `split REF` between the parameter type and the ELEMENT type
of the collection (the keys of a typed map that is split over are not delivered,
so their legality as file names is not needed) -/
def bindHoleFreeT (Γ : Env) (t : Ty) : Bind → Bool
  | .plain e => holeFree Γ t (bindExp Γ t e)
  | .split (.arr xs) => xs.toList.all (fun x => holeFree Γ t x)
  | .split (.map _ kvs) => kvs.toList.all (fun kv => holeFree Γ t kv.2)
  | .split e =>
    match refType Γ e with
    | some (.arr s) => noHole t s
    | some (.tmap s) => noHole t s
    | _ => true

/-- the struct of outputs a pipeline call delivers, as the run time resolves
the return bindings: every declared output at its declared type -/
def retValueT (Γ : Env) (ρ : Store) (bs : List (Bytes × Bind)) : Fields → Option (List (Bytes × J))
  | .nil => some []
  | .cons k t r =>
    match bs.lookup k with
    | some (.plain e) =>
      match evalT Γ ρ t (bindExp Γ t e), retValueT Γ ρ bs r with
      | some v, some vs => some ((k, v) :: vs)
      | _, _ => none
    | _ => none

end Martian.Typing
