/-
C08 model, action level: the grammar ACTIONS of martian/syntax/grammar.y that
convert a token text, can fail, can panic or index — as total functions from
the token text to `Martian.Lexer.Action` (ok value / located error / panic).

Sites of grammar.y (every call of `parseInt`, `parseFloat`, `tryParseFloat32`,
`unquote`, `stringIntern.unquote`, every index/slice/type assertion, every
`fail`):

* `float_32: NUM_INT`            `float32(parseInt($1))`                       → `float32Int`
* `float_32: NUM_FLOAT`          `tryParseFloat32($1)`, `fail` on an error     → `float32Float`
* `resource_list … THREADS|MEM_GB|VMEM_GB '=' float_32 ','`
                                 `roundUpTo($4, 100 | 1024)`                   → `resourceAction`
* `resource_list … SPECIAL '=' LITSTRING ','`   `$<intern>4.unquote($4)`       → `unquoteAction`
* `includes: … INCLUDE_DIRECTIVE LITSTRING` (2×) `$<intern>.unquote`          → `unquoteAction`
* `in_param`/`out_param`/`struct_field` help (5×) `unquote`, outname (2×) `$<intern>.unquote` → `unquoteAction`
* `kvpair_list_partial` map keys (2×) `unquote`                                → `unquoteAction`
* `val_exp: NUM_FLOAT` `parseFloat`, `NUM_INT` `parseInt`, `LITSTRING` `unquote` → `valAction`
* `src_stm` `strings.Fields(strings.TrimSpace($<intern>3.unquote($3)))`, `stagecodeParts[0]`, `[1:]`
                                                                               → `srcSiteAction` (= `Martian.Lexer.srcAction` after `unquoteBytes`)
* `arr_list` the `int16` dimension counter with the `1<<15 - 1` guard          → `arrStep`, `arrList`
* `type_id: MAP '<' nonmap_type arr_list '>' arr_list`  `MapDim: 1 + $4` (`int16` addition, no guard)
                                                                               → `mapDim` (guarded; `mapDimUnguarded` = before the repair)
* `id_list: id`  `$1[:len($1):len($1)]`  — a full slice expression with
  `len ≤ cap`: can not panic; the identity on the text                         → `idSliceAction`
* `split_bind_stm` `$4.(MapCallSource)` on a `nonempty_collection_exp` (a
  `*ArrayExp` or a `*MapExp`, both implement the interface): a static fact of
  the Go types, not a function of a token; exercised by the harness only.

`stringIntern.unquote(v) = store.Get(unquoteBytes v)` and
`unquote(v) = string(unquoteBytes v)` return the same string (`Get` interns it),
so one model serves both.

Core Lean only.
-/
import Martian.Lexer
import Martian.Tokenizer

namespace Martian.LexerActions
open Martian.Lexer

/-! ## float_32 -/

/-- the integer a decimal literal denotes, when it denotes one of magnitude at
most 2^24 (those are exactly representable as `float32`, so is every
intermediate of `roundUpTo`); `none` = value not modelled -/
def litInt (l : FloatLit) : Option Int :=
  if l.mant = 0 then some 0
  else if 0 ≤ l.exp10 then
    if l.exp10 ≤ 8 ∧ l.mant * 10 ^ l.exp10.toNat ≤ 2 ^ 24 then
      some (if l.neg then -((l.mant * 10 ^ l.exp10.toNat : Nat) : Int) else ((l.mant * 10 ^ l.exp10.toNat : Nat) : Int))
    else none
  else
    let k := (-l.exp10).toNat
    if k ≤ 40 ∧ l.mant % 10 ^ k = 0 ∧ l.mant / 10 ^ k ≤ 2 ^ 24 then
      some (if l.neg then -((l.mant / 10 ^ k : Nat) : Int) else ((l.mant / 10 ^ k : Nat) : Int))
    else none

/-- `float32(i)` for an `int64`: never panics; the value is `i` itself when
`|i| ≤ 2^24` (`none` = rounded, value not modelled) -/
def f32OfInt (i : Int) : Option Int := if i.natAbs ≤ 2 ^ 24 then some i else none

/-- `float_32: NUM_INT { $$ = float32(parseInt($1)) }` -/
def float32Int (t : Bytes) : Action (Option Int) :=
  match parseInt t with
  | none => .panic
  | some i => .ok (f32OfInt i)

/-- `float_32: NUM_FLOAT`: `tryParseFloat32`; ANY error (syntax or range) is
reported with `fail($<loc>1, $1, …)` — a located error -/
def float32Float (t : Bytes) : Action (Option Int) :=
  match parseFloat true t with
  | none => .error
  | some l => .ok (litInt l)

/-- the same alternative written with the panicking converter `parseFloat32`
(what the action would be without the error check) -/
def float32FloatUnchecked (t : Bytes) : Action (Option Int) :=
  match parseFloat true t with
  | none => .panic
  | some l => .ok (litInt l)

/-- `roundUpTo(value, g)`: float arithmetic only (no panic for any value; Go's
float conversions do not panic).  On an integer of magnitude ≤ 2^24 every step
is exact and the result is the value itself. -/
def roundUpTo (v : Option Int) (_g : Nat) : Option Int := v

inductive Kind
  | numInt | numFloat | litString
  deriving Repr, DecidableEq

def Kind.name : Kind → String
  | .numInt => "NUM_INT"
  | .numFloat => "NUM_FLOAT"
  | .litString => "LITSTRING"

inductive Val
  | int (i : Int)                 -- `IntExp.Value`
  | float (l : FloatLit)          -- `FloatExp.Value`: the literal it is the rounding of
  | f32 (v : Option Int)          -- a `float32`; `some i` = exactly the integer `i`
  | str (b : Bytes)
  | src (path : Bytes) (args : List Bytes)
  deriving Repr, DecidableEq

def Action.map {α β : Type} (f : α → β) : Action α → Action β
  | .ok a => .ok (f a)
  | .error => .error
  | .panic => .panic

/-- the `float_32` rule on a token of kind `k`; any other token kind is a
syntax error of the generated parser (located) -/
def float32Action (k : Kind) (t : Bytes) : Action Val :=
  match k with
  | .numInt => Action.map .f32 (float32Int t)
  | .numFloat => Action.map .f32 (float32Float t)
  | .litString => .error

/-- `resource_list … THREADS|MEM_GB|VMEM_GB '=' float_32 ','` with granularity
`g` (100 for threads, 1024 for the memory fields) -/
def resourceAction (g : Nat) (k : Kind) (t : Bytes) : Action Val :=
  match float32Action k t with
  | .ok (.f32 v) => .ok (.f32 (roundUpTo v g))
  | .ok v => .ok v
  | .error => .error
  | .panic => .panic

/-! ## strings -/

/-- `unquote($n)` / `$<intern>n.unquote($n)` on a LITSTRING -/
def unquoteAction (k : Kind) (t : Bytes) : Action Val :=
  match k with
  | .litString =>
    match unquoteBytes t with
    | none => .panic
    | some b => .ok (.str b)
  | _ => .error

/-- `src_stm`: unquote, then `Martian.Lexer.srcAction` (`strings.TrimSpace`
removes what `strings.Fields` would skip anyway) -/
def srcSiteAction (k : Kind) (t : Bytes) : Action Val :=
  match k with
  | .litString =>
    match unquoteBytes t with
    | none => .panic
    | some b =>
      match srcAction b with
      | .ok (p, args) => .ok (.src p args)
      | .error => .error
      | .panic => .panic
  | _ => .error

/-! ## val_exp -/

def valAction (k : Kind) (t : Bytes) : Action Val :=
  match k with
  | .numInt =>
    match parseInt t with
    | none => .panic
    | some i => .ok (.int i)
  | .numFloat =>
    match parseFloat false t with
    | none => .panic
    | some l => .ok (.float l)
  | .litString => unquoteAction .litString t

/-! ## all token-consuming sites -/

inductive Site
  | float32 | threads | memGb | vmemGb
  | special | incl | help | outName | mapKey | src
  | valExp
  deriving Repr, DecidableEq

def Site.all : List Site :=
  [.float32, .threads, .memGb, .vmemGb, .special, .incl, .help, .outName, .mapKey, .src, .valExp]

/-- the token kinds the grammar accepts at the site (anything else: a syntax error) -/
def Site.accepts : Site → Kind → Bool
  | .float32, k | .threads, k | .memGb, k | .vmemGb, k => k != .litString
  | .valExp, _ => true
  | _, k => k == .litString

def act (s : Site) (k : Kind) (t : Bytes) : Action Val :=
  match s with
  | .float32 => float32Action k t
  | .threads => resourceAction 100 k t
  | .memGb => resourceAction 1024 k t
  | .vmemGb => resourceAction 1024 k t
  | .special | .incl | .help | .outName | .mapKey => unquoteAction k t
  | .src => srcSiteAction k t
  | .valExp => valAction k t

/-- the tokenizer model emits the text `t` as ONE token of kind `k` at the head
of `head` (token constants from the regenerated table) -/
def emits (k : Kind) (head t : Bytes) : Prop :=
  Martian.Tokenizer.nextToken head = (Martian.Tokenizer.lookupId Gen.tokIds k.name, t)

/-! ## arr_list: the `int16` dimension counter -/

/-- Go `int16` wrap-around of an integer -/
def wrap16 (n : Int) : Int := (n + 32768) % 65536 - 32768

def maxDim : Int := 2 ^ 15 - 1

/-- `arr_list: arr_list '[' ']'` on the counter value `n` of the shorter list:
`if $1 == 1<<15 - 1 { fail(…); return 1 }; $$++` -/
def arrStep (n : Int) : Action Int :=
  if n == maxDim then .error else .ok (wrap16 (n + 1))

/-- the same action without the guard -/
def arrStepUnguarded (n : Int) : Action Int := .ok (wrap16 (n + 1))

/-- the action sequence for `k` pairs `[]` (the empty list gives 0; an error
ends the parse) -/
def arrList : Nat → Action Int
  | 0 => .ok 0
  | k + 1 =>
    match arrList k with
    | .ok n => arrStep n
    | .error => .error
    | .panic => .panic

def arrListUnguarded : Nat → Action Int
  | 0 => .ok 0
  | k + 1 =>
    match arrListUnguarded k with
    | .ok n => arrStepUnguarded n
    | .error => .error
    | .panic => .panic

/-- `type_id: MAP '<' nonmap_type arr_list '>' arr_list` as it WAS: `MapDim:
1 + $4`, an `int16` addition without a guard — wrapped to −32768 for 32767
inner dimensions (did not panic) -/
def mapDimUnguarded (inner : Int) : Int := wrap16 (1 + inner)

/-- … as it is since the repair: `if $4 == 1<<15 - 1 { fail(…"too many array
dimensions"); return 1 }`, then `MapDim: 1 + $4` -/
def mapDim (inner : Int) : Action Int :=
  if inner == maxDim then .error else .ok (wrap16 (1 + inner))

/-- `id_list: id { $$ = $1[:len($1):len($1)] }` -/
def idSliceAction (t : Bytes) : Action Bytes := .ok (t.take t.length)

end Martian.LexerActions
