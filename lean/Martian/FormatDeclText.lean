/-
C09 model, declarations below pipelines: ACCEPTED SOURCE TEXTS.

The round-trip theorems of `filetype`, `struct`, parameter blocks and `stage`
declarations quantify over ASTs satisfying `wf…`.  This file holds what is
needed to state them over the source texts the readers accept:

* the exception predicates (Bool, evaluated by the driver on what the REAL
  parser returns): `declStrsValid`, `paramsStrsValid`, `stageStrsValid` (F6b:
  `unquote` of a LITSTRING with an escape for an invalid UTF-8 byte yields a
  string the printer cannot write back) and `stageMB32Valid` (F29: a `mem_gb` /
  `vmem_gb` of 256 GB or more in magnitude, where the real parser's float32 reading of the printed
  text can differ from the exact reading of the model; this is `wfMB`, the resource conjunct of
  `wfStage`); `stageMBValid` (F25: 2^53 GB or more; `formatGB`'s `int64(gb*1024)` overflows) is
  the weaker range, kept as a definition, no theorem needs it;
* `threads`: the model reader keeps the token text, Go stores
  `roundUpTo(float32(text), 100)` and prints it with `%g`.  As for float leaves
  of value expressions, strconv/fmt are trusted: an ABSTRACT canonicaliser
  `h : Bytes → Bytes`,

      h t  =  Sprintf("%g", roundUpTo(float_32(t), 100)),

  about which only `HOK h` is assumed; `canonStage h` applies it to the threads
  text; `parseStageH h` = the real parser's `Stage` (reader, then `canonStage`).
* `pResListR rd` … `pStageAllR rd`: the readers of the trailing clauses and of the stage with the
  reader of `mem_gb` / `vmem_gb` a parameter; `parseStage32` = the stage reader with `readGB32Tok`
  (the literal rounded to the nearest float32 first, as the REAL parser does; `parseStage` is the
  instance with the exact `readGBTok`: `Proofs.FormatStageRange32.parseStage_eq`);
  `stageMB32Valid`: both values below 256 GB in magnitude (F29).
* `threadsTokOK`: the token texts `float_32` accepts (what `readF32` returns on
  tokens in the range of the tokenizer).

Core Lean only.
-/
import Martian.FormatStage

namespace Martian.FormatDecl
open Martian.Lexer (Bytes)

/-- help text and out name are valid UTF-8 (fails for F6b inputs such as `"\xff"`) -/
def memberStrsValid (m : Member) : Bool :=
  Martian.ShellQuote.validUtf8 m.help && Martian.ShellQuote.validUtf8 m.outName

/-- every help text and out name of the struct is valid UTF-8 -/
def declStrsValid (s : Struct) : Bool := s.members.all memberStrsValid

/-- every help text and out name of the parameter list is valid UTF-8 -/
def paramsStrsValid (ps : List Param) : Bool := ps.all fun p => memberStrsValid p.toMember

/-- the range of `struct_field` before the validity of its strings -/
def memberRaw (m : Member) : Bool := wfType m.type && Martian.FormatExp.isIdent m.id

/-- the range of `in_param` / `out_param` before the validity of the strings -/
def paramRaw (p : Param) : Bool :=
  wfType p.type && (Martian.FormatExp.isIdent p.id || (p.out && p.id == Martian.FormatExp.sDefault)) &&
    (p.out || p.outName == [])

end Martian.FormatDecl

namespace Martian.FormatRes
open Martian.Lexer (Bytes unquoteBytes)
open Martian.FormatExp

/-! ## the readers of the trailing clauses with the reader of `mem_gb` / `vmem_gb` a parameter

`pResListR readGBTok` is `pResList` (the exact reading the round-trip theorems of section
StageClauses are about); `pResListR readGB32Tok` is what the REAL parser does (the literal is
rounded to the nearest float32 before `roundUpTo(·, 1024)`). -/

/-- `pResList` with `rd` for `float_32` + `roundUpTo(·, 1024)` -/
def pResListR (rd : Tok → Option Int) : List Tok → Res → Option (Res × List Tok)
  | .punct 0x29 :: r, acc => some (acc, r)
  | .id k :: .punct 0x3D :: v :: .punct 0x2C :: r, acc =>
    if k = sThreads then
      match readF32 v with
      | some t => pResListR rd r { acc with threads := some t }
      | none => none
    else if k = sMemGb ∨ k = sMemgb then
      match rd v with
      | some mb => pResListR rd r { acc with mem := some mb }
      | none => none
    else if k = sVmemGb ∨ k = sVmemgb then
      match rd v with
      | some mb => pResListR rd r { acc with vmem := some mb }
      | none => none
    else if k = sSpecial then
      match v with
      | .str raw =>
        match unquoteBytes raw with
        | some s => pResListR rd r { acc with special := some s }
        | none => none
      | _ => none
    else if k = sVolatile then
      match v with
      | .id w => if w = sStrict then pResListR rd r { acc with volatile := some true } else none
      | .kFalse => pResListR rd r { acc with volatile := some false }
      | _ => none
    else none
  | _, _ => none

def pResourcesR (rd : Tok → Option Int) : List Tok → Option (Option Res × List Tok)
  | .id w :: ts =>
    if w = sUsing then
      match ts with
      | .punct 0x28 :: r => (pResListR rd r {}).map fun x => (some x.1, x.2)
      | _ => none
    else some (none, .id w :: ts)
  | ts => some (none, ts)

def pTailR (rd : Tok → Option Int) : List Tok → Option ((Option Res × Option (List Bytes)) × List Tok)
  | .punct 0x29 :: ts =>
    match pResourcesR rd ts with
    | some (res, ts1) =>
      match pRetain ts1 with
      | some (ret, ts2) => some ((res, ret), ts2)
      | none => none
    | none => none
  | _ => none

end Martian.FormatRes

namespace Martian.FormatStage
open Martian.Lexer (Bytes numTok parseInt parseFloat)
open Martian.FormatExp
open Martian.FormatDecl (Param paramsStrsValid pInParams pOutParams)
open Martian.FormatRes (Res wfThreads wfMB joinSp pSrc sStage)

/-- the token texts `float_32` accepts for `threads`: one NUM_INT token of `int64` size or one
NUM_FLOAT token in the float32 range (what `readF32` returns on a token of the tokenizer) -/
def threadsTokOK (t : Bytes) : Bool :=
  (numTok false t == .int t && (parseInt t).isSome) || (isFloatTok t && (parseFloat true t).isSome)

/-- what is trusted about `h = fun t => Sprintf("%g", roundUpTo(float_32(t), 100))` on the token
texts `float_32` accepts:
(a) the printed form is a NUM_FLOAT token in the float32 range or a canonical integer numeral
    (`%g` of a float32: `ddd`, `ddd.ddd` or `d.ddde±XX`; `roundUpTo` maps the negative zero to 0);
(b) reading the printed form and printing again gives the same text — the idempotence of
    `roundUpTo` on its own output (fix 1a6dbe9; the harness checks it exhaustively on
    0.01 … 64.00, key C09:threads-hundredths). -/
structure HOK (h : Bytes → Bytes) : Prop where
  range : ∀ t, threadsTokOK t = true → wfThreads (h t) = true
  fixed : ∀ t, threadsTokOK t = true → h (h t) = h t

/-- `Resources` as Go holds it: the threads text canonicalised -/
def canonRes (h : Bytes → Bytes) (r : Res) : Res := { r with threads := r.threads.map h }

/-- `Stage` as Go holds it -/
def canonStage (h : Bytes → Bytes) (s : Stage) : Stage := { s with res := s.res.map (canonRes h) }

/-- the real parser on a file that is one stage declaration: the model reader, then the
canonicaliser of the threads value -/
def parseStageH (h : Bytes → Bytes) (src : Bytes) : Option Stage := (parseStage src).map (canonStage h)

/-- every string of the declaration that `unquote` produced is valid UTF-8: help texts and out
names of the four parameter lists, the `special` resource, and the command of the src line (as it
is printed: the fields joined by blanks).  Fails for F6b inputs. -/
def stageStrsValid (s : Stage) : Bool :=
  paramsStrsValid s.ins && paramsStrsValid s.outs && paramsStrsValid s.chunkIns &&
    paramsStrsValid s.chunkOuts && Martian.ShellQuote.validUtf8 (joinSp (s.path :: s.args)) &&
    (match s.res with
     | some r => (match r.special with | some x => Martian.ShellQuote.validUtf8 x | none => true)
     | none => true)

/-- a value of `int64` size in MB: the range of `formatGB` (F25) -/
def mbInt64 : Option Int → Bool
  | some mb => decide (mb.natAbs < 2 ^ 63)
  | none => true

/-- `mem_gb` and `vmem_gb` are below 2^53 GB (2^63 MB): beyond, `formatGB` overflows (F25).  NOT a
hypothesis of any round-trip theorem any more (the theorems need `stageMB32Valid`, F29's range, which
is where `wfStage` holds and where the exact reading of the model is the reading of the real parser;
`Proofs.FormatStageRange32.stageMBValid_of_32`: it is weaker); kept as the description of F25's range,
evaluated by the driver and the negative witnesses. -/
def stageMBValid (s : Stage) : Bool :=
  match s.res with
  | some r => mbInt64 r.mem && mbInt64 r.vmem
  | none => true

/-- the range of `resources` before canonicalisation and before the two exceptions: the threads
text is a token text `float_32` accepts -/
def resRaw (r : Res) : Bool :=
  match r.threads with
  | some t => threadsTokOK t
  | none => true

/-- the range of the stage reader on ANY source text (no exception): `wfStage` without the
validity of the strings, without the `int64` bound on `mem_gb`/`vmem_gb`, and with the threads
text as the tokenizer delivered it -/
def stageRaw (s : Stage) : Bool :=
  isIdent s.id &&
  s.ins.all Martian.FormatDecl.paramRaw && s.ins.all isIn &&
  s.outs.all Martian.FormatDecl.paramRaw && s.outs.all isOut &&
  s.chunkIns.all Martian.FormatDecl.paramRaw && s.chunkIns.all isIn &&
  s.chunkOuts.all Martian.FormatDecl.paramRaw && s.chunkOuts.all isOut &&
  (s.split || (s.chunkIns.isEmpty && s.chunkOuts.isEmpty)) &&
  Martian.FormatRes.wfField s.path && s.args.all Martian.FormatRes.wfField &&
  (match s.res with | some r => resRaw r | none => true) &&
  (match s.retain with | some ids => Martian.FormatRes.wfRetain ids | none => true)

/-- an instance of the canonicaliser: `0.50` ↦ `0.5`, `1e0` ↦ `1`, `007` ↦ `7` (what Go does on
these three); every other text that is already in printed form stays; anything else ↦ `1` (not what
Go does; the instance only shows that `HOK` is satisfiable and serves the examples) -/
def hSample (t : Bytes) : Bytes :=
  if t = [0x30, 0x2E, 0x35, 0x30] then [0x30, 0x2E, 0x35]
  else if t = [0x31, 0x65, 0x30] then [0x31]
  else if t = [0x30, 0x30, 0x37] then [0x37]
  else if wfThreads t then t else [0x31]

/-! ## the stage reader with the reader of `mem_gb` / `vmem_gb` a parameter -/

def pStageBodyR (rd : Tok → Option Int) (f : Nat) (name : Bytes) (ts : List Tok) : Option (Stage × List Tok) :=
  match pInParams f ts with
  | some (ins, r1) =>
    match pOutParams f r1 with
    | some (outs, r2) =>
      match pSrc r2 with
      | some ((lang, path, args), r3) =>
        match pSplit f r3 with
        | some ((sp, ci, co), r4) =>
          match Martian.FormatRes.pTailR rd r4 with
          | some ((res, ret), rest) =>
            some (⟨name, ins, outs, lang, path, args, sp, ci, co, res, ret⟩, rest)
          | none => none
        | none => none
      | none => none
    | none => none
  | none => none

def pStageR (rd : Tok → Option Int) (ts : List Tok) : Option (Stage × List Tok) :=
  match ts with
  | .reserved w :: .id name :: .punct c :: r =>
    if w = sStage ∧ c = 0x28 then pStageBodyR rd (ts.length + 1) name r else none
  | _ => none

def pStageAllR (rd : Tok → Option Int) (ts : List Tok) : Option Stage :=
  match pStageR rd ts with
  | some (s, []) => some s
  | _ => none

/-- a file that is one `stage` declaration, read as the REAL parser reads it: `mem_gb` / `vmem_gb`
through the float32 rounding of the literal (`readGB32Tok`) -/
def parseStage32 (src : Bytes) : Option Stage := (lexAll src).bind (pStageAllR Martian.FormatRes.readGB32Tok)

/-- … and with the threads value as Go holds it -/
def parseStage32H (h : Bytes → Bytes) (src : Bytes) : Option Stage := (parseStage32 src).map (canonStage h)

/-- `mem_gb` and `vmem_gb` are below 256 GB (262144 MB) in magnitude (`wfMB`): beyond, the float32
rounding of the printed literal can change the value (F29).  This is the resource conjunct of
`wfStage`, and the hypothesis of ALL text-side stage theorems (exact reader and float32 reader): the
domain where the model's exact reading equals the real parser's; F25 (`stageMBValid`) is subsumed. -/
def stageMB32Valid (s : Stage) : Bool :=
  match s.res with
  | some r => wfMB r.mem && wfMB r.vmem
  | none => true

end Martian.FormatStage
