import Martian.Regex

/-!
C08: the PRIORITY order of regex matches.  `ends r pre s` enumerates all ways the
regex can match a prefix of `s` (text before the end position, reversed; rest),
best first in Go's / Perl's leftmost-first order: the first alternative before
the second, more iterations of a greedy repetition before fewer.
(Proofs/RegexOrder.lean: the matcher returns the first element.)
-/
namespace Martian.Regex

abbrev Pos := Bytes × Bytes

def endsMin (step : Bytes → Bytes → List Pos) : Nat → Bytes → Bytes → List Pos
  | 0, pre, s => [(pre, s)]
  | n + 1, pre, s => (step pre s).flatMap fun x => endsMin step n x.1 x.2

def endsMax (step : Bytes → Bytes → List Pos) : Nat → Bytes → Bytes → List Pos
  | 0, pre, s => [(pre, s)]
  | n + 1, pre, s => ((step pre s).flatMap fun x => endsMax step n x.1 x.2) ++ [(pre, s)]

def endsStar (step : Bytes → Bytes → List Pos) : Nat → Bytes → Bytes → List Pos
  | 0, pre, s => [(pre, s)]
  | f + 1, pre, s =>
    (((step pre s).filter fun x => decide (x.2.length < s.length)).flatMap fun x => endsStar step f x.1 x.2)
      ++ [(pre, s)]

/-- all matches of a prefix of `s`, best first -/
def ends : Re → Bytes → Bytes → List Pos
  | .eps, pre, s => [(pre, s)]
  | .cls rs, pre, s =>
    match s with
    | c :: r => if c < 0x80 && inR rs c then [(c :: pre, r)] else []
    | [] => []
  | .ncls rs, pre, s =>
    match s with
    | c :: r =>
      if c < 0x80 then (if inR rs c then [] else [(c :: pre, r)])
      else [(((c :: r).take (runeLen (c :: r))).reverse ++ pre, (c :: r).drop (runeLen (c :: r)))]
    | [] => []
  | .cat a b, pre, s => (ends a pre s).flatMap fun x => ends b x.1 x.2
  | .alt a b, pre, s => ends a pre s ++ ends b pre s
  | .rep a mn mx, pre, s =>
    match mx with
    | none => (endsMin (ends a) mn pre s).flatMap fun x => endsStar (ends a) x.2.length x.1 x.2
    | some M =>
      if M < mn then []
      else (endsMin (ends a) mn pre s).flatMap fun x => endsMax (ends a) (M - mn) x.1 x.2
  | .bot, pre, s => if pre.isEmpty then [(pre, s)] else []
  | .wordb, pre, s => if wordBefore pre != wordAfter s then [(pre, s)] else []

end Martian.Regex
