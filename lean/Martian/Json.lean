/-
JSON trees as the martian type system sees them (shared by C17, C07, C16, C13).

Core Lean only (no Mathlib) so that the driver links natively.

Design notes
* Strings and object keys are byte lists (`Bytes`): Go strings are byte
  strings, `IsLegalUnixFilename` measures `len(name)` in bytes, and byte lists
  have kernel-friendly decidable equality (negative witnesses by `decide`).
* Numbers are kept *as written*: an integer-syntax literal (`int v`: no `.`,
  no exponent) or a float-syntax literal `flt mant exp` meaning
  `mant * 10^exp`.  "Is this float literal integral, and which integer is it"
  is decidable on this representation without floating point.  (Go goes
  through `float64`; the two agree whenever the literal is exactly
  representable – IEEE rounding of long numerals is outside the model.)
* Objects are association lists in source order, duplicates allowed.  Go
  decodes objects into `map[string]json.RawMessage`, so a duplicated key keeps
  its LAST value: `getKey` is last-wins, and `dedupLast` is what such a decode
  retains (`(k, v) ∈ dedupLast kvs ↔ getKey k kvs = some v`).  Everything the
  type system does with an object goes through one of the two.
-/
namespace Martian.Json

abbrev Bytes := List UInt8

/-- A JSON number literal as written. -/
inductive Num where
  /-- integer syntax: `-?digits` (value `v`) -/
  | int (v : Int)
  /-- float syntax (has a fraction and/or an exponent): value `mant * 10^exp` -/
  | flt (mant : Int) (exp : Int)
  deriving DecidableEq, Repr, Inhabited

/-- JSON values. -/
inductive J where
  | null
  | bool (b : Bool)
  | num (n : Num)
  | str (s : Bytes)
  | arr (xs : List J)
  | obj (kvs : List (Bytes × J))
  deriving Repr, Inhabited

namespace Num

def minInt64 : Int := -9223372036854775808
def maxInt64 : Int := 9223372036854775807

/-- fits Go's `int64` -/
def inInt64 (v : Int) : Bool := decide (minInt64 ≤ v) && decide (v ≤ maxInt64)

/-- The integer denoted by the literal, if its value is integral
(`1.0`, `1e2`, `-0.0`, `120e-1` are; `1.5`, `1e-1` are not). -/
def intValue? : Num → Option Int
  | .int v => some v
  | .flt m e =>
    if 0 ≤ e then some (m * (10 : Int) ^ e.toNat)
    else
      let d : Int := (10 : Int) ^ (-e).toNat
      if m % d = 0 then some (m / d) else none

end Num

/-- Member lookup the way Go's decoder into a `map` resolves duplicate keys:
the last occurrence wins. -/
def getKey (k : Bytes) : List (Bytes × J) → Option J
  | [] => none
  | (k', v) :: rest =>
    match getKey k rest with
    | some w => some w
    | none => if k' = k then some v else none

/-- keys of an object in source order -/
def keys (kvs : List (Bytes × J)) : List Bytes := kvs.map Prod.fst

/-- No key occurs twice (the domain on which the correspondence is run). -/
def NoDupKeys (kvs : List (Bytes × J)) : Prop := (keys kvs).Nodup

theorem getKey_mem {k : Bytes} {kvs : List (Bytes × J)} {v : J}
    (h : getKey k kvs = some v) : (k, v) ∈ kvs := by
  induction kvs with
  | nil => simp [getKey] at h
  | cons kv rest ih =>
    obtain ⟨k', v'⟩ := kv
    simp only [getKey] at h
    cases hr : getKey k rest with
    | some w =>
      rw [hr] at h
      cases h
      exact List.mem_cons_of_mem _ (ih hr)
    | none =>
      rw [hr] at h
      by_cases hk : k' = k
      · simp [hk] at h
        subst hk; subst h
        exact List.mem_cons_self
      · simp [hk] at h

theorem getKey_isSome_of_mem {k : Bytes} {kvs : List (Bytes × J)} {v : J}
    (h : (k, v) ∈ kvs) : (getKey k kvs).isSome = true := by
  induction kvs with
  | nil => cases h
  | cons kv rest ih =>
    obtain ⟨k', v'⟩ := kv
    simp only [getKey]
    cases hr : getKey k rest with
    | some w => rfl
    | none =>
      rcases List.mem_cons.mp h with h | h
      · cases h; simp
      · have := ih h
        rw [hr] at this
        cases this

/-! ### duplicate keys: last-wins normal form -/

theorem getKey_eq_none_iff {k : Bytes} {kvs : List (Bytes × J)} :
    getKey k kvs = none ↔ k ∉ kvs.map Prod.fst := by
  constructor
  · intro h hm
    obtain ⟨⟨k', v⟩, hkv, hk⟩ := List.mem_map.mp hm
    simp only at hk; subst hk
    have := getKey_isSome_of_mem hkv
    rw [h] at this; cases this
  · intro h
    cases hg : getKey k kvs with
    | none => rfl
    | some v => exact absurd (List.mem_map.mpr ⟨(k, v), getKey_mem hg, rfl⟩) h

/-- what Go's decoder into a `map` retains of an object: for every key its
LAST member (in the position of that last occurrence) -/
def dedupLast : List (Bytes × J) → List (Bytes × J)
  | [] => []
  | kv :: r => if kv.1 ∈ r.map Prod.fst then dedupLast r else kv :: dedupLast r

theorem mem_dedupLast_iff {k : Bytes} {v : J} : ∀ {kvs : List (Bytes × J)},
    (k, v) ∈ dedupLast kvs ↔ getKey k kvs = some v
  | [] => by simp [dedupLast, getKey]
  | (k', v') :: r => by
    have ih := @mem_dedupLast_iff k v r
    simp only [dedupLast, getKey]
    by_cases hc : k' ∈ r.map Prod.fst
    · rw [if_pos hc, ih]
      cases hg : getKey k r with
      | some w => rfl
      | none =>
        have hk : k ∉ r.map Prod.fst := getKey_eq_none_iff.mp hg
        have : k' ≠ k := by rintro rfl; exact hk hc
        simp [this]
    · have hk' : k' ∉ r.map Prod.fst := hc
      rw [if_neg hc]
      simp only [List.mem_cons, Prod.mk.injEq, ih]
      cases hg : getKey k r with
      | some w =>
        have hk : k ∈ r.map Prod.fst := List.mem_map.mpr ⟨(k, w), getKey_mem hg, rfl⟩
        have : k ≠ k' := by rintro rfl; exact hk' hk
        simp [this]
      | none =>
        by_cases h : k' = k
        · subst h; simp [eq_comm]
        · have h2 : ¬ k = k' := fun e => h e.symm
          simp [h, h2]

theorem mem_of_mem_dedupLast {kv : Bytes × J} {kvs : List (Bytes × J)}
    (h : kv ∈ dedupLast kvs) : kv ∈ kvs := by
  obtain ⟨k, v⟩ := kv
  exact getKey_mem (mem_dedupLast_iff.mp h)

theorem keys_dedupLast_nodup : ∀ (kvs : List (Bytes × J)), ((dedupLast kvs).map Prod.fst).Nodup
  | [] => by simp [dedupLast]
  | (k', v') :: r => by
    have ih := keys_dedupLast_nodup r
    simp only [dedupLast]
    by_cases hc : k' ∈ r.map Prod.fst
    · rw [if_pos hc]; exact ih
    · rw [if_neg hc, List.map_cons, List.nodup_cons]
      refine ⟨?_, ih⟩
      intro hm
      obtain ⟨⟨k, v⟩, hkv, hk⟩ := List.mem_map.mp hm
      simp only at hk; subst hk
      exact hc (List.mem_map.mpr ⟨(k, v), mem_of_mem_dedupLast hkv, rfl⟩)

theorem dedupLast_of_nodup : ∀ {kvs : List (Bytes × J)}, (kvs.map Prod.fst).Nodup → dedupLast kvs = kvs
  | [], _ => rfl
  | (k', v') :: r, h => by
    simp only [List.map_cons, List.nodup_cons] at h
    simp only [dedupLast]
    rw [if_neg h.1, dedupLast_of_nodup h.2]

/-- a map over the values that keeps the keys commutes with member lookup -/
theorem getKey_mapVal (g : J → J) (k : Bytes) : ∀ (kvs : List (Bytes × J)),
    getKey k (kvs.map fun kv => (kv.1, g kv.2)) = (getKey k kvs).map g
  | [] => rfl
  | (k', v') :: r => by
    simp only [List.map_cons, getKey, getKey_mapVal g k r]
    cases getKey k r with
    | some w => rfl
    | none => by_cases h : k' = k <;> simp [h]

theorem getKey_dedupLast (k : Bytes) (kvs : List (Bytes × J)) :
    getKey k (dedupLast kvs) = getKey k kvs := by
  cases hg : getKey k kvs with
  | some v =>
    have hm := mem_dedupLast_iff.mpr hg
    have := mem_dedupLast_iff (kvs := dedupLast kvs) (k := k) (v := v)
    rw [dedupLast_of_nodup (keys_dedupLast_nodup kvs)] at this
    exact this.mp hm
  | none =>
    rw [getKey_eq_none_iff] at hg ⊢
    intro hm
    obtain ⟨⟨k', v⟩, hkv, hk⟩ := List.mem_map.mp hm
    simp only at hk; subst hk
    exact hg (List.mem_map.mpr ⟨(k', v), mem_of_mem_dedupLast hkv, rfl⟩)

theorem keys_mapVal (g : Bytes × J → J) (kvs : List (Bytes × J)) :
    (kvs.map fun kv => (kv.1, g kv)).map Prod.fst = kvs.map Prod.fst := by
  simp [List.map_map, Function.comp_def]


/-! ## numerals the way Go reads them: `strconv.ParseFloat(·, 64)`

`BuiltinType.FilterJson` for `int` first tries `json.Unmarshal` into `int64`
(`strconv.ParseInt`: integer syntax, in range) and otherwise into `float64`
(`strconv.ParseFloat`: the decimal literal is rounded to the nearest binary64,
ties to even; `ErrRange` when the rounded value is beyond the largest finite
float), then `i := int64(tmp); float64(i) == tmp`.  `IsValidJson`/`FilterJson`
for `float` use the same `ParseFloat`.  Below the literal `± a·10^e` is kept
exact (`a`, `e` integers) and ONLY the rounding the code performs is modelled:
`round64` is the exact value of the float64 `ParseFloat` returns. -/
namespace Num

/-- the exact value `(-1)^neg · mant · 2^exp2` of a finite float64, or overflow
(`ParseFloat` returns ±Inf with `ErrRange`) -/
inductive F64 where
  | fin (neg : Bool) (mant : Nat) (exp2 : Int)
  | inf
  deriving DecidableEq, Repr, Inhabited

/-- `num/den` rounded to the nearest integer, ties to even -/
def roundHalfEven (num den : Nat) : Nat :=
  let q := num / den
  let r := num % den
  if 2 * r < den then q else if den < 2 * r then q + 1 else if q % 2 = 0 then q else q + 1

/-- `2^k ≤ N/D` -/
def geP2 (N D : Nat) (k : Int) : Bool :=
  if 0 ≤ k then decide (D * 2 ^ k.toNat ≤ N) else decide (D ≤ N * 2 ^ (-k).toNat)

/-- `N/D` (`N, D > 0`) rounded to the binary64 grid, exponent range unbounded
above: `(M, s)` with value `M·2^s`, where `s = max(⌊log₂(N/D)⌋ - 52, -1074)`
(52 fraction bits; -1074 = exponent of the smallest subnormal) and
`M = RNE(N / (D·2^s)) ≤ 2^53`. -/
def roundPos (N D : Nat) : Nat × Int :=
  let k1 : Int := (Nat.log2 N : Int) - (Nat.log2 D : Int)
  let k : Int := if geP2 N D k1 then k1 else k1 - 1
  let s : Int := if k - 52 < -1074 then -1074 else k - 52
  let M := if 0 ≤ s then roundHalfEven N (D * 2 ^ s.toNat)
           else roundHalfEven (N * 2 ^ (-s).toNat) D
  (M, s)

def numDigits (n : Nat) : Nat := (Nat.toDigits 10 n).length

/-- `strconv.ParseFloat` of the decimal literal `m·10^e`.  The two guards keep
absurd exponents from being exponentiated: beyond `10^401` every non-zero
literal overflows; below `10^-400` every literal rounds to zero (underflow is
no error). -/
def round64 (m e : Int) : F64 :=
  let a := m.natAbs
  let neg := decide (m < 0)
  if a = 0 then .fin neg 0 0
  else if 400 < e then .inf
  else if e < -(400 + (numDigits a : Int)) then .fin neg 0 0
  else
    let Ms := if 0 ≤ e then roundPos (a * 10 ^ e.toNat) 1 else roundPos a (10 ^ (-e).toNat)
    if 0 ≤ Ms.2 ∧ 2 ^ 1024 ≤ Ms.1 * 2 ^ Ms.2.toNat then .inf else .fin neg Ms.1 Ms.2

/-- the integer a finite float64 is, if it is one -/
def F64.int? : F64 → Option Int
  | .inf => none
  | .fin neg M s =>
    let v? : Option Nat :=
      if 0 ≤ s then some (M * 2 ^ s.toNat)
      else if M % 2 ^ (-s).toNat = 0 then some (M / 2 ^ (-s).toNat) else none
    v?.map fun v => if neg then -(v : Int) else (v : Int)

def toF64 : Num → F64
  | .int v => round64 v 0
  | .flt m e => round64 m e

/-- What `FilterJson` for `int` decides once `int64` parsing has failed:
`tmp := ParseFloat(lit)`, `i := int64(tmp)`, accepted iff `float64(i) == tmp`,
i.e. iff the ROUNDED value is an integer in `[-2^63, 2^63)` (on amd64 an
out-of-range conversion yields `-2^63`, whose float differs from `tmp` unless
`tmp = -2^63`); the result is that integer – which is the literal's value only
when the literal is exactly representable. -/
def goInt? (n : Num) : Option Int :=
  match n.toF64.int? with
  | some i => if minInt64 ≤ i ∧ i ≤ maxInt64 then some i else none
  | none => none

/-- `ParseFloat` does not report `ErrRange` (an `int64`-range integer literal
never does: `2^63 < 2^1024`) -/
def finite64 : Num → Bool
  | .int v => inInt64 v || (round64 v 0 != .inf)
  | .flt m e => round64 m e != .inf

/-- the literal's value is a binary64 number: rounding changes nothing.  Outside
this class – and only there – the code's decisions differ from exact decimal
arithmetic (`intValue?`). -/
def exact64 (n : Num) : Bool :=
  match n, n.toF64 with
  | _, .inf => false
  | .int v, .fin neg M s =>
    if 0 ≤ s then (if neg then -((M * 2 ^ s.toNat : Nat) : Int) else ((M * 2 ^ s.toNat : Nat) : Int)) == v
    else (if neg then -(M : Int) else (M : Int)) == v * 2 ^ (-s).toNat
  | .flt m e, .fin neg M s =>
    -- ± M·2^s = m·10^e, cross-multiplied to integers
    let lhs : Int := if neg then -(M : Int) else (M : Int)
    let (l2, r2) : Int × Int := if 0 ≤ s then (lhs * 2 ^ s.toNat, m) else (lhs, m * 2 ^ (-s).toNat)
    if 0 ≤ e then l2 == r2 * 10 ^ e.toNat else l2 * 10 ^ (-e).toNat == r2

theorem goInt?_inInt64 {n : Num} {i : Int} (h : n.goInt? = some i) : inInt64 i = true := by
  unfold goInt? at h
  split at h
  · split at h
    · rename_i hr
      injection h with h; subst h
      simp [inInt64, hr.1, hr.2]
    · cases h
  · cases h

end Num

end Martian.Json
