/-
JSON trees as the martian type system sees them (shared by C17, C07, C16, C13).

Core Lean only (no Mathlib) so that the driver links natively.

Design notes
* Strings and object keys are byte lists (`Bytes`): Go strings are byte
  strings, `IsLegalUnixFilename` measures `len(name)` in bytes, and byte lists
  have kernel-friendly decidable equality (negative witnesses by `decide`).
* Numbers are kept *as written*: an integer-syntax literal (`int v`: no `.`,
  no exponent) or a float-syntax literal `flt mant exp` meaning
  `mant * 10^exp`.  "Is this float literal integral, and which integer is it"
  is decidable on this representation without floating point.  (Go goes
  through `float64`; the two agree whenever the literal is exactly
  representable – IEEE rounding of long numerals is outside the model.)
* Objects are association lists in source order, duplicates allowed.  Go
  decodes objects into `map[string]json.RawMessage`, so a duplicated key keeps
  its LAST value: `getKey` is last-wins, and `dedupLast` is what such a decode
  retains (`(k, v) ∈ dedupLast kvs ↔ getKey k kvs = some v`).  Everything the
  type system does with an object goes through one of the two.
-/
namespace Martian.Json

abbrev Bytes := List UInt8

/-- A JSON number literal as written. -/
inductive Num where
  /-- integer syntax: `-?digits` (value `v`) -/
  | int (v : Int)
  /-- float syntax (has a fraction and/or an exponent): value `mant * 10^exp` -/
  | flt (mant : Int) (exp : Int)
  deriving DecidableEq, Repr, Inhabited

/-- JSON values. -/
inductive J where
  | null
  | bool (b : Bool)
  | num (n : Num)
  | str (s : Bytes)
  | arr (xs : List J)
  | obj (kvs : List (Bytes × J))
  deriving Repr, Inhabited

namespace Num

def minInt64 : Int := -9223372036854775808
def maxInt64 : Int := 9223372036854775807

/-- fits Go's `int64` -/
def inInt64 (v : Int) : Bool := decide (minInt64 ≤ v) && decide (v ≤ maxInt64)

/-- The integer denoted by the literal, if its value is integral
(`1.0`, `1e2`, `-0.0`, `120e-1` are; `1.5`, `1e-1` are not). -/
def intValue? : Num → Option Int
  | .int v => some v
  | .flt m e =>
    if 0 ≤ e then some (m * (10 : Int) ^ e.toNat)
    else
      let d : Int := (10 : Int) ^ (-e).toNat
      if m % d = 0 then some (m / d) else none

end Num

/-- Member lookup the way Go's decoder into a `map` resolves duplicate keys:
the last occurrence wins. -/
def getKey (k : Bytes) : List (Bytes × J) → Option J
  | [] => none
  | (k', v) :: rest =>
    match getKey k rest with
    | some w => some w
    | none => if k' = k then some v else none

/-- keys of an object in source order -/
def keys (kvs : List (Bytes × J)) : List Bytes := kvs.map Prod.fst

/-- No key occurs twice (the domain on which the correspondence is run). -/
def NoDupKeys (kvs : List (Bytes × J)) : Prop := (keys kvs).Nodup

theorem getKey_mem {k : Bytes} {kvs : List (Bytes × J)} {v : J}
    (h : getKey k kvs = some v) : (k, v) ∈ kvs := by
  induction kvs with
  | nil => simp [getKey] at h
  | cons kv rest ih =>
    obtain ⟨k', v'⟩ := kv
    simp only [getKey] at h
    cases hr : getKey k rest with
    | some w =>
      rw [hr] at h
      cases h
      exact List.mem_cons_of_mem _ (ih hr)
    | none =>
      rw [hr] at h
      by_cases hk : k' = k
      · simp [hk] at h
        subst hk; subst h
        exact List.mem_cons_self
      · simp [hk] at h

theorem getKey_isSome_of_mem {k : Bytes} {kvs : List (Bytes × J)} {v : J}
    (h : (k, v) ∈ kvs) : (getKey k kvs).isSome = true := by
  induction kvs with
  | nil => cases h
  | cons kv rest ih =>
    obtain ⟨k', v'⟩ := kv
    simp only [getKey]
    cases hr : getKey k rest with
    | some w => rfl
    | none =>
      rcases List.mem_cons.mp h with h | h
      · cases h; simp
      · have := ih h
        rw [hr] at this
        cases this

/-! ### duplicate keys: last-wins normal form -/

theorem getKey_eq_none_iff {k : Bytes} {kvs : List (Bytes × J)} :
    getKey k kvs = none ↔ k ∉ kvs.map Prod.fst := by
  constructor
  · intro h hm
    obtain ⟨⟨k', v⟩, hkv, hk⟩ := List.mem_map.mp hm
    simp only at hk; subst hk
    have := getKey_isSome_of_mem hkv
    rw [h] at this; cases this
  · intro h
    cases hg : getKey k kvs with
    | none => rfl
    | some v => exact absurd (List.mem_map.mpr ⟨(k, v), getKey_mem hg, rfl⟩) h

/-- what Go's decoder into a `map` retains of an object: for every key its
LAST member (in the position of that last occurrence) -/
def dedupLast : List (Bytes × J) → List (Bytes × J)
  | [] => []
  | kv :: r => if kv.1 ∈ r.map Prod.fst then dedupLast r else kv :: dedupLast r

theorem mem_dedupLast_iff {k : Bytes} {v : J} : ∀ {kvs : List (Bytes × J)},
    (k, v) ∈ dedupLast kvs ↔ getKey k kvs = some v
  | [] => by simp [dedupLast, getKey]
  | (k', v') :: r => by
    have ih := @mem_dedupLast_iff k v r
    simp only [dedupLast, getKey]
    by_cases hc : k' ∈ r.map Prod.fst
    · rw [if_pos hc, ih]
      cases hg : getKey k r with
      | some w => rfl
      | none =>
        have hk : k ∉ r.map Prod.fst := getKey_eq_none_iff.mp hg
        have : k' ≠ k := by rintro rfl; exact hk hc
        simp [this]
    · have hk' : k' ∉ r.map Prod.fst := hc
      rw [if_neg hc]
      simp only [List.mem_cons, Prod.mk.injEq, ih]
      cases hg : getKey k r with
      | some w =>
        have hk : k ∈ r.map Prod.fst := List.mem_map.mpr ⟨(k, w), getKey_mem hg, rfl⟩
        have : k ≠ k' := by rintro rfl; exact hk' hk
        simp [this]
      | none =>
        by_cases h : k' = k
        · subst h; simp [eq_comm]
        · have h2 : ¬ k = k' := fun e => h e.symm
          simp [h, h2]

theorem mem_of_mem_dedupLast {kv : Bytes × J} {kvs : List (Bytes × J)}
    (h : kv ∈ dedupLast kvs) : kv ∈ kvs := by
  obtain ⟨k, v⟩ := kv
  exact getKey_mem (mem_dedupLast_iff.mp h)

theorem keys_dedupLast_nodup : ∀ (kvs : List (Bytes × J)), ((dedupLast kvs).map Prod.fst).Nodup
  | [] => by simp [dedupLast]
  | (k', v') :: r => by
    have ih := keys_dedupLast_nodup r
    simp only [dedupLast]
    by_cases hc : k' ∈ r.map Prod.fst
    · rw [if_pos hc]; exact ih
    · rw [if_neg hc, List.map_cons, List.nodup_cons]
      refine ⟨?_, ih⟩
      intro hm
      obtain ⟨⟨k, v⟩, hkv, hk⟩ := List.mem_map.mp hm
      simp only at hk; subst hk
      exact hc (List.mem_map.mpr ⟨(k, v), mem_of_mem_dedupLast hkv, rfl⟩)

theorem dedupLast_of_nodup : ∀ {kvs : List (Bytes × J)}, (kvs.map Prod.fst).Nodup → dedupLast kvs = kvs
  | [], _ => rfl
  | (k', v') :: r, h => by
    simp only [List.map_cons, List.nodup_cons] at h
    simp only [dedupLast]
    rw [if_neg h.1, dedupLast_of_nodup h.2]

/-- a map over the values that keeps the keys commutes with member lookup -/
theorem getKey_mapVal (g : J → J) (k : Bytes) : ∀ (kvs : List (Bytes × J)),
    getKey k (kvs.map fun kv => (kv.1, g kv.2)) = (getKey k kvs).map g
  | [] => rfl
  | (k', v') :: r => by
    simp only [List.map_cons, getKey, getKey_mapVal g k r]
    cases getKey k r with
    | some w => rfl
    | none => by_cases h : k' = k <;> simp [h]

theorem getKey_dedupLast (k : Bytes) (kvs : List (Bytes × J)) :
    getKey k (dedupLast kvs) = getKey k kvs := by
  cases hg : getKey k kvs with
  | some v =>
    have hm := mem_dedupLast_iff.mpr hg
    have := mem_dedupLast_iff (kvs := dedupLast kvs) (k := k) (v := v)
    rw [dedupLast_of_nodup (keys_dedupLast_nodup kvs)] at this
    exact this.mp hm
  | none =>
    rw [getKey_eq_none_iff] at hg ⊢
    intro hm
    obtain ⟨⟨k', v⟩, hkv, hk⟩ := List.mem_map.mp hm
    simp only at hk; subst hk
    exact hg (List.mem_map.mpr ⟨(k', v), mem_of_mem_dedupLast hkv, rfl⟩)

theorem keys_mapVal (g : Bytes × J → J) (kvs : List (Bytes × J)) :
    (kvs.map fun kv => (kv.1, g kv)).map Prod.fst = kvs.map Prod.fst := by
  simp [List.map_map, Function.comp_def]

end Martian.Json
