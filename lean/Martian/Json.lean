/-
JSON trees as the martian type system sees them (shared by C17, C07, C16, C13).

Core Lean only (no Mathlib) so that the driver links natively.

Design notes
* Strings and object keys are byte lists (`Bytes`): Go strings are byte
  strings, `IsLegalUnixFilename` measures `len(name)` in bytes, and byte lists
  have kernel-friendly decidable equality (negative witnesses by `decide`).
* Numbers are kept *as written*: an integer-syntax literal (`int v`: no `.`,
  no exponent) or a float-syntax literal `flt mant exp` meaning
  `mant * 10^exp`.  "Is this float literal integral, and which integer is it"
  is decidable on this representation without floating point.  (Go goes
  through `float64`; the two agree whenever the literal is exactly
  representable – IEEE rounding of long numerals is outside the model.)
* Objects are association lists in source order.  Go decodes objects into
  `map[string]json.RawMessage`, so a duplicated key keeps its LAST value:
  `getKey` is last-wins.  Functions that iterate over all members of an
  object (typed maps) treat the list as is; the correspondence harness only
  generates objects without duplicate keys (`NoDupKeys`).
-/
namespace Martian.Json

abbrev Bytes := List UInt8

/-- A JSON number literal as written. -/
inductive Num where
  /-- integer syntax: `-?digits` (value `v`) -/
  | int (v : Int)
  /-- float syntax (has a fraction and/or an exponent): value `mant * 10^exp` -/
  | flt (mant : Int) (exp : Int)
  deriving DecidableEq, Repr, Inhabited

/-- JSON values. -/
inductive J where
  | null
  | bool (b : Bool)
  | num (n : Num)
  | str (s : Bytes)
  | arr (xs : List J)
  | obj (kvs : List (Bytes × J))
  deriving Repr, Inhabited

namespace Num

def minInt64 : Int := -9223372036854775808
def maxInt64 : Int := 9223372036854775807

/-- fits Go's `int64` -/
def inInt64 (v : Int) : Bool := decide (minInt64 ≤ v) && decide (v ≤ maxInt64)

/-- The integer denoted by the literal, if its value is integral
(`1.0`, `1e2`, `-0.0`, `120e-1` are; `1.5`, `1e-1` are not). -/
def intValue? : Num → Option Int
  | .int v => some v
  | .flt m e =>
    if 0 ≤ e then some (m * (10 : Int) ^ e.toNat)
    else
      let d : Int := (10 : Int) ^ (-e).toNat
      if m % d = 0 then some (m / d) else none

end Num

/-- Member lookup the way Go's decoder into a `map` resolves duplicate keys:
the last occurrence wins. -/
def getKey (k : Bytes) : List (Bytes × J) → Option J
  | [] => none
  | (k', v) :: rest =>
    match getKey k rest with
    | some w => some w
    | none => if k' = k then some v else none

/-- keys of an object in source order -/
def keys (kvs : List (Bytes × J)) : List Bytes := kvs.map Prod.fst

/-- No key occurs twice (the domain on which the correspondence is run). -/
def NoDupKeys (kvs : List (Bytes × J)) : Prop := (keys kvs).Nodup

theorem getKey_mem {k : Bytes} {kvs : List (Bytes × J)} {v : J}
    (h : getKey k kvs = some v) : (k, v) ∈ kvs := by
  induction kvs with
  | nil => simp [getKey] at h
  | cons kv rest ih =>
    obtain ⟨k', v'⟩ := kv
    simp only [getKey] at h
    cases hr : getKey k rest with
    | some w =>
      rw [hr] at h
      cases h
      exact List.mem_cons_of_mem _ (ih hr)
    | none =>
      rw [hr] at h
      by_cases hk : k' = k
      · simp [hk] at h
        subst hk; subst h
        exact List.mem_cons_self
      · simp [hk] at h

theorem getKey_isSome_of_mem {k : Bytes} {kvs : List (Bytes × J)} {v : J}
    (h : (k, v) ∈ kvs) : (getKey k kvs).isSome = true := by
  induction kvs with
  | nil => cases h
  | cons kv rest ih =>
    obtain ⟨k', v'⟩ := kv
    simp only [getKey]
    cases hr : getKey k rest with
    | some w => rfl
    | none =>
      rcases List.mem_cons.mp h with h | h
      · cases h; simp
      · have := ih h
        rw [hr] at this
        cases this

end Martian.Json
